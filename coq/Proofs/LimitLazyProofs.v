(* Proofs/LimitLazyProofs.v -- the pulled-child twin of the LIMIT node (Model/LimitLazy.v) against
   the list twin (Model/Limit.v, C08), and C03 for SELECT ... WHERE ... LIMIT s, n at full
   strength: the child is pulled lazily, a pair on which the filter or a field would fail beyond
   what the limit consumes is harmless in both modes. *)
From Coq Require Import List String ZArith Bool Arith Lia.
Import ListNotations.
From KV Require Import Base.Bytes Model.Ast Model.Value Model.Eval Model.EvalVec Model.ScanProj
                       Model.LimitLazy Proofs.EvalVecProofs Proofs.ScanProjProofs Proofs.BatchRowProofs.
From KV Require Model.Limit Proofs.LimitProofs.
Local Open Scope nat_scope.
Local Open Scope list_scope.

Notation lstate := Limit.lstate.
Notation LState := Limit.LState.
Notation skips := Limit.skips.
Notation current := Limit.current.
Notation nonempty := LimitProofs.nonempty.

(* ================================================================ batch mode: simulation *)
Section Sim.
Variable S A : Type.
Variable cbatch : S -> res (list A * S).
(* an exhausted child keeps returning the empty batch and no longer changes *)
Hypothesis Hex : forall s s1, cbatch s = Ok ([], s1) -> cbatch s1 = Ok ([], s1).

(* the non-empty batches pulled from state s, whether the empty batch was seen, the state after *)
Inductive pulled : S -> list (list A) -> bool -> S -> Prop :=
  | pulled_nil s : pulled s [] false s
  | pulled_cons s b s1 pb e s2 :
      cbatch s = Ok (b, s1) -> b <> [] -> pulled s1 pb e s2 -> pulled s (b :: pb) e s2
  | pulled_end s s1 : cbatch s = Ok ([], s1) -> pulled s [] true s1.

Lemma pulled_nonempty s pb e s' : pulled s pb e s' -> Forall nonempty pb.
Proof. induction 1; constructor; auto. Qed.

Lemma pulled_app s pb1 s1 pb2 e s2 :
  pulled s pb1 false s1 -> pulled s1 pb2 e s2 -> pulled s (pb1 ++ pb2) e s2.
Proof.
  intros H; remember false as f eqn:Ef; revert Ef; induction H; intros Ef H2; try discriminate.
  - exact H2.
  - cbn [app]. econstructor; eauto.
Qed.

Lemma pulled_exhausted s pb e s' :
  cbatch s = Ok ([], s) -> pulled s pb e s' -> pb = [] /\ s' = s.
Proof.
  intros Hs H. destruct H.
  - auto.
  - rewrite Hs in H. inversion H; subst. congruence.
  - rewrite Hs in H. inversion H; subst. auto.
Qed.

Lemma pulled_end_state s pb s' : pulled s pb true s' -> cbatch s' = Ok ([], s').
Proof.
  intros H; remember true as t eqn:Et; revert Et; induction H; intros Et; try discriminate; auto.
  eapply Hex; eauto.
Qed.

Lemma length_zero_nil (b : list A) : (List.length b =? 0) = true -> b = [].
Proof. destruct b; cbn; [reflexivity | discriminate]. Qed.
Lemma length_zero_ne (b : list A) : (List.length b =? 0) = false -> b <> [].
Proof. destruct b; cbn; [discriminate | congruence]. Qed.

Lemma sim_skip : forall fuel start sk s r sk' s',
  lskip_batch cbatch fuel start sk s = Ok (r, sk', s') ->
  exists pb e, pulled s pb e s' /\ (e = true -> r = None) /\
    forall tail, (e = true -> tail = []) ->
      Limit.skip_loop true start sk [] (pb ++ tail) = (r, sk', tail).
Proof.
  induction fuel as [|f IH]; intros start sk s r sk' s' H.
  - cbn [lskip_batch] in H. destruct (sk <? start) eqn:E; [discriminate|].
    inversion H; subst. exists [], false. split; [constructor|]. split; [discriminate|].
    intros tail _. cbn [app]. destruct tail; cbn [Limit.skip_loop]; rewrite E; reflexivity.
  - cbn [lskip_batch] in H. destruct (sk <? start) eqn:E.
    + apply bind_ok' in H. destruct H as ((b & s1) & Eb & H).
      destruct (List.length b =? 0) eqn:E0.
      * inversion H; subst. apply length_zero_nil in E0. subst b.
        exists [], true. split; [econstructor; eauto|]. split; [reflexivity|].
        intros tail Ht. rewrite (Ht eq_refl). cbn [app Limit.skip_loop]. rewrite E. reflexivity.
      * destruct (List.length b <=? start - sk) eqn:E1.
        -- destruct (IH _ _ _ _ _ _ H) as (pb & e & Hp & He & Hs).
           exists (b :: pb), e. split; [econstructor; eauto; now apply length_zero_ne|].
           split; [exact He|].
           intros tail Ht. cbn [app Limit.skip_loop]. rewrite E, E0, E1. now apply Hs.
        -- inversion H; subst. exists [b], false. split.
           { econstructor; eauto; [now apply length_zero_ne | constructor]. }
           split; [discriminate|].
           intros tail _. cbn [app Limit.skip_loop]. rewrite E, E0, E1. reflexivity.
    + inversion H; subst. exists [], false. split; [constructor|]. split; [discriminate|].
      intros tail _. cbn [app]. destruct tail; cbn [Limit.skip_loop]; rewrite E; reflexivity.
Qed.

Lemma sim_fill : forall fuel B count cur ret cnt s ret' cur' s',
  lfill cbatch fuel B count cur ret cnt s = Ok (ret', cur', s') ->
  exists pb e, pulled s pb e s' /\
    forall tail, (e = true -> tail = []) ->
      Limit.fill_loop B count cur ret cnt (pb ++ tail) = (ret', cur', tail).
Proof.
  induction fuel as [|f IH]; intros B count cur ret cnt s ret' cur' s' H; [discriminate|].
  cbn [lfill] in H. apply bind_ok' in H. destruct H as ((b & s1) & Eb & H).
  destruct (List.length b =? 0) eqn:E0.
  - inversion H; subst. apply length_zero_nil in E0. subst b.
    exists [], true. split; [econstructor; eauto|].
    intros tail Ht. rewrite (Ht eq_refl). reflexivity.
  - destruct (Limit.take_fill count cur b ret cnt) as [[[r1 c1] n1] fin] eqn:Etf.
    destruct fin.
    + inversion H; subst. exists [b], false. split.
      { econstructor; eauto; [now apply length_zero_ne | constructor]. }
      intros tail _. cbn [app Limit.fill_loop]. rewrite E0, Etf. reflexivity.
    + destruct (B <=? n1) eqn:EB.
      * inversion H; subst. exists [b], false. split.
        { econstructor; eauto; [now apply length_zero_ne | constructor]. }
        intros tail _. cbn [app Limit.fill_loop]. rewrite E0, Etf, EB. reflexivity.
      * destruct (IH _ _ _ _ _ _ _ _ _ H) as (pb & e & Hp & Hs).
        exists (b :: pb), e. split; [econstructor; eauto; now apply length_zero_ne|].
        intros tail Ht. cbn [app Limit.fill_loop]. rewrite E0, Etf, EB. now apply Hs.
Qed.

Lemma sim_batch B start count st s out st' s' :
  lbatch cbatch B start count st s = Ok (out, st', s') ->
  exists pb e, pulled s pb e s' /\
    forall tail, (e = true -> tail = []) ->
      Limit.batch true B start count st (pb ++ tail) = (out, st', tail).
Proof.
  unfold lbatch. intros H. apply bind_ok' in H. destruct H as (((r & sk) & s1) & Es & H).
  destruct (sim_skip _ _ _ _ _ _ _ Es) as (pb1 & e1 & Hp1 & He1 & Hs1).
  destruct r as [rows|].
  - assert (e1 = false) by (destruct e1; [specialize (He1 eq_refl); discriminate | reflexivity]).
    subst e1.
    destruct (Limit.take_left count (current st) rows [] 0) as [[ret cur] cnt] eqn:Etl.
    destruct (count <=? cur) eqn:Ec.
    + inversion H; subst. exists pb1, false. split; [exact Hp1|].
      intros tail Ht. unfold Limit.batch. rewrite (Hs1 tail Ht), Etl, Ec. reflexivity.
    + apply bind_ok' in H. destruct H as (((ret' & cur') & s2) & Ef & H). inversion H; subst.
      destruct (sim_fill _ _ _ _ _ _ _ _ _ _ Ef) as (pb2 & e2 & Hp2 & Hs2).
      exists (pb1 ++ pb2), e2. split; [eapply pulled_app; eauto|].
      intros tail Ht. unfold Limit.batch. rewrite <- app_assoc.
      rewrite (Hs1 (pb2 ++ tail) ltac:(discriminate)), Etl, Ec.
      rewrite (Hs2 tail Ht). reflexivity.
  - inversion H; subst. exists pb1, e1. split; [exact Hp1|].
    intros tail Ht. unfold Limit.batch. rewrite (Hs1 tail Ht). reflexivity.
Qed.

Lemma sim_drain : forall fuel B start count st s outs,
  ldrain_batch_fuel cbatch fuel B start count st s = Ok outs ->
  exists pb e s', pulled s pb e s' /\
    forall tail, (e = true -> tail = []) ->
      Limit.drain_batch_fuel true fuel B start count st (pb ++ tail) = Some outs.
Proof.
  induction fuel as [|f IH]; intros B start count st s outs H; [discriminate|].
  cbn [ldrain_batch_fuel] in H. apply bind_ok' in H. destruct H as (((out & st1) & s1) & Eb & H).
  destruct (sim_batch _ _ _ _ _ _ _ _ Eb) as (pb1 & e1 & Hp1 & Hs1).
  destruct out as [|r0 out].
  - inversion H; subst outs. exists pb1, e1, s1. split; [exact Hp1|].
    intros tail Ht. cbn [Limit.drain_batch_fuel]. rewrite (Hs1 tail Ht). reflexivity.
  - apply bind_ok' in H. destruct H as (outs' & Eo & H). inversion H; subst outs.
    destruct (IH _ _ _ _ _ _ Eo) as (pb2 & e2 & s2 & Hp2 & Hs2).
    destruct e1.
    + (* the child is exhausted: the later calls pull nothing but the empty batch *)
      pose proof (pulled_end_state _ _ _ Hp1) as Hx.
      destruct (pulled_exhausted _ _ _ _ Hx Hp2) as (-> & ->).
      exists pb1, true, s1. split; [exact Hp1|].
      intros tail Ht. rewrite (Ht eq_refl). cbn [Limit.drain_batch_fuel].
      rewrite (Hs1 [] (fun _ => eq_refl)).
      specialize (Hs2 [] (fun _ => eq_refl)). cbn [app] in Hs2. rewrite Hs2. reflexivity.
    + exists (pb1 ++ pb2), e2, s2. split; [eapply pulled_app; eauto|].
      intros tail Ht. cbn [Limit.drain_batch_fuel]. rewrite <- app_assoc.
      rewrite (Hs1 (pb2 ++ tail) ltac:(discriminate)). rewrite (Hs2 tail Ht). reflexivity.
Qed.

End Sim.

(* the list drain with more fuel gives the same result *)
Lemma drain_batch_fuel_mono {A} : forall f f' B start count st (bs : list (list A)) outs,
  f <= f' -> Limit.drain_batch_fuel true f B start count st bs = Some outs ->
  Limit.drain_batch_fuel true f' B start count st bs = Some outs.
Proof.
  induction f as [|f IH]; intros f' B start count st bs outs Hle H; [discriminate|].
  destruct f' as [|f']; [lia|]. cbn [Limit.drain_batch_fuel] in *.
  destruct (Limit.batch true B start count st bs) as [[out st'] bs'].
  destruct out as [|r out]; [exact H|].
  destruct (Limit.drain_batch_fuel true f B start count st' bs') as [outs'|] eqn:E; [|discriminate].
  rewrite (IH f' _ _ _ _ _ _ ltac:(lia) E). exact H.
Qed.

(* ---------------------------------------------------------------- what a completed lazy drain says *)
Section Stop.
Variable S A : Type.
Variable cbatch : S -> res (list A * S).
Hypothesis Hex : forall s s1, cbatch s = Ok ([], s1) -> cbatch s1 = Ok ([], s1).
Variable x0 : A.

Lemma remaining_init start count (bs : list (list A)) :
  LimitProofs.remaining start count Limit.linit bs = firstn count (skipn start (List.concat bs)).
Proof. unfold LimitProofs.remaining, Limit.linit. cbn [skips current]. now rewrite !Nat.sub_0_r. Qed.

Lemma list_drain_slice fuel B start count (bs : list (list A)) outs :
  Forall nonempty bs ->
  Limit.drain_batch_fuel true fuel B start count Limit.linit bs = Some outs ->
  List.concat outs = firstn count (skipn start (List.concat bs)).
Proof.
  intros Hne H.
  set (f' := Nat.max fuel (Datatypes.S (List.length bs))).
  pose proof (drain_batch_fuel_mono fuel f' B start count Limit.linit bs outs ltac:(lia) H) as H'.
  destruct (@LimitProofs.drain_batch_fuel_spec A f' B start count Limit.linit bs Hne)
    as (outs' & E1 & E2 & _); [cbn; lia | lia |].
  rewrite H' in E1. inversion E1; subst outs'. rewrite E2. apply remaining_init.
Qed.

(* count >= 1 *)
Lemma drain_stop_pos fuel B start count s outs :
  1 <= count ->
  ldrain_batch_fuel cbatch fuel B start count Limit.linit s = Ok outs ->
  exists pb e s', pulled S A cbatch s pb e s' /\
    List.concat outs = firstn count (skipn start (List.concat pb)) /\
    (e = true \/ start + count <= List.length (List.concat pb)).
Proof.
  intros Hc H. destruct (sim_drain S A cbatch Hex _ _ _ _ _ _ _ H) as (pb & e & s' & Hp & Hs).
  pose proof (pulled_nonempty _ _ _ _ _ _ _ Hp) as Hne.
  pose proof (Hs [] (fun _ => eq_refl)) as H0. rewrite app_nil_r in H0.
  pose proof (list_drain_slice _ _ _ _ _ _ Hne H0) as E0.
  exists pb, e, s'. repeat split; auto.
  destruct e; [now left | right].
  set (R := repeat x0 (start + count + 1)).
  assert (HR : R <> []) by (unfold R; rewrite Nat.add_1_r; discriminate).
  pose proof (Hs [R] ltac:(discriminate)) as H1.
  assert (Hne1 : Forall nonempty (pb ++ [R])).
  { apply Forall_app. split; [exact Hne | constructor; [exact HR | constructor]]. }
  pose proof (list_drain_slice _ _ _ _ _ _ Hne1 H1) as E1.
  rewrite List.concat_app in E1. cbn [List.concat] in E1. rewrite app_nil_r in E1.
  rewrite E0 in E1.
  assert (L1 : List.length (firstn count (skipn start (List.concat pb ++ R))) = count).
  { rewrite firstn_length, skipn_length, app_length. unfold R. rewrite repeat_length. lia. }
  rewrite <- E1 in L1. rewrite firstn_length, skipn_length in L1. lia.
Qed.

(* count = 0: the single Batch call only skips *)
Lemma drain_stop_zero fuel B start s outs :
  ldrain_batch_fuel cbatch fuel B start 0 Limit.linit s = Ok outs ->
  outs = [] /\
  exists pb e s', pulled S A cbatch s pb e s' /\ (e = true \/ start <= List.length (List.concat pb)).
Proof.
  destruct fuel as [|f]; [discriminate|]. cbn [ldrain_batch_fuel]. intros H.
  apply bind_ok' in H. destruct H as (((out & st1) & s1) & Eb & H).
  destruct (sim_batch S A cbatch _ _ _ _ _ _ _ _ Eb) as (pb & e & Hp & Hs).
  pose proof (pulled_nonempty _ _ _ _ _ _ _ Hp) as Hne.
  (* with count = 0 the list step returns no row *)
  assert (Hout : out = []).
  { specialize (Hs [] (fun _ => eq_refl)). rewrite app_nil_r in Hs.
    unfold Limit.batch in Hs.
    destruct (Limit.skip_loop true start (skips Limit.linit) [] pb) as [[r sk] bs1].
    destruct r as [rows|].
    - rewrite LimitProofs.take_left_spec in Hs. cbn [current Limit.linit Nat.sub firstn app Nat.min Nat.add Nat.leb] in Hs.
      inversion Hs. reflexivity.
    - inversion Hs. reflexivity. }
  subst out. inversion H; subst outs. split; [reflexivity|].
  exists pb, e, s1. split; [exact Hp|].
  destruct e; [now left | right].
  set (R := repeat x0 (start + 1)).
  assert (HR : R <> []) by (unfold R; rewrite Nat.add_1_r; discriminate).
  specialize (Hs [R] ltac:(discriminate)).
  assert (Hne1 : Forall nonempty (pb ++ [R])).
  { apply Forall_app. split; [exact Hne | constructor; [exact HR | constructor]]. }
  unfold Limit.batch in Hs. cbn [skips Limit.linit] in Hs.
  pose proof (@LimitProofs.skip_loop_spec A (pb ++ [R]) start 0 Hne1 ltac:(lia)) as HS.
  destruct (Limit.skip_loop true start 0 [] (pb ++ [R])) as [[r sk] bs1].
  destruct r as [rows|].
  - destruct HS as (H1 & H2 & _).
    rewrite LimitProofs.take_left_spec in Hs. cbn [current Limit.linit Nat.sub firstn app Nat.min Nat.add Nat.leb] in Hs.
    inversion Hs; subst bs1.
    rewrite List.concat_app in H1. cbn [List.concat] in H1. rewrite app_nil_r, Nat.sub_0_r in H1.
    apply (f_equal (@List.length A)) in H1.
    rewrite app_length, skipn_length, app_length in H1. unfold R in H1. rewrite repeat_length in H1. lia.
  - destruct HS as (_ & H2 & _). inversion Hs; subst. discriminate.
Qed.

End Stop.

(* ================================================================ the child: projection over a scan *)
Section Child.
Variable P R : Type.
Variable frow : P -> res bool.
Variable fbatch : list P -> res (list bool).
Variable prow : P -> res R.
Variable pbatch : list P -> res (list R).
Variable req : R -> R -> Prop.
Hypothesis Hf : forall c bs, fbatch c = Ok bs -> Forall2 (fun kv b => frow kv = Ok b) c bs.
Hypothesis Hp : forall c rs, pbatch c = Ok rs ->
                             Forall2 (fun kv r => exists r', prow kv = Ok r' /\ req r' r) c rs.
Variable B : nat.
Hypothesis HB : 1 <= B.

Notation cbatch := (proj_batch fbatch pbatch B).
Notation cnext := (proj_next frow prow).
Notation row_list := (row_list P R frow prow).
Notation filter_list := (filter_list P frow).

(* one Batch call of the child *)
Lemma proj_batch_step rest b rest' :
  cbatch rest = Ok (b, rest') ->
  exists consumed rows',
    rest = consumed ++ rest' /\ row_list (somes consumed) = Ok rows' /\ Forall2 req rows' b /\
    (b = [] -> rest' = []).
Proof.
  unfold proj_batch. intros H. apply bind_ok' in H. destruct H as ((kvs & rest2) & Esb & H).
  destruct (scan_batch_ok P frow fbatch Hf _ _ _ _ HB Esb) as (consumed & E1 & E2 & E3).
  destruct kvs as [|kv kvs].
  - inversion H; subst b rest'. exists consumed, []. repeat split; auto; try constructor.
    rewrite <- (app_nil_r (somes consumed)).
    rewrite (row_list_app P R frow prow _ [] [] [] E2 eq_refl). reflexivity.
  - apply bind_ok' in H. destruct H as (rows & Erows & H). inversion H; subst b rest'.
    destruct (pbatch_rows P R prow pbatch req Hp _ _ Erows) as (rows' & Em & F).
    exists consumed, rows'. repeat split; auto.
    + rewrite <- (app_nil_r (somes consumed)).
      rewrite (row_list_app P R frow prow _ [] _ _ E2 Em). cbn. now rewrite app_nil_r.
    + intros ->. inversion F; subst. cbn [map_res] in Em.
      apply bind_ok' in Em. destruct Em as (? & ? & Em).
      apply bind_ok' in Em. destruct Em as (? & ? & Em). discriminate Em.
Qed.

Lemma scan_batch_nil : scan_batch fbatch B [] = Ok ([], []).
Proof.
  unfold scan_batch. cbn [List.length scan_batch_loop firstn somes]. rewrite firstn_nil. cbn [somes].
  assert (E : Nat.ltb 0 B = true) by (apply Nat.ltb_lt; lia). cbn [List.length]. rewrite E.
  now rewrite skipn_nil.
Qed.

Lemma child_exhausted : forall s s1, cbatch s = Ok ([], s1) -> cbatch s1 = Ok ([], s1).
Proof.
  intros s s1 H. destruct (proj_batch_step _ _ _ H) as (_ & _ & _ & _ & _ & E). rewrite (E eq_refl).
  unfold proj_batch. rewrite scan_batch_nil. reflexivity.
Qed.

Lemma row_list_app2 a b rows1 rows2 :
  row_list a = Ok rows1 -> row_list b = Ok rows2 -> row_list (a ++ b) = Ok (rows1 ++ rows2).
Proof.
  revert rows1; induction a as [|kv a IH]; intros rows1 H1 H2; cbn [app Proofs.ScanProjProofs.row_list] in *.
  - inversion H1; subst. exact H2.
  - destruct (frow kv) as [ok| | |]; cbn [bind] in *; try discriminate.
    destruct ok.
    + destruct (prow kv) as [row| | |]; cbn [bind] in *; try discriminate.
      apply bind_ok' in H1. destruct H1 as (out & Eo & H1). inversion H1; subst rows1.
      rewrite (IH _ Eo H2). reflexivity.
    + now apply IH.
Qed.

(* everything pulled from the child, batch by batch, is the row-mode result of what was consumed *)
Lemma pulled_rows rest pb e rest' :
  pulled _ _ cbatch rest pb e rest' ->
  exists consumed rows_c,
    rest = consumed ++ rest' /\ row_list (somes consumed) = Ok rows_c /\
    Forall2 req rows_c (List.concat pb) /\ (e = true -> rest' = []).
Proof.
  induction 1 as [s | s b s1 pb e s2 Hb Hne Hpl IH | s s1 Hb].
  - exists [], []. repeat split; try constructor. discriminate.
  - destruct (proj_batch_step _ _ _ Hb) as (c1 & rows1 & E1 & R1 & F1 & _).
    destruct IH as (c2 & rows2 & E2 & R2 & F2 & He).
    exists (c1 ++ c2), (rows1 ++ rows2). repeat split; auto.
    + rewrite E1, E2. now rewrite app_assoc.
    + rewrite somes_app. now apply row_list_app2.
    + cbn [List.concat]. now apply Forall2_app.
  - destruct (proj_batch_step _ _ _ Hb) as (c1 & rows1 & E1 & R1 & F1 & En).
    exists c1, rows1. repeat split; auto.
Qed.

End Child.

(* ================================================================ row mode: what LIMIT pulls *)
Section RowSide.
Variable P R : Type.
Variable frow : P -> res bool.
Variable prow : P -> res R.
Notation cnext := (proj_next frow prow).
Notation row_list := (row_list P R frow prow).

(* pull up to n rows from the filtered stream: the rows, whether the stream ended first, the rest *)
Fixpoint take_split (l : list P) (n : nat) : res (list R * bool * list P) :=
  match n with
  | 0 => Ok ([], false, l)
  | Datatypes.S n' =>
      match l with
      | [] => Ok ([], true, [])
      | kv :: l' =>
          do ok <- frow kv;
          if ok then
            (do row <- prow kv;
             do x <- take_split l' n';
             match x with (rows, e, l2) => Ok (row :: rows, e, l2) end)
          else take_split l' n
      end
  end.

Lemma take_split_length : forall l n rows e l', take_split l n = Ok (rows, e, l') -> List.length rows <= n.
Proof.
  induction l as [|kv l IH]; intros [|n] rows e l' H; cbn [take_split] in H;
    try (inversion H; subst; cbn; lia).
  destruct (frow kv) as [ok| | |]; cbn [bind] in H; try discriminate. destruct ok.
  - destruct (prow kv); cbn [bind] in H; try discriminate.
    apply bind_ok' in H. destruct H as (((r1 & e1) & l1) & E & H). inversion H; subst.
    apply IH in E. cbn. lia.
  - apply IH in H. lia.
Qed.

(* one Next call of the child *)
Lemma take_split_next : forall rest n rows e l',
  take_split (somes rest) (Datatypes.S n) = Ok (rows, e, l') ->
  (rows = [] /\ e = true /\ exists rest', cnext rest = Ok (None, rest')) \/
  (exists row rows' rest', rows = row :: rows' /\ cnext rest = Ok (Some row, rest') /\
                           take_split (somes rest') n = Ok (rows', e, l')).
Proof.
  induction rest as [|[kv|] rest IH]; intros n rows e l' H.
  - cbn in H. inversion H; subst. left. repeat split. exists []. reflexivity.
  - cbn [somes take_split] in H. unfold proj_next. cbn [scan_next].
    destruct (frow kv) as [ok| | |]; cbn [bind] in *; try discriminate. destruct ok.
    + destruct (prow kv) as [row| | |] eqn:Ep; cbn [bind] in *; try discriminate.
      apply bind_ok' in H. destruct H as (((r1 & e1) & l1) & E & H). inversion H; subst.
      right. exists row, r1, rest. repeat split; auto. rewrite Ep. reflexivity.
    + exact (IH _ _ _ _ H).
  - cbn [somes] in H. unfold proj_next. cbn [scan_next]. exact (IH _ _ _ _ H).
Qed.

(* the skip loop of Next *)
Lemma take_split_lskip : forall n rest rows e l',
  take_split (somes rest) n = Ok (rows, e, l') ->
  exists rest', lskip cnext n rest = Ok (List.length rows, e, rest') /\ (e = false -> somes rest' = l').
Proof.
  induction n as [|n IH]; intros rest rows e l' H.
  - exists rest. cbn [lskip]. destruct (somes rest) eqn:Es0; cbn in H; inversion H; subst; split; auto.
  - destruct (take_split_next _ _ _ _ _ H) as [(-> & -> & rest' & En)|(row & rows' & rest' & -> & En & Et)].
    + exists rest'. cbn [lskip]. rewrite En. cbn [bind]. split; [reflexivity | discriminate].
    + destruct (IH _ _ _ _ Et) as (rest2 & Es & Hs).
      exists rest2. cbn [lskip]. rewrite En. cbn [bind]. rewrite Es. cbn [bind List.length]. split; auto.
Qed.

Lemma take_split_add : forall l n m rows e l',
  take_split l (n + m) = Ok (rows, e, l') ->
  exists r1 e1 l1, take_split l n = Ok (r1, e1, l1) /\
    (e1 = true -> rows = r1 /\ e = true) /\
    (e1 = false -> List.length r1 = n /\ exists r2, take_split l1 m = Ok (r2, e, l') /\ rows = r1 ++ r2).
Proof.
  induction l as [|kv l IH]; intros n m rows e l' H.
  - destruct n as [|n].
    + exists [], false, []. cbn [take_split]. split; [reflexivity|]. split; [discriminate|].
      intros _. split; [reflexivity|]. exists rows. auto.
    + cbn in H. inversion H; subst. exists [], true, []. cbn. split; [reflexivity|]. split; [auto | discriminate].
  - destruct n as [|n].
    + exists [], false, (kv :: l). cbn [take_split]. split; [reflexivity|]. split; [discriminate|].
      intros _. split; [reflexivity|]. exists rows. auto.
    + cbn [Nat.add take_split] in H. cbn [take_split].
      destruct (frow kv) as [ok| | |]; cbn [bind] in *; try discriminate. destruct ok.
      * destruct (prow kv) as [row| | |]; cbn [bind] in *; try discriminate.
        apply bind_ok' in H. destruct H as (((r & e0) & l0) & E & H). inversion H; subst.
        destruct (IH _ _ _ _ _ E) as (r1 & e1 & l1 & E1 & T & F).
        rewrite E1. cbn [bind]. exists (row :: r1), e1, l1. split; [reflexivity|]. split.
        -- intros Ht. destruct (T Ht) as (-> & ->). auto.
        -- intros Hf. destruct (F Hf) as (L & r2 & E2 & ->). split; [cbn; lia|]. exists r2. auto.
      * change (Datatypes.S (n + m)) with (Datatypes.S n + m) in H. exact (IH _ _ _ _ _ H).
Qed.

Lemma skipn_length_app {X} (a b : list X) n : List.length a = n -> skipn n (a ++ b) = b.
Proof. intros <-. rewrite skipn_app, skipn_all, Nat.sub_diag. reflexivity. Qed.

(* the row drain of the LIMIT node pulls start + count rows, or up to the end of the stream *)
Lemma ldrain_row_ok : forall fuel start count st rest rows e l',
  skips st <= start ->
  take_split (somes rest) ((start - skips st) + (count - current st)) = Ok (rows, e, l') ->
  count - current st < fuel ->
  ldrain_row_fuel cnext fuel start count st rest = Ok (skipn (start - skips st) rows).
Proof.
  induction fuel as [|f IH]; intros start count st rest rows e l' Hsk H Hf; [lia|].
  cbn [ldrain_row_fuel]. unfold lnext.
  destruct (take_split_add _ _ _ _ _ _ H) as (r1 & e1 & l1 & E1 & T & F).
  destruct (take_split_lskip _ _ _ _ _ E1) as (rest1 & Es & Hs).
  rewrite Es. cbn [bind].
  pose proof (take_split_length _ _ _ _ _ E1) as L1.
  destruct e1.
  - destruct (T eq_refl) as (-> & ->). cbn [bind]. rewrite skipn_all2 by lia. reflexivity.
  - destruct (F eq_refl) as (Ln & r2 & E2 & ->). rewrite (skipn_length_app _ _ _ Ln).
    destruct (count <=? current st) eqn:Ec.
    + apply Nat.leb_le in Ec. replace (count - current st) with 0 in E2 by lia.
      destruct l1; cbn in E2; inversion E2; subst; reflexivity.
    + apply Nat.leb_gt in Ec. replace (count - current st) with (Datatypes.S (count - Datatypes.S (current st))) in E2 by lia.
      rewrite <- (Hs eq_refl) in E2.
      destruct (take_split_next _ _ _ _ _ E2) as [(-> & -> & rest' & En)|(row & rows' & rest' & -> & En & Et)].
      * rewrite En. cbn [bind]. reflexivity.
      * rewrite En. cbn [bind].
        rewrite (IH start count (LState (skips (LState (skips st + List.length r1) (current st))) (Datatypes.S (current st)))
                    rest' rows' e l').
        -- cbn [skips]. replace (start - (skips st + List.length r1)) with 0 by lia. reflexivity.
        -- cbn [skips]. lia.
        -- cbn [skips current]. replace (start - (skips st + List.length r1)) with 0 by lia. exact Et.
        -- cbn [current]. lia.
Qed.

(* the two facts the batch side provides about the stream, turned into take_split *)
Lemma take_split_prefix : forall l l2 rows k,
  row_list l = Ok rows -> k <= List.length rows ->
  exists l', take_split (l ++ l2) k = Ok (firstn k rows, false, l').
Proof.
  induction l as [|kv l IH]; intros l2 rows k H Hk; cbn [Proofs.ScanProjProofs.row_list] in H.
  - inversion H; subst rows. cbn in Hk. assert (k = 0) by lia. subst k.
    exists l2. destruct l2; reflexivity.
  - destruct k as [|k]; [exists ((kv :: l) ++ l2); reflexivity|].
    cbn [app take_split].
    destruct (frow kv) as [ok| | |]; cbn [bind] in *; try discriminate. destruct ok.
    + destruct (prow kv) as [row| | |]; cbn [bind] in *; try discriminate.
      apply bind_ok' in H. destruct H as (out & Eo & H). inversion H; subst rows. cbn [List.length] in Hk.
      destruct (IH l2 out k Eo ltac:(lia)) as (l' & E). rewrite E. cbn [bind firstn]. eauto.
    + exact (IH l2 rows (Datatypes.S k) H Hk).
Qed.

Lemma take_split_all : forall l rows k,
  row_list l = Ok rows -> List.length rows < k -> take_split l k = Ok (rows, true, []).
Proof.
  induction l as [|kv l IH]; intros rows k H Hk; cbn [Proofs.ScanProjProofs.row_list] in H.
  - inversion H; subst rows. destruct k; [cbn in Hk; lia | reflexivity].
  - destruct k as [|k]; [lia|]. cbn [take_split].
    destruct (frow kv) as [ok| | |]; cbn [bind] in *; try discriminate. destruct ok.
    + destruct (prow kv) as [row| | |]; cbn [bind] in *; try discriminate.
      apply bind_ok' in H. destruct H as (out & Eo & H). inversion H; subst rows. cbn [List.length] in Hk.
      rewrite (IH out k Eo ltac:(lia)). reflexivity.
    + exact (IH rows (Datatypes.S k) H Hk).
Qed.

Lemma firstn_skipn_swap {X} (l : list X) s c : skipn s (firstn (s + c) l) = firstn c (skipn s l).
Proof.
  revert l; induction s as [|s IH]; intros l; [reflexivity|].
  destruct l as [|x l]; cbn [Nat.add firstn skipn]; [now rewrite firstn_nil | apply IH].
Qed.

(* row mode over a stream whose consumed prefix evaluates to rows_c, and which is either exhausted
   after that prefix or holds start + count rows inside it *)
Lemma ldrain_row_of_prefix start count consumed rest' rows_c :
  row_list (somes consumed) = Ok rows_c ->
  (rest' = [] \/ start + count <= List.length rows_c) ->
  ldrain_row cnext start count (consumed ++ rest') = Ok (firstn count (skipn start rows_c)).
Proof.
  intros Hr Hd. unfold ldrain_row.
  destruct (Nat.le_gt_cases (start + count) (List.length rows_c)) as [Hle|Hgt].
  - destruct (take_split_prefix _ (somes rest') _ _ Hr Hle) as (l' & E).
    rewrite <- somes_app in E.
    rewrite (ldrain_row_ok (Datatypes.S count) start count Limit.linit (consumed ++ rest')
               (firstn (start + count) rows_c) false l'); cbn [skips current Limit.linit]; try lia.
    + rewrite Nat.sub_0_r. now rewrite firstn_skipn_swap.
    + rewrite !Nat.sub_0_r. exact E.
  - destruct Hd as [->|Hd]; [|lia]. rewrite app_nil_r.
    pose proof (take_split_all _ _ _ Hr Hgt) as E.
    rewrite (ldrain_row_ok (Datatypes.S count) start count Limit.linit consumed rows_c true []);
      cbn [skips current Limit.linit]; try lia.
    + rewrite Nat.sub_0_r. rewrite <- firstn_skipn_swap. now rewrite firstn_all2 by lia.
    + rewrite !Nat.sub_0_r. exact E.
Qed.

End RowSide.

(* ================================================================ C03 for SELECT ... LIMIT s, n *)
Section SelectLimit.
Variable fo : fops.
Variable re_match : bytes -> bytes -> res bool.
Notation value := (value fo).

Lemma Forall2_len' {X Y} (Q : X -> Y -> Prop) l1 l2 : Forall2 Q l1 l2 -> List.length l1 = List.length l2.
Proof. induction 1; cbn; congruence. Qed.

(* every statement SELECT <fields | *> WHERE <wh> LIMIT start, count (FinalLimitPlan over
   ProjectionPlan over any scan), every stream, every B >= 1, the child pulled lazily: if batch
   iteration completes without error, row-at-a-time iteration completes without error with the
   same rows in the same order *)
Theorem select_limit_batch_row_agree B start count wh fields slots louts :
  1 <= B -> fields_ok fields ->
  select_limit_batch fo re_match B start count wh fields slots = Ok louts ->
  exists lrows, select_limit_row fo re_match start count wh fields slots = Ok lrows /\
                Forall2 (same_content fo) lrows (List.concat louts).
Proof.
  intros HB Hok H. unfold select_limit_batch, select_limit_row in *.
  set (frow := sel_frow fo re_match wh) in *.
  set (fbatch := filter_batch fo re_match true wh) in *.
  set (prow := sel_prow fo re_match fields) in *.
  set (pbatch := sel_pbatch fo re_match fields) in *.
  assert (Hf : forall c bs, fbatch c = Ok bs -> Forall2 (fun kv b => frow kv = Ok b) c bs).
  { intros c bs Hc. exact (filter_batch_ok fo re_match wh c bs Hc). }
  assert (Hp : forall c rs, pbatch c = Ok rs ->
             Forall2 (fun kv r => exists r', prow kv = Ok r' /\ same_content fo r' r) c rs).
  { apply sel_pbatch_ok. exact Hok. }
  pose proof (child_exhausted kvpair (list value) frow fbatch prow pbatch (same_content fo) Hf Hp B HB) as Hex.
  assert (Hmain : exists pb e s',
             pulled _ _ (proj_batch fbatch pbatch B) slots pb e s' /\
             List.concat louts = firstn count (skipn start (List.concat pb)) /\
             (e = true \/ start + count <= List.length (List.concat pb))).
  { destruct count as [|count].
    - destruct (drain_stop_zero _ _ _ [] _ _ _ _ _ H) as (-> & pb & e & s' & Hpl & Hd).
      exists pb, e, s'. repeat split; auto. rewrite Nat.add_0_r. exact Hd.
    - assert (Hc1 : 1 <= Datatypes.S count) by lia.
      exact (drain_stop_pos _ _ _ Hex [] _ _ _ _ _ _ Hc1 H). }
  destruct Hmain as (pb & e & s' & Hpl & Ec & Hd).
  destruct (pulled_rows kvpair (list value) frow fbatch prow pbatch (same_content fo) Hf Hp B HB _ _ _ _ Hpl)
    as (consumed & rows_c & Es & Hr & F & He).
  pose proof (Forall2_len' _ _ _ F) as Hl.
  exists (firstn count (skipn start rows_c)). split.
  - rewrite Es. apply ldrain_row_of_prefix; [exact Hr|].
    destruct Hd as [->|Hd]; [left; now apply He | right; lia].
  - rewrite Ec. apply Forall2_firstn, Forall2_skipn. exact F.
Qed.

End SelectLimit.
