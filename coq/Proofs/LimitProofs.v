(* Proofs/LimitProofs.v -- LIMIT returns exactly the requested slice (C08), for every offset,
   count, batch size and every chunking of the child's output. *)
From Coq Require Import List Arith Lia Bool.
Import ListNotations.
From KV Require Import Model.Limit.

Set Implicit Arguments.

Definition nonempty {A} (l : list A) : Prop := l <> [].

(* equality of nested pairs, component by component *)
Ltac peq := rewrite !pair_equal_spec; repeat split; try reflexivity; try lia.

Section LimitProofs.
Variable A : Type.

(* ------------------------------------------------------------------ row mode *)

Lemma next_skip_spec : forall (rows : list A) start sk,
  next_skip start sk rows =
    if length rows <? start - sk then None
    else Some (Nat.max sk start, skipn (start - sk) rows).
Proof.
  induction rows as [|r rows IH]; intros start sk; cbn [next_skip].
  - destruct (Nat.ltb_spec sk start) as [H|H]; cbn [length].
    + destruct (Nat.ltb_spec 0 (start - sk)); [reflexivity|lia].
    + destruct (Nat.ltb_spec 0 (start - sk)); [lia|].
      replace (start - sk) with 0 by lia. cbn. f_equal. f_equal. lia.
  - destruct (Nat.ltb_spec sk start) as [H|H].
    + rewrite IH. cbn [length].
      destruct (Nat.ltb_spec (length rows) (start - S sk));
      destruct (Nat.ltb_spec (S (length rows)) (start - sk)); try lia; try reflexivity.
      replace (start - sk) with (S (start - S sk)) by lia. cbn [skipn].
      f_equal. f_equal. lia.
    + cbn [length]. destruct (Nat.ltb_spec (S (length rows)) (start - sk)); [lia|].
      replace (start - sk) with 0 by lia. cbn. f_equal. f_equal. lia.
Qed.

(* state after the skip phase is complete: every later call just takes the next row *)
Lemma drain_row_fuel_taking : forall fuel start count cur (rows : list A),
  length rows < fuel ->
  drain_row_fuel fuel start count (LState start cur) rows
    = Some (firstn (count - cur) rows).
Proof.
  induction fuel as [|f IH]; intros start count cur rows Hf; [lia|].
  cbn [drain_row_fuel]. unfold next. cbn [skips current].
  rewrite next_skip_spec. replace (start - start) with 0 by lia.
  destruct (Nat.ltb_spec (length rows) 0); [lia|]. cbn [skipn].
  rewrite Nat.max_id.
  destruct (Nat.leb_spec count cur) as [Hc|Hc].
  - replace (count - cur) with 0 by lia. reflexivity.
  - destruct rows as [|r rows'].
    + rewrite firstn_nil. reflexivity.
    + rewrite IH by (cbn [length] in Hf; lia).
      replace (count - cur) with (S (count - S cur)) by lia. reflexivity.
Qed.

Lemma drain_row_slice : forall start count (rows : list A),
  drain_row start count rows = Some (firstn count (skipn start rows)).
Proof.
  intros start count rows. unfold drain_row, linit.
  cbn [drain_row_fuel]. unfold next. cbn [skips current].
  rewrite next_skip_spec. rewrite Nat.sub_0_r.
  destruct (Nat.ltb_spec (length rows) start) as [H|H].
  - rewrite skipn_all2 by lia. rewrite firstn_nil. reflexivity.
  - rewrite Nat.max_0_l.
    destruct (Nat.leb_spec count 0) as [Hc|Hc].
    + replace count with 0 by lia. reflexivity.
    + destruct (skipn start rows) as [|r rows2] eqn:E.
      * rewrite firstn_nil. reflexivity.
      * assert (Hl : length rows2 < length rows).
        { assert (length (skipn start rows) = length rows - start) by apply skipn_length.
          rewrite E in H0. cbn [length] in H0. lia. }
        rewrite drain_row_fuel_taking by lia.
        destruct count as [|c]; [lia|]. cbn [firstn]. replace (S c - 1) with c by lia. reflexivity.
Qed.

(* ------------------------------------------------------------------ batch mode *)

Lemma take_left_spec : forall (rows : list A) count cur ret cnt,
  take_left count cur rows ret cnt =
    (ret ++ firstn (count - cur) rows,
     cur + Nat.min (count - cur) (length rows),
     cnt + Nat.min (count - cur) (length rows)).
Proof.
  induction rows as [|r rows IH]; intros count cur ret cnt; cbn [take_left].
  - rewrite firstn_nil, app_nil_r. cbn [length]. rewrite Nat.min_0_r, !Nat.add_0_r. reflexivity.
  - destruct (Nat.leb_spec count cur) as [H|H].
    + replace (count - cur) with 0 by lia. cbn. rewrite app_nil_r, !Nat.add_0_r. reflexivity.
    + rewrite IH. replace (count - cur) with (S (count - S cur)) by lia.
      cbn [firstn length]. rewrite <- app_assoc. cbn [app].
      peq.
Qed.

Lemma take_fill_spec : forall (rows : list A) count cur ret cnt,
  cur < count ->
  take_fill count cur rows ret cnt =
    (ret ++ firstn (count - cur) rows,
     cur + Nat.min (count - cur) (length rows),
     cnt + Nat.min (count - cur) (length rows),
     count <=? cur + length rows).
Proof.
  induction rows as [|r rows IH]; intros count cur ret cnt Hlt; cbn [take_fill].
  - rewrite firstn_nil, app_nil_r. cbn [length]. rewrite Nat.min_0_r, !Nat.add_0_r.
    destruct (Nat.leb_spec count cur); [lia|reflexivity].
  - destruct (Nat.leb_spec count (S cur)) as [H|H].
    + replace (count - cur) with 1 by lia. cbn [firstn length].
      destruct (Nat.leb_spec count (cur + S (length rows))); [|lia].
      peq.
    + rewrite IH by lia. replace (count - cur) with (S (count - S cur)) by lia.
      cbn [firstn length]. rewrite <- app_assoc. cbn [app].
      replace (cur + S (length rows)) with (S cur + length rows) by lia.
      peq.
Qed.

(* the skip loop of the repaired code, started with rows = nil *)
Lemma skip_loop_spec : forall (bs : list (list A)) start sk,
  Forall nonempty bs -> sk <= start ->
  match skip_loop true start sk [] bs with
  | (None, sk', bs') =>
      skipn (start - sk) (concat bs) = [] /\ bs' = [] /\ sk <= sk' <= start
  | (Some rows, sk', bs') =>
      rows ++ concat bs' = skipn (start - sk) (concat bs) /\ sk' = start /\
      length bs' <= length bs /\ (rows <> [] -> length bs' < length bs) /\
      Forall nonempty bs'
  end.
Proof.
  induction bs as [|b bs IH]; intros start sk Hne Hsk; cbn [skip_loop].
  - destruct (Nat.ltb_spec sk start) as [H|H].
    + cbn [concat]. rewrite skipn_nil. repeat split; lia.
    + replace (start - sk) with 0 by lia. cbn. repeat split; try lia; try congruence.
  - inversion Hne as [|b' bs' Hb Hbs]; subst.
    destruct (Nat.ltb_spec sk start) as [H|H].
    + destruct (Nat.eqb_spec (length b) 0) as [E|E].
      { destruct b; [exfalso; apply Hb; reflexivity | discriminate]. }
      destruct (Nat.leb_spec (length b) (start - sk)) as [L|L].
      * specialize (IH start (sk + length b) Hbs ltac:(lia)).
        destruct (skip_loop true start (sk + length b) [] bs) as [[r sk'] bs'] eqn:E2.
        cbn [concat]. rewrite skipn_app.
        rewrite (skipn_all2 b) by lia. cbn [app].
        replace (start - sk - length b) with (start - (sk + length b)) by lia.
        destruct r as [rows|].
        -- destruct IH as (H1 & H2 & H3 & H4 & H5). cbn [length].
           repeat split; auto; try lia; try (intros Hr; specialize (H4 Hr); lia).
        -- destruct IH as (H1 & H2 & H3). repeat split; auto; lia.
      * cbn [concat]. rewrite skipn_app.
        replace (start - sk - length b) with 0 by lia. cbn [skipn].
        cbn [length]. repeat split; auto; lia.
    + replace (start - sk) with 0 by lia. cbn [skipn app]. cbn [length].
      repeat split; auto; try lia. congruence.
Qed.

Lemma fill_loop_spec : forall (bs : list (list A)) B count cur ret cnt,
  Forall nonempty bs -> cur < count ->
  match fill_loop B count cur ret cnt bs with
  | (ret', cur', bs') =>
      exists out, ret' = ret ++ out /\
        out ++ firstn (count - cur') (concat bs') = firstn (count - cur) (concat bs) /\
        cur' = cur + length out /\ cur' <= count /\
        length bs' <= length bs /\
        (bs <> [] -> out <> [] /\ length bs' < length bs) /\
        (bs = [] -> out = []) /\ Forall nonempty bs'
  end.
Proof.
  induction bs as [|b bs IH]; intros B count cur ret cnt Hne Hlt; cbn [fill_loop].
  - exists []. rewrite app_nil_r. cbn. rewrite firstn_nil.
    repeat split; auto; try lia; congruence.
  - inversion Hne as [|b' bs' Hb Hbs]; subst.
    destruct (Nat.eqb_spec (length b) 0) as [E|E].
    { destruct b; [exfalso; apply Hb; reflexivity | discriminate]. }
    rewrite take_fill_spec by assumption.
    assert (Hfb : firstn (count - cur) b <> []).
    { destruct b; [congruence|]. replace (count - cur) with (S (count - S cur)) by lia.
      cbn. congruence. }
    assert (Hlen : length (firstn (count - cur) b) = Nat.min (count - cur) (length b))
      by apply firstn_length.
    destruct (Nat.leb_spec count (cur + length b)) as [Hfin|Hfin].
    + (* limit reached inside this batch *)
      exists (firstn (count - cur) b). cbn [concat length].
      rewrite firstn_app. rewrite Hlen.
      replace (count - (cur + Nat.min (count - cur) (length b))) with 0 by lia.
      replace (count - cur - length b) with 0 by lia.
      cbn [firstn]. rewrite !app_nil_r.
      repeat split; auto; try lia; try congruence.
    + (* whole batch appended *)
      assert (Hall : firstn (count - cur) b = b) by (apply firstn_all2; lia).
      assert (Hmin : Nat.min (count - cur) (length b) = length b) by lia.
      rewrite Hmin in *. rewrite Hall in *.
      destruct (Nat.leb_spec B (cnt + length b)) as [HB|HB].
      * exists b. cbn [concat length]. rewrite firstn_app.
        rewrite (firstn_all2 b) by lia.
        replace (count - cur - length b) with (count - (cur + length b)) by lia.
        repeat split; auto; try lia; try congruence.
      * specialize (IH B count (cur + length b) (ret ++ b) (cnt + length b) Hbs ltac:(lia)).
        destruct (fill_loop B count (cur + length b) (ret ++ b) (cnt + length b) bs)
          as [[ret' cur'] bs'] eqn:E2.
        destruct IH as (out & H1 & H2 & H3 & H4 & H5 & H6 & H7 & H8).
        exists (b ++ out).
        cbn [concat length]. rewrite firstn_app, (firstn_all2 b) by lia.
        replace (count - cur - length b) with (count - (cur + length b)) by lia.
        rewrite <- (app_assoc b out), H2, app_length.
        split; [rewrite H1, <- app_assoc; reflexivity|].
        repeat split; auto; try lia; try congruence.
        destruct b; [congruence|]. cbn. congruence.
Qed.

(* What still has to be emitted from a state: the slice of the remaining child output. *)
Definition remaining (start count : nat) (st : lstate) (bs : list (list A)) : list A :=
  firstn (count - current st) (skipn (start - skips st) (concat bs)).

Lemma batch_step : forall B start count st (bs : list (list A)),
  Forall nonempty bs -> skips st <= start ->
  match batch true B start count st bs with
  | (out, st', bs') =>
      out ++ remaining start count st' bs' = remaining start count st bs /\
      (out = [] -> remaining start count st bs = []) /\
      (out <> [] -> length bs' < length bs) /\
      length bs' <= length bs /\
      Forall nonempty bs' /\ skips st' <= start
  end.
Proof.
  intros B start count [sk cur] bs Hne Hsk. unfold batch, remaining. cbn [skips current] in *.
  pose proof (@skip_loop_spec bs start sk Hne Hsk) as HS.
  destruct (skip_loop true start sk [] bs) as [[r sk'] bs1] eqn:E1.
  destruct r as [rows|].
  - destruct HS as (H1 & H2 & H3 & H4 & H5). subst sk'.
    rewrite take_left_spec. cbn [app].
    set (k := Nat.min (count - cur) (length rows)).
    assert (Hk : length (firstn (count - cur) rows) = k) by apply firstn_length.
    destruct (Nat.leb_spec count (cur + k)) as [Hc|Hc].
    + (* limit reached by the left-over rows *)
      cbn [skips current]. rewrite Nat.sub_diag. cbn [skipn].
      replace (count - (cur + k)) with 0 by lia. cbn [firstn]. rewrite app_nil_r.
      rewrite <- H1. rewrite firstn_app.
      assert (count - cur - length rows = 0) by lia. rewrite H. cbn [firstn]. rewrite app_nil_r.
      repeat split; auto; try lia.
      intros Hne2. apply H4. intros ->. apply Hne2. apply firstn_nil.
    + (* refill from the child *)
      assert (Hall : firstn (count - cur) rows = rows) by (apply firstn_all2; lia).
      assert (Hkl : k = length rows) by lia.
      pose proof (@fill_loop_spec bs1 B count (cur + k) (firstn (count - cur) rows) (0 + k)
                    H5 ltac:(lia)) as HF.
      destruct (fill_loop B count (cur + k) (firstn (count - cur) rows) (0 + k) bs1)
        as [[ret' cur'] bs2] eqn:E2.
      destruct HF as (out & F1 & F2 & F3 & F4 & F5 & F6 & F7 & F8).
      cbn [skips current]. rewrite Nat.sub_diag. cbn [skipn].
      rewrite <- H1. rewrite firstn_app.
      replace (count - cur - length rows) with (count - (cur + k)) by lia.
      rewrite F1, Hall, <- app_assoc, F2.
      repeat split; auto; try lia.
      * intros Hnil. apply app_eq_nil in Hnil. destruct Hnil as [-> Hout].
        cbn [app]. destruct bs1 as [|b1 bs1'].
        -- cbn. apply firstn_nil.
        -- destruct F6 as [F6 _]; [congruence|]. contradiction.
      * intros Hne2. destruct rows as [|r0 rows0].
        -- cbn [app] in Hne2. destruct bs1 as [|b1 bs1']; [rewrite (F7 eq_refl) in Hne2; congruence|].
           destruct F6 as [_ F6]; [congruence|]. lia.
        -- assert (length bs1 < length bs) by (apply H4; congruence). lia.
  - destruct HS as (H1 & H2 & H3). subst bs1.
    cbn [skips current app concat]. rewrite skipn_nil, firstn_nil, H1, firstn_nil.
    repeat split; auto; try lia; try congruence.
    destruct bs; cbn [length]; lia.
Qed.

Lemma drain_batch_fuel_spec : forall fuel B start count st (bs : list (list A)),
  Forall nonempty bs -> skips st <= start -> length bs < fuel ->
  exists outs, drain_batch_fuel true fuel B start count st bs = Some outs /\
               concat outs = remaining start count st bs /\ Forall nonempty outs.
Proof.
  induction fuel as [|f IH]; intros B start count st bs Hne Hsk Hf; [lia|].
  cbn [drain_batch_fuel].
  pose proof (@batch_step B start count st bs Hne Hsk) as HB.
  destruct (batch true B start count st bs) as [[out st'] bs'] eqn:E.
  destruct HB as (H1 & H2 & H3 & H4 & H5 & H6).
  destruct out as [|r out].
  - exists []. rewrite (H2 eq_refl). repeat split; auto.
  - destruct (IH B start count st' bs' H5 H6) as (outs & D1 & D2 & D3).
    { assert (length bs' < length bs) by (apply H3; congruence). lia. }
    rewrite D1. exists ((r :: out) :: outs). cbn [concat]. rewrite D2, H1.
    repeat split; auto. constructor; [congruence|assumption].
Qed.

Theorem drain_batch_slice : forall B start count (bs : list (list A)),
  Forall nonempty bs ->
  exists outs, drain_batch true B start count bs = Some outs /\
               concat outs = firstn count (skipn start (concat bs)) /\
               Forall nonempty outs.
Proof.
  intros B start count bs Hne. unfold drain_batch.
  destruct (@drain_batch_fuel_spec (S (length bs)) B start count linit bs Hne)
    as (outs & H1 & H2 & H3).
  - cbn. lia.
  - lia.
  - exists outs. repeat split; auto. rewrite H2. unfold remaining, linit. cbn [skips current].
    rewrite !Nat.sub_0_r. reflexivity.
Qed.

(* batch and row iteration agree on the limit node (used by C03) *)
Corollary limit_batch_row : forall B start count (bs : list (list A)),
  Forall nonempty bs ->
  exists outs, drain_batch true B start count bs = Some outs /\
               drain_row start count (concat bs) = Some (concat outs).
Proof.
  intros B start count bs Hne.
  destruct (@drain_batch_slice B start count bs Hne) as (outs & H1 & H2 & _).
  exists outs. split; [assumption|]. rewrite H2. apply drain_row_slice.
Qed.

End LimitProofs.

(* ------------------------------------------------------------------ the pinned code is refuted *)
(* limit 1,1 over a child that yields the single batch [r0; r1] split as [[r0];[r1]]: the pinned
   code emits the skipped row r0 (D5).  Kept as a regression witness for the unfixed model. *)
Example limit_batch_slice_refuted :
  exists (B start count : nat) (bs : list (list nat)),
    Forall nonempty bs /\
    match drain_batch false B start count bs with
    | Some outs => concat outs <> firstn count (skipn start (concat bs))
    | None => True
    end.
Proof.
  exists 1, 1, 1, [[0];[1]]. split.
  - repeat constructor; unfold nonempty; congruence.
  - vm_compute. congruence.
Qed.

(* ------------------------------------------------------------------ saturation *)
(* offsets and counts beyond the end of the result select the same slice as length+1: the
   correspondence hands `limit s, 9223372036854775807` to the twin in this clamped form *)
Lemma slice_saturates_lemma : forall (A : Type) (start count : nat) (rows : list A),
  firstn count (skipn start rows) =
  firstn (Nat.min count (S (length rows))) (skipn (Nat.min start (S (length rows))) rows).
Proof.
  intros A start count rows.
  assert (Hs : skipn start rows = skipn (Nat.min start (S (length rows))) rows).
  { destruct (Nat.le_gt_cases start (S (length rows))) as [Hle|Hgt].
    - rewrite Nat.min_l by assumption. reflexivity.
    - rewrite Nat.min_r by lia. rewrite !skipn_all2 by lia. reflexivity. }
  rewrite <- Hs.
  destruct (Nat.le_gt_cases count (S (length rows))) as [Hle|Hgt].
  - rewrite Nat.min_l by assumption. reflexivity.
  - rewrite Nat.min_r by lia.
    assert (Hl : length (skipn start rows) <= length rows) by (rewrite skipn_length; lia).
    rewrite !firstn_all2 by lia. reflexivity.
Qed.
