(* Proofs/LinkProofs.v -- the key-fragment semantics used by C02 (Spec/KeySem.psem) agrees
   with the reference evaluator (Spec/Sem.sem); hence the access path inferred for a WHERE
   clause covers every pair on which the clause is true under the reference semantics. *)
From Coq Require Import List String Ascii ZArith Bool.
Import ListNotations.
From KV Require Import Base.Bytes Base.Num Model.Ast Model.Value Model.FilterOpt
                       Spec.Sem Spec.KeySem Proofs.FilterOptProofs.
Local Open Scope string_scope.

Section Link.
Variable fo : fops.
Variable re_spec : bytes -> bytes -> option bool.
Variables k v : bytes.

Notation sem := (sem fo re_spec k v).

(* the oracle for everything outside the key fragment: the reference evaluator itself *)
Definition opq_sem (e : expr) : option bool :=
  match sem e with Some (SBool b) => Some b | _ => None end.

Lemma operand_sem e a : operand k v e = Some a -> sem e = Some (SText a).
Proof.
  destruct e; cbn; try discriminate.
  - destruct f; intros H; injection H as <-; reflexivity.
  - intros H; injection H as <-; reflexivity.
Qed.

Lemma operands_in_go a items bs :
  operands k v items = Some bs ->
  (fix go (items : list expr) : option (sval fo) :=
     match items with
     | [] => Some (SBool false)
     | it :: items' =>
         match sem it with
         | Some b =>
             match s_eq fo (SText a) b with
             | Some true => Some (SBool true)
             | Some false => go items'
             | None => None
             end
         | None => None
         end
     end) items = Some (SBool (existsb (String.eqb a) bs)).
Proof.
  revert bs; induction items as [|it items IH]; intros bs H; cbn in H.
  - injection H as <-. reflexivity.
  - destruct (operand k v it) as [b|] eqn:Eo; [|discriminate].
    destruct (operands k v items) as [bs'|] eqn:Eos; [|discriminate].
    injection H as <-. rewrite (operand_sem _ _ Eo). cbn [s_eq existsb].
    destruct (String.eqb a b); [reflexivity|]. cbn [orb]. now apply IH.
Qed.

Ltac opq_close H := unfold opq_sem; rewrite H; reflexivity.

Lemma cmp2_of_sem e l r (f : bytes -> bytes -> bool) b :
  sem e = Some (SBool b) ->
  (forall x y, operand k v l = Some x -> operand k v r = Some y -> b = f x y) ->
  cmp2 opq_sem k v e l r f = Some b.
Proof.
  intros H Hf. unfold cmp2.
  destruct (operand k v l) as [x|] eqn:El; [|opq_close H].
  destruct (operand k v r) as [y|] eqn:Er; [|opq_close H].
  now rewrite (Hf x y eq_refl eq_refl).
Qed.

Theorem psem_of_sem : forall e b, sem e = Some (SBool b) -> psem opq_sem k v e = Some b.
Proof.
  induction e as [p o l IHl r IHr|p f|p s|p r IH|p n IHn args|p s|p nm d IHd|p d|p d|p b0|p l|p l IHl fn IHfn];
    intros b H; cbn [psem]; try (opq_close H).
  - (* binary operators *)
    destruct o; try (opq_close H).
    + (* & *) cbn [Sem.sem] in H. destruct (sem l) as [[| | |[|]]|] eqn:El; try discriminate.
      * rewrite (IHl true eq_refl). destruct (sem r) as [[| | |br]|] eqn:Er; try discriminate.
        injection H as <-. now apply IHr.
      * injection H as <-. now rewrite (IHl false eq_refl).
    + (* | *) cbn [Sem.sem] in H. destruct (sem l) as [[| | |[|]]|] eqn:El; try discriminate.
      * injection H as <-. now rewrite (IHl true eq_refl).
      * rewrite (IHl false eq_refl). destruct (sem r) as [[| | |br]|] eqn:Er; try discriminate.
        injection H as <-. now apply IHr.
    + (* = *) apply cmp2_of_sem; [assumption|]. intros x y Hx Hy. cbn [Sem.sem] in H.
      rewrite (operand_sem _ _ Hx), (operand_sem _ _ Hy) in H. cbn in H. congruence.
    + (* != *) apply cmp2_of_sem; [assumption|]. intros x y Hx Hy. cbn [Sem.sem] in H.
      rewrite (operand_sem _ _ Hx), (operand_sem _ _ Hy) in H. cbn in H. congruence.
    + (* ^= *) apply cmp2_of_sem; [assumption|]. intros x y Hx Hy. cbn [Sem.sem] in H.
      rewrite (operand_sem _ _ Hx), (operand_sem _ _ Hy) in H. cbn in H. congruence.
    + (* > *) apply cmp2_of_sem; [assumption|]. intros x y Hx Hy. cbn [Sem.sem] in H.
      rewrite (operand_sem _ _ Hx), (operand_sem _ _ Hy) in H. cbn in H. congruence.
    + (* >= *) apply cmp2_of_sem; [assumption|]. intros x y Hx Hy. cbn [Sem.sem] in H.
      rewrite (operand_sem _ _ Hx), (operand_sem _ _ Hy) in H. cbn in H. congruence.
    + (* < *) apply cmp2_of_sem; [assumption|]. intros x y Hx Hy. cbn [Sem.sem] in H.
      rewrite (operand_sem _ _ Hx), (operand_sem _ _ Hy) in H. cbn in H. congruence.
    + (* <= *) apply cmp2_of_sem; [assumption|]. intros x y Hx Hy. cbn [Sem.sem] in H.
      rewrite (operand_sem _ _ Hx), (operand_sem _ _ Hy) in H. cbn in H. congruence.
    + (* in *)
      destruct (operand k v l) as [a|] eqn:El; [|opq_close H].
      destruct r; try (opq_close H).
      destruct (operands k v l0) as [bs|] eqn:Eos; [|opq_close H].
      cbn [Sem.sem] in H. rewrite (operand_sem _ _ El) in H.
      rewrite (operands_in_go a _ _ Eos) in H. congruence.
    + (* between *)
      destruct (operand k v l) as [a|] eqn:El; [|opq_close H].
      destruct r; try (opq_close H).
      destruct l0 as [|lo [|hi [|? ?]]]; try (opq_close H).
      destruct (operand k v lo) as [x|] eqn:Elo; [|opq_close H].
      destruct (operand k v hi) as [y|] eqn:Ehi; [|opq_close H].
      cbn [Sem.sem] in H.
      rewrite (operand_sem _ _ El), (operand_sem _ _ Elo), (operand_sem _ _ Ehi) in H.
      cbn in H. destruct (bltb x y); [|discriminate].
      destruct (bleb x a); cbn in H |- *; congruence.
    + (* and *) cbn [Sem.sem] in H. destruct (sem l) as [[| | |[|]]|] eqn:El; try discriminate.
      * rewrite (IHl true eq_refl). destruct (sem r) as [[| | |br]|] eqn:Er; try discriminate.
        injection H as <-. now apply IHr.
      * injection H as <-. now rewrite (IHl false eq_refl).
    + (* or *) cbn [Sem.sem] in H. destruct (sem l) as [[| | |[|]]|] eqn:El; try discriminate.
      * injection H as <-. now rewrite (IHl true eq_refl).
      * rewrite (IHl false eq_refl). destruct (sem r) as [[| | |br]|] eqn:Er; try discriminate.
        injection H as <-. now apply IHr.
  - (* ! *) cbn [Sem.sem] in H. destruct (sem r) as [[| | |br]|] eqn:Er; try discriminate.
    injection H as <-. now rewrite (IH br eq_refl).
  - (* true / false *) cbn in H. congruence.
Qed.

(* the inferred region covers every pair on which the WHERE clause is true *)
Theorem sem_true_covered e :
  sem e = Some (SBool true) -> covers (optimize e) k = true.
Proof. intros H. apply (optimize_sound_lemma opq_sem k v). now apply psem_of_sem. Qed.

End Link.

(* the pairs a WHERE clause selects under the reference semantics *)
Definition selects (fo : fops) (re_spec : bytes -> bytes -> option bool) (e : expr)
           (kv : bytes * bytes) : bool :=
  match sem fo re_spec (fst kv) (snd kv) e with Some (SBool true) => true | _ => false end.

(* filtering what the chosen access path offers = filtering every stored pair *)
Theorem narrowed_select_exact fo re_spec e (st : list (bytes * bytes)) :
  filter (selects fo re_spec e) (filter (fun kv => covers (optimize e) (fst kv)) st)
  = filter (selects fo re_spec e) st.
Proof.
  apply filter_filter_absorb. intros [k v] _ H. unfold selects in H. cbn [fst snd] in *.
  destruct (sem fo re_spec k v e) as [[| | |[|]]|] eqn:E; try discriminate.
  exact (sem_true_covered fo re_spec k v e E).
Qed.
