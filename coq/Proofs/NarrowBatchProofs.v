(* Proofs/NarrowBatchProofs.v -- C02 at text level, BATCH mode, one step beyond
   NarrowTextProofs.narrowed_text_eq_full_batch_ok (which needs BOTH batch drains to complete):
   a batch drain of EITHER pipeline that completes returns the rows of the ROW drain of the OTHER
   pipeline (up to string / []byte, [nrows]), at every batch size B >= 1 -- C03's batch => row
   agreement (PipelineSProofs.batch_row_agree_text / SelectPlansProofs.select_shape_batch_row)
   composed with the row-mode theorem narrowed_text_eq_full_row.

   STILL MISSING for the full batch statement ("under filter_answers and error-free projections on
   every accepted pair the two batch drains return the same concatenation for every B"): the
   CONVERSE of C03's agreement, row drain completes without a projection error => batch drain
   completes (SelectPlansProofs proves batch => row only, for every shape); with it the statement
   follows from the two theorems below. *)
From Coq Require Import List String ZArith Bool Arith Lia.
Import ListNotations.
From KV Require Import Base.Bytes Model.Ast Model.Value Model.Eval Model.EvalVec Model.Storage
                       Model.ScanIO Model.ScanSem Model.ScanProj Model.LimitLazy
                       Model.SelectPlans Model.FilterOpt Model.Pipeline Model.PipelineW Model.PipelineS
                       Model.PipelineFull.
From KV Require Model.Order.
From KV Require Import Proofs.StorageProofs Proofs.SelectPlansProofs Proofs.PipelineSProofs Proofs.BatchRowProofs
                       Proofs.NarrowTextProofs.
Import KV.Model.Value.
Local Open Scope nat_scope.
Local Open Scope list_scope.

Section Batch.
Variable fo : fops.
Variable re : bytes -> bytes -> res bool.
Variable fmt_v : F fo -> string.
Variable ag : aggops fo.
Variable pi pf : bytes -> option Z.

Notation plan_stmt_text := (plan_stmt_text fo re fmt_v).
Notation select_stmt_text := (select_stmt_text fo re fmt_v ag pi pf).
Notation select_stmt_text_full := (select_stmt_text_full fo re fmt_v ag pi pf).
Notation filter_answers := (filter_answers fo re fmt_v).

(* the narrowed batch drain completes => the FULL-SCAN row drain returns the same rows *)
Theorem narrowed_batch_full_row q d B outs :
  1 <= B -> ssorted d -> filter_answers q d ->
  (forall pl, plan_stmt_text q = STOk pl -> fields_ok (q_fields fo (sp_q fo pl))) ->
  select_stmt_text q d (MBatch B) = TOk outs ->
  exists rows, select_stmt_text_full q d MRow = TOk rows /\ nrows rows = nrows outs.
Proof.
  intros HB S Hf Hok H.
  destruct (batch_row_agree_text fo re fmt_v ag pi pf q d B outs HB Hok H) as (rows & Er & En).
  exists rows. split; [|exact En]. rewrite <- (narrowed_text_eq_full_row fo re fmt_v ag pi pf q d S Hf). exact Er.
Qed.

(* the full-scan batch drain completes => the NARROWED row drain returns the same rows *)
Theorem full_batch_narrowed_row q d B outs :
  1 <= B -> ssorted d -> filter_answers q d ->
  (forall pl, plan_stmt_text q = STOk pl -> fields_ok (q_fields fo (sp_q fo pl))) ->
  select_stmt_text_full q d (MBatch B) = TOk outs ->
  exists rows, select_stmt_text q d MRow = TOk rows /\ nrows rows = nrows outs.
Proof.
  intros HB S Hf Hok H.
  apply text_full_run in H. destruct H as (pl & Ep & H). cbn [PipelineS.run_mode] in H.
  destruct (select_shape_batch_row fo re ag pi pf B _ _ _ _ HB (Hok pl Ep) H) as (rows & Er & En).
  exists rows. split; [|exact En].
  destruct (plan_stmt_text_inv fo re fmt_v q pl Ep) as (_ & _ & Es & _).
  pose proof (drain_row_narrowed_full fo re ag pi pf pl d S Es (Hf pl Ep)) as E.
  unfold PipelineS.select_stmt_text, PipelineS.select_stmt_text_st. rewrite Ep. cbn [stbind]. rewrite E.
  unfold PipelineS.drain_planned, PipelineS.run_mode, sp_shape, with_full. cbn [sp_q sp_scan].
  unfold sp_shape in Er. rewrite Er. reflexivity.
Qed.

End Batch.
