(* Proofs/NarrowDeleteProofs.v -- C02 AT TEXT LEVEL, the DELETE half: for every DELETE text the front
   end accepts, the statement run as buildDeletePlan built it (Model/PipelineW.v delete_text:
   EmptyResultPlan with the LIMIT dropped / DeletePlan [LimitPlan] over the narrowed scan node / the
   delete->remove shortcut decided on the folded tree) leaves the store that the SAME statement
   leaves when it runs as DeletePlan [LimitPlan] over a FullScanPlan with the same filter
   (Model/PipelineFullW.v delete_text_full), and deletes the same stored keys.

     delete_text_run               Model/PipelineW.v delete_text IS run_dplanned over delete_plan_text
     delete_text_front_same        not accepted (rejected, model boundary): the two twins are EQUAL,
                                   the store is untouched -- unconditional
     delete_text_narrowed_full     accepted, strictly sorted store, every B >= 1, the folded WHERE tree
                                   answers on every stored pair: both accepted; the SAME final store
                                   = the store minus limit_slice limit (filter flt d) (the pairs a full
                                   scan filtered pair by pair selects, sliced by LIMIT in key order);
                                   nothing is put; the keys handed to BatchDelete by the full twin are
                                   exactly the selected keys, those of the narrowed twin agree with them
                                   on every STORED key (the RemovePlan shortcut also hands the listed
                                   keys that are not stored to BatchDelete) *)
From Coq Require Import List String Ascii ZArith Bool Arith Lia.
Import ListNotations.
From KV Require Import Base.Bytes Base.Num Base.Ord Model.Token Model.Ast Model.Value Model.Eval
                       Model.Lexer Model.ExprParser Model.StmtParser Model.Checker Model.ParseCheck Model.Fold
                       Model.FilterOpt Model.Storage Model.Write Model.ScanIO Model.ScanSem Model.Delete
                       Model.Pipeline Model.PipelineW Model.PipelineFullW
                       Proofs.FilterOptProofs Proofs.StorageProofs Proofs.WriteProofs Proofs.ScanSemProofs
                       Proofs.ShortcutProofs Proofs.SelectStarProofs Proofs.DeleteProofs Proofs.PipelineProofs
                       Proofs.PipelineWProofs.
Local Open Scope string_scope.
Local Open Scope list_scope.

(* ================================================================== DeletePlan [LimitPlan] over
   FullScanPlan, for any per-pair verdict *)
Section FullDelete.
Variable flt : kvp -> bool.
Variables B fuel : nat.
Variable d : store.
Hypothesis HB : 1 <= B.
Hypothesis Hsorted : ssorted d.

Lemma rsel_full : Rsel flt (PScan SFull) d = filter flt d.
Proof.
  cbn [Rsel region_of]. rewrite (@filter_all_true kvp _ d) by (intros; reflexivity). reflexivity.
Qed.

Lemma rsel_over_full limit c :
  dplan_over SFull limit = DScan c -> Rsel flt c d = limit_slice limit (filter flt d).
Proof.
  destruct limit as [[s n]|]; cbn [dplan_over]; intros H; injection H as <-; cbn [Rsel limit_slice];
    fold (Rsel flt (PScan SFull) d); now rewrite rsel_full.
Qed.

Lemma full_delete_facts limit :
  List.length d + 2 <= fuel ->
  let s' := run_delete flt B fuel (dplan_over SFull limit) (sinit d None) in
  let sel := limit_slice limit (filter flt d) in
  delete_facts d sel s' /\ deleted_keys (slog s') = map fst sel.
Proof.
  intros Hf. cbv zeta.
  assert (Hc : exists c, dplan_over SFull limit = DScan c /\ keys_ok c /\ plan_keys c = 0).
  { destruct limit as [[s n]|]; cbn [dplan_over]; eexists; (split; [reflexivity|]); split; try exact I; reflexivity. }
  destruct Hc as (c & Ec & K & Hk). pose proof (rsel_over_full limit c Ec) as HR. rewrite Ec.
  split.
  - apply (dscan_facts flt B fuel d HB Hsorted c _ K); [lia|exact HR].
  - cbn [run_delete]. unfold sinit.
    destruct (@delete_exact_lemma flt B fuel c d [] HB Hsorted K ltac:(lia)) as (s1 & E & _ & _ & _ & _ & ext & El & _ & Edk & _).
    rewrite E. cbn [snd]. cbn [app] in El. rewrite El, Edk, HR. reflexivity.
Qed.

End FullDelete.

(* ================================================================== the text *)
Section NarrowDelete.
Variable fo : fops.
Variable re_match : bytes -> bytes -> Value.res bool.
Variable fmt_v : F fo -> string.

Notation filter_of := (Pipeline.filter_of fo re_match).
Notation delete_text := (delete_text fo re_match fmt_v).
Notation delete_text_full := (delete_text_full fo re_match fmt_v).
Notation delete_text_over := (delete_text_over fo re_match fmt_v).
Notation delete_plan_text := (delete_plan_text fo re_match fmt_v).
Notation delete_plan_text_over := (delete_plan_text_over fo re_match fmt_v).
Notation delete_limit_text := (delete_limit_text fo).
Notation run_dplanned := (run_dplanned fo re_match).

(* Model/PipelineW.v's delete_text is the generic runner over ITS planned statement: the full
   twin differs in the plan only *)
Lemma delete_text_run q B s : delete_text q B s = run_dplanned (delete_plan_text q) B s.
Proof.
  unfold PipelineW.delete_text, PipelineFullW.run_dplanned. destruct (delete_plan_text q); reflexivity.
Qed.

(* an accepted text has a LIMIT inside the model, and its plan is buildDeletePlan's of the folded
   filter under that LIMIT *)
Lemma delete_plan_limit q pl :
  delete_plan_text q = TOk pl ->
  exists limit, delete_limit_text q = TOk limit /\ dp_plan pl = build_delete (dp_filter pl) limit.
Proof.
  unfold PipelineW.delete_plan_text, PipelineFullW.delete_limit_text.
  destruct (front fo is_delete_kind q) as [[s c]| | | | |]; cbn [tbind fst]; try discriminate.
  destruct s as [x|p prs|p ks|p wp w lim]; try discriminate.
  destruct c; try discriminate.
  destruct (limit_of lim) as [limit|]; [|discriminate].
  destruct (fold_oom fo re_match fmt_v _); [discriminate|].
  intros H. injection H as <-. exists limit. split; reflexivity.
Qed.

Lemma delete_plan_over_ok sc q pl :
  delete_plan_text q = TOk pl ->
  exists limit, delete_limit_text q = TOk limit /\ dp_plan pl = build_delete (dp_filter pl) limit /\
                delete_plan_text_over sc q = TOk (DPlanned (dp_filter pl) (dplan_over sc limit)).
Proof.
  intros H. destruct (delete_plan_limit q pl H) as (limit & El & Ep). exists limit. split; [exact El|]. split; [exact Ep|].
  unfold PipelineFullW.delete_plan_text_over. rewrite H. cbn [tbind]. rewrite El. reflexivity.
Qed.

(* NOT ACCEPTED (rejected with its position, panic, model boundary incl. a stored pair outside the
   evaluator twin): the two twins are equal -- same outcome, store untouched; unconditional, for
   any scan node forced *)
Theorem delete_text_front_same sc q B s :
  (forall dp, fst (delete_text q B s) <> TOk dp) ->
  delete_text_over sc q B s = delete_text q B s.
Proof.
  intros H. rewrite delete_text_run in *. unfold PipelineFullW.delete_text_over.
  destruct (delete_plan_text q) as [pl| | | | |] eqn:Ep;
    try (unfold PipelineFullW.delete_plan_text_over; rewrite Ep; reflexivity).
  destruct (delete_plan_over_ok sc q pl Ep) as (limit & _ & _ & ->).
  unfold PipelineFullW.run_dplanned in *. cbn [dp_filter dp_plan] in *.
  destruct (filter_oom fo re_match (dp_filter pl) (sdata s)); [reflexivity|].
  cbn [fst] in H. now elim (H (dp_plan pl)).
Qed.

(* FilterExec.Filter (over the FOLDED WHERE tree of the accepted text) answers true or false on every
   stored pair *)
Definition dfilter_answers (q : string) (d : store) : Prop :=
  forall pl, delete_plan_text q = TOk pl ->
  forall kv, In kv d -> exists b, filter_row fo re_match (fst kv) (snd kv) (dp_filter pl) = Value.Ok b.

Section Accepted.
Variables (q : string) (B : nat) (d : store).
Hypothesis HB : 1 <= B.
Hypothesis Hsorted : ssorted d.
Hypothesis Hans : dfilter_answers q d.

(* what both twins do on an accepted text *)
Lemma delete_text_both dp s1 :
  delete_text q B (sinit d None) = (TOk dp, s1) ->
  exists pl limit s2,
    delete_plan_text q = TOk pl /\ delete_limit_text q = TOk limit /\ dp = build_delete (dp_filter pl) limit /\
    delete_text_full q B (sinit d None) = (TOk (dplan_over SFull limit), s2) /\
    let sel := limit_slice limit (filter (filter_of (dp_filter pl)) d) in
    delete_facts d sel s1 /\ delete_facts d sel s2 /\ deleted_keys (slog s2) = map fst sel.
Proof.
  intros H. rewrite delete_text_run in H.
  destruct (delete_plan_text q) as [pl| | | | |] eqn:Ep; try discriminate H.
  destruct (delete_plan_over_ok SFull q pl Ep) as (limit & El & Edp & Eo).
  unfold PipelineFullW.run_dplanned in H. cbn [sinit sdata] in H.
  destruct (filter_oom fo re_match (dp_filter pl) d) eqn:Eoom; [discriminate H|].
  injection H as <- <-.
  exists pl, limit. eexists. split; [reflexivity|]. split; [exact El|]. split; [exact Edp|].
  split.
  { unfold PipelineFullW.delete_text_full, PipelineFullW.delete_text_over. rewrite Eo.
    unfold PipelineFullW.run_dplanned. cbn [dp_filter dp_plan sinit sdata]. rewrite Eoom. reflexivity. }
  cbv zeta. rewrite Edp. split; [|].
  - apply build_delete_facts; [exact HB|exact Hsorted| | |unfold delete_fuel; lia].
    + intros [k v] _ Hf. cbn [fst]. unfold Pipeline.filter_of in Hf. cbn [fst snd] in Hf.
      destruct (filter_row fo re_match k v (dp_filter pl)) as [[|]| | |] eqn:E; try discriminate Hf.
      exact (filter_true_covered fo re_match k v _ E).
    + intros Ha ks Ho [k v] Hin. cbn [fst].
      destruct (Hans pl Ep (k, v) Hin) as (b & Hf). cbn [fst snd] in Hf.
      pose proof (psem_of_eval fo re_match k v _ b Hf) as Hps.
      rewrite (optimize_mget_exact (opq_eval fo re_match k v) _ ks Ha Ho k v) in Hps. injection Hps as <-.
      unfold Pipeline.filter_of. cbn [fst snd]. rewrite Hf. destruct (mem k ks); reflexivity.
  - apply (full_delete_facts (filter_of (dp_filter pl)) B _ d HB Hsorted limit).
    unfold delete_fuel. lia.
Qed.

(* THE DELETE HALF OF C02 *)
Theorem delete_text_narrowed_full dp s1 :
  delete_text q B (sinit d None) = (TOk dp, s1) ->
  exists pl limit s2,
    delete_plan_text q = TOk pl /\ delete_limit_text q = TOk limit /\
    delete_text_full q B (sinit d None) = (TOk (dplan_over SFull limit), s2) /\
    let sel := limit_slice limit (filter (filter_of (dp_filter pl)) d) in
    (* the same final store: what a full scan filtered pair by pair selects, sliced by LIMIT *)
    sdata s1 = sdata s2 /\
    sdata s2 = filter (fun kv => negb (mem (fst kv) (map fst sel))) d /\
    ssorted (sdata s2) /\
    (* nothing is written *)
    forallb no_put (slog s1) = true /\ forallb no_put (slog s2) = true /\
    (* the deleted keys *)
    deleted_keys (slog s2) = map fst sel /\
    (forall k, In k (deleted_keys (slog s2)) -> In k (deleted_keys (slog s1))) /\
    (forall k, In k (map fst d) -> In k (deleted_keys (slog s1)) -> In k (deleted_keys (slog s2))).
Proof.
  intros H. destruct (delete_text_both dp s1 H) as (pl & limit & s2 & Ep & El & _ & Ef & F1 & F2 & Ek).
  exists pl, limit, s2. split; [exact Ep|]. split; [exact El|]. split; [exact Ef|]. cbv zeta in *.
  destruct (delete_facts_data d _ _ Hsorted F2) as (D1 & _ & D3).
  destruct F1 as (E1 & N1 & I1 & J1). destruct F2 as (E2 & N2 & _ & _).
  split; [congruence|]. split; [exact D1|]. split; [exact D3|]. split; [exact N1|]. split; [exact N2|].
  split; [exact Ek|]. rewrite Ek. split; [exact I1|]. intros k Hd Hk. exact (J1 k Hk Hd).
Qed.

(* the other direction of "accepted" *)
Theorem delete_text_full_accepted dp' s2 :
  delete_text_full q B (sinit d None) = (TOk dp', s2) ->
  exists dp s1, delete_text q B (sinit d None) = (TOk dp, s1).
Proof.
  intros H. destruct (delete_text q B (sinit d None)) as [r s1] eqn:E.
  destruct r as [dp| | | | |]; [eauto| | | | |];
    (rewrite <- (delete_text_front_same SFull q B (sinit d None)) in E;
      [unfold PipelineFullW.delete_text_full in H; rewrite H in E; discriminate E
      |rewrite E; cbn [fst]; intros dp0; discriminate]).
Qed.

End Accepted.

End NarrowDelete.
