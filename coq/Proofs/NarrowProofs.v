(* Proofs/NarrowProofs.v -- AND narrows: the region inferred for a conjunction lies inside the
   region of one of its conjuncts (C18); unsatisfiable-on-its-face clauses give REmpty. *)
From Coq Require Import List String Bool Arith Lia.
Import ListNotations.
From KV Require Import Base.Bytes Base.Ord Model.Ast Model.FilterOpt
                       Proofs.RangeProofs Proofs.FilterOptProofs.
Open Scope string_scope.

Definition region_sub (a b : region) : Prop := forall k, covers a k = true -> covers b k = true.

Lemma region_sub_refl a : region_sub a a.
Proof. intros k H; exact H. Qed.
Lemma region_sub_empty b : region_sub REmpty b.
Proof. intros k H; discriminate. Qed.
Lemma region_sub_full a : region_sub a RFull.
Proof. intros k H; reflexivity. Qed.

Lemma finish_range_complete ns ne k :
  covers (finish_range ns ne) k = true -> covers (RRange ns ne) k = true.
Proof.
  unfold finish_range. destruct ns as [a|], ne as [b|]; auto.
  destruct (String.eqb a b) eqn:E; auto. intros H. cbn in H. rewrite orb_false_r in H.
  apply String.eqb_eq in H, E. subst. cbn. now rewrite !bleb_refl.
Qed.

(* the intersection of two ranges lies inside both *)
Lemma inter_range_inside ls le rs re k :
  wf (RRange ls le) -> wf (RRange rs re) ->
  covers (inter_range ls le rs re) k = true ->
  covers (RRange ls le) k = true /\ covers (RRange rs re) k = true.
Proof.
  intros W1 W2. unfold inter_range. rewrite (swap_bounds_wf _ _ W1), (swap_bounds_wf _ _ W2).
  destruct ls as [ls|], le as [le|], rs as [rs|], re as [re|];
    cbn [same_bound is_none in_range negb andb wf] in *;
    repeat break_if; intros H; try apply finish_range_complete in H;
    (split; fin).
Qed.

Lemma inter_mget_inside a b : region_sub (inter_mget a b) (RMget a).
Proof.
  intros k H. unfold inter_mget in H. rewrite mget_or_empty, mem_filter, dedup_mem in H.
  apply andb_true_iff in H. cbn. tauto.
Qed.

Lemma inter_mget_prefix_inside ks p : region_sub (inter_mget_prefix ks p) (RMget ks).
Proof.
  intros k H. unfold inter_mget_prefix in H. rewrite mget_or_empty, mem_filter in H.
  apply andb_true_iff in H. cbn. tauto.
Qed.

Lemma inter_mget_range_inside ks rs re : region_sub (inter_mget_range ks rs re) (RMget ks).
Proof.
  intros k H. unfold inter_mget_range in H. rewrite mget_or_empty, mem_filter in H.
  apply andb_true_iff in H. cbn. tauto.
Qed.

Lemma inter_prefix_inside lp rp :
  region_sub (inter_prefix lp rp) (RPrefix lp) \/ region_sub (inter_prefix lp rp) (RPrefix rp).
Proof.
  unfold inter_prefix. repeat break_if.
  - left. apply region_sub_refl.
  - right. apply region_sub_refl.
  - left. apply region_sub_refl.
  - left. apply region_sub_empty.
Qed.

(* prefix AND range: inside the prefix, or the range itself *)
Lemma inter_prefix_range_inside p rs re :
  wf (RRange rs re) ->
  region_sub (inter_prefix_range p rs re) (RPrefix p) \/
  region_sub (inter_prefix_range p rs re) (RRange rs re).
Proof.
  intros W. unfold inter_prefix_range. rewrite in_range_covers.
  destruct rs as [rs|], re as [re|]; repeat break_if;
    try (right; apply region_sub_refl); try (left; apply region_sub_refl);
    try (left; apply region_sub_empty).
  all: try (exfalso; pfin; fail).
  all: left; intros k H; cbn [covers mem existsb] in H.
  all: try (rewrite orb_false_r in H; apply String.eqb_eq in H; subst k; apply has_prefix_refl).
  all: apply andb_true_iff in H; destruct H as [H1 H2]; cbn [covers].
  all: match goal with
       | He : has_prefix ?p ?e = true |- has_prefix ?p ?k = true =>
           exact (prefix_convex p p e k (has_prefix_refl p) He H1 H2)
       end.
Qed.

Theorem and_regions_narrows l r :
  wf l -> wf r ->
  region_sub (and_regions l r) l \/ region_sub (and_regions l r) r.
Proof.
  intros Wl Wr.
  destruct l, r; cbn -[inter_range inter_prefix_range inter_mget inter_mget_prefix
                       inter_mget_range inter_prefix covers];
    try (left; apply region_sub_refl); try (right; apply region_sub_refl);
    try (left; apply region_sub_empty).
  - left. apply inter_mget_inside.
  - left. apply inter_mget_prefix_inside.
  - left. apply inter_mget_range_inside.
  - right. apply inter_mget_prefix_inside.
  - apply inter_prefix_inside.
  - now apply inter_prefix_range_inside.
  - right. apply inter_mget_range_inside.
  - destruct (inter_prefix_range_inside p lo hi Wl) as [H|H]; [right|left]; exact H.
  - left. intros k H. now apply (inter_range_inside lo hi lo0 hi0 k Wl Wr).
Qed.

Theorem optimize_and_narrows p o l r :
  o = OAnd \/ o = OKWAnd ->
  region_sub (optimize (EBin p o l r)) (optimize l) \/
  region_sub (optimize (EBin p o l r)) (optimize r).
Proof.
  intros [-> | ->]; cbn [optimize]; apply and_regions_narrows; apply optimize_wf.
Qed.

(* equality and IN over literals are point reads, also under a conjunction with a predicate
   that does not constrain the key *)
Theorem eq_is_point_read p p1 p2 lit :
  optimize (EBin p OEq (EField p1 KeyKW) (EStr p2 lit)) = RMget [lit] /\
  optimize (EBin p OEq (EStr p2 lit) (EField p1 KeyKW)) = RMget [lit].
Proof. split; reflexivity. Qed.

Lemma str_items_literals lits pos : str_items (map (fun l => EStr pos l) lits) = Some lits.
Proof. induction lits as [|x lits IH]; cbn; [reflexivity|]. now rewrite IH. Qed.

Theorem in_is_point_read p p1 p2 p3 lit lits :
  optimize (EBin p OIn (EField p1 KeyKW) (EList p2 (map (fun l => EStr p3 l) (lit :: lits))))
  = RMget (lit :: lits).
Proof. cbn [optimize opt_in]. rewrite str_items_literals. reflexivity. Qed.

Theorem point_read_survives_opaque ks q :
  optimize q = RFull ->
  and_regions (RMget ks) (optimize q) = RMget ks /\ and_regions (optimize q) (RMget ks) = RMget ks.
Proof. intros ->. split; reflexivity. Qed.

(* clauses that are unsatisfiable on their face read nothing *)
Theorem false_is_empty p : optimize (EBool p false) = REmpty.
Proof. reflexivity. Qed.

Theorem disjoint_equalities_empty a b : a <> b -> and_regions (RMget [a]) (RMget [b]) = REmpty.
Proof.
  intros H. cbn. unfold inter_mget. cbn.
  destruct (String.eqb a b) eqn:E; [apply String.eqb_eq in E; contradiction|]. reflexivity.
Qed.

Theorem disjoint_prefixes_empty p q :
  has_prefix p q = false -> has_prefix q p = false -> and_regions (RPrefix p) (RPrefix q) = REmpty.
Proof.
  intros H1 H2. cbn. unfold inter_prefix.
  destruct (String.eqb p q) eqn:E.
  - apply String.eqb_eq in E. subst. rewrite has_prefix_refl in H1. discriminate.
  - rewrite H1, H2, !andb_false_r. reflexivity.
Qed.

Theorem disjoint_ranges_empty lo hi :
  bltb hi lo = true ->
  and_regions (RRange (Some lo) None) (RRange None (Some hi)) = REmpty /\
  and_regions (RRange None (Some hi)) (RRange (Some lo) None) = REmpty.
Proof.
  intros H. cbn. unfold inter_range. cbn.
  assert (H' : bltb lo hi = false) by (apply bltb_false_iff; ord).
  rewrite H. cbn. rewrite ?H, ?H'. cbn. split; reflexivity.
Qed.
