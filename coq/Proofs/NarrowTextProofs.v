(* Proofs/NarrowTextProofs.v -- C02 AT TEXT LEVEL: for every SELECT text the front end accepts, the
   statement run over the access path buildScanPlan chose (Model/PipelineS.v select_stmt_text)
   returns what the SAME statement returns over a FullScanPlan with the same filter
   (Model/PipelineFull.v select_stmt_text_full), for every shape buildFinalPlan builds
   (projection, ORDER BY, LIMIT, aggregate with or without GROUP BY, pushed-down limit).

   1. Squeeze (abstract, Model/SelectPlans.v's run_shape_row over any filter / projection /
      aggregate observation): when the filter answers (true or false, no error) on every pair
      among the slots, the row drain of EVERY shape depends on the slots only through the
      sub-list of the accepted pairs:        run_shape_row s sh sl = run_shape_row s sh (sacc sl)
   2. Region: over a strictly sorted store the accepted pairs among the slots of the scan node
      of the inferred region are the accepted pairs of the whole store
      (ScanSlotsProofs.somes_scan_slots + PipelineProofs.filter_true_covered).
   3. Text: narrowed_text_eq_full_row (row mode: rows, values, order, errors -- equality of
      the two outcomes), narrowed_text_eq_full_batch_ok (batch mode, every batch size: when both
      drains complete the rows agree up to string / []byte [nrows]),
      narrowed_text_front_same (before any pair is read the two agree unconditionally). *)
From Coq Require Import List String ZArith Bool Arith Lia.
Import ListNotations.
From KV Require Import Base.Bytes Model.Ast Model.Value Model.Eval Model.EvalVec Model.Storage
                       Model.ScanIO Model.ScanSem Model.ScanProj Model.LimitLazy Model.AggregateLazy
                       Model.SelectPlans Model.FilterOpt Model.Pipeline Model.PipelineW Model.PipelineS
                       Model.PipelineFull.
From KV Require Model.Order Model.Limit Spec.Group.
From KV Require Import Proofs.ScanProjProofs Proofs.AggregateLazyProofs Proofs.StorageProofs
                       Proofs.ScanSemProofs Proofs.ScanSlotsProofs Proofs.SelectPlansProofs
                       Proofs.PipelineProofs Proofs.PipelineSProofs Proofs.BatchRowProofs.
Import KV.Model.Value.
Local Open Scope nat_scope.
Local Open Scope list_scope.

(* ================================================================ 0. pullers that commute with a
   map of their state (LimitLazy's skip / next / drain over such a puller commute too) *)
Section Commute.
Variable S A : Type.
Variable cnext : S -> res (option A * S).
Variable g : S -> S.
Variable I : S -> Prop.
Hypothesis Hc : forall s, I s -> cnext (g s) = (do x <- cnext s; Ok (fst x, g (snd x))).
Hypothesis Hi : forall s o r, I s -> cnext s = Ok (o, r) -> I r.

Lemma lskip_comm : forall n s, I s ->
  lskip cnext n (g s) = (do x <- lskip cnext n s; Ok (fst x, g (snd x)))
  /\ (forall y, lskip cnext n s = Ok y -> I (snd y)).
Proof.
  induction n as [|n IH]; intros s Hs; cbn [lskip].
  - split; [reflexivity|]. intros y H; inversion H; subst; exact Hs.
  - rewrite (Hc s Hs).
    destruct (cnext s) as [[o r]| | |] eqn:E; cbn [bind fst snd];
      try (split; [reflexivity|intros y H; discriminate]).
    pose proof (Hi s o r Hs E) as Hr.
    destruct o as [a|].
    + destruct (IH r Hr) as [IH1 IH2]. rewrite IH1.
      destruct (lskip cnext n r) as [[[k e] r']| | |] eqn:E2; cbn [bind fst snd];
        try (split; [reflexivity|intros y H; discriminate]).
      split; [reflexivity|]. intros y H; inversion H; subst; cbn [snd]. exact (IH2 _ eq_refl).
    + split; [reflexivity|]. intros y H; inversion H; subst; exact Hr.
Qed.

Lemma lnext_comm start count st s : I s ->
  lnext cnext start count st (g s) = (do x <- lnext cnext start count st s; Ok (fst x, g (snd x)))
  /\ (forall y, lnext cnext start count st s = Ok y -> I (snd y)).
Proof.
  intros Hs. unfold lnext. destruct (lskip_comm (start - Limit.skips st) s Hs) as [L1 L2]. rewrite L1.
  destruct (lskip cnext (start - Limit.skips st) s) as [[[k e] s1]| | |] eqn:E; cbn [bind fst snd];
    try (split; [reflexivity|intros y H; discriminate]).
  pose proof (L2 _ eq_refl) as H1; cbn [snd] in H1.
  destruct e; [split; [reflexivity|intros y H; inversion H; subst; exact H1]|].
  destruct (count <=? Limit.current st); [split; [reflexivity|intros y H; inversion H; subst; exact H1]|].
  rewrite (Hc s1 H1).
  destruct (cnext s1) as [[o r]| | |] eqn:E2; cbn [bind fst snd];
    try (split; [reflexivity|intros y H; discriminate]).
  pose proof (Hi _ _ _ H1 E2) as H2.
  destruct o; (split; [reflexivity|intros y H; inversion H; subst; exact H2]).
Qed.

Lemma ldrain_row_fuel_comm start count : forall fuel st s, I s ->
  ldrain_row_fuel cnext fuel start count st (g s) = ldrain_row_fuel cnext fuel start count st s.
Proof.
  induction fuel as [|f IH]; intros st s Hs; cbn [ldrain_row_fuel]; [reflexivity|].
  destruct (lnext_comm start count st s Hs) as [L1 L2]. rewrite L1.
  destruct (lnext cnext start count st s) as [[[o st'] s']| | |] eqn:E; cbn [bind fst snd]; try reflexivity.
  pose proof (L2 _ eq_refl) as H1; cbn [snd] in H1.
  destruct o; [|reflexivity]. rewrite (IH st' s' H1). reflexivity.
Qed.

Lemma ldrain_row_comm start count s : I s ->
  ldrain_row cnext start count (g s) = ldrain_row cnext start count s.
Proof. intros. unfold ldrain_row. now apply ldrain_row_fuel_comm. Qed.

End Commute.

(* ================================================================ 1. squeeze *)
Section Squeeze.
Variable P : Type.
Variable frow : P -> res bool.

(* the filter answers on every pair of the list *)
Definition fok (l : list P) : Prop := Forall (fun kv => exists b, frow kv = Ok b) l.
Definition accb (kv : P) : bool := match frow kv with Ok true => true | _ => false end.
(* the accepted pairs *)
Definition pacc (l : list P) : list P := filter accb l.
(* the slots squeezed to the accepted pairs *)
Definition sacc (sl : list (option P)) : list (option P) := map (@Some P) (pacc (somes sl)).

Lemma somes_map_some (l : list P) : somes (map (@Some P) l) = l.
Proof. induction l as [|a l IH]; cbn; congruence. Qed.

Lemma somes_sacc sl : somes (sacc sl) = pacc (somes sl).
Proof. apply somes_map_some. Qed.

Lemma fok_pacc l : fok (pacc l).
Proof.
  unfold fok, pacc. apply Forall_forall. intros kv H. apply filter_In in H. destruct H as [_ H].
  unfold accb in H. destruct (frow kv) as [[|]| | |]; try discriminate. eauto.
Qed.

Lemma fok_sacc sl : fok (somes (sacc sl)).
Proof. rewrite somes_sacc. apply fok_pacc. Qed.

Section Drains.
Variable R : Type.
Variable prow : P -> res R.

Lemma row_list_pacc : forall l, fok l -> row_list P R frow prow l = row_list P R frow prow (pacc l).
Proof.
  induction l as [|kv l IH]; intros H; [reflexivity|].
  inversion H as [|? ? [b Hb] Hl]; subst. cbn [pacc filter row_list]. unfold accb at 1. rewrite Hb. cbn [bind].
  destruct b.
  - cbn [row_list]. rewrite Hb. cbn [bind]. fold (pacc l). rewrite <- (IH Hl). reflexivity.
  - fold (pacc l). exact (IH Hl).
Qed.

Lemma drain_row_sacc sl : fok (somes sl) ->
  drain_row frow prow sl = drain_row frow prow (sacc sl).
Proof. intros H. rewrite !drain_row_spec, somes_sacc. now apply row_list_pacc. Qed.

Lemma scan_next_sacc : forall sl, fok (somes sl) ->
  exists o r, scan_next frow sl = Ok (o, r) /\ scan_next frow (sacc sl) = Ok (o, sacc r) /\ fok (somes r).
Proof.
  induction sl as [|[kv|] sl IH]; intros H.
  - exists None, []. repeat split; try reflexivity. constructor.
  - cbn [somes] in H. inversion H as [|? ? [b Hb] Hl]; subst. cbn [scan_next]. rewrite Hb. cbn [bind].
    destruct b.
    + exists (Some kv), sl. split; [reflexivity|]. split; [|exact Hl].
      unfold sacc. cbn [somes pacc filter]. unfold accb at 1. rewrite Hb. cbn [map scan_next]. rewrite Hb. reflexivity.
    + destruct (IH Hl) as (o & r & E1 & E2 & E3). exists o, r. split; [exact E1|]. split; [|exact E3].
      unfold sacc. cbn [somes pacc filter]. unfold accb at 1. rewrite Hb. exact E2.
  - cbn [somes] in H. destruct (IH H) as (o & r & E1 & E2 & E3). exists o, r. repeat split; assumption.
Qed.

Lemma proj_next_comm sl : fok (somes sl) ->
  proj_next frow prow (sacc sl) = (do x <- proj_next frow prow sl; Ok (fst x, sacc (snd x))).
Proof.
  intros H. destruct (scan_next_sacc sl H) as (o & r & E1 & E2 & _). unfold proj_next. rewrite E1, E2. cbn [bind].
  destruct o as [kv|]; [|reflexivity]. destruct (prow kv); reflexivity.
Qed.

Lemma proj_next_inv sl o r : fok (somes sl) -> proj_next frow prow sl = Ok (o, r) -> fok (somes r).
Proof.
  intros H E. destruct (scan_next_sacc sl H) as (o' & r' & E1 & _ & E3). unfold proj_next in E. rewrite E1 in E. cbn [bind] in E.
  destruct o' as [kv|].
  - destruct (prow kv); cbn [bind] in E; try discriminate. inversion E; subst. exact E3.
  - inversion E; subst. exact E3.
Qed.

Lemma ldrain_proj_sacc start count sl : fok (somes sl) ->
  ldrain_row (proj_next frow prow) start count sl = ldrain_row (proj_next frow prow) start count (sacc sl).
Proof.
  intros H. symmetry.
  apply (ldrain_row_comm _ _ (proj_next frow prow) sacc (fun s => fok (somes s))); [| |exact H].
  - intros s Hs. now apply proj_next_comm.
  - intros s o r Hs E. eapply proj_next_inv; eauto.
Qed.

End Drains.

Section SDrains.
Variable R T : Type.
Variable orow : T -> P -> res (R * T).

Lemma srow_list_pacc : forall l t, fok l -> srow_list P R T frow orow t l = srow_list P R T frow orow t (pacc l).
Proof.
  induction l as [|kv l IH]; intros t H; [reflexivity|].
  inversion H as [|? ? [b Hb] Hl]; subst. cbn [pacc filter srow_list]. unfold accb at 1. rewrite Hb. cbn [bind].
  destruct b.
  - cbn [srow_list]. rewrite Hb. cbn [bind]. fold (pacc l).
    destruct (orow t kv) as [[o t1]| | |]; cbn [bind fst snd]; try reflexivity.
    rewrite <- (IH t1 Hl). reflexivity.
  - fold (pacc l). exact (IH t Hl).
Qed.

Lemma sdrain_row_sacc t sl : fok (somes sl) ->
  sdrain_row frow orow t sl = sdrain_row frow orow t (sacc sl).
Proof. intros H. rewrite !sdrain_row_spec, somes_sacc. now apply srow_list_pacc. Qed.

End SDrains.

(* ---------------------------------------------------------------- the order node as a pulled child *)
Section OrderPull.
Variable crows : list (option P) -> res (list Order.row).
Variable pi pf : bytes -> option Z.
Variable ords : list Order.ofield.
Hypothesis Hcr : forall sl, fok (somes sl) -> crows (sacc sl) = crows sl.

Definition og (s : Order.ostate * list (option P)) : Order.ostate * list (option P) := (fst s, sacc (snd s)).
Definition oI (s : Order.ostate * list (option P)) : Prop := fok (somes (snd s)).

Lemma onext_comm s : oI s ->
  onext _ crows [] pi pf ords (og s) = (do x <- onext _ crows [] pi pf ords s; Ok (fst x, og (snd x))).
Proof.
  destruct s as [st c]. unfold oI, og. cbn [fst snd]. intros H. unfold onext.
  destruct (Order.total st =? 0).
  - rewrite (Hcr c H). destruct (crows c) as [rows| | |]; cbn [bind]; try reflexivity.
    destruct (Order.next pi pf ords st rows) as [[[r| |] st'] x]; reflexivity.
  - destruct (Order.next pi pf ords st []) as [[[r| |] st'] x]; reflexivity.
Qed.

Lemma onext_inv s o r : oI s -> onext _ crows [] pi pf ords s = Ok (o, r) -> oI r.
Proof.
  destruct s as [st c]. unfold oI. cbn [snd]. intros H. unfold onext.
  destruct (Order.total st =? 0).
  - destruct (crows c) as [rows| | |]; cbn [bind]; try discriminate.
    destruct (Order.next pi pf ords st rows) as [[[r0| |] st'] x]; intros E; inversion E; subst; cbn [snd]; constructor.
  - destruct (Order.next pi pf ords st []) as [[[r0| |] st'] x]; intros E; inversion E; subst; cbn [snd]; exact H.
Qed.

Lemma ord_limit_row_sacc start count sl : fok (somes sl) ->
  ord_limit_row _ crows [] pi pf ords start count sl = ord_limit_row _ crows [] pi pf ords start count (sacc sl).
Proof.
  intros H. unfold ord_limit_row. symmetry.
  change (Order.oinit, sacc sl) with (og (Order.oinit, sl)).
  apply (ldrain_row_comm _ _ (onext _ crows [] pi pf ords) og oI).
  - exact onext_comm.
  - exact onext_inv.
  - exact H.
Qed.

Lemma ord_row_sacc sl : fok (somes sl) ->
  ord_row _ crows pi pf ords sl = ord_row _ crows pi pf ords (sacc sl).
Proof. intros H. unfold ord_row. now rewrite (Hcr sl H). Qed.

End OrderPull.

(* ---------------------------------------------------------------- every shape *)
Section Shapes.
Variable prow : P -> res Order.row.
Variable fbatch : list P -> res (list bool).
Variable pbatch : list P -> res (list Order.row).
Variable F : Type.
Variable fadd fsub fmul fdiv : F -> F -> F.
Variable fltb : F -> F -> bool.
Variable fis0 : F -> bool.
Variable of_Z : Z -> F.
Variable to_Z : F -> Z.
Variable fmt_f : F -> bytes.
Variable bits_f : F -> bytes.
Variable json_f : F -> option bytes.
Variable parse_f : bytes -> option F.
Variable json_s : bytes -> bytes.
Variable T : Type.
Variable t0 : T.
Variable obs_row : Group.plan F -> T -> P -> res (Group.pobs F * T).
Variable obs_batch : Group.plan F -> T -> list P -> res (list (Group.pobs F) * T).
Variable aconv : list (Group.value F) -> Order.row.
Variable pi pf : bytes -> option Z.

Notation run_shape_row :=
  (run_shape_row P frow prow F fadd fsub fmul fdiv fltb fis0 of_Z to_Z fmt_f bits_f json_f parse_f json_s
                 T t0 obs_row aconv pi pf).
Notation agg_rows :=
  (agg_rows P frow F fadd fsub fmul fdiv fltb fis0 of_Z to_Z fmt_f bits_f json_f parse_f json_s T t0 obs_row aconv).
Notation proj_rows := (proj_rows P frow prow).

Lemma proj_rows_sacc sl : fok (somes sl) -> proj_rows (sacc sl) = proj_rows sl.
Proof. intros H. unfold SelectPlans.proj_rows. symmetry. now apply drain_row_sacc. Qed.

Lemma agg_rows_sacc p sl : fok (somes sl) -> agg_rows p (sacc sl) = agg_rows p sl.
Proof.
  intros H. unfold SelectPlans.agg_rows, SelectPlans.agg_row. now rewrite <- (sdrain_row_sacc _ _ _ t0 sl H).
Qed.

(* THE SQUEEZE: the row drain of every shape sees the slots only through the accepted pairs *)
Theorem run_shape_row_sacc (s : stmt F) (sh : shape) (sl : list (option P)) :
  fok (somes sl) -> run_shape_row s sh sl = run_shape_row s sh (sacc sl).
Proof.
  intros H. unfold SelectPlans.run_shape_row, with_ords.
  repeat match goal with
         | |- context [match ?x with _ => _ end] => destruct x
         end;
    try reflexivity;
    first [ symmetry; now apply proj_rows_sacc
          | symmetry; now apply agg_rows_sacc
          | now apply ldrain_proj_sacc
          | apply ord_row_sacc; [intros; first [now apply proj_rows_sacc | now apply agg_rows_sacc]|exact H]
          | apply ord_limit_row_sacc; [intros; first [now apply proj_rows_sacc | now apply agg_rows_sacc]|exact H] ].
Qed.

(* two slot lists with the same accepted pairs *)
Corollary run_shape_row_same_accepted (s : stmt F) (sh : shape) (sl sl' : list (option P)) :
  fok (somes sl) -> fok (somes sl') -> pacc (somes sl) = pacc (somes sl') ->
  run_shape_row s sh sl = run_shape_row s sh sl'.
Proof.
  intros H H' E. rewrite (run_shape_row_sacc s sh sl H), (run_shape_row_sacc s sh sl' H').
  unfold sacc. now rewrite E.
Qed.

End Shapes.
End Squeeze.

(* ================================================================ 2. the region *)
Section Region.
Variable fo : fops.
Variable re : bytes -> bytes -> res bool.

Notation frow_of w := (sel_frow fo re w).

(* the accepted pairs among the pairs of a region that covers what the filter accepts *)
Lemma pacc_region_slots (w : expr) (sc : scan) (d : store) :
  ssorted d -> keys_ok (PScan sc) ->
  (forall k, covers (FilterOpt.optimize w) k = true -> covers (region_of sc) k = true) ->
  pacc kvpair (frow_of w) (somes (scan_slots sc d)) = pacc kvpair (frow_of w) d.
Proof.
  intros S K Hc. rewrite (somes_scan_slots sc d S K). unfold pacc.
  apply FilterOptProofs.filter_filter_absorb. intros [k v] _ H. cbn [fst]. apply Hc.
  unfold accb, sel_frow in H. cbn [fst snd] in H.
  destruct (filter_row fo re k v w) as [[|]| | |] eqn:E; try discriminate H.
  exact (filter_true_covered fo re k v _ E).
Qed.

Lemma fok_region_slots (w : expr) (sc : scan) (d : store) :
  ssorted d -> keys_ok (PScan sc) ->
  (forall kv, In kv d -> exists b, frow_of w kv = Ok b) ->
  fok kvpair (frow_of w) (somes (scan_slots sc d)).
Proof.
  intros S K H. rewrite (somes_scan_slots sc d S K). unfold fok. apply Forall_forall.
  intros kv Hin. apply filter_In in Hin. exact (H kv (proj1 Hin)).
Qed.

(* narrowed scan node vs FullScanPlan: the same accepted pairs *)
Lemma narrowed_slots_same_accepted (w : expr) (d : store) :
  ssorted d ->
  pacc kvpair (frow_of w) (somes (scan_slots (scan_of_region (FilterOpt.optimize w)) d))
  = pacc kvpair (frow_of w) (somes (scan_slots SFull d)).
Proof.
  intros S. rewrite (pacc_region_slots w _ d S (keys_ok_scan_of_region _)).
  - rewrite (pacc_region_slots w SFull d S I); [reflexivity|]. intros; reflexivity.
  - intros k H. now rewrite covers_scan_of_region.
Qed.

End Region.

(* ================================================================ 3. the text *)
Section Text.
Variable fo : fops.
Variable re : bytes -> bytes -> res bool.
Variable fmt_v : F fo -> string.
Variable ag : aggops fo.
Variable pi pf : bytes -> option Z.

Notation plan_stmt_text := (plan_stmt_text fo re fmt_v).
Notation select_stmt_text := (select_stmt_text fo re fmt_v ag pi pf).
Notation select_stmt_text_full := (select_stmt_text_full fo re fmt_v ag pi pf).
Notation select_stmt_text_st := (select_stmt_text_st fo re fmt_v ag pi pf).
Notation select_stmt_text_full_st := (select_stmt_text_full_st fo re fmt_v ag pi pf).
Notation drain_planned := (drain_planned fo re ag pi pf).

(* FilterExec.Filter (over the FOLDED WHERE tree of the accepted text) answers true or false on
   every stored pair: no ExecuteError, no panic, inside the evaluator twin's fragment *)
Definition filter_answers (q : string) (d : store) : Prop :=
  forall pl, plan_stmt_text q = STOk pl ->
  forall kv, In kv d -> exists b, sel_frow fo re (q_where fo (sp_q fo pl)) kv = Ok b.

(* the two plans are built by the same BuildPlan: whatever happens before a pair is read
   (rejection with its position, AggregatePlan.Init's error, the model boundary) is the same,
   unconditionally; they differ in the scan node only *)
Theorem narrowed_text_front_same q d m :
  (forall pl, plan_stmt_text q <> STOk pl) ->
  select_stmt_text_st q d m = select_stmt_text_full_st q d m.
Proof.
  intros H. unfold PipelineS.select_stmt_text_st, PipelineFull.select_stmt_text_full_st.
  destruct (plan_stmt_text q) as [pl| | | | | | |]; try reflexivity. now elim (H pl).
Qed.

Lemma drain_row_narrowed_full pl d :
  ssorted d ->
  sp_scan fo pl = scan_of_region (FilterOpt.optimize (q_where fo (sp_q fo pl))) ->
  (forall kv, In kv d -> exists b, sel_frow fo re (q_where fo (sp_q fo pl)) kv = Ok b) ->
  drain_planned pl d MRow = drain_planned (with_full fo pl) d MRow.
Proof.
  intros S Es Hf. unfold PipelineS.drain_planned, PipelineS.run_mode, sp_shape, with_full. cbn [sp_q sp_scan].
  rewrite Es. unfold select_shape_row.
  apply run_shape_row_same_accepted.
  - apply fok_region_slots; [exact S|apply keys_ok_scan_of_region|exact Hf].
  - apply fok_region_slots; [exact S|exact I|exact Hf].
  - apply narrowed_slots_same_accepted. exact S.
Qed.

(* (b), ROW MODE: rows, values, order, errors (class and position) -- the two outcomes are EQUAL,
   for every shape *)
Theorem narrowed_text_eq_full_row_st q d :
  ssorted d -> filter_answers q d ->
  select_stmt_text_st q d MRow = select_stmt_text_full_st q d MRow.
Proof.
  intros S Hf. unfold PipelineS.select_stmt_text_st, PipelineFull.select_stmt_text_full_st.
  destruct (plan_stmt_text q) as [pl| | | | | | |] eqn:Ep; try reflexivity. cbn [stbind]. f_equal.
  destruct (plan_stmt_text_inv fo re fmt_v q pl Ep) as (_ & _ & Es & _).
  apply drain_row_narrowed_full; [exact S|exact Es|exact (Hf pl Ep)].
Qed.

Theorem narrowed_text_eq_full_row q d :
  ssorted d -> filter_answers q d ->
  select_stmt_text q d MRow = select_stmt_text_full q d MRow.
Proof.
  intros S Hf. unfold PipelineS.select_stmt_text, PipelineFull.select_stmt_text_full.
  now rewrite (narrowed_text_eq_full_row_st q d S Hf).
Qed.

(* (b), BATCH MODE, every batch size: when the two batch drains complete they return the same
   rows (up to string / []byte: [nrows], the normalisation of SelectPlansProofs.shape_batch_row).
   Premise of the batch/row theorem: no select field is a list literal (fields_ok).
   NOT proved in batch mode: equality of the ERRORS (false in general: the chunks of the two
   scans differ, and processProjectionBatch evaluates column by column over a chunk, so WHICH
   projection error comes first depends on the chunk boundaries), and "full completes =>
   narrowed completes". *)
Lemma text_full_run q d m rows :
  select_stmt_text_full q d m = TOk rows ->
  exists pl, plan_stmt_text q = STOk pl /\
             run_mode fo re ag pi pf m (sp_q fo pl) (sp_shape fo pl) (scan_slots SFull d) = Ok rows.
Proof.
  unfold PipelineFull.select_stmt_text_full, PipelineFull.select_stmt_text_full_st. intros H.
  apply to_tres_ok in H. apply stbind_ok in H. destruct H as (pl & Ep & H). apply of_drain_ok in H. eauto.
Qed.

Theorem narrowed_text_eq_full_batch_ok q d B rows rows' :
  1 <= B -> ssorted d -> filter_answers q d ->
  (forall pl, plan_stmt_text q = STOk pl -> fields_ok (q_fields fo (sp_q fo pl))) ->
  select_stmt_text q d (MBatch B) = TOk rows ->
  select_stmt_text_full q d (MBatch B) = TOk rows' ->
  nrows rows = nrows rows'.
Proof.
  intros HB S Hf Hok H H'.
  apply text_run in H. destruct H as (pl & Ep & H). cbn [PipelineS.run_mode] in H.
  apply text_full_run in H'. destruct H' as (pl' & Ep' & H'). rewrite Ep in Ep'. injection Ep' as <-.
  cbn [PipelineS.run_mode] in H'.
  destruct (select_shape_batch_row fo re ag pi pf B _ _ _ _ HB (Hok pl Ep) H) as (r & Er & En).
  destruct (select_shape_batch_row fo re ag pi pf B _ _ _ _ HB (Hok pl Ep) H') as (r' & Er' & En').
  destruct (plan_stmt_text_inv fo re fmt_v q pl Ep) as (_ & _ & Es & _).
  pose proof (drain_row_narrowed_full pl d S Es (Hf pl Ep)) as E.
  unfold PipelineS.drain_planned, PipelineS.run_mode, sp_shape, with_full in E. cbn [sp_q sp_scan] in E.
  unfold sp_shape in Er, Er'. rewrite Er, Er' in E. injection E as <-. congruence.
Qed.

End Text.
