(* Proofs/NoPanicAggrProofs.v -- Model/Aggregate.v and panics (C06).

   The aggregate twin has NO panic outcome, by construction:
     - the accumulators ([update], [complete]) and the arithmetic on results ([executeMathOp],
       [eval_aexpr]) are total functions; [None] is an execution ERROR returned by Go (division
       by zero, json.Marshal of NaN / Inf, an operand that is not a number), never a panic;
     - every type switch of aggr_func.go / aggregate_plan.go (convertToNumber, toString,
       convertToBytes, aggrKeyBytes) has a default arm; the twin's [value] is a closed inductive
       and the functions are total matches;
     - `a.aggrRows[a.pos]` is guarded by `a.pos >= len(a.aggrRows)` on the line before.
   The index sites that are NOT guarded by a test in Go are `col.Funcs[i]` (i ranges over
   col.FuncExprs, updateRowAggrFunc) and `col.FuncExprs[i]` (i ranges over col.Funcs, next /
   batch).  The twin models the two parallel slices as two lists walked together
   ([update_calls], mismatch = stop); below: in every group row that prepare / prepareBatch
   build, the two lists have the same length, so the index is in range and the twin's
   mismatch branch is never taken.  (`fields[j][i]` in batchGetAggrKeys is in range by
   NoPanicVecProofs.eval_batch_full_column; the evaluation of expressions is an oracle of
   this twin.) *)
From Coq Require Import List String ZArith Bool Arith Lia.
Import ListNotations.
From KV Require Import Base.Bytes Spec.Group Model.Limit Model.Aggregate.

Section AggrAligned.
Variable F : Type.
Variable fadd : F -> F -> F.
Variable fltb : F -> F -> bool.
Variable of_Z : Z -> F.
Variable to_Z : F -> Z.
Variable fmt_f : F -> bytes.
Variable bits_f : F -> bytes.
Variable parse_f : bytes -> option F.
Variable fix_key fix_minmax : bool.

Notation m_update_calls := (update_calls fadd fltb of_Z to_Z fmt_f parse_f fix_minmax).
Notation m_updateRow := (updateRowAggrFunc fadd fltb of_Z to_Z fmt_f parse_f fix_minmax).
Notation m_createRow := (createAggrRow of_Z fmt_f).
Notation m_step := (aggr_step fadd fltb of_Z to_Z fmt_f parse_f fix_minmax).
Notation m_prepare := (Aggregate.prepare fadd fltb of_Z to_Z fmt_f bits_f parse_f fix_key fix_minmax).
Notation m_prepareBatch := (prepareBatch fadd fltb of_Z to_Z fmt_f bits_f parse_f fix_key fix_minmax).
Notation m_prepare_chunk := (prepare_chunk fadd fltb of_Z to_Z fmt_f bits_f parse_f fix_key fix_minmax).

(* len(col.Funcs) = len(col.FuncExprs) *)
Definition col_aligned (c : col F) : Prop :=
  match c with
  | CKey _ => True
  | CAgg _ calls sts => List.length sts = List.length calls
  end.
Definition row_aligned (r : list (col F)) : Prop := Forall col_aligned r.
Definition rows_aligned (rows : aggr_rows F) : Prop := Forall (fun kr => row_aligned (snd kr)) rows.

Lemma update_calls_length : forall calls sts o,
  List.length (m_update_calls calls sts o) = List.length sts.
Proof.
  induction calls as [|c calls IH]; intros [|st sts] o; cbn [update_calls List.length]; auto.
Qed.

Lemma createAggrRow_aligned : forall p o, row_aligned (m_createRow p o).
Proof.
  intros p o. unfold row_aligned, createAggrRow. apply Forall_map. apply Forall_forall.
  intros f _. destruct f; cbn; [exact I|apply map_length].
Qed.

Lemma updateRow_aligned : forall row o, row_aligned row -> row_aligned (m_updateRow row o).
Proof.
  intros row o H. unfold row_aligned, updateRowAggrFunc. apply Forall_map.
  eapply Forall_impl; [|exact H]. intros c Hc. destruct c; cbn in *; [exact I|].
  rewrite update_calls_length. exact Hc.
Qed.

Lemma lookup_aligned : forall k rows r, rows_aligned rows -> lookup k rows = Some r -> row_aligned r.
Proof.
  induction rows as [|[k' r'] rows IH]; intros r H E; cbn [lookup] in E; [discriminate|].
  inversion H; subst. destruct (String.eqb k' k); [injection E as <-; assumption|eauto].
Qed.

Lemma replace_aligned : forall k r rows, rows_aligned rows -> row_aligned r -> rows_aligned (replace k r rows).
Proof.
  induction rows as [|[k' r'] rows IH]; intros H Hr; cbn [replace]; [constructor|].
  inversion H; subst. destruct (String.eqb k' k); constructor; auto. apply IH; assumption.
Qed.

Lemma aggr_step_aligned : forall p rows key o, rows_aligned rows -> rows_aligned (m_step p rows key o).
Proof.
  intros p rows key o H. unfold aggr_step.
  destruct (lookup key rows) as [row|] eqn:E.
  - apply replace_aligned; [exact H|]. apply updateRow_aligned. eapply lookup_aligned; eauto.
  - apply Forall_app. split; [exact H|]. constructor; [|constructor].
    cbn [snd]. apply updateRow_aligned, createAggrRow_aligned.
Qed.

Lemma fold_step_aligned : forall (A : Type) (f : aggr_rows F -> A -> aggr_rows F) (l : list A) rows,
  (forall rows a, rows_aligned rows -> rows_aligned (f rows a)) ->
  rows_aligned rows -> rows_aligned (fold_left f l rows).
Proof. induction l as [|a l IH]; intros rows Hf H; cbn [fold_left]; auto. Qed.

(* every group row built in row mode *)
Theorem prepare_aligned : forall p pairs, rows_aligned (m_prepare p pairs).
Proof.
  intros p pairs. unfold Aggregate.prepare. apply fold_step_aligned; [|constructor].
  intros rows o H. apply aggr_step_aligned. exact H.
Qed.

(* ... and in batch mode *)
Theorem prepareBatch_aligned : forall p chunks, rows_aligned (m_prepareBatch p chunks).
Proof.
  intros p chunks. unfold prepareBatch. apply fold_step_aligned; [|constructor].
  intros rows chunk H. unfold prepare_chunk. apply fold_step_aligned; [|exact H].
  intros rows' ko H'. apply aggr_step_aligned. exact H'.
Qed.

End AggrAligned.
