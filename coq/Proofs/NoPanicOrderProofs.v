(* Proofs/NoPanicOrderProofs.v -- panic outcomes of the ORDER BY and aggregate twins (C06).

   Model/Order.v has ONE kind of panic outcome: heap.Pop on an empty heap ([NPanic] from [next],
   [None] from [batch_loop] / [batch]): container/heap indexes h[n-1] with n = 0.  It is guarded
   in Go by `p.pos < p.total`; what makes the guard sufficient is the invariant
   len(heap) + pos = total ([OrderProofs.inv]), established by Init ([oinit]) and preserved by
   prepare / prepareBatch (every push increments total) and by every pop (pos++).  Here:
   [order_next_never_panics], [order_batch_never_panics] -- for EVERY child (any rows, any
   batches, also empty batches in the middle), every ORDER BY list and every batch size.

   The comparison functions (compare, compareBytes, compareNumber, compareBool, Less) have no
   panic outcome BY CONSTRUCTION in the twin after the fix for D16: their result type is
   [comparison] / [bool], every dynamic type dispatch is a total match with an `incomparable
   = equal` default, exactly like the comma-ok assertions of the fixed Go code.  (The pinned
   code asserted the right operand to the left operand's dynamic type:
   [compare_number_pinned] / [compare_bytes_pinned] return None, see
   OrderProofs.pinned_compare_number_panics.)

   Index sites of order_plan.go that the twin models with a default instead of a Panic
   outcome, and why the default is unreachable: `p.FieldTypes[idx]` (Init) and `l.cols[oidx]`
   (Less) -- idx is a position found in p.FieldNames ([init_orders_in_range]), so both are in
   range whenever the child yields rows with one column per field name and FieldTypes has one
   entry per field name (how Optimizer.buildFinalOrderPlan builds the node).

   Model/Aggregate.v has NO panic outcome by construction: [option] results are execution
   errors (division by zero, json.Marshal of NaN), values are a closed inductive (the type
   switches of aggr_func.go all have a default), accumulators are total.  Its index sites
   `col.Funcs[i]` / `col.FuncExprs[i]` (i ranging over the other slice) are modelled by
   [update_calls] on two lists; [prepare_aligned] shows the two lists always have the same
   length, i.e. the mismatch branch of the twin (and the index panic in Go) is unreachable. *)
From Coq Require Import List String ZArith Bool Arith Lia.
Import ListNotations.
From KV Require Import Base.Bytes Model.Ast Model.Order Proofs.OrderProofs.
Local Open Scope list_scope.

Section OrderNoPanic.
Variable parse_int parse_float : bytes -> option Z.
Variable ords : list ofield.

Local Notation next := (next parse_int parse_float ords).
Local Notation batch := (batch parse_int parse_float ords).
Local Notation batch_loop := (batch_loop parse_int parse_float ords).

Lemma inv_oinit : inv oinit.
Proof. reflexivity. Qed.

Lemma inv_prepare : forall (child : list row) st, inv st -> inv (fst (prepare st child)).
Proof.
  intros child st H. rewrite prepare_spec. unfold inv in *. cbn [fst sorted pos total].
  rewrite app_length. lia.
Qed.

Lemma inv_fold_push : forall (b : list row) st, inv st -> inv (fold_left push_row b st).
Proof.
  intros b st H. rewrite fold_push_spec. unfold inv in *. cbn [sorted pos total].
  rewrite app_length. lia.
Qed.

(* also when the child hands out an empty batch before it is exhausted *)
Lemma inv_prepare_batch : forall (bs : list (list row)) st, inv st -> inv (fst (prepare_batch st bs)).
Proof.
  induction bs as [|b bs IH]; intros st H; cbn [prepare_batch]; [exact H|].
  destruct (List.length b =? 0)%nat; [exact H|]. apply IH. apply inv_fold_push. exact H.
Qed.

(* Next never pops an empty heap *)
Theorem order_next_never_panics : forall st child, inv st ->
  fst (fst (next st child)) <> NPanic /\ inv (snd (fst (next st child))).
Proof.
  intros st child H. unfold Order.next.
  set (pr := if (total st =? 0)%nat then prepare st child else (st, child)).
  assert (H1 : inv (fst pr)).
  { unfold pr. destruct (total st =? 0)%nat; [apply inv_prepare; exact H|exact H]. }
  destruct pr as [st1 child1]. cbn [fst] in H1. unfold inv in H1.
  destruct (Nat.ltb_spec (pos st1) (total st1)) as [Hlt|Hge].
  - destruct (sorted st1) as [|x q] eqn:Eq; [cbn [List.length] in H1; lia|].
    cbn [pq_pop]. destruct (pop_min (lessf parse_int parse_float ords) x q) as [m rest] eqn:E.
    cbn [fst snd]. split; [discriminate|].
    pose proof (pop_min_length _ _ _ _ _ _ E) as Hl.
    unfold inv. cbn [sorted pos total List.length] in *. lia.
  - cbn [fst snd]. split; [discriminate|exact H1].
Qed.

(* Batch never pops an empty heap *)
Theorem order_batch_never_panics : forall B st child, inv st ->
  exists ret st' child', batch B st child = Some (ret, st', child') /\ inv st'.
Proof.
  intros B st child H. unfold Order.batch.
  set (pr := if (total st =? 0)%nat then prepare_batch st child else (st, child)).
  assert (H1 : inv (fst pr)).
  { unfold pr. destruct (total st =? 0)%nat; [apply inv_prepare_batch; exact H|exact H]. }
  destruct pr as [st1 child1]. cbn [fst] in H1.
  destruct (batch_loop_spec parse_int parse_float ords (total st1 - pos st1) B st1 [] 0 H1)
    as (taken & st' & E & Hinv & _).
  { unfold inv in H1. lia. }
  rewrite E. exists ([] ++ taken), st', child1. split; [reflexivity|exact Hinv].
Qed.

(* every state reachable from Init by Next / Batch calls satisfies the invariant *)
Inductive reachable : ostate -> Prop :=
  | R_init : reachable oinit
  | R_next : forall st child, reachable st -> reachable (snd (fst (next st child)))
  | R_batch : forall B st child ret st' child',
      reachable st -> batch B st child = Some (ret, st', child') -> reachable st'.

Lemma reachable_inv : forall st, reachable st -> inv st.
Proof.
  induction 1 as [|st child _ IH|B st child ret st' child' _ IH E].
  - exact inv_oinit.
  - apply order_next_never_panics. exact IH.
  - destruct (order_batch_never_panics B st child IH) as (r & s & c & E' & Hs).
    rewrite E in E'. injection E' as -> -> ->. exact Hs.
Qed.

Corollary order_plan_never_panics : forall st, reachable st ->
  (forall child, fst (fst (next st child)) <> NPanic) /\
  (forall B child, batch B st child <> None).
Proof.
  intros st Hr. apply reachable_inv in Hr. split.
  - intros child. apply order_next_never_panics. exact Hr.
  - intros B child. destruct (order_batch_never_panics B st child Hr) as (r & s & c & E & _).
    rewrite E. discriminate.
Qed.

End OrderNoPanic.

(* the drains: never None (None = panic or out of fuel) *)
Lemma order_drain_row_total : forall parse_int parse_float ords child,
  drain_row parse_int parse_float ords child <> None.
Proof. intros. rewrite drain_row_eq. discriminate. Qed.

Lemma order_drain_batch_total : forall parse_int parse_float ords B bs, Forall nonempty bs ->
  drain_batch parse_int parse_float ords B bs <> None.
Proof.
  intros pi pf ords B bs H. destruct (drain_batch_eq pi pf ords B bs H) as (outs & E & _).
  rewrite E. discriminate.
Qed.

(* ------------------------------------------------------------------ index sites of Init / Less *)

Lemma find_order_idx_range : forall names fname i idx,
  find_order_idx names fname i = Some idx -> i <= idx < i + List.length names.
Proof.
  induction names as [|fn names IH]; intros fname i idx H; cbn [find_order_idx] in H; [discriminate|].
  destruct (String.eqb fname fn).
  - injection H as <-. cbn [List.length]. lia.
  - apply IH in H. cbn [List.length]. lia.
Qed.

(* every orderPos[i] is a valid index into FieldNames: p.FieldTypes[idx] and l.cols[oidx] are in
   range for types / rows with one entry per field name *)
Lemma init_orders_in_range : forall orders names types ofs,
  init_orders orders names types = Some ofs ->
  Forall (fun o => opos o < List.length names) ofs.
Proof.
  induction orders as [|o orders IH]; intros names types ofs H; cbn [init_orders] in H.
  - injection H as <-. constructor.
  - destruct (find_order_idx names (of_name o) 0) as [idx|] eqn:E; [|discriminate].
    destruct (init_orders orders names types) as [rest|] eqn:E2; [|discriminate].
    injection H as <-. constructor; [|eapply IH; exact E2].
    cbn [opos]. apply find_order_idx_range in E. lia.
Qed.
