(* Proofs/NoPanicPlanProofs.v -- the plan layer twin Model/ScanIO.v never ends in [EPanic] (C06).

   The [Fail EPanic] branches of the twin are the places where the Go plan nodes would
   dereference a nil iterator (FullScanPlan / PrefixScanPlan / RangeScanPlan .Next / .Batch
   before a successful Init: `p.iter.Next()` on a nil interface) or where a plan node would be
   driven with the state of a different node (cannot happen in Go by typing; in the twin the
   state is a separate tree).  They are unreachable: the state a statement starts from has the
   shape of its plan ([pshape] / [fshape]), Init turns a shaped state into an initialised one
   ([pwf] / [fwf]: every cursor scan holds an iterator), and Next / Batch of every node preserve
   initialisedness -- for EVERY answer the storage may give (the calculus [np] quantifies over
   all answers, so it does not depend on the reference storage), every filter, group key,
   batch size (also 0) and fuel.  A failing Init ends the program with the storage error, so an
   uninitialised state is never polled.

   Together with Proofs/ScanIOFuel.v (no EFuel) a statement run ends in rows, EStorage (the
   injected fault) or ESyntax (rejected statement), nothing else. *)
From Coq Require Import List String Bool Arith Lia.
Import ListNotations.
From KV Require Import Base.Bytes Model.Storage Model.ScanIO Proofs.ScanIOProofs Proofs.ScanIOFuel.

Set Implicit Arguments.
Local Open Scope list_scope.
Local Open Scope nat_scope.

(* ------------------------------------------------------------------ the calculus *)

(* [np p Q]: whatever the instructions answer, what [p] returns satisfies [Q], and if [p] ends
   by itself (not by a storage error) it is by running out of fuel or by rejecting the
   statement -- in particular not with EPanic *)
Definition own_failure (e : err) : Prop := e = EFuel \/ e = ESyntax.

Fixpoint np (I : Type -> Type) (A : Type) (p : prog I A) (Q : A -> Prop) : Prop :=
  match p with
  | Ret a => Q a
  | Fail e => own_failure e
  | Op q k => forall r, np (k r) Q
  end.

Lemma np_bind : forall (I : Type -> Type) (A C : Type) (p : prog I A) (f : A -> prog I C) (Q : C -> Prop),
  np p (fun a => np (f a) Q) -> np (bind p f) Q.
Proof. induction p as [a|e|R q k IH]; intros f Q H; cbn [bind np] in *; auto. Qed.

Lemma np_mono : forall (I : Type -> Type) (A : Type) (p : prog I A) (Q Q' : A -> Prop),
  (forall a, Q a -> Q' a) -> np p Q -> np p Q'.
Proof. induction p as [a|e|R q k IH]; intros Q Q' HQ H; cbn [np] in *; eauto. Qed.

Lemma np_lift : forall (I J : Type -> Type) (inj : forall R, I R -> J R) (A : Type) (p : prog I A) (Q : A -> Prop),
  np p Q -> np (lift inj p) Q.
Proof. induction p as [a|e|R q k IH]; intros Q H; cbn [lift np] in *; auto. Qed.

Lemma np_rd : forall (A : Type) (p : rprog A) (Q : A -> Prop), np p Q -> np (rd p) Q.
Proof. intros. unfold rd. apply np_lift. assumption. Qed.

Lemma np_op : forall (I : Type -> Type) (R : Type) (q : I R) (Q : R -> Prop),
  (forall r, Q r) -> np (Op q (fun r => Ret r)) Q.
Proof. intros I R q Q H r. apply H. Qed.

(* soundness: the storage itself answers with a value or with EStorage *)
Lemma np_sound : forall (A : Type) (p : wprog A) (Q : A -> Prop) (s : sstate),
  np p Q ->
  match fst (run exec_req p s) with
  | Ok a => Q a
  | Err e => e = EStorage \/ own_failure e
  end.
Proof.
  induction p as [a|e|R q k IH]; intros Q s H; cbn [run np fst] in *; auto.
  rewrite exec_req_spec. destruct (faulted s); cbn [fst]; [left; reflexivity|].
  apply IH. apply H.
Qed.

(* ------------------------------------------------------------------ shapes and initialised states *)

(* the state tree matches the plan tree *)
Fixpoint pshape (p : plan) (st : pstate) : Prop :=
  match p, st with
  | PScan _, PSScan _ _ _ => True
  | PLimit _ _ c, PSLimit _ _ cst => pshape c cst
  | _, _ => False
  end.

Definition scan_ready (sc : scan) (it : option cursor) : Prop :=
  match sc with
  | SEmpty | SMget _ => True
  | _ => it <> None
  end.

(* ... and every cursor scan holds an iterator (Init succeeded) *)
Fixpoint pwf (p : plan) (st : pstate) : Prop :=
  match p, st with
  | PScan sc, PSScan it _ _ => scan_ready sc it
  | PLimit _ _ c, PSLimit _ _ cst => pwf c cst
  | _, _ => False
  end.

Fixpoint fshape (f : fplan) (st : fstate) : Prop :=
  match f, st with
  | FProj c, FSProj cst => pshape c cst
  | FAggr c _ _ _, FSAggr cst _ _ _ _ _ => pshape c cst
  | FOrder c, FSOrder cst _ _ => fshape c cst
  | FLimit _ _ c, FSLimit _ _ cst => fshape c cst
  | _, _ => False
  end.

Fixpoint fwf (f : fplan) (st : fstate) : Prop :=
  match f, st with
  | FProj c, FSProj cst => pwf c cst
  | FAggr c _ _ _, FSAggr cst _ _ _ _ _ => pwf c cst
  | FOrder c, FSOrder cst _ _ => fwf c cst
  | FLimit _ _ c, FSLimit _ _ cst => fwf c cst
  | _, _ => False
  end.

Lemma pshape0 : forall p, pshape p (pstate0 p).
Proof. induction p as [sc|start count c IH]; cbn; auto. Qed.

Lemma fshape0 : forall f, fshape f (fstate0 f).
Proof. induction f as [c|c all start limit|c IH|start count c IH]; cbn; auto using pshape0. Qed.

Lemma pwf_shape : forall p st, pwf p st -> pshape p st.
Proof.
  induction p as [sc|start count c IH]; intros [it idx ended|sk cur cst] H; cbn in *; auto.
Qed.

Lemma fwf_shape : forall f st, fwf f st -> fshape f st.
Proof.
  induction f as [c|c all start limit|c IH|start count c IH]; intros st H; destruct st; cbn in *;
    auto using pwf_shape.
Qed.

Section NoPanicPlan.
Variable remember_end : bool.
Variable flt : kvp -> bool.
Variable gkey : kvp -> bytes.
Variable B : nat.
Variable fuel : nat.

Definition anyr (A : Type) : A -> Prop := fun _ => True.

(* ------------------------------------------------------------------ scans *)

Lemma cursor_next_loop_np : forall sc snap rest,
  np (cursor_next_loop flt sc snap rest) (@anyr _).
Proof.
  intros sc snap rest. induction rest as [|kv rest IH]; cbn [cursor_next_loop].
  - apply np_bind, np_op. intros r. exact I.
  - apply np_bind, np_op. intros r.
    destruct (scan_stop sc kv); [exact I|]. destruct (flt kv); [exact I|]. exact IH.
Qed.

Lemma mget_next_loop_np : forall keys idx,
  np (mget_next_loop flt keys idx) (@anyr _).
Proof.
  induction keys as [|k keys IH]; intros idx; cbn [mget_next_loop]; [exact I|].
  apply np_bind, np_op. intros [v|]; [|apply IH].
  destruct (flt (k, v)); [exact I|apply IH].
Qed.

Lemma scan_next_np : forall sc st,
  pwf (PScan sc) st ->
  np (scan_next remember_end flt sc st) (fun x => pwf (PScan sc) (snd x)).
Proof.
  intros sc st H. destruct st as [it idx ended|sk cur cst]; [|contradiction]. cbn [pwf] in H.
  assert (Hcur : forall sc', scan_ready sc' it -> (sc' <> SEmpty) -> (forall ks, sc' <> SMget ks) ->
            np (if scan_remembers remember_end sc' && ended then Ret (None, PSScan it idx ended)
                else match it with
                     | None => Fail EPanic
                     | Some c =>
                         bind (cursor_next_loop flt sc' (csnap c) (crest c))
                           (fun x => match x with (r, c') =>
                              Ret (r, PSScan (Some c') idx (match r with None => true | Some _ => false end)) end)
                     end)
               (fun x => pwf (PScan sc') (snd x))).
  { intros sc' Hr He Hm.
    assert (Hit : it <> None).
    { destruct sc'; try exact Hr; [exfalso; apply He; reflexivity|exfalso; eapply Hm; reflexivity]. }
    destruct (scan_remembers remember_end sc' && ended); [cbn; exact Hr|].
    destruct it as [c|]; [|exfalso; apply Hit; reflexivity].
    apply np_bind. eapply np_mono; [|apply cursor_next_loop_np].
    intros [r c'] _. cbn [np snd pwf].
    destruct sc'; cbn; try exact I; discriminate. }
  destruct sc as [| |p|lo hi|keys]; cbn [scan_next].
  - exact I.
  - apply Hcur; [exact H|discriminate|discriminate].
  - apply Hcur; [exact H|discriminate|discriminate].
  - apply Hcur; [exact H|discriminate|discriminate].
  - apply np_bind. eapply np_mono; [|apply mget_next_loop_np].
    intros [r idx'] _. exact I.
Qed.

Lemma cursor_read_chunk_np : forall sc n snap rest acc,
  np (cursor_read_chunk sc n snap rest acc) (@anyr _).
Proof.
  intros sc n. induction n as [|n IH]; intros snap rest acc; cbn [cursor_read_chunk]; [exact I|].
  destruct rest as [|kv rest].
  - apply np_bind, np_op. intros r. exact I.
  - apply np_bind, np_op. intros r. destruct (scan_stop sc kv); [exact I|apply IH].
Qed.

Lemma cursor_batch_loop_np : forall f sc c ret,
  np (cursor_batch_loop flt B f sc c ret) (@anyr _).
Proof.
  induction f as [|f IH]; intros sc c ret; cbn [cursor_batch_loop]; [left; reflexivity|].
  apply np_bind. eapply np_mono; [|apply cursor_read_chunk_np].
  intros [[chunk c'] fin] _.
  match goal with |- np (if ?b then _ else _) _ => destruct b end; [exact I|apply IH].
Qed.

Lemma mget_read_chunk_np : forall n keys idx acc,
  np (mget_read_chunk n keys idx acc) (@anyr _).
Proof.
  induction n as [|n IH]; intros keys idx acc; cbn [mget_read_chunk]; [exact I|].
  destruct keys as [|k keys]; [exact I|].
  apply np_bind, np_op. intros [v|]; apply IH.
Qed.

Lemma mget_batch_loop_np : forall f keys idx ret,
  np (mget_batch_loop flt B f keys idx ret) (@anyr _).
Proof.
  induction f as [|f IH]; intros keys idx ret; cbn [mget_batch_loop]; [left; reflexivity|].
  apply np_bind. eapply np_mono; [|apply mget_read_chunk_np].
  intros [[[chunk keys'] idx'] fin] _.
  match goal with |- np (if ?b then _ else _) _ => destruct b end; [exact I|apply IH].
Qed.

Lemma scan_batch_np : forall sc st,
  pwf (PScan sc) st ->
  np (scan_batch remember_end flt B fuel sc st) (fun x => pwf (PScan sc) (snd x)).
Proof.
  intros sc st H. destruct st as [it idx ended|sk cur cst]; [|contradiction]. cbn [pwf] in H.
  assert (Hcur : forall sc', scan_ready sc' it -> (sc' <> SEmpty) -> (forall ks, sc' <> SMget ks) ->
            np (if scan_remembers remember_end sc' && ended then Ret ([], PSScan it idx ended)
                else match it with
                     | None => Fail EPanic
                     | Some c =>
                         bind (cursor_batch_loop flt B fuel sc' c [])
                           (fun x => match x with (rows, c', fin) => Ret (rows, PSScan (Some c') idx fin) end)
                     end)
               (fun x => pwf (PScan sc') (snd x))).
  { intros sc' Hr He Hm.
    assert (Hit : it <> None).
    { destruct sc'; try exact Hr; [exfalso; apply He; reflexivity|exfalso; eapply Hm; reflexivity]. }
    destruct (scan_remembers remember_end sc' && ended); [cbn; exact Hr|].
    destruct it as [c|]; [|exfalso; apply Hit; reflexivity].
    apply np_bind. eapply np_mono; [|apply cursor_batch_loop_np].
    intros [[rows c'] fin] _. cbn [np snd pwf].
    destruct sc'; cbn; try exact I; discriminate. }
  destruct sc as [| |p|lo hi|keys]; cbn [scan_batch].
  - exact I.
  - apply Hcur; [exact H|discriminate|discriminate].
  - apply Hcur; [exact H|discriminate|discriminate].
  - apply Hcur; [exact H|discriminate|discriminate].
  - apply np_bind. eapply np_mono; [|apply mget_batch_loop_np].
    intros [rows idx'] _. exact I.
Qed.

Lemma scan_init_np : forall sc st,
  pshape (PScan sc) st -> np (scan_init sc st) (pwf (PScan sc)).
Proof.
  intros sc st H. destruct st as [it idx ended|sk cur cst]; [|contradiction].
  destruct sc as [| |p|lo hi|keys]; cbn [scan_init].
  - exact I.
  - apply np_bind, np_op. intros c. apply np_bind, np_op. intros c'. cbn. discriminate.
  - apply np_bind, np_op. intros c. apply np_bind, np_op. intros c'. cbn. discriminate.
  - apply np_bind, np_op. intros c. destruct lo as [k|].
    + apply np_bind, np_op. intros c'. cbn. discriminate.
    + cbn. discriminate.
  - exact I.
Qed.

(* ------------------------------------------------------------------ the limit code *)

Section LimitNP.
Variables (I : Type -> Type) (X St : Type).
Variable child_next : St -> prog I (option X * St).
Variable child_batch : St -> prog I (list X * St).
Variable Inv : St -> Prop.
Hypothesis Hnext : forall cs, Inv cs -> np (child_next cs) (fun x => Inv (snd x)).
Hypothesis Hbatch : forall cs, Inv cs -> np (child_batch cs) (fun x => Inv (snd x)).

Lemma limit_skip_rows_np : forall f start skips cs,
  Inv cs ->
  np (limit_skip_rows child_next f start skips cs) (fun x => match x with (_, _, cs') => Inv cs' end).
Proof.
  induction f as [|f IH]; intros start skips cs Hi; cbn [limit_skip_rows].
  - destruct (skips <? start); [left; reflexivity|exact Hi].
  - destruct (skips <? start); [|exact Hi].
    apply np_bind. eapply np_mono; [|apply Hnext; exact Hi].
    intros [r cs'] Hx. cbn [snd] in Hx. destruct r as [x|]; [apply IH; exact Hx|exact Hx].
Qed.

Lemma limit_next_np : forall start count skips current cs,
  Inv cs ->
  np (limit_next fuel child_next start count skips current cs)
     (fun x => match x with (_, (_, _, cs')) => Inv cs' end).
Proof.
  intros start count skips current cs Hi. unfold limit_next.
  apply np_bind. eapply np_mono; [|apply limit_skip_rows_np; exact Hi].
  intros [[ok sk'] cs'] Hx.
  destruct (negb ok); [exact Hx|]. destruct (count <=? current); [exact Hx|].
  apply np_bind. eapply np_mono; [|apply Hnext; exact Hx].
  intros [r cs''] Hy. cbn [snd] in Hy. destruct r; exact Hy.
Qed.

Lemma limit_skip_batches_np : forall f start skips cs,
  Inv cs ->
  np (limit_skip_batches child_batch f start skips cs) (fun x => match x with (_, _, cs') => Inv cs' end).
Proof.
  induction f as [|f IH]; intros start skips cs Hi; cbn [limit_skip_batches].
  - destruct (skips <? start); [left; reflexivity|exact Hi].
  - destruct (skips <? start); [|exact Hi].
    apply np_bind. eapply np_mono; [|apply Hbatch; exact Hi].
    intros [rows cs'] Hx. cbn [snd] in Hx.
    destruct (List.length rows =? 0); [exact Hx|].
    destruct (List.length rows <=? start - skips); [apply IH; exact Hx|exact Hx].
Qed.

Lemma limit_fill_np : forall f count current ret cs,
  Inv cs ->
  np (limit_fill B child_batch f count current ret cs) (fun x => match x with (_, _, cs') => Inv cs' end).
Proof.
  induction f as [|f IH]; intros count current ret cs Hi; cbn [limit_fill]; [left; reflexivity|].
  apply np_bind. eapply np_mono; [|apply Hbatch; exact Hi].
  intros [rows cs'] Hx. cbn [snd] in Hx.
  destruct rows as [|r0 rows]; [exact Hx|].
  match goal with |- np (if ?b then _ else _) _ => destruct b end; [exact Hx|].
  match goal with |- np (if ?b then _ else _) _ => destruct b end; [exact Hx|].
  apply IH. exact Hx.
Qed.

Lemma limit_batch_np : forall start count skips current cs,
  Inv cs ->
  np (limit_batch B fuel child_batch start count skips current cs)
     (fun x => match x with (_, (_, _, cs')) => Inv cs' end).
Proof.
  intros start count skips current cs Hi. unfold limit_batch.
  apply np_bind. eapply np_mono; [|apply limit_skip_batches_np; exact Hi].
  intros [[orows sk'] cs'] Hx.
  destruct orows as [rows|]; [|exact Hx].
  match goal with |- np (if ?b then _ else _) _ => destruct b end; [exact Hx|].
  apply np_bind. eapply np_mono; [|apply limit_fill_np; exact Hx].
  intros [[ret cur''] cs''] Hy. exact Hy.
Qed.

End LimitNP.

(* ------------------------------------------------------------------ kvql.Plan *)

Lemma plan_next_np : forall p st,
  pwf p st -> np (plan_next remember_end flt fuel p st) (fun x => pwf p (snd x)).
Proof.
  induction p as [sc|start count c IH]; intros st H; cbn [plan_next].
  - apply scan_next_np. exact H.
  - destruct st as [it idx ended|sk cur cst]; [contradiction|]. cbn [pwf] in H.
    apply np_bind.
    eapply np_mono; [|apply (limit_next_np (plan_next remember_end flt fuel c) (pwf c) IH); exact H].
    intros [r [[sk' cur'] cst']] Hx. exact Hx.
Qed.

Lemma plan_batch_np : forall p st,
  pwf p st -> np (plan_batch remember_end flt B fuel p st) (fun x => pwf p (snd x)).
Proof.
  induction p as [sc|start count c IH]; intros st H; cbn [plan_batch].
  - apply scan_batch_np. exact H.
  - destruct st as [it idx ended|sk cur cst]; [contradiction|]. cbn [pwf] in H.
    apply np_bind.
    eapply np_mono; [|apply (limit_batch_np (plan_batch remember_end flt B fuel c) (pwf c) IH); exact H].
    intros [rows [[sk' cur'] cst']] Hx. exact Hx.
Qed.

Lemma plan_init_np : forall p st,
  pshape p st -> np (plan_init p st) (pwf p).
Proof.
  induction p as [sc|start count c IH]; intros st H; cbn [plan_init].
  - apply scan_init_np. exact H.
  - destruct st as [it idx ended|sk cur cst]; [contradiction|]. cbn [pshape] in H.
    apply np_bind. eapply np_mono; [|apply IH; exact H]. intros cst' Hx. exact Hx.
Qed.

(* ------------------------------------------------------------------ aggregate / order drains *)

Lemma aggr_prepare_np : forall f c all cst groups,
  pwf c cst ->
  np (aggr_prepare remember_end flt gkey fuel f c all cst groups)
     (fun x => pwf c (fst x)).
Proof.
  induction f as [|f IH]; intros c all cst groups H; cbn [aggr_prepare]; [left; reflexivity|].
  apply np_bind. eapply np_mono; [|apply plan_next_np; exact H].
  intros [r cst'] Hx. cbn [snd] in Hx. destruct r as [kv|]; [apply IH; exact Hx|exact Hx].
Qed.

Lemma aggr_prepare_batch_np : forall f c all cst groups,
  pwf c cst ->
  np (aggr_prepare_batch remember_end flt gkey B fuel f c all cst groups)
     (fun x => pwf c (fst x)).
Proof.
  induction f as [|f IH]; intros c all cst groups H; cbn [aggr_prepare_batch]; [left; reflexivity|].
  apply np_bind. eapply np_mono; [|apply plan_batch_np; exact H].
  intros [rows cst'] Hx. cbn [snd] in Hx. destruct rows as [|kv rows]; [exact Hx|apply IH; exact Hx].
Qed.

Lemma aggr_mem_next_np : forall ng pos, np (aggr_mem_next ng pos) (fun x => anyr (snd x)).
Proof. intros ng pos. unfold aggr_mem_next. destruct (ng <=? pos); exact I. Qed.

Lemma aggr_mem_batch_np : forall ng pos, np (aggr_mem_batch B ng pos) (fun x => anyr (snd x)).
Proof. intros ng pos. unfold aggr_mem_batch. destruct (ng <=? pos); exact I. Qed.

Section OrderNP.
Variable St : Type.
Variable child_next : St -> rprog (option frow * St).
Variable child_batch : St -> rprog (list frow * St).
Variable Inv : St -> Prop.
Hypothesis Hnext : forall cs, Inv cs -> np (child_next cs) (fun x => Inv (snd x)).
Hypothesis Hbatch : forall cs, Inv cs -> np (child_batch cs) (fun x => Inv (snd x)).

Lemma order_prepare_np : forall f cs total,
  Inv cs -> np (order_prepare child_next f cs total) (fun x => Inv (fst x)).
Proof.
  induction f as [|f IH]; intros cs total Hi; cbn [order_prepare]; [left; reflexivity|].
  apply np_bind. eapply np_mono; [|apply Hnext; exact Hi].
  intros [r cs'] Hx. cbn [snd] in Hx. destruct r; [apply IH; exact Hx|exact Hx].
Qed.

Lemma order_prepare_batch_np : forall f cs total,
  Inv cs -> np (order_prepare_batch child_batch f cs total) (fun x => Inv (fst x)).
Proof.
  induction f as [|f IH]; intros cs total Hi; cbn [order_prepare_batch]; [left; reflexivity|].
  apply np_bind. eapply np_mono; [|apply Hbatch; exact Hi].
  intros [rows cs'] Hx. cbn [snd] in Hx. destruct rows; [exact Hx|apply IH; exact Hx].
Qed.
End OrderNP.

(* ------------------------------------------------------------------ kvql.FinalPlan *)

Lemma f_next_np : forall fp st,
  fwf fp st -> np (f_next remember_end flt gkey fuel fp st) (fun x => fwf fp (snd x)).
Proof.
  induction fp as [c|c all start limit|c IH|start count c IH]; intros st H; cbn [f_next].
  - destruct st as [cst| | |]; try contradiction. cbn [fwf] in H.
    apply np_bind. eapply np_mono; [|apply plan_next_np; exact H].
    intros [r cst'] Hx. exact Hx.
  - destruct st as [|cst prepared groups pos sk cur| |]; try contradiction. cbn [fwf] in H.
    apply np_bind.
    eapply np_mono with (Q := fun x => pwf c (fst x)).
    2:{ destruct prepared; [exact H|]. apply aggr_prepare_np. exact H. }
    intros [cst1 groups1] G. cbn [fst] in G.
    destruct limit as [count|].
    + apply np_bind.
      eapply np_mono; [|apply (limit_next_np (aggr_mem_next (List.length groups1)) (@anyr nat))].
      * intros [r [[sk' cur'] pos']] _. exact G.
      * intros cs _. apply aggr_mem_next_np.
      * exact I.
    + apply np_bind. eapply np_mono; [|apply aggr_mem_next_np].
      intros [r pos'] _. exact G.
  - destruct st as [| |cst total pos|]; try contradiction. cbn [fwf] in H.
    apply np_bind.
    eapply np_mono with (Q := fun x => fwf c (fst x)).
    2:{ destruct (total =? 0); [|exact H].
        apply (order_prepare_np (f_next remember_end flt gkey fuel c) (fwf c) IH). exact H. }
    intros [cst1 total1] G. cbn [fst] in G.
    destruct (pos <? total1); exact G.
  - destruct st as [| | |sk cur cst]; try contradiction. cbn [fwf] in H.
    apply np_bind.
    eapply np_mono; [|apply (limit_next_np (f_next remember_end flt gkey fuel c) (fwf c) IH); exact H].
    intros [r [[sk' cur'] cst']] Hx. exact Hx.
Qed.

Lemma f_batch_np : forall fp st,
  fwf fp st -> np (f_batch remember_end flt gkey B fuel fp st) (fun x => fwf fp (snd x)).
Proof.
  induction fp as [c|c all start limit|c IH|start count c IH]; intros st H; cbn [f_batch].
  - destruct st as [cst| | |]; try contradiction. cbn [fwf] in H.
    apply np_bind. eapply np_mono; [|apply plan_batch_np; exact H].
    intros [rows cst'] Hx. exact Hx.
  - destruct st as [|cst prepared groups pos sk cur| |]; try contradiction. cbn [fwf] in H.
    apply np_bind.
    eapply np_mono with (Q := fun x => pwf c (fst x)).
    2:{ destruct prepared; [exact H|]. apply aggr_prepare_batch_np. exact H. }
    intros [cst1 groups1] G. cbn [fst] in G.
    destruct limit as [count|].
    + apply np_bind.
      eapply np_mono; [|apply (limit_batch_np (aggr_mem_batch B (List.length groups1)) (@anyr nat))].
      * intros [rows [[sk' cur'] pos']] _. exact G.
      * intros cs _. apply aggr_mem_batch_np.
      * exact I.
    + apply np_bind. eapply np_mono; [|apply aggr_mem_batch_np].
      intros [rows pos'] _. exact G.
  - destruct st as [| |cst total pos|]; try contradiction. cbn [fwf] in H.
    apply np_bind.
    eapply np_mono with (Q := fun x => fwf c (fst x)).
    2:{ destruct (total =? 0); [|exact H].
        apply (order_prepare_batch_np (f_batch remember_end flt gkey B fuel c) (fwf c) IH). exact H. }
    intros [cst1 total1] G. cbn [fst] in G. exact G.
  - destruct st as [| | |sk cur cst]; try contradiction. cbn [fwf] in H.
    apply np_bind.
    eapply np_mono; [|apply (limit_batch_np (f_batch remember_end flt gkey B fuel c) (fwf c) IH); exact H].
    intros [rows [[sk' cur'] cst']] Hx. exact Hx.
Qed.

Lemma f_init_np : forall fp st,
  fshape fp st -> np (f_init fp st) (fwf fp).
Proof.
  induction fp as [c|c all start limit|c IH|start count c IH]; intros st H; cbn [f_init].
  - destruct st as [cst| | |]; try contradiction. cbn [fshape] in H.
    apply np_bind. eapply np_mono; [|apply plan_init_np; exact H]. intros cst' Hx. exact Hx.
  - destruct st as [|cst prepared groups pos sk cur| |]; try contradiction. cbn [fshape] in H.
    apply np_bind. eapply np_mono; [|apply plan_init_np; exact H]. intros cst' Hx. exact Hx.
  - destruct st as [| |cst total pos|]; try contradiction. cbn [fshape] in H.
    apply np_bind. eapply np_mono; [|apply IH; exact H]. intros cst' Hx. exact Hx.
  - destruct st as [| | |sk cur cst]; try contradiction. cbn [fshape] in H.
    apply np_bind. eapply np_mono; [|apply IH; exact H]. intros cst' Hx. exact Hx.
Qed.

(* ------------------------------------------------------------------ SELECT *)

Lemma drain_np : forall f m fp st sizes,
  fwf fp st -> np (drain remember_end flt gkey B fuel f m fp st sizes) (@anyr _).
Proof.
  induction f as [|f IH]; intros m fp st sizes H; cbn [drain]; [left; reflexivity|].
  destruct m.
  - apply np_bind. eapply np_mono; [|apply f_next_np; exact H].
    intros [r st'] Hx. cbn [snd] in Hx. destruct r; [apply IH; exact Hx|exact I].
  - apply np_bind. eapply np_mono; [|apply f_batch_np; exact H].
    intros [rows st'] Hx. cbn [snd] in Hx. destruct rows; [exact I|apply IH; exact Hx].
Qed.

Lemma select_build_np : forall fp, np (select_build fp) (fwf fp).
Proof.
  intros fp. unfold select_build.
  apply np_bind. eapply np_mono; [|apply f_init_np, fshape0].
  intros st1 H1. apply f_init_np. apply fwf_shape. exact H1.
Qed.

Lemma select_prog_np : forall m fp,
  np (select_prog remember_end flt gkey B fuel m fp) (@anyr _).
Proof.
  intros m fp. unfold select_prog.
  apply np_bind. eapply np_mono; [|apply select_build_np].
  intros st H. apply drain_np. exact H.
Qed.

(* ------------------------------------------------------------------ DELETE *)

Lemma delete_execute_np : forall f c cst count,
  pwf c cst -> np (delete_execute remember_end flt B fuel f c cst count) (fun x => pwf c (snd x)).
Proof.
  induction f as [|f IH]; intros c cst count H; cbn [delete_execute]; [left; reflexivity|].
  apply np_bind. apply np_rd. eapply np_mono; [|apply plan_batch_np; exact H].
  intros [rows cst'] Hx. cbn [snd] in Hx. destruct rows as [|kv rows]; [exact Hx|].
  cbn [bind op_batch_delete np]. intros _. apply IH. exact Hx.
Qed.

Lemma delete_poll_np : forall c executed cst,
  pwf c cst ->
  np (delete_poll remember_end flt B fuel c executed cst) (fun x => pwf c (snd (snd x))).
Proof.
  intros c executed cst H. unfold delete_poll. destruct (negb executed); [|exact H].
  apply np_bind. eapply np_mono; [|apply delete_execute_np; exact H].
  intros [n cst'] Hx. exact Hx.
Qed.

Lemma delete_drain_np : forall f c executed cst sizes,
  pwf c cst -> np (delete_drain remember_end flt B fuel f c executed cst sizes) (@anyr _).
Proof.
  induction f as [|f IH]; intros c executed cst sizes H; cbn [delete_drain]; [left; reflexivity|].
  apply np_bind. eapply np_mono; [|apply delete_poll_np; exact H].
  intros [r [ex' cst']] Hx. cbn [snd] in Hx. destruct r; [apply IH; exact Hx|exact I].
Qed.

Lemma delete_init_np : forall c cst,
  pshape c cst -> np (delete_init c cst) (fun x => pwf c (snd x)).
Proof.
  intros c cst H. unfold delete_init.
  apply np_bind. apply np_rd. eapply np_mono; [|apply plan_init_np; exact H].
  intros cst' Hx. exact Hx.
Qed.

Lemma delete_prog_np : forall c, np (delete_prog remember_end flt B fuel c) (@anyr _).
Proof.
  intros c. unfold delete_prog.
  apply np_bind. eapply np_mono; [|apply delete_init_np, pshape0].
  intros [e1 cst1] H1. cbn [snd] in H1.
  apply np_bind. eapply np_mono; [|apply delete_init_np, pwf_shape; exact H1].
  intros [ex cst2] H2. cbn [snd] in H2. apply delete_drain_np. exact H2.
Qed.

(* ------------------------------------------------------------------ statements *)

Lemma stmt_prog_np : forall m s, np (stmt_prog remember_end flt gkey B fuel m s) (@anyr _).
Proof.
  intros m [|fp|c]; cbn [stmt_prog].
  - cbn. right; reflexivity.
  - apply np_rd, select_prog_np.
  - apply delete_prog_np.
Qed.

(* how a statement run can end: rows, the storage error (the injected fault), out of fuel, or
   the rejection of the statement -- for every statement, mode, storage state (every store,
   every log so far, every fault index), every filter and group key, every batch size and fuel *)
Theorem run_stmt_outcomes_lemma : forall m s st,
  match fst (ScanIO.run_stmt remember_end flt gkey B fuel m s st) with
  | Ok _ => True
  | Err e => e = EStorage \/ e = EFuel \/ e = ESyntax
  end.
Proof.
  intros m s st. unfold ScanIO.run_stmt.
  pose proof (np_sound (stmt_prog remember_end flt gkey B fuel m s) (@anyr _) st (stmt_prog_np m s)) as H.
  destruct (fst (run exec_req (stmt_prog remember_end flt gkey B fuel m s) st)) as [a|e]; [exact I|exact H].
Qed.

(* in particular no run ends in EPanic *)
Theorem run_stmt_never_panics_lemma : forall m s st,
  fst (ScanIO.run_stmt remember_end flt gkey B fuel m s st) <> Err EPanic.
Proof.
  intros m s st E. pose proof (run_stmt_outcomes_lemma m s st) as H. rewrite E in H.
  destruct H as [H|[H|H]]; discriminate H.
Qed.

End NoPanicPlan.

(* the guard is needed: polling a cursor scan that was never initialised is a panic in the twin
   (p.iter is nil in Go) -- what BuildPlan's Init calls exclude *)
Lemma uninitialised_scan_panics : forall remember_end flt fuel d fault,
  fst (run exec_req (rd (plan_next remember_end flt fuel (PScan SFull) (pstate0 (PScan SFull))))
         (sinit d fault)) = Err EPanic.
Proof. reflexivity. Qed.

(* from the initial state of a store, with any fault index *)
Theorem run_stmt_never_panics :
  forall (remember_end : bool) (flt : kvp -> bool) (gkey : kvp -> bytes) (B fuel : nat) (m : mode)
         (s : ScanIO.stmt) (d : store) (fault : option nat),
  fst (ScanIO.run_stmt remember_end flt gkey B fuel m s (sinit d fault)) <> Err EPanic.
Proof. intros. apply run_stmt_never_panics_lemma. Qed.

(* with the fuel the correspondence uses and PlanBatchSize >= 1 (Proofs/ScanIOFuel.v) the only
   outcomes are rows, the injected storage error, or the rejection of the statement *)
Theorem run_stmt_outcomes :
  forall (remember_end : bool) (flt : kvp -> bool) (gkey : kvp -> bytes) (B : nat) (m : mode)
         (s : ScanIO.stmt) (d : store) (fault : option nat),
  1 <= B ->
  match fst (ScanIO.run_stmt remember_end flt gkey B (stmt_fuel s d) m s (sinit d fault)) with
  | Ok _ => True
  | Err e => e = EStorage \/ e = ESyntax
  end.
Proof.
  intros remember_end flt gkey B m s d fault HB.
  pose proof (run_stmt_outcomes_lemma remember_end flt gkey B (stmt_fuel s d) m s (sinit d fault)) as Ho.
  pose proof (no_fuel_exhaustion_stmt_fuel remember_end flt gkey m s (sinit d fault) HB) as Hf.
  cbn [sinit sdata] in Hf.
  destruct (fst (ScanIO.run_stmt remember_end flt gkey B (stmt_fuel s d) m s (sinit d fault))) as [a|e];
    [exact I|].
  destruct Ho as [Ho|[Ho|Ho]]; auto. subst e. exfalso. apply Hf. reflexivity.
Qed.
