(* Proofs/NoPanicProofs.v -- the evaluator twin never reaches a Panic outcome (C06): every
   place where the Go evaluator indexes an argument list is guarded by the arity check. *)
From Coq Require Import List String Ascii ZArith Bool Arith Lia.
Import ListNotations.
From KV Require Import Base.Bytes Base.Num Model.Ast Model.Value Model.Eval Proofs.AstInd.
Local Open Scope string_scope.

Definition safe {A} (r : res A) : Prop := r <> Panic.

Lemma safe_bind {A B} (r : res A) (f : A -> res B) :
  safe r -> (forall a, safe (f a)) -> safe (bind r f).
Proof. unfold safe. destruct r; cbn; auto; congruence. Qed.

Lemma safe_ok {A} (a : A) : safe (Ok a).
Proof. unfold safe; congruence. Qed.
Lemma safe_err {A} e : safe (@Err A e).
Proof. unfold safe; congruence. Qed.
Lemma safe_oom {A} : safe (@OutOfModel A).
Proof. unfold safe; congruence. Qed.

Ltac safe_tac :=
  repeat first
    [ apply safe_ok | apply safe_err | apply safe_oom
    | apply safe_bind; [|intros ?]
    | match goal with
      | |- safe (match ?x with _ => _ end) => destruct x
      | |- safe (if ?c then _ else _) => destruct c
      | |- safe (let '(_, _) := ?x in _) => destruct x
      end
    | assumption ].

Section NoPanic.
Variable fo : fops.
Variable re_match : bytes -> bytes -> res bool.
Hypothesis re_safe : forall p t, safe (re_match p t).

Notation value := (value fo).

Lemma safe_all_ok (rs : list (res value)) : Forall safe rs -> safe (all_ok rs).
Proof.
  induction 1 as [|r rs Hr Hrs IH]; cbn; [apply safe_ok|].
  apply safe_bind; [assumption|]. intros a. apply safe_bind; [assumption|]. intros; apply safe_ok.
Qed.

Lemma safe_map_res {A B} (f : A -> res B) (l : list A) :
  (forall a, safe (f a)) -> safe (map_res f l).
Proof.
  intros Hf. induction l as [|a l IH]; cbn; [apply safe_ok|].
  apply safe_bind; [apply Hf|]. intros b. apply safe_bind; [assumption|]. intros; apply safe_ok.
Qed.

Lemma safe_nth (rs : list (res value)) i : Forall safe rs -> i < List.length rs -> safe (nth_res fo rs i).
Proof.
  intros H Hi. unfold nth_res. rewrite Forall_forall in H. apply H. apply nth_In. exact Hi.
Qed.

Lemma safe_to_int x : safe (to_int fo x).
Proof. unfold to_int. safe_tac. Qed.
Lemma safe_to_float x : safe (to_float fo x).
Proof. unfold to_float. safe_tac. Qed.
Lemma safe_parse_floats l : safe (parse_floats fo l).
Proof. induction l as [|s l IH]; cbn; safe_tac. Qed.
Lemma safe_to_float_list x : safe (to_float_list fo x).
Proof. unfold to_float_list. destruct x; try apply safe_err; try apply safe_ok. apply safe_parse_floats. Qed.
Lemma safe_math l r o p : safe (math_op fo l r o p).
Proof. unfold math_op. safe_tac. Qed.
Lemma safe_number_compare l r c : safe (number_compare fo l r c).
Proof. unfold number_compare. safe_tac. Qed.
Lemma safe_string_compare l r c : safe (string_compare fo l r c).
Proof. unfold string_compare. safe_tac. Qed.
Lemma safe_equal l r p : safe (equal_values fo l r p).
Proof. unfold equal_values. safe_tac. Qed.
Lemma safe_cosine l r : safe (cosine_distance fo l r).
Proof. unfold cosine_distance. safe_tac. Qed.
Lemma safe_l2 l r : safe (l2_distance fo l r).
Proof. unfold l2_distance. safe_tac. Qed.
Lemma safe_use_int x : safe (list_use_int fo x).
Proof. unfold list_use_int. safe_tac. Qed.

Hint Resolve safe_to_int safe_to_float safe_to_float_list safe_math safe_number_compare
  safe_string_compare safe_equal safe_cosine safe_l2 safe_use_int safe_ok safe_err safe_oom : safe.

(* the body of a function is safe once the arity check has passed *)
Lemma safe_apply_func nm args (rs : list (res value)) nargs varargs t :
  func_info nm = Some (nargs, varargs, t) ->
  Forall safe rs ->
  ((negb varargs && negb (Nat.eqb (List.length rs) nargs)) || (varargs && Nat.ltb (List.length rs) nargs)) = false ->
  safe (apply_func fo nm args rs).
Proof.
  intros Hinfo Hrs Har. unfold apply_func.
  assert (Hall : safe (all_ok rs)) by now apply safe_all_ok.
  assert (Htl : safe (all_ok (tl rs))).
  { apply safe_all_ok. destruct rs; [constructor | now inversion Hrs]. }
  assert (Hlen : forall n v0, func_info nm = Some (n, v0, t) -> nargs = n /\ varargs = v0) by (intros; split; congruence).
  repeat match goal with
  | |- safe (if String.eqb nm ?lit then _ else _) =>
      let E := fresh "E" in destruct (String.eqb nm lit) eqn:E;
      [ apply String.eqb_eq in E; subst nm; cbn in Hinfo; injection Hinfo as <- <- <-; cbn in Har;
        clear Hlen | ]
  | |- safe (if String.eqb nm ?a || String.eqb nm ?b then _ else _) =>
      let E := fresh "E" in destruct (String.eqb nm a || String.eqb nm b) eqn:E;
      [ apply orb_true_iff in E; destruct E as [E|E]; apply String.eqb_eq in E; subst nm;
        cbn in Hinfo; injection Hinfo as <- <- <-; cbn in Har; clear Hlen | ]
  end;
  try apply safe_err; try apply safe_oom.
  all: cbn in Har; rewrite ?orb_false_r, ?orb_false_l, ?andb_true_l, ?andb_false_l in Har;
       first [ apply negb_false_iff in Har; apply Nat.eqb_eq in Har | apply Nat.ltb_ge in Har | apply Nat.leb_gt in Har | idtac ].
  all: repeat first
    [ apply safe_ok | apply safe_err | apply safe_oom
    | apply safe_nth; [assumption | lia]
    | match goal with H : Forall safe (?r :: _) |- safe ?r => inversion H; assumption end
    | apply safe_bind; [|intros ?]
    | apply safe_map_res; intros ?
    | solve [auto with safe]
    | match goal with
      | |- safe (match ?x with _ => _ end) => destruct x
      | |- safe (if ?c then _ else _) => destruct c
      end
    | assumption ].
Qed.

Lemma safe_in_list left number items rs :
  Forall safe rs -> safe (in_list fo left number items rs).
Proof.
  intros H. revert rs H. induction items as [|it items IH]; intros rs H; cbn; [apply safe_ok|].
  destruct rs as [|r rs]; [apply safe_ok|]. inversion H; subst.
  destruct (negb _); [apply safe_err|].
  apply safe_bind; [assumption|]. intros lv. apply safe_bind; [destruct number; auto with safe|].
  intros c. destruct c; [apply safe_ok | now apply IH].
Qed.

Lemma Forall_map_safe (l : list expr) (f : expr -> res value) :
  Forall (fun e => safe (f e)) l -> Forall safe (map f l).
Proof. induction 1; cbn; constructor; auto. Qed.

Theorem eval_safe_strong k v : forall e,
  safe (eval fo re_match k v e) /\
  match e with EList _ items => Forall (fun x => safe (eval fo re_match k v x)) items | _ => True end.
Proof.
  apply expr_ind2.
  - (* binary *)
    intros p o l r [IHl _] [IHr IHr']. split; [|exact I].
    destruct o; cbn [eval].
    all: try (repeat first
      [ apply safe_ok | apply safe_err | apply safe_oom | apply re_safe
      | apply safe_bind; [|intros ?]
      | solve [auto with safe]
      | match goal with
        | |- safe (match ?x with _ => _ end) => destruct x
        | |- safe (if ?c then _ else _) => destruct c
        end
      | assumption ]; fail).
    + (* in *)
      apply safe_bind; [assumption|]. intros lv. destruct r; try apply safe_err.
      * destruct (negb _); [apply safe_err|]. apply safe_bind; [assumption|]. intros fv.
        destruct (unpack_list fo fv); [apply safe_ok | apply safe_err].
      * destruct (negb _); [apply safe_err|]. apply safe_bind; [assumption|]. intros fv.
        destruct (unpack_list fo fv); [apply safe_ok | apply safe_err].
      * apply safe_bind; [|intros; apply safe_ok]. apply safe_in_list. now apply Forall_map_safe.
    + (* between *)
      apply safe_bind; [assumption|]. intros lv. destruct r; try apply safe_err.
      destruct l0 as [|lo [|hi [|? ?]]]; try apply safe_err.
      inversion IHr' as [|? ? Hlo Hr2]; subst. inversion Hr2 as [|? ? Hhi _]; subst.
      repeat first
        [ apply safe_ok | apply safe_err
        | apply safe_bind; [|intros ?]
        | solve [auto with safe]
        | match goal with
          | |- safe (match ?x with _ => _ end) => destruct x
          | |- safe (if ?c then _ else _) => destruct c
          end
        | assumption ].
  - intros p f. split; [|exact I]. destruct f; apply safe_ok.
  - intros. split; [apply safe_ok | exact I].
  - intros p r [IH _]. split; [|exact I]. cbn [eval]. apply safe_bind; [assumption|].
    intros rv. destruct rv; try apply safe_err. apply safe_ok.
  - (* call *)
    intros p n args _ IHargs. split; [|exact I]. cbn [eval].
    destruct n; try apply safe_err.
    destruct (call_name _) as [nm|]; [|apply safe_oom].
    destruct (func_info nm) as [[[nargs varargs] t]|] eqn:Hinfo; [|apply safe_err].
    destruct ((negb varargs && negb (Nat.eqb (List.length args) nargs)) || (varargs && Nat.ltb (List.length args) nargs)) eqn:Har;
      [apply safe_err|].
    apply (safe_apply_func nm args _ nargs varargs t Hinfo).
    + apply Forall_map_safe. eapply Forall_impl; [|exact IHargs]. intros a [Ha _]. exact Ha.
    + rewrite map_length. exact Har.
  - intros. split; [apply safe_ok | exact I].
  - intros p nm d [IH _]. split; [exact IH | exact I].
  - intros. split; [apply safe_ok | exact I].
  - intros p d. split; [|exact I]. cbn [eval]. unfold float_value.
    destruct (f_parse fo d); cbn; try apply safe_ok; apply safe_oom.
  - intros. split; [apply safe_ok | exact I].
  - intros p l IH. split; [apply safe_ok|]. eapply Forall_impl; [|exact IH]. intros a [Ha _]. exact Ha.
  - (* access *)
    intros p l f [IHl _] _. split; [|exact I]. cbn [eval]. apply safe_bind; [assumption|]. intros lv.
    destruct f; try apply safe_err.
    + destruct lv; try apply safe_err. destruct s0; [apply safe_ok | apply safe_err].
    + destruct lv; try apply safe_err; try apply safe_ok. destruct s; [apply safe_ok | apply safe_err].
Qed.

(* the evaluator twin never panics: every expression, every pair *)
Theorem eval_never_panics k v e : eval fo re_match k v e <> Panic.
Proof. exact (proj1 (eval_safe_strong k v e)). Qed.

Theorem filter_never_panics k v e : filter_row fo re_match k v e <> Panic.
Proof.
  unfold filter_row. apply safe_bind; [apply eval_never_panics|].
  intros r. destruct r; try apply safe_err. apply safe_ok.
Qed.

End NoPanic.
