(* Proofs/NoPanicTextProofs.v -- C06 composed: NO PANIC FROM THE QUERY TEXT.

   Properties/C06.v proves panic-freedom layer by layer (row / vector evaluator, statement
   parser, FinalOrderPlan's heap, AggregatePlan's parallel slices, the error renderer).  This
   file composes the layers along the glue twins Model/PipelineS.v (SELECT from the text, every
   shape buildFinalPlan builds) and Model/PipelineW.v (PUT / REMOVE / DELETE from the text):

     1. the plan nodes above the evaluators (Model/ScanProj.v, Model/LimitLazy.v,
        Model/AggregateLazy.v, Model/SelectPlans.v) reach none of THEIR panic sites --
        `filterBatch[i]` for a verdict list longer than the chunk (select_matches), `cols[j][i]`
        on a short column (transpose), `keys[i]` on a short key list (lobs_zip), heap.Pop on
        an empty heap (of_pop / onext / obatch) -- provided the functions they are given do not
        panic and return full columns                                       safe_run_shape_row / _batch
     2. the evaluator twins are such functions (Proofs/NoPanicProofs.v, NoPanicVecProofs.v)
                                                                             safe_select_shape_row / _batch
     3. the front end: lexer + parser (never out of fuel, never nil: StmtParserProofs), checker
        (only SyntaxErrors: ParseCheckProofs.check_stmt_ok), AggregatePlan.Init (agg_split: the
        arity test guards Args[0] / Args[1])                                 front_s_clean, plan_stmt_text_clean
     4. composition                                                          select_stmt_text_st_never_panics
     5. PUT / REMOVE / DELETE texts, polled any number of times               write_text_never_panics, delete_text_never_panics
     6. from the text to the rendered message                                error_of_text_renders *)
From Coq Require Import List String Ascii ZArith Bool Arith Lia.
Import ListNotations.
From KV Require Import Model.Storage Model.Pipeline.
From KV Require Import Base.Bytes Base.Num Model.Token Model.Ast Model.Value Model.Eval Model.EvalVec
                       Model.Lexer Model.StmtParser Model.ParseCheck Model.ScanProj
                       Model.LimitLazy Model.AggregateLazy Model.SelectPlans Model.PipelineS.
From KV Require Model.PipelineW Model.Checker Model.Fold Model.FoldStmt Model.Order Model.Aggregate Model.Limit Spec.Group.
From KV Require Import Proofs.NoPanicProofs Proofs.NoPanicVecProofs Proofs.OrderProofs Proofs.NoPanicOrderProofs
                       Proofs.StmtParserProofs Proofs.ParseCheckProofs Proofs.PipelineSProofs.
From KV Require Proofs.AggregateProofs.
Local Open Scope nat_scope.
Local Open Scope list_scope.

(* ================================================================ 0. the predicate *)

(* [r] is not a panic, and a returned value satisfies [Q] *)
Definition np {A} (Q : A -> Prop) (r : res A) : Prop :=
  match r with Ok a => Q a | Panic => False | _ => True end.

Lemma np_bind {A B} (QA : A -> Prop) (QB : B -> Prop) (r : res A) (k : A -> res B) :
  np QA r -> (forall a, QA a -> np QB (k a)) -> np QB (Value.bind r k).
Proof. intros H Hk. destruct r; cbn [Value.bind np] in *; auto. Qed.

Lemma np_weaken {A} (Q Q' : A -> Prop) (r : res A) : (forall a, Q a -> Q' a) -> np Q r -> np Q' r.
Proof. intros H. destruct r; cbn [np]; auto. Qed.

Lemma np_safe {A} (Q : A -> Prop) (r : res A) : np Q r -> safe r.
Proof. unfold safe. destruct r; cbn [np]; intros H; try discriminate. contradiction. Qed.

Lemma safe_np {A} (r : res A) : safe r -> np (fun _ => True) r.
Proof. unfold safe. destruct r; cbn [np]; auto. Qed.

Lemma np_ok_inv {A} (Q : A -> Prop) (r : res A) a : np Q r -> r = Ok a -> Q a.
Proof. intros H ->. exact H. Qed.

Definition any {A} : A -> Prop := fun _ => True.

(* one step through binds, matches and lets; leaves are closed by a hypothesis *)
Ltac safe_leaf :=
  match goal with
  | |- safe (Ok _) => apply safe_ok
  | |- safe (Err _) => apply safe_err
  | |- safe OutOfModel => apply safe_oom
  | H : _ |- _ => solve [apply H]
  end.
Ltac safe_go :=
  repeat first
    [ safe_leaf
    | progress cbv zeta
    | apply safe_bind; [ | intros ]
    | match goal with
      | |- safe (match ?x with _ => _ end) => destruct x
      end ].

(* ================================================================ 1. the plan nodes *)

(* ---- Model/ScanProj.v *)
Section ScanNodes.
Variables (P R : Type).
Variable frow : P -> res bool.
Variable fbatch : list P -> res (list bool).
Variable prow : P -> res R.
Variable pbatch : list P -> res (list R).
Hypothesis Hfrow : forall kv, safe (frow kv).
(* FilterBatch: one verdict per pair of the chunk *)
Hypothesis Hfbatch : forall ch, np (fun ms => List.length ms = List.length ch) (fbatch ch).
Hypothesis Hprow : forall kv, safe (prow kv).
Hypothesis Hpbatch : forall ch, safe (pbatch ch).

Lemma safe_scan_next : forall rest, safe (scan_next frow rest).
Proof.
  induction rest as [|[kv|] rest IH]; cbn [scan_next]; [apply safe_ok | | exact IH].
  apply safe_bind; [apply Hfrow|]. intros []; [apply safe_ok | exact IH].
Qed.

Lemma safe_proj_next rest : safe (proj_next frow prow rest).
Proof. unfold proj_next. apply safe_bind; [apply safe_scan_next|]. intros [[kv|] rest']; safe_go. Qed.

Lemma safe_drain_row_fuel fuel : forall rest, safe (drain_row_fuel frow prow fuel rest).
Proof.
  induction fuel as [|f IH]; intros rest; cbn [drain_row_fuel]; [apply safe_oom|].
  apply safe_bind; [apply safe_proj_next|]. intros [[row|] rest']; safe_go.
Qed.

Lemma safe_drain_row rest : safe (drain_row frow prow rest).
Proof. apply safe_drain_row_fuel. Qed.

(* `filterBatch[i]` for i ranging over the verdicts: in range when there are no more verdicts
   than pairs *)
Lemma safe_select_matches : forall (ms : list bool) (chunk : list P),
  List.length ms <= List.length chunk -> safe (select_matches chunk ms).
Proof.
  induction ms as [|m ms IH]; intros chunk H; [destruct chunk; apply safe_ok|].
  destruct chunk as [|kv chunk]; [cbn in H; lia|]. cbn [select_matches].
  apply safe_bind; [apply IH; cbn in H; lia|]. intros; apply safe_ok.
Qed.

Lemma safe_scan_batch_loop fuel B : forall rest ret, safe (scan_batch_loop fbatch fuel B rest ret).
Proof.
  induction fuel as [|f IH]; intros rest ret; cbn [scan_batch_loop]; [apply safe_oom|]. cbv zeta.
  destruct (somes (firstn B rest)) as [|kv chunk] eqn:Ec.
  - destruct (Nat.ltb _ _); [apply safe_ok | apply IH].
  - pose proof (Hfbatch (kv :: chunk)) as Hf.
    destruct (fbatch (kv :: chunk)) as [ms|e| |]; cbn [np Value.bind] in *;
      [|apply safe_err|contradiction|apply safe_oom].
    apply safe_bind; [apply safe_select_matches; lia|]. intros sel.
    destruct (_ || _); [apply safe_ok | apply IH].
Qed.

Lemma safe_scan_batch B rest : safe (scan_batch fbatch B rest).
Proof. apply safe_scan_batch_loop. Qed.

Lemma safe_proj_batch B rest : safe (proj_batch fbatch pbatch B rest).
Proof.
  unfold proj_batch. apply safe_bind; [apply safe_scan_batch|]. intros [[|kv kvs] rest']; safe_go.
Qed.

(* the drain hands out non-empty batches only *)
Lemma np_drain_batch_fuel fuel B : forall rest,
  np (Forall (@nonempty R)) (drain_batch_fuel fbatch pbatch fuel B rest).
Proof.
  induction fuel as [|f IH]; intros rest; cbn [drain_batch_fuel]; [exact I|].
  eapply np_bind; [apply safe_np; apply safe_proj_batch|]. intros [[|row rows] rest'] _; [constructor|].
  eapply np_bind; [apply IH|]. intros outs Ho. constructor; [discriminate | exact Ho].
Qed.

Lemma np_drain_batch B rest : np (Forall (@nonempty R)) (drain_batch fbatch pbatch B rest).
Proof. apply np_drain_batch_fuel. Qed.

End ScanNodes.

(* ---- Model/LimitLazy.v: FinalLimitPlan over a pulled child whose states keep an invariant *)
Section LimitNodes.
Variables (S A : Type).
Variable cnext : S -> res (option A * S).
Variable cbatch : S -> res (list A * S).
Variable Inv : S -> Prop.
Hypothesis Hnext : forall s, Inv s -> np (fun r => Inv (snd r)) (cnext s).
Hypothesis Hbatch : forall s, Inv s -> np (fun r => Inv (snd r)) (cbatch s).

Lemma np_lskip n : forall s, Inv s -> np (fun x => Inv (snd x)) (lskip cnext n s).
Proof.
  induction n as [|n IH]; intros s Hs; cbn [lskip]; [exact Hs|].
  eapply np_bind; [apply Hnext; exact Hs|]. intros [[a|] s'] Hs'; cbn [snd] in Hs'; [|exact Hs'].
  eapply np_bind; [apply IH; exact Hs'|]. intros [[k e] s''] H. exact H.
Qed.

Lemma np_lnext start count st s : Inv s -> np (fun x => Inv (snd x)) (lnext cnext start count st s).
Proof.
  intros Hs. unfold lnext. eapply np_bind; [apply np_lskip; exact Hs|].
  intros [[k ended] s1] H1. cbn [snd] in H1. cbv zeta.
  destruct ended; [exact H1|]. destruct (count <=? _); [exact H1|].
  eapply np_bind; [apply Hnext; exact H1|]. intros [[row|] s2] H2; exact H2.
Qed.

Lemma safe_ldrain_row_fuel fuel start count : forall st s, Inv s ->
  safe (ldrain_row_fuel cnext fuel start count st s).
Proof.
  induction fuel as [|f IH]; intros st s Hs; cbn [ldrain_row_fuel]; [apply safe_oom|].
  pose proof (np_lnext start count st s Hs) as H.
  destruct (lnext cnext start count st s) as [[[[row|] st'] s']|e| |]; cbn [np Value.bind snd] in *;
    try contradiction; try apply safe_ok; try apply safe_err; try apply safe_oom.
  apply safe_bind; [apply IH; exact H|]. intros; apply safe_ok.
Qed.

Lemma safe_ldrain_row start count s : Inv s -> safe (ldrain_row cnext start count s).
Proof. apply safe_ldrain_row_fuel. Qed.

Lemma np_lskip_batch fuel start : forall sk s, Inv s ->
  np (fun x => Inv (snd x)) (lskip_batch cbatch fuel start sk s).
Proof.
  induction fuel as [|f IH]; intros sk s Hs; cbn [lskip_batch]; (destruct (sk <? start); [|exact Hs]); [exact I|].
  eapply np_bind; [apply Hbatch; exact Hs|]. intros [b s'] Hs'. cbn [snd] in Hs'. cbv zeta.
  destruct (_ =? 0); [exact Hs'|]. destruct (_ <=? _); [apply IH; exact Hs' | exact Hs'].
Qed.

Lemma np_lfill fuel B count : forall cur ret cnt s, Inv s ->
  np (fun x => Inv (snd x)) (lfill cbatch fuel B count cur ret cnt s).
Proof.
  induction fuel as [|f IH]; intros cur ret cnt s Hs; cbn [lfill]; [exact I|].
  eapply np_bind; [apply Hbatch; exact Hs|]. intros [b s'] Hs'. cbn [snd] in Hs'.
  destruct (_ =? 0); [exact Hs'|].
  destruct (Limit.take_fill count cur b ret cnt) as [[[ret' cur'] cnt'] fin].
  destruct fin; [exact Hs'|]. destruct (B <=? cnt'); [exact Hs' | apply IH; exact Hs'].
Qed.

Lemma np_lbatch B start count st s : Inv s -> np (fun x => Inv (snd x)) (lbatch cbatch B start count st s).
Proof.
  intros Hs. unfold lbatch. eapply np_bind; [apply np_lskip_batch; exact Hs|].
  intros [[[rows|] sk] s1] H1; cbn [snd] in H1; [|exact H1].
  destruct (Limit.take_left count (Limit.current st) rows [] 0) as [[ret cur] cnt].
  destruct (count <=? cur); [exact H1|].
  eapply np_bind; [apply np_lfill; exact H1|]. intros [[ret' cur'] s2] H2. exact H2.
Qed.

Lemma safe_ldrain_batch_fuel fuel B start count : forall st s, Inv s ->
  safe (ldrain_batch_fuel cbatch fuel B start count st s).
Proof.
  induction fuel as [|f IH]; intros st s Hs; cbn [ldrain_batch_fuel]; [apply safe_oom|].
  pose proof (np_lbatch B start count st s Hs) as H.
  destruct (lbatch cbatch B start count st s) as [[[[|row out] st'] s']|e| |]; cbn [np Value.bind snd] in *;
    try contradiction; try apply safe_ok; try apply safe_err; try apply safe_oom.
  apply safe_bind; [apply IH; exact H|]. intros; apply safe_ok.
Qed.

End LimitNodes.

(* ---- Model/AggregateLazy.v *)
Section AggDrains.
Variables (P R T : Type).
Variable frow : P -> res bool.
Variable fbatch : list P -> res (list bool).
Variable orow : T -> P -> res (R * T).
Variable obatch : T -> list P -> res (list R * T).
Hypothesis Hfrow : forall kv, safe (frow kv).
Hypothesis Hfbatch : forall ch, np (fun ms => List.length ms = List.length ch) (fbatch ch).
Hypothesis Horow : forall t kv, safe (orow t kv).
Hypothesis Hobatch : forall t ch, safe (obatch t ch).

Lemma safe_sdrain_row_fuel fuel : forall t rest, safe (sdrain_row_fuel frow orow fuel t rest).
Proof.
  induction fuel as [|f IH]; intros t rest; cbn [sdrain_row_fuel]; [apply safe_oom|].
  apply safe_bind; [apply safe_scan_next; assumption|]. intros [[kv|] rest']; safe_go.
Qed.

Lemma safe_sdrain_row t rest : safe (sdrain_row frow orow t rest).
Proof. apply safe_sdrain_row_fuel. Qed.

Lemma safe_sdrain_batch_fuel fuel B : forall t rest, safe (sdrain_batch_fuel fbatch obatch fuel B t rest).
Proof.
  induction fuel as [|f IH]; intros t rest; cbn [sdrain_batch_fuel]; [apply safe_oom|].
  apply safe_bind; [apply safe_scan_batch; assumption|]. intros [[|kv kvs] rest']; safe_go.
Qed.

Lemma safe_sdrain_batch B t rest : safe (sdrain_batch fbatch obatch B t rest).
Proof. apply safe_sdrain_batch_fuel. Qed.

End AggDrains.

Section AggObs.
Variable F : Type.
Variable fmt_f bits_f : F -> bytes.
Variable P : Type.
Variable eval_g : P -> res (list (Group.value F)).
Variable batch_g : list P -> res (list (list (Group.value F))).
Variable eval_k : P -> res (list (Group.value F)).
Variable eval_a : (nat -> bool) -> P -> res (list (Group.value F)).
Hypothesis Hg : forall kv, safe (eval_g kv).
(* batchGetAggrKeys: one key per pair of the chunk *)
Hypothesis Hbg : forall ch, np (fun gss => List.length gss = List.length ch) (batch_g ch).
Hypothesis Hk : forall kv, safe (eval_k kv).
Hypothesis Ha : forall need kv, safe (eval_a need kv).

Lemma safe_lobs_tail p t kv g : safe (lobs_tail fmt_f bits_f eval_k eval_a p t kv g).
Proof. unfold lobs_tail. safe_go. Qed.

Lemma safe_lobs_row p t kv : safe (lobs_row fmt_f bits_f eval_g eval_k eval_a p t kv).
Proof.
  unfold lobs_row. apply safe_bind; [destruct (Group.pl_all p); [apply safe_ok | apply Hg]|].
  intros. apply safe_lobs_tail.
Qed.

(* `keys[i]`, i ranging over the chunk *)
Lemma safe_lobs_zip p : forall ch t gss, List.length ch <= List.length gss ->
  safe (lobs_zip fmt_f bits_f eval_k eval_a p t ch gss).
Proof.
  induction ch as [|kv ch IH]; intros t gss H; cbn [lobs_zip]; [apply safe_ok|].
  destruct gss as [|g gss]; [cbn in H; lia|].
  apply safe_bind; [apply safe_lobs_tail|]. intros ot.
  apply safe_bind; [apply IH; cbn in H; lia|]. intros; apply safe_ok.
Qed.

Lemma safe_lobs_batch p t ch : safe (lobs_batch fmt_f bits_f batch_g eval_k eval_a p t ch).
Proof.
  unfold lobs_batch. destruct (Group.pl_all p).
  - cbn [Value.bind]. apply safe_lobs_zip. rewrite map_length. lia.
  - pose proof (Hbg ch) as H. destruct (batch_g ch) as [gss|e| |]; cbn [np Value.bind] in *;
      [|apply safe_err|contradiction|apply safe_oom].
    apply safe_lobs_zip. lia.
Qed.

End AggObs.

(* completing the rows has no panic outcome (Model/Aggregate.v answers None for an execution
   error) *)
Lemma safe_exec_res {A} (o : option A) : safe (exec_res o).
Proof. destruct o; [apply safe_ok | apply safe_err]. Qed.

Section AggFinish.
Variable F : Type.
Variable fadd fsub fmul fdiv : F -> F -> F.
Variable fltb : F -> F -> bool.
Variable fis0 : F -> bool.
Variable of_Z : Z -> F.
Variable to_Z : F -> Z.
Variable fmt_f bits_f : F -> bytes.
Variable json_f : F -> option bytes.
Variable parse_f : bytes -> option F.
Variable json_s : bytes -> bytes.

Lemma safe_anext rows : safe (anext fadd fsub fmul fdiv fis0 of_Z json_f json_s rows).
Proof.
  unfold anext. destruct rows; [apply safe_ok|]. apply safe_bind; [apply safe_exec_res|]. intros; apply safe_ok.
Qed.

Lemma safe_abatch B rows : safe (abatch fadd fsub fmul fdiv fis0 of_Z json_f json_s B rows).
Proof.
  unfold abatch. destruct rows; [apply safe_ok|]. apply safe_bind; [apply safe_exec_res|]. intros; apply safe_ok.
Qed.

Lemma safe_adrain_row p rows : safe (adrain_row fadd fsub fmul fdiv fis0 of_Z json_f json_s p rows).
Proof.
  unfold adrain_row. destruct (Group.pl_limit p); [|apply safe_exec_res].
  apply (safe_ldrain_row _ _ _ (fun _ => True)); [|exact I].
  intros s _. apply (np_weaken any); [intros; exact I|]. apply safe_np. apply safe_anext.
Qed.

Lemma safe_adrain_batch p B rows : safe (adrain_batch fadd fsub fmul fdiv fis0 of_Z json_f json_s p B rows).
Proof.
  unfold adrain_batch. destruct (Group.pl_limit p); [|apply safe_exec_res].
  apply safe_bind; [|intros; apply safe_ok].
  apply (safe_ldrain_batch_fuel _ _ _ (fun _ => True)); [|exact I].
  intros s _. apply (np_weaken any); [intros; exact I|]. apply safe_np. apply safe_abatch.
Qed.

Lemma safe_lrun_row p pairs :
  safe (lrun_row fadd fsub fmul fdiv fltb fis0 of_Z to_Z fmt_f bits_f json_f parse_f json_s p pairs).
Proof. apply safe_adrain_row. Qed.

Lemma safe_lrun_batch p B chunks :
  safe (lrun_batch fadd fsub fmul fdiv fltb fis0 of_Z to_Z fmt_f bits_f json_f parse_f json_s p B chunks).
Proof. apply safe_adrain_batch. Qed.

End AggFinish.

(* ---- Model/SelectPlans.v: FinalOrderPlan over a child.  heap.Pop is guarded by
   `p.pos < p.total`; len(heap) + pos = total (OrderProofs.inv) makes the guard sufficient *)
Section OrderNodes.
Variable C : Type.
Variable crows : C -> res (list Order.row).
Variable cbats : C -> res (list (list Order.row)).
Variable cdone : C.
Variable parse_int parse_float : bytes -> option Z.
Variable ords : list Order.ofield.
Hypothesis Hrows : forall c, safe (crows c).
(* the child hands out non-empty batches until it is exhausted *)
Hypothesis Hbats : forall c, np (Forall (@nonempty Order.row)) (cbats c).

Lemma safe_of_pop {A} (o : option A) : o <> None -> safe (of_pop o).
Proof. destruct o; [intros; apply safe_ok | congruence]. Qed.

Lemma safe_ord_row c : safe (ord_row C crows parse_int parse_float ords c).
Proof.
  unfold ord_row. apply safe_bind; [apply Hrows|]. intros rows. apply safe_of_pop.
  apply order_drain_row_total.
Qed.

Lemma safe_ord_batch B c : safe (ord_batch C cbats parse_int parse_float ords B c).
Proof.
  unfold ord_batch. pose proof (Hbats c) as H.
  destruct (cbats c) as [bs|e| |]; cbn [np Value.bind] in *; [|apply safe_err|contradiction|apply safe_oom].
  apply safe_of_pop. apply order_drain_batch_total. exact H.
Qed.

Definition oinv (s : onode C) : Prop := inv (fst s).

Lemma np_onext s : oinv s -> np (fun r => oinv (snd r)) (onext C crows cdone parse_int parse_float ords s).
Proof.
  destruct s as [st c]. unfold oinv. cbn [fst]. intros Hs. unfold onext.
  destruct (Order.total st =? 0).
  - eapply np_bind; [apply safe_np; apply Hrows|]. intros rows _.
    destruct (order_next_never_panics parse_int parse_float ords st rows Hs) as [Hn Hi].
    destruct (Order.next parse_int parse_float ords st rows) as [[[r| |] st'] ch']; cbn [fst snd] in *;
      try exact Hi. congruence.
  - destruct (order_next_never_panics parse_int parse_float ords st [] Hs) as [Hn Hi].
    destruct (Order.next parse_int parse_float ords st []) as [[[r| |] st'] ch']; cbn [fst snd] in *;
      try exact Hi. congruence.
Qed.

Lemma np_obatch B s : oinv s -> np (fun r => oinv (snd r)) (obatch C cbats cdone parse_int parse_float ords B s).
Proof.
  destruct s as [st c]. unfold oinv. cbn [fst]. intros Hs. unfold obatch.
  destruct (Order.total st =? 0).
  - eapply np_bind; [apply safe_np; apply (np_safe _ _ (Hbats c))|]. intros bs _.
    destruct (order_batch_never_panics parse_int parse_float ords B st bs Hs) as (ret & st' & ch' & E & Hi).
    rewrite E. exact Hi.
  - destruct (order_batch_never_panics parse_int parse_float ords B st [] Hs) as (ret & st' & ch' & E & Hi).
    rewrite E. exact Hi.
Qed.

Lemma safe_ord_limit_row start count c :
  safe (ord_limit_row C crows cdone parse_int parse_float ords start count c).
Proof.
  unfold ord_limit_row. apply (safe_ldrain_row _ _ _ oinv); [|reflexivity].
  intros s Hs. apply np_onext. exact Hs.
Qed.

Lemma safe_ord_limit_batch fuel B start count c :
  safe (ord_limit_batch C cbats cdone parse_int parse_float ords fuel B start count c).
Proof.
  unfold ord_limit_batch. apply (safe_ldrain_batch_fuel _ _ _ oinv); [|reflexivity].
  intros s Hs. apply np_obatch. exact Hs.
Qed.

End OrderNodes.

(* ---- Model/SelectPlans.v: the statement *)
Section StatementNodes.
Variable P : Type.
Variable frow : P -> res bool.
Variable fbatch : list P -> res (list bool).
Variable prow : P -> res Order.row.
Variable pbatch : list P -> res (list Order.row).
Variable F : Type.
Variable fadd fsub fmul fdiv : F -> F -> F.
Variable fltb : F -> F -> bool.
Variable fis0 : F -> bool.
Variable of_Z : Z -> F.
Variable to_Z : F -> Z.
Variable fmt_f : F -> bytes.
Variable bits_f : F -> bytes.
Variable json_f : F -> option bytes.
Variable parse_f : bytes -> option F.
Variable json_s : bytes -> bytes.
Variable T : Type.
Variable t0 : T.
Variable obs_row : Group.plan F -> T -> P -> res (Group.pobs F * T).
Variable obs_batch : Group.plan F -> T -> list P -> res (list (Group.pobs F) * T).
Variable aconv : list (Group.value F) -> Order.row.
Variable parse_int parse_float : bytes -> option Z.
Hypothesis Hfrow : forall kv, safe (frow kv).
Hypothesis Hfbatch : forall ch, np (fun ms => List.length ms = List.length ch) (fbatch ch).
Hypothesis Hprow : forall kv, safe (prow kv).
Hypothesis Hpbatch : forall ch, safe (pbatch ch).
Hypothesis Hobs_row : forall p t kv, safe (obs_row p t kv).
Hypothesis Hobs_batch : forall p t ch, safe (obs_batch p t ch).

Notation agg_row := (agg_row P frow F fadd fsub fmul fdiv fltb fis0 of_Z to_Z fmt_f bits_f json_f parse_f json_s T t0 obs_row).
Notation agg_batch := (agg_batch P fbatch F fadd fsub fmul fdiv fltb fis0 of_Z to_Z fmt_f bits_f json_f parse_f json_s T t0 obs_batch).
Notation agg_rows := (agg_rows P frow F fadd fsub fmul fdiv fltb fis0 of_Z to_Z fmt_f bits_f json_f parse_f json_s T t0 obs_row aconv).
Notation agg_bats := (agg_bats P fbatch F fadd fsub fmul fdiv fltb fis0 of_Z to_Z fmt_f bits_f json_f parse_f json_s T t0 obs_batch aconv).

Lemma safe_agg_row p sl : safe (agg_row p sl).
Proof.
  unfold SelectPlans.agg_row. apply safe_bind; [apply safe_sdrain_row; auto|]. intros. apply safe_lrun_row.
Qed.

Lemma safe_agg_batch B p sl : safe (agg_batch B p sl).
Proof.
  unfold SelectPlans.agg_batch. apply safe_bind; [apply safe_sdrain_batch; auto|]. intros. apply safe_lrun_batch.
Qed.

Lemma safe_agg_rows p sl : safe (agg_rows p sl).
Proof. unfold SelectPlans.agg_rows. apply safe_bind; [apply safe_agg_row|]. intros; apply safe_ok. Qed.

(* AggregatePlan.batch() hands out PlanBatchSize >= 1 rows at a time: non-empty batches *)
Lemma np_agg_bats B p sl : 1 <= B -> np (Forall (@nonempty Order.row)) (agg_bats B p sl).
Proof.
  intros HB. unfold SelectPlans.agg_bats. eapply np_bind; [apply safe_np; apply safe_agg_batch|].
  intros rows _. cbn [np]. destruct (AggregateProofs.chunks_of_spec (map aconv rows) HB) as [_ Hn].
  eapply Forall_impl; [|exact Hn]. intros a Ha. exact Ha.
Qed.

Lemma safe_proj_rows sl : safe (proj_rows P frow prow sl).
Proof. apply safe_drain_row; assumption. Qed.

Lemma np_proj_bats B sl : np (Forall (@nonempty Order.row)) (proj_bats P fbatch pbatch B sl).
Proof. apply np_drain_batch; assumption. Qed.

Lemma safe_with_ords {A} (s : stmt F) os (k : list Order.ofield -> res A) :
  (forall ords, safe (k ords)) -> safe (with_ords F s os k).
Proof. intros H. unfold with_ords. destruct (Order.init_orders _ _ _); [apply H | apply safe_err]. Qed.

(* every shape, every statement record, every slot list: Next until nil never panics *)
Theorem safe_run_shape_row s sh sl :
  safe (run_shape_row P frow prow F fadd fsub fmul fdiv fltb fis0 of_Z to_Z fmt_f bits_f json_f parse_f json_s
                      T t0 obs_row aconv parse_int parse_float s sh sl).
Proof.
  unfold run_shape_row.
  repeat match goal with
         | |- safe (match ?x with _ => _ end) => destruct x
         end;
  try apply safe_oom;
  try (apply safe_with_ords; intros);
  first [ apply safe_proj_rows
        | apply safe_agg_rows
        | apply (safe_ldrain_row _ _ _ (fun _ => True)); [|exact I];
          intros ? _; apply (np_weaken any); [intros; exact I|]; apply safe_np; apply safe_proj_next; assumption
        | apply safe_ord_row; intros; first [apply safe_proj_rows | apply safe_agg_rows]
        | apply safe_ord_limit_row; intros; first [apply safe_proj_rows | apply safe_agg_rows] ].
Qed.

(* ... and Batch until the empty batch, at every PlanBatchSize >= 1 *)
Theorem safe_run_shape_batch B s sh sl : 1 <= B ->
  safe (run_shape_batch P fbatch pbatch F fadd fsub fmul fdiv fltb fis0 of_Z to_Z fmt_f bits_f json_f parse_f json_s
                        T t0 obs_batch aconv parse_int parse_float B s sh sl).
Proof.
  intros HB. unfold run_shape_batch.
  repeat match goal with
         | |- safe (match ?x with _ => _ end) => destruct x
         end;
  try apply safe_oom;
  try (apply safe_with_ords; intros);
  (apply safe_bind; [|intros; apply safe_ok]);
  first [ apply (np_safe _ _ (np_proj_bats B sl))
        | apply (np_safe _ _ (np_agg_bats B _ sl HB))
        | apply (safe_ldrain_batch_fuel _ _ _ (fun _ => True)); [|exact I];
          intros ? _; apply (np_weaken any); [intros; exact I|]; apply safe_np; apply safe_proj_batch; assumption
        | apply safe_ord_batch; intros; first [apply np_proj_bats | apply np_agg_bats; exact HB]
        | apply safe_ord_limit_batch; intros; first [apply np_proj_bats | apply np_agg_bats; exact HB] ].
Qed.

End StatementNodes.

(* ================================================================ 2. with the evaluator twins *)
Section Concrete.
Variable fo : fops.
Variable re_match : bytes -> bytes -> res bool.
Hypothesis re_safe : forall p t, safe (re_match p t).
Variable ag : aggops fo.
Variable parse_int parse_float : bytes -> option Z.

Lemma safe_sel_frow w kv : safe (sel_frow fo re_match w kv).
Proof. apply filter_never_panics. exact re_safe. Qed.

Lemma np_filter_batch w ch :
  np (fun ms => List.length ms = List.length ch) (filter_batch fo re_match true w ch).
Proof.
  pose proof (filter_batch_never_panics fo re_match true re_safe w ch) as Hs.
  pose proof (filter_batch_full_column fo re_match true re_safe w ch) as Hl.
  destruct (filter_batch fo re_match true w ch); cbn [np]; auto.
Qed.

Lemma safe_project_row kv : forall fs, safe (project_row fo re_match fs kv).
Proof.
  induction fs as [|f fs IH]; cbn [project_row]; [apply safe_ok|].
  apply safe_bind; [apply eval_never_panics; exact re_safe|].
  intros v. destruct v; try apply safe_err; (apply safe_bind; [exact IH | intros; apply safe_ok]).
Qed.

(* processProjectionBatch: every column has one value per pair ... *)
Lemma np_project_cols ch : forall fs,
  np (Forall (fun c => List.length c = List.length ch)) (project_cols fo re_match fs ch).
Proof.
  induction fs as [|f fs IH]; cbn [project_cols]; [constructor|].
  pose proof (eval_batch_colok fo re_match true re_safe f ch) as Hc.
  destruct (eval_batch fo re_match true f ch) as [col|e| |]; cbn [Value.bind colok np] in *; try exact I; try contradiction.
  eapply np_bind; [exact IH|]. intros cols Hcols. constructor; assumption.
Qed.

(* ... so that cols[j][i] is in range for every pair i *)
Lemma np_transpose : forall (ch : list kvpair) cols,
  Forall (fun c : list (value fo) => List.length c = List.length ch) cols ->
  np (fun rows => List.length rows = List.length ch) (transpose fo ch cols).
Proof.
  induction ch as [|kv ch IH]; intros cols Hc; cbn [transpose]; [reflexivity|].
  eapply np_bind.
  - apply safe_np. apply safe_all_ok. unfold EvalVec.heads. apply Forall_map. eapply Forall_impl; [|exact Hc].
    intros c Hlen. destruct c; [discriminate Hlen | apply safe_ok].
  - intros row _. eapply np_bind.
    + apply IH. unfold EvalVec.tails. apply Forall_map. eapply Forall_impl; [|exact Hc].
      intros c Hlen. destruct c; [discriminate Hlen|]. cbn [tl]. cbn [Datatypes.length] in Hlen. congruence.
    + intros rows Hr. cbn [np Datatypes.length]. cbn beta in Hr. lia.
Qed.

Lemma np_project_batch fs ch :
  np (fun rows => List.length rows = List.length ch) (project_batch fo re_match fs ch).
Proof. unfold project_batch. eapply np_bind; [apply np_project_cols|]. intros cols Hc. apply np_transpose. exact Hc. Qed.

Lemma safe_c_prow fields kv : safe (c_prow fo re_match ag fields kv).
Proof.
  unfold c_prow. apply safe_bind; [|intros; apply safe_ok].
  destruct fields; cbn [sel_prow]; [apply safe_project_row | apply safe_ok].
Qed.

Lemma safe_c_pbatch fields ch : safe (c_pbatch fo re_match ag fields ch).
Proof.
  unfold c_pbatch. apply safe_bind; [|intros; apply safe_ok].
  destruct fields; cbn [sel_pbatch]; [apply (np_safe _ _ (np_project_batch l ch)) | apply safe_ok].
Qed.

Lemma safe_gval v : safe (gval fo v).
Proof. destruct v; first [apply safe_ok | apply safe_oom]. Qed.

Lemma np_gvals : forall vs, np any (gvals fo vs).
Proof.
  induction vs as [|v vs IH]; cbn [gvals]; [exact I|].
  eapply np_bind; [apply safe_np; apply safe_gval|]. intros g _.
  eapply np_bind; [exact IH|]. intros; exact I.
Qed.

Lemma np_gvals_all : forall grows, np (fun gss => List.length gss = List.length grows) (gvals_all fo grows).
Proof.
  induction grows as [|g grows IH]; cbn [gvals_all]; [reflexivity|].
  eapply np_bind; [apply np_gvals|]. intros g' _.
  eapply np_bind; [exact IH|]. intros gs H. cbn [np Datatypes.length]. cbn beta in H. lia.
Qed.

Lemma safe_evals_row kv : forall es, safe (evals_row fo re_match es kv).
Proof.
  induction es as [|e es IH]; cbn [evals_row]; [apply safe_ok|].
  apply safe_bind; [apply eval_never_panics; exact re_safe|]. intros v.
  apply safe_bind; [apply safe_gval|]. intros g.
  apply safe_bind; [exact IH | intros; apply safe_ok].
Qed.

Lemma safe_evals_need need kv : forall es i, safe (evals_need fo re_match need i es kv).
Proof.
  induction es as [|e es IH]; intros i; cbn [evals_need]; [apply safe_ok|].
  destruct (need i).
  - apply safe_bind; [apply eval_never_panics; exact re_safe|]. intros v.
    apply safe_bind; [apply safe_gval|]. intros g.
    apply safe_bind; [apply IH | intros; apply safe_ok].
  - apply safe_bind; [apply IH | intros; apply safe_ok].
Qed.

(* batchGetAggrKeys: one key per pair *)
Lemma np_c_batch_g gs ch :
  np (fun gss => List.length gss = List.length ch) (c_batch_g fo re_match gs ch).
Proof.
  unfold c_batch_g. eapply np_bind; [apply np_project_batch|]. intros grows Hl.
  eapply np_weaken; [|apply np_gvals_all]. intros gss H. cbn beta in *. lia.
Qed.

Lemma safe_c_lobs_row gs ks args p t kv : safe (c_lobs_row fo re_match ag gs ks args p t kv).
Proof.
  unfold c_lobs_row. apply safe_lobs_row; intros; first [apply safe_evals_row | apply safe_evals_need].
Qed.

Lemma safe_c_lobs_batch gs ks args p t ch : safe (c_lobs_batch fo re_match ag gs ks args p t ch).
Proof.
  unfold c_lobs_batch. apply safe_lobs_batch; intros;
    first [apply np_c_batch_g | apply safe_evals_row | apply safe_evals_need].
Qed.

(* the statement as buildFinalPlan stacks it, with the evaluator twins: every checked-statement
   record (also ones no text produces), every shape, every slot list *)
Theorem safe_select_shape_row c sh sl :
  safe (select_shape_row fo re_match ag parse_int parse_float c sh sl).
Proof.
  unfold select_shape_row. apply safe_run_shape_row; intros;
    first [apply safe_sel_frow | apply safe_c_prow | apply safe_c_lobs_row].
Qed.

Theorem safe_select_shape_batch B c sh sl : 1 <= B ->
  safe (select_shape_batch fo re_match ag parse_int parse_float B c sh sl).
Proof.
  intros HB. unfold select_shape_batch. apply safe_run_shape_batch; try exact HB; intros;
    first [apply np_filter_batch | apply safe_c_pbatch | apply safe_c_lobs_batch].
Qed.

End Concrete.

(* ================================================================ 3. the front end *)

(* an outcome of the text twin that is none of the three "would crash / twin ran dry" outcomes *)
Definition stclean {A} (r : stres A) : Prop :=
  match r with STRunPanic | STPanic | STFuel => False | _ => True end.

Lemma stclean_bind {A B} (r : stres A) (f : A -> stres B) :
  stclean r -> (forall a, r = STOk a -> stclean (f a)) -> stclean (stbind r f).
Proof. destruct r; cbn [stbind stclean]; auto. Qed.

Lemma stclean_of_drain {A} (r : res A) : safe r -> stclean (of_drain r).
Proof. unfold safe. destruct r; cbn; auto. Qed.

Section Front.
Variable fo : fops.
Variable re : bytes -> bytes -> Value.res bool.
Variable fmt_v : F fo -> string.

(* Optimizer.init up to the accepted statement: the lexer twin is total by construction, the
   parser twin never runs dry and never dereferences a missing token (StmtParserProofs), the
   checker twin returns a statement, a SyntaxError or "outside the model" (ParseCheckProofs) *)
Theorem front_s_clean q : stclean (front_s fo q).
Proof.
  unfold front_s. cbv zeta. destruct (pc_oom fo q (lex q)); [exact I|].
  destruct (PipelineW.head_kind (lex q)); try exact I.
  unfold parse_real. destruct (parse_with_total (real_hooks fo) (lex q)) as [(s & E)|(z & E)]; rewrite E; [|exact I].
  destruct s as [x| | |]; try exact I.
  destruct (to_check_s x) as [c|] eqn:Etc; [|exact I].
  assert (Hc : cstmt_ok (fun _ => True) c) by (unfold cstmt_ok; apply Forall_forall; auto).
  pose proof (check_stmt_ok fo (fun _ => True) c Hc) as H1.
  destruct (Checker.check_stmt fo true c) as [c2|[p|p|]| |] eqn:E1; cbn [okr] in H1; try contradiction; try exact I.
  cbn [of_front stbind].
  pose proof (check_stmt_calls_ok (fun _ => True) c2 H1) as H2.
  destruct (Checker.check_stmt_calls c2) as [u|[p|p|]| |]; cbn [okr] in H2; try contradiction; try exact I.
  cbn [of_front stbind].
  unfold to_check_s in Etc. destruct (negb _); [discriminate|]. injection Etc as <-.
  apply check_stmt_select_order in E1. destruct E1 as (f2 & w2 & ->). exact I.
Qed.

(* ---- AggregatePlan.Init: Args[0] / Args[1] are read behind the NumArgs test *)
Lemma np_afun_of nm p cargs : np (fun _ => 1 <= List.length cargs) (afun_of nm p cargs).
Proof.
  unfold afun_of. cbv zeta.
  repeat match goal with
         | |- np _ (if String.eqb ?a ?b then _ else _) => destruct (String.eqb a b)
         end; try exact I;
  try (destruct (Nat.eqb_spec (List.length cargs) 1) as [El|]; [cbn [np]; lia | exact I]).
  destruct (Nat.eqb_spec (List.length cargs) 2) as [El|]; [|exact I].
  destruct cargs as [|a [|b [|c l]]]; try discriminate El.
  destruct (negb _); [exact I|]. destruct b; cbn [np List.length]; try exact I; lia.
Qed.

Lemma safe_aexpr_of : forall e calls0 args0, safe (aexpr_of fo e calls0 args0).
Proof.
  induction e; intros calls0 args0; cbn [aexpr_of]; try apply safe_oom; try apply safe_ok.
  - (* EBin *)
    apply safe_bind; [apply IHe1|]. intros x. apply safe_bind; [apply IHe2|]. intros y.
    destruct (arith_of _); [apply safe_ok | apply safe_oom].
  - (* ECall *)
    match goal with |- safe (if Checker.is_aggr_call ?c then _ else _) =>
      destruct (Checker.is_aggr_call c) eqn:Eagg; [|apply safe_oom] end.
    cbn [Checker.is_aggr_call] in Eagg.
    match goal with |- safe (match call_name ?n with _ => _ end) =>
      destruct (call_name n) as [nm|]; [|discriminate] end.
    match goal with |- safe (Value.bind (afun_of nm ?p ?l) _) =>
      pose proof (np_afun_of nm p l) as Hf;
      destruct (afun_of nm p l) as [f|er| |]; cbn [np Value.bind] in *;
        [|apply safe_err|contradiction|apply safe_oom];
      destruct l; [cbn in Hf; lia | apply safe_ok] end.
Qed.

Lemma safe_agg_split : forall fields keys args, safe (agg_split fo fields keys args).
Proof.
  induction fields as [|f fields IH]; intros keys args; cbn [agg_split]; [apply safe_ok|].
  destruct (is_agg_field f).
  - apply safe_bind; [apply safe_aexpr_of|]. intros x.
    apply safe_bind; [apply IH|]. intros; apply safe_ok.
  - apply safe_bind; [apply IH|]. intros; apply safe_ok.
Qed.

Lemma stclean_of_init {A} (r : res A) : safe r -> stclean (of_init r).
Proof. unfold safe. destruct r as [a|[]| |]; cbn; auto. Qed.

Lemma plan_of_front_clean x fields w : stclean (plan_of_front fo re fmt_v x fields w).
Proof.
  unfold plan_of_front. destruct (PipelineW.limit_of _); [|exact I]. destruct (_ || _); [exact I|]. cbv zeta.
  destruct (plan_select _ _); try exact I.
  apply stclean_bind; [apply stclean_of_init; apply safe_agg_split|]. intros; exact I.
Qed.

(* NewOptimizer(q).BuildPlan(store) *)
Theorem plan_stmt_text_clean q : stclean (plan_stmt_text fo re fmt_v q).
Proof.
  unfold plan_stmt_text. apply stclean_bind; [apply front_s_clean|]. intros; apply plan_of_front_clean.
Qed.

End Front.

(* ================================================================ 4. from the text *)
From KV Require Proofs.PipelineProofs Model.AggErrPos Proofs.ExecPosProofs Proofs.ExecPosStmtProofs.

Section Text.
Variable fo : fops.
Variable re : bytes -> bytes -> Value.res bool.
Hypothesis re_safe : forall p t, safe (re p t).
Variable fmt_v : F fo -> string.
Variable ag : aggops fo.
Variable pi pf : bytes -> option Z.

Notation mode_ok := PipelineProofs.mode_ok.

Lemma safe_run_mode m c sh sl : mode_ok m -> safe (run_mode fo re ag pi pf m c sh sl).
Proof.
  intros Hm. destruct m as [|B]; cbn [run_mode];
    [apply safe_select_shape_row | apply safe_select_shape_batch]; assumption.
Qed.

(* THE THEOREM.  Every byte string q, every store (sorted or not), row mode and batch mode at
   every PlanBatchSize >= 1: NewOptimizer(q).BuildPlan(store) followed by Next until nil /
   Batch until the empty batch ends as rows, a SyntaxError of BuildPlan, another error of
   BuildPlan, an error of the drain, or the explicit model boundary -- never as a nil
   dereference of the front end (STPanic), never with the twin's front-end fuel exhausted
   (STFuel), never as a panic of the drain (STRunPanic: heap.Pop on an empty heap, an index out
   of range in a column, a verdict list or a key list) *)
Theorem select_stmt_text_st_never_panics q d m : mode_ok m ->
  stclean (select_stmt_text_st fo re fmt_v ag pi pf q d m).
Proof.
  intros Hm. unfold select_stmt_text_st. apply stclean_bind; [apply plan_stmt_text_clean|].
  intros pl _. apply stclean_of_drain. unfold drain_planned. apply safe_run_mode. exact Hm.
Qed.

(* ... in Model/Pipeline.v's vocabulary: never TPanic, never TFuel, never the EPanic class *)
Definition tclean {A} (r : tres A) : Prop :=
  match r with TPanic | TFuel | TRunErr Storage.EPanic => False | _ => True end.

Lemma verr_class_not_panic e : verr_class e <> Storage.EPanic.
Proof. destruct e; discriminate. Qed.

Lemma to_tres_clean {A} (r : stres A) : stclean r -> tclean (to_tres r).
Proof.
  destruct r as [a|p|e|e| | | |]; cbn [stclean to_tres tclean]; auto.
  - destruct e as [p|p|]; cbn [tclean verr_class]; exact (fun _ => I).
  - intros _. pose proof (verr_class_not_panic e). destruct (verr_class e); auto.
Qed.

Theorem select_stmt_text_never_panics q d m : mode_ok m ->
  tclean (select_stmt_text fo re fmt_v ag pi pf q d m).
Proof. intros Hm. apply to_tres_clean. apply select_stmt_text_st_never_panics. exact Hm. Qed.

(* the same for the twin that keeps class and position of the errors raised while a group's
   row is completed (Model/AggErrPos.v) *)
Theorem select_stmt_text_stp_never_panics q d m : mode_ok m ->
  stclean (AggErrPos.select_stmt_text_stp fo re fmt_v ag pi pf q d m).
Proof.
  intros Hm. pose proof (select_stmt_text_st_never_panics q d m Hm) as H.
  destruct (ExecPosStmtProofs.stp_refines_st fo re fmt_v ag pi pf q d m) as [->|(_ & e & _ & ->)]; [exact H | exact I].
Qed.

End Text.

(* ================================================================ 5. PUT / REMOVE / DELETE from the text *)
From KV Require Model.Write Model.Delete Model.ScanIO.
From KV Require Proofs.PipelineWProofs Proofs.NoPanicPlanProofs.

(* ---- Parser.Parse dispatches on the first token: the statement kind is the kind of that token *)
Definition okshape (Q : StmtParser.stmt -> Prop) (r : ExprParser.pres StmtParser.stmt) : Prop :=
  match r with ExprParser.POk s _ => Q s | _ => True end.

Lemma okshape_bind {A} Q (r : ExprParser.pres A) k :
  (forall a ts, okshape Q (k a ts)) -> okshape Q (ExprParser.bind r k).
Proof. intros H. destruct r; cbn [ExprParser.bind okshape]; auto. Qed.

Ltac shape_go :=
  repeat first
    [ exact I
    | apply okshape_bind; intros
    | match goal with
      | |- okshape _ (match ?x with _ => _ end) => destruct x
      | |- okshape _ (if ?c then _ else _) => destruct c
      end
    | progress cbn [okshape] ].

Definition is_put (s : StmtParser.stmt) : Prop := match s with StPut _ _ => True | _ => False end.
Definition is_remove (s : StmtParser.stmt) : Prop := match s with StRemove _ _ => True | _ => False end.
Definition is_delete (s : StmtParser.stmt) : Prop := match s with StDelete _ _ _ _ => True | _ => False end.

Lemma parse_put_shape ts : okshape is_put (parse_put ts).
Proof. unfold parse_put. destruct ts; [exact I|]. shape_go. Qed.
Lemma parse_remove_shape ts : okshape is_remove (parse_remove ts).
Proof. unfold parse_remove. destruct ts; [exact I|]. shape_go. Qed.
Lemma parse_delete_shape ts : okshape is_delete (parse_delete ts).
Proof. unfold parse_delete. destruct ts; [exact I|]. shape_go. Qed.

Definition kind_shape (k : PipelineW.wkind) (s : StmtParser.stmt) : Prop :=
  match k with
  | PipelineW.KPut => is_put s
  | PipelineW.KRemove => is_remove s
  | PipelineW.KDelete => is_delete s
  | PipelineW.KOther => True
  end.

Lemma parse_statement_kind ts s :
  parse_statement ts = SOk s -> kind_shape (PipelineW.head_kind ts) s.
Proof.
  unfold parse_statement, parse_with, parse_query, PipelineW.head_kind. cbv zeta.
  destruct (trim_end_semis ts) as [|t ts1] eqn:Et; [discriminate|].
  destruct (Token.tp t) eqn:Etp; cbn [kind_shape]; try exact (fun _ => I).
  - pose proof (parse_put_shape (t :: ts1)) as H. destruct (parse_put (t :: ts1)); try discriminate.
    intros E. injection E as <-. exact H.
  - pose proof (parse_remove_shape (t :: ts1)) as H. destruct (parse_remove (t :: ts1)); try discriminate.
    intros E. injection E as <-. exact H.
  - pose proof (parse_delete_shape (t :: ts1)) as H. destruct (parse_delete (t :: ts1)); try discriminate.
    intros E. injection E as <-. exact H.
Qed.

Section WriteText.
Variable fo : fops.
Variable re : bytes -> bytes -> Value.res bool.
Hypothesis re_safe : forall p t, safe (re p t).
Variable fmt_v : F fo -> string.

Definition tclean' {A} (r : tres A) : Prop := match r with TPanic | TFuel => False | _ => True end.

Lemma tclean'_bind {A B} (r : tres A) (f : A -> tres B) :
  tclean' r -> (forall a, r = TOk a -> tclean' (f a)) -> tclean' (tbind r f).
Proof. destruct r; cbn [tbind tclean']; auto. Qed.

(* Parser.Parse's syntax phase on a write text: never out of fuel, never a nil dereference, and
   the statement has the kind of the first token *)
Lemma parsed_text_clean want q :
  match PipelineW.parsed_text fo want q with
  | TOk s => kind_shape (PipelineW.head_kind (lex q)) s
  | TPanic | TFuel => False
  | _ => True
  end.
Proof.
  unfold PipelineW.parsed_text. cbv zeta. destruct (pc_oom fo q (lex q)); [exact I|].
  destruct (negb _); [exact I|].
  destruct (parse_statement_total (lex q)) as [(s & E)|(p & E)]; rewrite E; [|exact I].
  apply parse_statement_kind. exact E.
Qed.

(* Optimizer.init for a write text: the checker returns the statement kind it was given (or a
   SyntaxError, or "outside the model") *)
Definition same_kind (s : StmtParser.stmt) (c : Checker.stmt) : Prop :=
  match s, c with
  | StPut _ _, Checker.SPut _ | StRemove _ _, Checker.SRemove _ | StDelete _ _ _ _, Checker.SDelete _ => True
  | StSelect _, _ => True
  | _, _ => False
  end.

Lemma front_clean want q :
  match PipelineW.front fo want q with
  | TOk (s, c2) => same_kind s c2 /\ kind_shape (PipelineW.head_kind (lex q)) s
  | TPanic | TFuel => False
  | _ => True
  end.
Proof.
  unfold PipelineW.front. pose proof (parsed_text_clean want q) as Hp.
  destruct (PipelineW.parsed_text fo want q) as [s|p|e| | |]; cbn [tbind] in *; try exact I; try contradiction.
  destruct (to_check s) as [c|] eqn:Etc; [|exact I].
  assert (Hc : cstmt_ok (fun _ => True) c) by (unfold cstmt_ok; apply Forall_forall; auto).
  pose proof (build_check_ok fo (fun _ => True) c Hc) as H1.
  destruct (Checker.build_check fo true c) as [c2|[x|x|]| |] eqn:Eb; cbn [okr of_check tbind] in *;
    try exact I; try contradiction.
  split; [|exact Hp].
  destruct s as [x|p prs|p ks|p wp w lim]; cbn [to_check] in Etc; cbn [same_kind]; try exact I;
    injection Etc as <-.
  - rewrite (PipelineWProofs.build_check_put fo _ _ Eb). exact I.
  - rewrite (PipelineWProofs.build_check_remove fo _ _ Eb). exact I.
  - destruct (PipelineWProofs.build_check_delete fo _ _ Eb) as [-> _]. exact I.
Qed.

(* the plan's own evaluations never panic *)
Lemma pairs_stat_no_panic : forall prs, PipelineW.pairs_stat fo re prs <> PipelineW.EsPanic.
Proof.
  induction prs as [|[ke ve] prs IH]; cbn [PipelineW.pairs_stat]; [discriminate|].
  pose proof (eval_never_panics fo re re_safe "" "" ke) as Hk.
  destruct (eval fo re "" "" ke) as [kx|e| |]; try discriminate; [|congruence].
  pose proof (eval_never_panics fo re re_safe (to_string fo kx) "" ve) as Hv.
  destruct (eval fo re (to_string fo kx) "" ve) as [vx|e| |]; try discriminate; [exact IH | congruence].
Qed.

Lemma keys_stat_no_panic : forall ks, PipelineW.keys_stat fo re ks <> PipelineW.EsPanic.
Proof.
  induction ks as [|ke ks IH]; cbn [PipelineW.keys_stat]; [discriminate|].
  pose proof (eval_never_panics fo re re_safe "" "" ke) as Hk.
  destruct (eval fo re "" "" ke) as [kx|e| |]; try discriminate; [exact IH | congruence].
Qed.

(* NewOptimizer(q).BuildPlan(store) for a PUT / REMOVE text *)
Theorem write_plan_text_clean q : tclean' (PipelineW.write_plan_text fo re q).
Proof.
  unfold PipelineW.write_plan_text. pose proof (front_clean PipelineW.is_write_kind q) as Hf.
  assert (Hk : forall s c2, PipelineW.front fo PipelineW.is_write_kind q = TOk (s, c2) ->
                            PipelineW.is_write_kind (PipelineW.head_kind (lex q)) = true).
  { unfold PipelineW.front, PipelineW.parsed_text. cbv zeta. intros s c2.
    destruct (pc_oom fo q (lex q)); [discriminate|].
    destruct (PipelineW.is_write_kind (PipelineW.head_kind (lex q))); [reflexivity | discriminate]. }
  destruct (PipelineW.front fo PipelineW.is_write_kind q) as [[s c2]|p|e| | |] eqn:Ef; cbn [tbind tclean'] in *;
    try exact I; try contradiction.
  destruct Hf as [Hs Hshape]. specialize (Hk s c2 eq_refl).
  destruct (PipelineW.head_kind (lex q)); try discriminate Hk; cbn [kind_shape] in Hshape;
    destruct s; try contradiction; destruct c2; try contradiction; cbn [snd PipelineW.wplan_of PipelineW.plan_stat].
  - pose proof (pairs_stat_no_panic pairs0) as Hn || pose proof (pairs_stat_no_panic pairs) as Hn.
    destruct (PipelineW.pairs_stat fo re _); try exact I. congruence.
  - pose proof (keys_stat_no_panic keys0) as Hn || pose proof (keys_stat_no_panic keys) as Hn.
    destruct (PipelineW.keys_stat fo re _); try exact I. congruence.
Qed.

End WriteText.

(* ---- the polls of an accepted PUT / REMOVE plan, any number of them, also after it finished *)
Section WritePolls.
Variable fo : fops.
Variable re : bytes -> bytes -> Value.res bool.
Hypothesis re_safe : forall p t, safe (re p t).

Notation ev := (PipelineW.ev_expr fo re).

(* an error a poll may return: an evaluation error or a storage error -- not the twin's
   "would panic" / "ran dry" classes *)
Definition err_ok (e : option Storage.err) : Prop := e <> Some Storage.EPanic /\ e <> Some Storage.EFuel.
Definition pres_ok (r : Write.pres) : Prop := err_ok (snd r).

Lemma err_ok_none : err_ok None.
Proof. split; discriminate. Qed.
Lemma err_ok_exec : err_ok (Some Storage.EExec).
Proof. split; discriminate. Qed.
Lemma err_ok_storage : err_ok (Some Storage.EStorage).
Proof. split; discriminate. Qed.

Lemma process_kvpairs_ok : forall prs, PipelineW.pairs_stat fo re prs = PipelineW.EsRuns ->
  match Write.process_kvpairs ev prs with Storage.Err e => e = Storage.EExec | Storage.Ok _ => True end.
Proof.
  induction prs as [|[ke ve] prs IH]; cbn [PipelineW.pairs_stat Write.process_kvpairs]; [exact (fun _ => I)|].
  unfold Write.process_kvpair, PipelineW.ev_expr in *. cbn [fst snd].
  destruct (eval fo re "" "" ke) as [kx|e| |]; try discriminate; [|reflexivity].
  destruct (eval fo re (to_string fo kx) "" ve) as [vx|e| |]; try discriminate; [|reflexivity].
  intros H. specialize (IH H). destruct (Write.process_kvpairs _ prs); [exact I | exact IH].
Qed.

Lemma process_keys_ok : forall ks, PipelineW.keys_stat fo re ks = PipelineW.EsRuns ->
  match Write.process_keys ev ks with Storage.Err e => e = Storage.EExec | Storage.Ok _ => True end.
Proof.
  induction ks as [|ke ks IH]; cbn [PipelineW.keys_stat Write.process_keys]; [exact (fun _ => I)|].
  unfold Write.process_key, PipelineW.ev_expr in *.
  destruct (eval fo re "" "" ke) as [kx|e| |]; try discriminate; [|reflexivity].
  intros H. specialize (IH H). destruct (Write.process_keys _ ks); [exact I | exact IH].
Qed.

Lemma put_execute_ok prs s : PipelineW.pairs_stat fo re prs = PipelineW.EsRuns ->
  err_ok (snd (fst (Write.put_execute ev prs s))).
Proof.
  intros H. apply process_kvpairs_ok in H. unfold Write.put_execute.
  destruct (Write.process_kvpairs ev prs) as [kvps|e]; [|subst e; exact err_ok_exec].
  destruct kvps as [|kv [|kv2 kvps]]; [exact err_ok_none | |].
  - unfold Storage.st_put, Storage.call. destruct (Storage.faulted s); [exact err_ok_storage | exact err_ok_none].
  - unfold Storage.st_batch_put, Storage.call. destruct (Storage.faulted s); [exact err_ok_storage | exact err_ok_none].
Qed.

Lemma remove_execute_ok ks s : PipelineW.keys_stat fo re ks = PipelineW.EsRuns ->
  err_ok (snd (fst (Write.remove_execute ev ks s))).
Proof.
  intros H. apply process_keys_ok in H. unfold Write.remove_execute.
  destruct (Write.process_keys ev ks) as [keys|e]; [|subst e; exact err_ok_exec].
  destruct keys as [|k [|k2 keys]]; [exact err_ok_none | |].
  - unfold Storage.st_delete, Storage.call. destruct (Storage.faulted s); [exact err_ok_storage | exact err_ok_none].
  - unfold Storage.st_batch_delete, Storage.call. destruct (Storage.faulted s); [exact err_ok_storage | exact err_ok_none].
Qed.

Lemma wpoll_ok pl p ex s : PipelineW.plan_stat fo re pl = PipelineW.EsRuns ->
  pres_ok (fst (fst (Write.wpoll ev pl p ex s))).
Proof.
  intros H. unfold pres_ok. destruct pl as [prs|ks], p; cbn [Write.wpoll PipelineW.plan_stat] in *;
    unfold Write.put_next, Write.put_batch, Write.remove_next, Write.remove_batch;
    destruct (negb ex); try exact err_ok_none.
  - pose proof (put_execute_ok prs s H) as G. destruct (Write.put_execute ev prs s) as [[n e] s']. exact G.
  - pose proof (put_execute_ok prs s H) as G. destruct (Write.put_execute ev prs s) as [[n e] s']. exact G.
  - pose proof (remove_execute_ok ks s H) as G. destruct (Write.remove_execute ev ks s) as [[n e] s']. exact G.
  - pose proof (remove_execute_ok ks s H) as G. destruct (Write.remove_execute ev ks s) as [[n e] s']. exact G.
Qed.

Lemma run_polls_ok pl : PipelineW.plan_stat fo re pl = PipelineW.EsRuns ->
  forall polls ex s, Forall pres_ok (fst (fst (Write.run_polls ev pl polls ex s))).
Proof.
  intros H. induction polls as [|p polls IH]; intros ex s; cbn [Write.run_polls]; [constructor|].
  pose proof (wpoll_ok pl p ex s H) as Hp.
  destruct (Write.wpoll ev pl p ex s) as [[r ex'] s']. cbn [fst] in Hp.
  specialize (IH ex' s'). destruct (Write.run_polls ev pl polls ex' s') as [[rs ex''] s''].
  cbn [fst] in *. constructor; assumption.
Qed.

(* THE THEOREM for PUT / REMOVE: every text, every poll sequence (the finished plan polled
   again and again, Next and Batch mixed), every storage state and fault index: BuildPlan is
   never TPanic / TFuel, and no poll of an accepted plan returns an error of the EPanic / EFuel
   class *)
Theorem write_text_never_panics q polls s :
  match fst (PipelineW.write_text fo re q polls s) with
  | TPanic | TFuel => False
  | TOk outs => Forall pres_ok outs
  | _ => True
  end.
Proof.
  unfold PipelineW.write_text. pose proof (write_plan_text_clean fo re re_safe q) as Hc.
  destruct (PipelineW.write_plan_text fo re q) as [pl|p|e| | |] eqn:Ep; cbn [fst PipelineW.tcast tclean'] in *;
    try exact I; try contradiction.
  assert (Hs : PipelineW.plan_stat fo re pl = PipelineW.EsRuns).
  { unfold PipelineW.write_plan_text in Ep. destruct (PipelineW.front fo PipelineW.is_write_kind q) as [sc| | | | |];
      cbn [tbind] in Ep; try discriminate.
    destruct (PipelineW.wplan_of (snd sc)) as [pl'|]; [|discriminate].
    destruct (PipelineW.plan_stat fo re pl') eqn:Es; try discriminate. injection Ep as <-. exact Es. }
  unfold Write.wexec. pose proof (run_polls_ok pl Hs polls (Write.wbuild) s) as H.
  destruct (Write.run_polls ev pl polls Write.wbuild s) as [[rs ex] s']. exact H.
Qed.

End WritePolls.

(* ---- DELETE from the text *)
Section DeleteText.
Variable fo : fops.
Variable re : bytes -> bytes -> Value.res bool.
Variable fmt_v : F fo -> string.

(* NewOptimizer(q).BuildPlan(store) for a DELETE text: a plan, a positional rejection or the
   model boundary *)
Theorem delete_plan_text_clean q : tclean' (PipelineW.delete_plan_text fo re fmt_v q).
Proof.
  unfold PipelineW.delete_plan_text. pose proof (front_clean fo PipelineW.is_delete_kind q) as Hf.
  assert (Hk : forall s c2, PipelineW.front fo PipelineW.is_delete_kind q = TOk (s, c2) ->
                            PipelineW.is_delete_kind (PipelineW.head_kind (lex q)) = true).
  { unfold PipelineW.front, PipelineW.parsed_text. cbv zeta. intros s c2.
    destruct (pc_oom fo q (lex q)); [discriminate|].
    destruct (PipelineW.is_delete_kind (PipelineW.head_kind (lex q))); [reflexivity | discriminate]. }
  destruct (PipelineW.front fo PipelineW.is_delete_kind q) as [[s c2]|p|e| | |] eqn:Ef; cbn [tbind tclean'] in *;
    try exact I; try contradiction.
  destruct Hf as [Hs Hshape]. specialize (Hk s c2 eq_refl).
  destruct (PipelineW.head_kind (lex q)); try discriminate Hk; cbn [kind_shape] in Hshape.
  destruct s; try contradiction. destruct c2; try contradiction.
  destruct (PipelineW.limit_of _); [|exact I]. destruct (fold_oom _ _ _ _); exact I.
Qed.

(* THE THEOREM for DELETE: every text, every PlanBatchSize, every storage state: BuildPlan is
   never TPanic / TFuel; and the run of the plan it returns never ends in the EPanic class (nil
   iterator, wrong node state), whatever filter, batch size and fuel -- the DeletePlan over a
   scan by run_stmt_never_panics (Proofs/NoPanicPlanProofs.v), the RemovePlan over listed keys
   by the poll lemma above with literal keys *)
Theorem delete_text_never_panics q B s :
  tclean' (fst (PipelineW.delete_text fo re fmt_v q B s)) /\
  forall pl flt fuel, PipelineW.delete_plan_text fo re fmt_v q = TOk pl ->
    match PipelineW.dp_plan pl with
    | Delete.DScan c =>
        fst (ScanIO.run ScanIO.exec_req (ScanIO.delete_prog true flt B fuel c) s) <> Storage.Err Storage.EPanic
    | Delete.DRemove keys => True
    end.
Proof.
  split.
  - unfold PipelineW.delete_text. pose proof (delete_plan_text_clean q) as Hc.
    destruct (PipelineW.delete_plan_text fo re fmt_v q) as [pl|p|e| | |]; cbn [fst PipelineW.tcast tclean'] in *;
      try exact I; try contradiction.
    destruct (PipelineW.filter_oom _ _ _ _); exact I.
  - intros pl flt fuel _. destruct (PipelineW.dp_plan pl) as [c|keys]; [|exact I].
    exact (NoPanicPlanProofs.run_stmt_never_panics_lemma true flt (fun _ => EmptyString) B fuel
             ScanIO.RowMode (ScanIO.StDelete c) s).
Qed.

End DeleteText.

(* ================================================================ 6. from the text to the rendered message *)
From KV Require Import Model.ErrPos Spec.CaretSpec Proofs.ErrPosProofs Proofs.ExecPosProofs.
From KV Require Model.TextErr Model.ErrRender Proofs.ErrRenderProofs.

Section ErrText.
Variable fo : fops.
Variable re : bytes -> bytes -> Value.res bool.
Variable fmt_v : F fo -> string.
Hypothesis re_ok : re_plain re.                 (* the oracle returns no positional error of its own *)
Variable ag : aggops fo.
Variable pi pf : bytes -> option Z.

Notation fp := (flat_map positions).
Notation exec_of := (PipelineS.exec_of fo re fmt_v).

(* ---- AggregatePlan.Init: its errors sit on a node of the field *)
Lemma okp_afun_of nm p cargs : okp (fun z => z = p \/ In z (fp cargs)) (afun_of nm p cargs).
Proof.
  unfold afun_of. cbv zeta.
  repeat match goal with
         | |- okp _ (if String.eqb ?a ?b then _ else _) => destruct (String.eqb a b)
         end; try exact I;
  try (destruct (Nat.eqb (List.length cargs) 1); [exact I | left; reflexivity]).
  destruct (Nat.eqb (List.length cargs) 2); [|left; reflexivity].
  destruct cargs as [|a [|b [|c l]]]; try exact I.
  destruct (negb _); [|destruct b; exact I].
  right. cbn [flat_map]. apply in_or_app. right. apply in_or_app. left. apply epos_in_positions.
Qed.

Lemma okp_aexpr_of : forall e calls0 args0, okp (fun z => In z (positions e)) (aexpr_of fo e calls0 args0).
Proof.
  induction e; intros calls0 args0; cbn [aexpr_of]; try exact I.
  - apply okp_bind.
    + eapply okp_mono; [|apply IHe1]. intros z Hz. cbn [positions]. right. apply in_or_app. now left.
    + intros x. apply okp_bind.
      * eapply okp_mono; [|apply IHe2]. intros z Hz. cbn [positions]. right. apply in_or_app. now right.
      * intros y. destruct (arith_of _); exact I.
  - match goal with |- okp _ (if Checker.is_aggr_call ?c then _ else _) =>
      destruct (Checker.is_aggr_call c); [|exact I] end.
    match goal with |- okp _ (match call_name ?n with _ => _ end) =>
      destruct (call_name n) as [nm|]; [|exact I] end.
    apply okp_bind.
    + eapply okp_mono; [|apply okp_afun_of]. intros z [->|Hz]; cbn [positions]; [now left|].
      right. apply in_or_app. now right.
    + intros f. match goal with |- okp _ (match ?l with _ => _ end) => destruct l; exact I end.
Qed.

Lemma okp_agg_split : forall fields keys args, okp (fun z => In z (fp fields)) (agg_split fo fields keys args).
Proof.
  induction fields as [|f fields IH]; intros keys args; cbn [agg_split]; [exact I|].
  destruct (is_agg_field f).
  - apply okp_bind.
    + eapply okp_mono; [|apply okp_aexpr_of]. intros z Hz. cbn [flat_map]. apply in_or_app. now left.
    + intros x. apply okp_bind; [|intros; exact I].
      eapply okp_mono; [|apply IH]. intros z Hz. cbn [flat_map]. apply in_or_app. now right.
  - apply okp_bind; [|intros; exact I].
    eapply okp_mono; [|apply IH]. intros z Hz. cbn [flat_map]. apply in_or_app. now right.
Qed.

(* the front end alone raises SyntaxErrors only *)
Lemma front_s_shape q :
  match front_s fo q with STBuildErr _ | STRunErr _ | STRunPanic => False | _ => True end.
Proof.
  unfold front_s. cbv zeta. destruct (pc_oom fo q (lex q)); [exact I|].
  destruct (PipelineW.head_kind (lex q)); try exact I.
  destruct (parse_real fo (lex q)) as [s|z| |]; try exact I.
  destruct s as [x| | |]; try exact I.
  destruct (to_check_s x) as [c|]; [|exact I].
  destruct (Checker.check_stmt fo true c) as [c2|[p|p|]| |]; cbn [of_front stbind]; try exact I.
  destruct (Checker.check_stmt_calls c2) as [u|[p|p|]| |]; cbn [of_front stbind]; try exact I.
  destruct c2; exact I.
Qed.

Definition st_pos_ok {A} (q : string) (r : stres A) : Prop :=
  match r with
  | STReject z => pos_in_query q z = true
  | STBuildErr (Value.EExec p) | STBuildErr (Value.ESyntax p)
  | STRunErr (Value.EExec p) | STRunErr (Value.ESyntax p) => pos_in_query q (Z.of_nat p) = true
  | _ => True
  end.

(* every error of NewOptimizer(q).BuildPlan(store) -- of the parser, the checker, the call
   check, buildFinalPlan, AggregatePlan.Init -- carries -1 or an offset inside the query *)
Theorem plan_stmt_text_err_pos q : st_pos_ok q (plan_stmt_text fo re fmt_v q).
Proof.
  unfold plan_stmt_text. pose proof (front_s_shape q) as Hsh.
  destruct (front_s fo q) as [[[x fields] w]|z|e|e| | | |] eqn:Ef; cbn [stbind st_pos_ok] in *; try exact I; try contradiction.
  2:{ destruct (front_s_reject_parse_check fo re fmt_v q z Ef) as (k & _ & E).
      exact (parse_check_err_in_query_thm fo re fmt_v q k z E). }
  cbn [fst snd]. pose proof (front_s_parse_check fo re fmt_v q x fields w Ef) as Epc.
  unfold plan_of_front. destruct (PipelineW.limit_of _) as [limit|]; [|exact I].
  destruct (fold_oom fo re fmt_v w || existsb (fun nf => fold_oom fo re fmt_v (snd nf)) fields) eqn:Eo; [exact I|].
  apply orb_false_iff in Eo. destruct Eo as [_ Eo]. cbv zeta.
  unfold plan_stage, plan_oom, plan_check, fold_fields in Epc. rewrite Eo in Epc.
  change (fun nf : string * expr => (fst nf, FoldStmt.exec_tree fo re fmt_v (snd nf)))
    with (fun nf : string * expr => (fst nf, exec_of (snd nf))) in Epc.
  destruct (plan_select x _) eqn:Ep; cbn [st_pos_ok]; try exact I.
  2:{ exact (parse_check_err_in_query_thm fo re fmt_v q _ z Epc). }
  (* AggregatePlan.Init *)
  destruct (parse_check_ok_positions_thm fo re fmt_v q _ _ _ Epc) as (_ & _ & _ & Hq).
  rewrite Forall_forall in Hq.
  assert (G : forall p, In p (fp (map snd (map (fun nf : string * expr => (fst nf, exec_of (snd nf))) fields))) ->
                        pos_in_query q (Z.of_nat p) = true).
  { intros p Hp. apply Hq. apply in_or_app. right. unfold cstmt_positions. apply in_or_app. left.
    cbn [cstmt_exprs]. rewrite map_map in Hp. cbn [snd] in Hp.
    apply in_flat_map in Hp as (T & HT & Hp). apply in_map_iff in HT as (nf & <- & Hnf).
    apply in_flat_map. exists (snd nf). split; [apply in_or_app; left; apply in_map; exact Hnf|].
    exact (exec_tree_positions_lemma fo re fmt_v (snd nf) p Hp). }
  pose proof (okp_agg_split (map snd (map (fun nf : string * expr => (fst nf, exec_of (snd nf))) fields)) [] []) as Hok.
  destruct (agg_split fo _ [] []) as [sp|[p|p|]| |]; cbn [of_init stbind st_pos_ok okp] in *; try exact I.
  - apply G. exact Hok.
  - apply G. exact Hok.
Qed.

(* ... and so does every positional error of the drain (C17: select_stmt_exec_err_pos_in_query) *)
Theorem select_stmt_text_err_pos q d m :
  st_pos_ok q (AggErrPos.select_stmt_text_stp fo re fmt_v ag pi pf q d m).
Proof.
  unfold AggErrPos.select_stmt_text_stp. pose proof (plan_stmt_text_err_pos q) as Hb.
  destruct (plan_stmt_text fo re fmt_v q) as [pl|z|e|e| | | |] eqn:Ep; cbn [stbind] in *; try exact Hb.
  pose proof (ExecPosStmtProofs.select_stmt_exec_err_pos_stp_lemma fo re fmt_v re_ok ag pi pf q pl d m) as H.
  unfold AggErrPos.select_stmt_text_stp in H. rewrite Ep in H. cbn [stbind] in H.
  destruct (AggErrPos.drain_planned_pos fo re ag pi pf pl d m) as [a|[p|p|]| |];
    cbn [of_drain st_pos_ok] in *; try exact I.
  - exact (proj2 (H p eq_refl (or_introl eq_refl))).
  - exact (proj2 (H p eq_refl (or_intror eq_refl))).
Qed.

(* THE COMPOSED STATEMENT, from the text to the rendered message: whatever error the SELECT
   pipeline returns for a query text q -- at BuildPlan or while draining, row mode or batch
   mode --, once bound to q (BindQuery) with any padding (SetPadding; also a negative one) and
   any message: its position is -1 or an offset INSIDE q, and Error() returns a string (no
   slice-bounds panic in outputQueryAndErrPos) *)
Theorem error_of_text_renders q d m msg pad e :
  TextErr.st_error q msg pad (AggErrPos.select_stmt_text_stp fo re fmt_v ag pi pf q d m) = Some e ->
  ErrRender.e_query e = q /\
  pos_in_query q (ErrRender.e_pos e) = true /\
  exists s, ErrRender.error_text true e = ErrRender.Ok s.
Proof.
  intros H. pose proof (select_stmt_text_err_pos q d m) as Hp.
  assert (G : ErrRender.e_query e = q /\ pos_in_query q (ErrRender.e_pos e) = true).
  { destruct (AggErrPos.select_stmt_text_stp fo re fmt_v ag pi pf q d m) as [a|z|[p|p|]|[p|p|]| | | |];
      cbn [TextErr.st_error TextErr.qerr_of st_pos_ok] in *; try discriminate;
      injection H as <-; cbn [ErrRender.e_query ErrRender.e_pos]; split; auto. }
  destruct G as [G1 G2]. split; [exact G1|]. split; [exact G2|].
  apply ErrRenderProofs.error_text_never_panics.
Qed.

End ErrText.
