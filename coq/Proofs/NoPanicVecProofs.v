(* Proofs/NoPanicVecProofs.v -- the vector (batch) evaluator twin Model/EvalVec.v never reaches
   a Panic outcome (C06), and every column it returns has exactly one value per pair of the
   chunk.

   The Go panic sites of expression_exec_vec.go / scalar_func_vec.go that are explicit in the
   twin, and what discharges them here:
     - `x[i]` for i < len(chunk) on the result column of a sub-expression (every loop of every
       node: [vmap2] / [vmap3] on columns of different lengths, [heads] on an exhausted IN
       column, `rleft[0]` in execEqualBatch): the length invariant [colok] -- a column that is
       returned has len(chunk) entries -- proved together with safety, by induction on the
       expression;
     - `args[k]` in a vector function body ([nth_col]): the arity check of
       FunctionCallExpr.ExecuteBatch runs before the body ([safe_apply_func_vec]);
     - the row bodies called from join / list / int_list / float_list in batch mode: the row
       theorem Proofs/NoPanicProofs.v ([safe_apply_func], [eval_never_panics]);
     - dynamic type assertions: all in comma-ok form in Go, a data match with an error branch
       in the twin.
   The theorems hold for both values of [fixed_between] (the code before and after D29), every
   float structure, every chunk (also the empty one) and every regexp oracle that does not
   itself panic. *)
From Coq Require Import List String Ascii ZArith Bool Arith Lia.
Import ListNotations.
From KV Require Import Base.Bytes Base.Num Model.Ast Model.Value Model.Eval Model.EvalVec
  Proofs.AstInd Proofs.NoPanicProofs.
Local Open Scope string_scope.

Section NoPanicVec.
Variable fo : fops.
Variable re_match : bytes -> bytes -> res bool.
Variable fixed_between : bool.
Hypothesis re_safe : forall p t, safe (re_match p t).

Notation value := (value fo).
Notation eval_batch := (eval_batch fo re_match fixed_between).

Local Hint Resolve safe_to_int safe_to_float safe_to_float_list safe_math safe_number_compare
  safe_string_compare safe_equal safe_cosine safe_l2 safe_use_int safe_ok safe_err safe_oom : safe.

(* per-row bodies: never Panic *)
Ltac row_tac :=
  repeat first
    [ apply safe_ok | apply safe_err | apply safe_oom | apply re_safe
    | apply safe_bind; [|intros ?]
    | solve [auto with safe]
    | match goal with
      | |- safe (match ?x with _ => _ end) => destruct x
      | |- safe (if ?c then _ else _) => destruct c
      end
    | assumption ].

(* ---------------------------------------------------------------- the column invariant *)

(* the result of evaluating something on a chunk of [n] pairs: not Panic, and a returned
   column has [n] entries *)
Definition colok (n : nat) (r : res (list value)) : Prop :=
  match r with Ok vs => List.length vs = n | Panic => False | _ => True end.

Lemma colok_safe n r : colok n r -> safe r.
Proof. unfold safe. destruct r; cbn; congruence || tauto. Qed.

Lemma colok_ok n vs : List.length vs = n -> colok n (Ok vs).
Proof. intros H; exact H. Qed.
Lemma colok_err n e : colok n (Err e).
Proof. exact I. Qed.
Lemma colok_oom n : colok n OutOfModel.
Proof. exact I. Qed.

(* bind on a column *)
Lemma colok_bind n m r (f : list value -> res (list value)) :
  colok n r -> (forall vs, List.length vs = n -> colok m (f vs)) -> colok m (bind r f).
Proof. destruct r; cbn; intros H Hf; auto; tauto. Qed.

(* bind on anything that is safe *)
Lemma colok_bind_safe {A} m (r : res A) (f : A -> res (list value)) :
  safe r -> (forall a, colok m (f a)) -> colok m (bind r f).
Proof. unfold safe. destruct r; cbn; intros H Hf; auto; congruence. Qed.

Lemma colok_map_res {A} (f : A -> res value) (l : list A) :
  (forall a, safe (f a)) -> colok (List.length l) (map_res f l).
Proof.
  intros Hf. induction l as [|a l IH]; cbn [map_res List.length]; [reflexivity|].
  apply colok_bind_safe; [apply Hf|]. intros b.
  destruct (map_res f l) as [bs| | |]; cbn in *; auto; try contradiction; try lia.
Qed.

Lemma colok_vmap (f : value -> res value) xs :
  (forall a, safe (f a)) -> colok (List.length xs) (vmap fo f xs).
Proof. unfold vmap. apply colok_map_res. Qed.

Lemma colok_vmap2 (f : value -> value -> res value) xs ys :
  List.length ys = List.length xs ->
  (forall a b, safe (f a b)) -> colok (List.length xs) (vmap2 fo f xs ys).
Proof.
  intros Hl Hf. revert ys Hl. induction xs as [|x xs IH]; intros [|y ys] Hl; cbn [List.length] in Hl; try discriminate.
  - reflexivity.
  - cbn [vmap2 List.length]. apply colok_bind_safe; [apply Hf|]. intros z.
    specialize (IH ys ltac:(lia)).
    destruct (vmap2 fo f xs ys) as [zs| | |]; cbn in *; auto; try contradiction; try lia.
Qed.

Lemma colok_vmap3 (f : value -> value -> value -> res value) xs ys zs :
  List.length ys = List.length xs -> List.length zs = List.length xs ->
  (forall a b c, safe (f a b c)) -> colok (List.length xs) (vmap3 fo f xs ys zs).
Proof.
  intros Hl1 Hl2 Hf. revert ys zs Hl1 Hl2.
  induction xs as [|x xs IH]; intros [|y ys] [|z zs] Hl1 Hl2; cbn [List.length] in Hl1, Hl2; try discriminate.
  - reflexivity.
  - cbn [vmap3 List.length]. apply colok_bind_safe; [apply Hf|]. intros w.
    specialize (IH ys zs ltac:(lia) ltac:(lia)).
    destruct (vmap3 fo f xs ys zs) as [ws| | |]; cbn in *; auto; try contradiction; try lia.
Qed.

(* do ls <- L; do rs <- R; vmap2 f ls rs *)
Lemma colok_both n (L R : res (list value)) (f : value -> value -> res value) :
  colok n L -> colok n R -> (forall a b, safe (f a b)) ->
  colok n (bind L (fun ls => bind R (fun rs => vmap2 fo f ls rs))).
Proof.
  intros HL HR Hf. eapply colok_bind; [exact HL|]. intros ls Hls.
  eapply colok_bind; [exact HR|]. intros rs Hrs.
  subst n. apply colok_vmap2; [exact Hrs|exact Hf].
Qed.

(* ---------------------------------------------------------------- execEqualBatch *)

Lemma safe_eq_at kd neg pos l r : safe (eq_at fo kd neg pos l r).
Proof. unfold eq_at. row_tac. Qed.

Lemma colok_equal_batch (ch : list kvpair) neg pos ls rs :
  List.length ls = List.length ch -> List.length rs = List.length ch ->
  colok (List.length ch) (equal_batch fo ch neg pos ls rs).
Proof.
  intros Hl Hr. unfold equal_batch. destruct ch as [|kv ch]; [reflexivity|].
  destruct ls as [|first ls]; [discriminate Hl|].
  destruct (eq_kind fo first); [|exact I].
  rewrite <- Hl. apply colok_vmap2; [congruence|]. intros; apply safe_eq_at.
Qed.

(* ---------------------------------------------------------------- execInBatch *)

Definition colsok (n : nat) (r : res (list (list value))) : Prop :=
  match r with Ok cols => Forall (fun c => List.length c = n) cols | Panic => False | _ => True end.

Lemma colsok_in_cols n number items rs :
  Forall (colok n) rs -> colsok n (in_cols fo number items rs).
Proof.
  intros H. revert items. induction H as [|r rs Hr Hrs IH]; intros [|it items]; cbn [in_cols];
    try (cbn; constructor).
  destruct (negb _); [exact I|].
  destruct r as [col| | |]; cbn [bind]; cbn in Hr; try exact I; try contradiction.
  specialize (IH items). destruct (in_cols fo number items rs) as [cols| | |]; cbn in *; auto.
Qed.

Lemma safe_in_row number left vals : Forall safe vals -> safe (in_row fo number left vals).
Proof.
  induction 1 as [|r vals Hr Hv IH]; cbn [in_row]; [apply safe_ok|].
  apply safe_bind; [exact Hr|]. intros lv.
  apply safe_bind; [destruct number; auto with safe|]. intros c. destruct c; [apply safe_ok|exact IH].
Qed.

Lemma colok_in_rows number lefts cols :
  Forall (fun c => List.length c = List.length lefts) cols ->
  colok (List.length lefts) (in_rows fo number lefts cols).
Proof.
  revert cols. induction lefts as [|lv lefts IH]; intros cols Hc; cbn [in_rows List.length]; [reflexivity|].
  apply colok_bind_safe.
  - apply safe_in_row. unfold heads. apply Forall_map. eapply Forall_impl; [|exact Hc].
    intros c Hlen. destruct c; [discriminate Hlen|apply safe_ok].
  - intros b.
    assert (Ht : Forall (fun c => List.length c = List.length lefts) (tails fo cols)).
    { unfold tails. apply Forall_map. eapply Forall_impl; [|exact Hc].
      intros c Hlen. destruct c; [discriminate Hlen|]. cbn in *. lia. }
    specialize (IH _ Ht).
    destruct (in_rows fo number lefts (tails fo cols)) as [rest| | |]; cbn in *; auto; try contradiction; try lia.
Qed.

Lemma safe_in_fn_at number pos left fret : safe (in_fn_at fo number pos left fret).
Proof.
  unfold in_fn_at. destruct (unpack_list fo fret) as [vals|]; [|apply safe_err].
  apply safe_bind; [|intros; apply safe_ok]. apply safe_in_row.
  apply Forall_map. apply Forall_forall. intros; apply safe_ok.
Qed.

Lemma safe_between_at number pos lo hi left : safe (between_at fo number pos lo hi left).
Proof. unfold between_at. destruct number; row_tac. Qed.

Lemma safe_dict_access_at lpos lv : safe (dict_access_at fo lpos lv).
Proof. unfold dict_access_at. row_tac. Qed.

Lemma safe_list_access_at idx lpos lv : safe (list_access_at fo idx lpos lv).
Proof. unfold list_access_at. row_tac. Qed.

(* ---------------------------------------------------------------- vector function bodies *)

Lemma colok_nth_col n (cols : list (res (list value))) i :
  Forall (colok n) cols -> i < List.length cols -> colok n (nth_col fo cols i).
Proof.
  intros H Hi. unfold nth_col. rewrite Forall_forall in H. apply H. apply nth_In. exact Hi.
Qed.

(* the vector body of a scalar function is safe, and returns a full column, once the arity
   check of FunctionCallExpr.ExecuteBatch has passed *)
Lemma safe_apply_func_vec nm (args : list expr) (ch : list kvpair) (cols : list (res (list value))) nargs varargs t :
  func_info nm = Some (nargs, varargs, t) ->
  List.length cols = List.length args ->
  Forall (colok (List.length ch)) cols ->
  ((negb varargs && negb (Nat.eqb (List.length args) nargs)) || (varargs && Nat.ltb (List.length args) nargs)) = false ->
  colok (List.length ch) (apply_func_vec fo re_match nm args ch cols).
Proof.
  intros Hinfo Hlen Hcols Har. unfold apply_func_vec.
  assert (Hrow : colok (List.length ch)
            (map_res (fun kv : kvpair =>
               apply_func fo nm args (map (eval fo re_match (fst kv) (snd kv)) args)) ch)).
  { apply colok_map_res. intros kv.
    apply (safe_apply_func fo nm args _ nargs varargs t Hinfo).
    - apply Forall_map. apply Forall_forall. intros a _. apply eval_never_panics. exact re_safe.
    - rewrite map_length. exact Har. }
  rewrite <- Hlen in Har.
  repeat match goal with
  | |- colok _ (if String.eqb nm ?lit then _ else _) =>
      let E := fresh "E" in destruct (String.eqb nm lit) eqn:E;
      [ apply String.eqb_eq in E; subst nm; cbn in Hinfo; injection Hinfo as <- <- <-; cbn in Har | ]
  | |- colok _ (if String.eqb nm ?a || String.eqb nm ?b then _ else _) =>
      let E := fresh "E" in destruct (String.eqb nm a || String.eqb nm b) eqn:E;
      [ apply orb_true_iff in E; destruct E as [E|E]; apply String.eqb_eq in E; subst nm;
        cbn in Hinfo; injection Hinfo as <- <- <-; cbn in Har | ]
  end;
  try exact I; try exact Hrow.
  all: rewrite ?orb_false_r, ?orb_false_l, ?andb_true_l, ?andb_false_l in Har;
       first [ apply negb_false_iff in Har; apply Nat.eqb_eq in Har | apply Nat.ltb_ge in Har | apply Nat.leb_gt in Har | idtac ].
  all: repeat first
    [ exact I
    | match goal with
      | |- colok _ (if ?c then _ else _) => destruct c
      | |- colok _ (bind (nth_col _ _ _) _) =>
          eapply colok_bind; [apply colok_nth_col; [exact Hcols|lia]|intros ? ?]
      end ].
  all: try (match goal with H : List.length ?xs = ?n |- colok ?n (vmap _ _ ?xs) =>
              rewrite <- H; apply colok_vmap; intros; row_tac end).
  all: try (match goal with
            | H : List.length ?xs = ?n |- colok ?n (vmap2 _ _ ?xs ?ys) =>
                rewrite <- H; apply colok_vmap2; [congruence|intros; row_tac]
            | H : List.length ?xs = ?n |- colok ?n (vmap3 _ _ ?xs ?ys ?zs) =>
                rewrite <- H; apply colok_vmap3; [congruence|congruence|intros; row_tac]
            end).
  (* list: the args / chunk match was split by the [if] pattern above *)
  - cbn in Hlen. rewrite Hlen in Har. cbn in Har. lia.
  - reflexivity.
  - exact Hrow.
Qed.

(* ---------------------------------------------------------------- every expression *)

Definition good (e : expr) : Prop := forall ch, colok (List.length ch) (eval_batch e ch).

Lemma colok_const {A} (ch : list A) (g : A -> value) : colok (List.length ch) (Ok (map g ch)).
Proof. cbn. apply map_length. Qed.

Lemma Forall_good_cols (items : list expr) ch :
  Forall good items -> Forall (colok (List.length ch)) (map (fun it => eval_batch it ch) items).
Proof. intros H. apply Forall_map. eapply Forall_impl; [|exact H]. intros a Ha. apply Ha. Qed.

Theorem eval_batch_good_strong : forall e,
  good e /\ match e with EList _ items => Forall good items | _ => True end.
Proof.
  apply expr_ind2.
  - (* binary *)
    intros p o l r [IHl _] [IHr IHr']. split; [|exact I]. intros ch.
    pose proof (IHl ch) as Hl. pose proof (IHr ch) as Hr.
    destruct o; cbn [EvalVec.eval_batch].
    + (* & *) apply colok_both; auto. intros; row_tac.
    + (* | *) apply colok_both; auto. intros; row_tac.
    + (* ! *) exact I.
    + (* = *) eapply colok_bind; [exact Hl|]. intros ls Hls. eapply colok_bind; [exact Hr|]. intros rs Hrs.
      now apply colok_equal_batch.
    + (* != *) eapply colok_bind; [exact Hl|]. intros ls Hls. eapply colok_bind; [exact Hr|]. intros rs Hrs.
      now apply colok_equal_batch.
    + (* ^= *) apply colok_both; auto. intros; row_tac.
    + (* ~= *) apply colok_both; auto. intros; row_tac.
    + (* + *) destruct (rtype l); apply colok_both; auto; intros; row_tac.
    + apply colok_both; auto. intros; row_tac.
    + apply colok_both; auto. intros; row_tac.
    + apply colok_both; auto. intros; row_tac.
    + destruct (rtype l); apply colok_both; auto; intros; row_tac.
    + destruct (rtype l); apply colok_both; auto; intros; row_tac.
    + destruct (rtype l); apply colok_both; auto; intros; row_tac.
    + destruct (rtype l); apply colok_both; auto; intros; row_tac.
    + (* in *)
      eapply colok_bind; [exact Hl|]. intros ls Hls.
      destruct r; try exact I.
      * eapply colok_bind; [exact Hr|]. intros frets Hf. rewrite <- Hls.
        apply colok_vmap2; [congruence|]. intros; apply safe_in_fn_at.
      * eapply colok_bind; [exact Hr|]. intros frets Hf. rewrite <- Hls.
        apply colok_vmap2; [congruence|]. intros; apply safe_in_fn_at.
      * pose proof (colsok_in_cols (List.length ch) (match rtype l with TStr => false | _ => true end) l0
                      (map (fun it => eval_batch it ch) l0) (Forall_good_cols l0 ch IHr')) as Hc.
        destruct (in_cols fo _ l0 _) as [cols| | |]; cbn [bind]; cbn in Hc; try exact I; try contradiction.
        rewrite <- Hls. apply colok_in_rows. rewrite Hls. exact Hc.
    + (* between *)
      eapply colok_bind; [exact Hl|]. intros ls Hls.
      destruct r; try exact I.
      destruct l0 as [|lo [|hi [|? ?]]]; try exact I.
      inversion IHr' as [|? ? Hlo Hr2]; subst. inversion Hr2 as [|? ? Hhi _]; subst.
      destruct (negb _); [exact I|]. destruct (_ && _); [exact I|].
      eapply colok_bind; [apply Hlo|]. intros los Hlos.
      eapply colok_bind; [apply Hhi|]. intros his Hhis.
      rewrite <- Hlos. apply colok_vmap3; [congruence|congruence|]. intros; apply safe_between_at.
    + (* and *) apply colok_both; auto. intros; row_tac.
    + (* or *) apply colok_both; auto. intros; row_tac.
  - intros p f. split; [|exact I]. intros ch. destruct f; apply colok_const.
  - intros p s. split; [|exact I]. intros ch. apply colok_const.
  - (* not *)
    intros p r [IH _]. split; [|exact I]. intros ch. cbn [EvalVec.eval_batch].
    eapply colok_bind; [apply IH|]. intros rs Hrs. rewrite <- Hrs. apply colok_vmap. intros; row_tac.
  - (* call *)
    intros p n args _ IHargs. split; [|exact I]. intros ch. cbn [EvalVec.eval_batch].
    destruct n; try exact I.
    destruct (call_name _) as [nm|]; [|exact I].
    destruct (func_info nm) as [[[nargs varargs] t]|] eqn:Hinfo; [|exact I].
    destruct ((negb varargs && negb (Nat.eqb (List.length args) nargs)) || (varargs && Nat.ltb (List.length args) nargs)) eqn:Har;
      [exact I|].
    apply (safe_apply_func_vec nm args ch _ nargs varargs t Hinfo).
    + apply map_length.
    + apply Forall_good_cols. eapply Forall_impl; [|exact IHargs]. intros a [Ha _]. exact Ha.
    + exact Har.
  - intros p s. split; [|exact I]. intros ch. apply colok_const.
  - intros p nm d [IH _]. split; [exact IH | exact I].
  - intros p d. split; [|exact I]. intros ch. apply colok_const.
  - intros p d. split; [|exact I]. intros ch. cbn [EvalVec.eval_batch]. unfold float_value.
    destruct (f_parse fo d); cbn [bind]; try exact I; apply colok_const.
  - intros p b. split; [|exact I]. intros ch. apply colok_const.
  - intros p l IH. split; [intros ch; apply colok_const|].
    eapply Forall_impl; [|exact IH]. intros a [Ha _]. exact Ha.
  - (* access *)
    intros p l f [IHl _] _. split; [|exact I]. intros ch. cbn [EvalVec.eval_batch].
    eapply colok_bind; [apply IHl|]. intros ls Hls.
    destruct f; try exact I; rewrite <- Hls; apply colok_vmap; intros.
    + apply safe_dict_access_at.
    + apply safe_list_access_at.
Qed.

(* the column invariant for every expression and every chunk *)
Theorem eval_batch_colok e ch : colok (List.length ch) (eval_batch e ch).
Proof. exact (proj1 (eval_batch_good_strong e) ch). Qed.

(* the vector evaluator twin never panics: every expression, every chunk *)
Theorem eval_batch_never_panics e ch : eval_batch e ch <> Panic.
Proof. apply (colok_safe (List.length ch)). apply eval_batch_colok. Qed.

(* ... and the column it returns has one value per pair (what makes `x[i]`, i < len(chunk),
   safe in every caller: FilterBatch, processProjectionBatch, batchGetAggrKeys) *)
Theorem eval_batch_full_column e ch vs : eval_batch e ch = Ok vs -> List.length vs = List.length ch.
Proof. intros H. pose proof (eval_batch_colok e ch) as G. rewrite H in G. exact G. Qed.

Theorem filter_batch_never_panics e ch : filter_batch fo re_match fixed_between e ch <> Panic.
Proof.
  unfold filter_batch. apply safe_bind; [apply eval_batch_never_panics|].
  intros rs. apply safe_map_res. intros r. destruct r; try apply safe_err. apply safe_ok.
Qed.

Theorem filter_batch_full_column e ch bs :
  filter_batch fo re_match fixed_between e ch = Ok bs -> List.length bs = List.length ch.
Proof.
  unfold filter_batch. destruct (eval_batch e ch) as [rs| | |] eqn:E; cbn [bind]; try discriminate.
  apply eval_batch_full_column in E. rewrite <- E. clear E. revert bs.
  induction rs as [|r rs IH]; cbn [map_res]; intros bs H.
  - inversion H. reflexivity.
  - destruct r; cbn [bind] in H; try discriminate.
    destruct (map_res _ rs) as [bs'| | |]; cbn [bind] in H; try discriminate.
    inversion H. cbn [List.length]. f_equal. apply IH. reflexivity.
Qed.

End NoPanicVec.

(* ---------------------------------------------------------------- the index of a list access *)
(* execListAccessBatch / execListAccess test `idx < len(list)` only: a NEGATIVE idx would be an
   index-out-of-range panic in Go, which the twins do not show ([Z.to_nat] of a negative index
   is 0).  The site is unreachable from query text: the lexer produces number tokens of digits
   only, the checker accepts a literal as field name only (before constant folding), and for a
   literal that does not start with '-' the index is not negative: *)
Lemma digit_val_nonneg c d : digit_val c = Some d -> (0 <= d)%Z.
Proof.
  unfold digit_val. destruct ((48 <=? N_of_ascii c)%N && (N_of_ascii c <=? 57)%N) eqn:E; [|discriminate].
  intros H. injection H as <-. apply andb_true_iff in E. destruct E as [E _]. apply N.leb_le in E. lia.
Qed.

Lemma digits_val_nonneg s : forall acc z, (0 <= acc)%Z -> digits_val s acc = Some z -> (0 <= z)%Z.
Proof.
  induction s as [|c s IH]; intros acc z Ha H; cbn [digits_val] in H.
  - injection H as <-. exact Ha.
  - destruct (digit_val c) as [d|] eqn:E; [|discriminate].
    apply digit_val_nonneg in E. eapply IH; [|exact H]. lia.
Qed.

Lemma num_value_nonneg d : (forall r, d <> String "-" r) -> (0 <= num_value d)%Z.
Proof.
  intros Hd. unfold num_value, parse_int. destruct d as [|c s]; [lia|].
  destruct (Ascii.eqb c "-") eqn:Ec.
  - apply Ascii.eqb_eq in Ec. subst c. exfalso. apply (Hd s). reflexivity.
  - destruct (Ascii.eqb c "+") eqn:Ep; cbv beta iota zeta.
    + destruct s as [|b bs]; [lia|].
      destruct (digits_val (String b bs) 0) as [n|] eqn:En; [|lia].
      apply digits_val_nonneg in En; [|lia]. destruct (in64 n); lia.
    + destruct (digits_val (String c s) 0) as [n|] eqn:En; [|lia].
      apply digits_val_nonneg in En; [|lia]. destruct (in64 n); lia.
Qed.
