(* Proofs/OrderProofs.v -- ORDER BY returns a sorted permutation (C07).
   1. the list priority queue obeys the law container/heap is trusted for;
   2. FinalOrderPlan.Next / Batch drain to the selection sort of the child's rows;
   3. the specification comparator is a total preorder;
   4. on homogeneous, NaN-free columns Less is "strictly before" of the specification, hence a
      strict weak order, hence the output is sorted;
   5. buildFinalOrderPlan drops [order by key asc] and that is unobservable. *)
From Coq Require Import List String ZArith Bool Arith Lia Permutation Sorted.
Import ListNotations.
From KV Require Import Base.Bytes Model.Ast Model.Order Spec.OrderSpec.
Local Open Scope list_scope.
Local Notation length := List.length (only parsing).
Local Notation concat := List.concat (only parsing).


Definition nonempty {A} (l : list A) : Prop := l <> [].

(* ================================================================== 1. priority queue *)

Section PQProofs.
Variable A : Type.
Variable lt : A -> A -> bool.

Lemma pop_min_perm : forall (q : list A) m m' rest,
  pop_min lt m q = (m', rest) -> Permutation (m :: q) (m' :: rest).
Proof.
  induction q as [|y q IH]; intros m m' rest H; cbn [pop_min] in H.
  - inversion H; subst. apply Permutation_refl.
  - destruct (lt y m).
    + destruct (pop_min lt y q) as [m1 r1] eqn:E. inversion H; subst.
      specialize (IH _ _ _ E).
      eapply perm_trans; [apply perm_skip, IH|]. apply perm_swap.
    + destruct (pop_min lt m q) as [m1 r1] eqn:E. inversion H; subst.
      specialize (IH _ _ _ E).
      eapply perm_trans; [apply perm_swap|].
      eapply perm_trans; [apply perm_skip, IH|]. apply perm_swap.
Qed.

Lemma pop_min_length : forall (q : list A) m m' rest,
  pop_min lt m q = (m', rest) -> length rest = length q.
Proof.
  induction q as [|y q IH]; intros m m' rest H; cbn [pop_min] in H.
  - inversion H; reflexivity.
  - destruct (lt y m).
    + destruct (pop_min lt y q) as [m1 r1] eqn:E. inversion H; subst. cbn. f_equal. eauto.
    + destruct (pop_min lt m q) as [m1 r1] eqn:E. inversion H; subst. cbn. f_equal. eauto.
Qed.

(* nothing in the queue is Less than the head: the head is popped, the rest keeps its order *)
Lemma pop_min_head : forall (q : list A) m,
  Forall (fun y => lt y m = false) q -> pop_min lt m q = (m, q).
Proof.
  induction q as [|y q IH]; intros m H; cbn [pop_min]; [reflexivity|].
  inversion H; subst. rewrite H2. rewrite IH by assumption. reflexivity.
Qed.

(* The law heap.Pop is trusted for: if Less is irreflexive and transitive on the elements in
   the queue, no remaining element is Less than the popped one. *)
Section Min.
Variable P : A -> Prop.
Hypothesis lt_irrefl : forall x, P x -> lt x x = false.
Hypothesis lt_trans : forall x y z, P x -> P y -> P z ->
  lt x y = true -> lt y z = true -> lt x z = true.

Lemma pop_min_min : forall (q : list A) m m' rest,
  P m -> Forall P q -> pop_min lt m q = (m', rest) ->
  (m' = m \/ lt m' m = true) /\ P m' /\ Forall (fun z => lt z m' = false) rest.
Proof.
  induction q as [|y q IH]; intros m m' rest Pm Pq H; cbn [pop_min] in H.
  - inversion H; subst. auto.
  - inversion Pq as [|? ? Py Pq']; subst.
    destruct (lt y m) eqn:Eym.
    + destruct (pop_min lt y q) as [m1 r1] eqn:E. inversion H; subst.
      destruct (IH _ _ _ Py Pq' E) as (Hm & Pm' & Hr).
      assert (Hlt : lt m' m = true).
      { destruct Hm as [->|Hm]; [assumption|]. exact (lt_trans _ _ _ Pm' Py Pm Hm Eym). }
      split; [right; exact Hlt|]. split; [assumption|].
      constructor; [|assumption].
      destruct (lt m m') eqn:Emm; [|reflexivity].
      assert (lt m' m' = true) by exact (lt_trans _ _ _ Pm' Pm Pm' Hlt Emm).
      rewrite (lt_irrefl _ Pm') in *. congruence.
    + destruct (pop_min lt m q) as [m1 r1] eqn:E. inversion H; subst.
      destruct (IH _ _ _ Pm Pq' E) as (Hm & Pm' & Hr).
      split; [assumption|]. split; [assumption|].
      constructor; [|assumption].
      destruct Hm as [->|Hm]; [assumption|].
      destruct (lt y m') eqn:Eym'; [|reflexivity].
      assert (lt y m = true) by exact (lt_trans _ _ _ Py Pm' Pm Eym' Hm). congruence.
Qed.
End Min.

(* ------------------------------------------------------------------ repeated pops *)

(* [n] pops from the queue: what draining the plan yields (proof device, not part of the twin) *)
Fixpoint sel_sort (n : nat) (q : list A) : list A :=
  match n with
  | 0 => []
  | S n' =>
      match pq_pop lt q with
      | None => []
      | Some (m, rest) => m :: sel_sort n' rest
      end
  end.

Lemma sel_sort_perm : forall n (q : list A), length q = n -> Permutation (sel_sort n q) q.
Proof.
  induction n as [|n IH]; intros q Hl.
  - destruct q; [constructor|discriminate].
  - destruct q as [|x q]; [discriminate|]. cbn [sel_sort pq_pop].
    destruct (pop_min lt x q) as [m rest] eqn:E.
    apply Permutation_sym. eapply perm_trans; [eapply pop_min_perm; eassumption|].
    apply perm_skip. apply Permutation_sym. apply IH.
    rewrite (pop_min_length _ _ _ _ E). cbn in Hl. lia.
Qed.

Lemma sel_sort_length : forall n (q : list A), length q = n -> length (sel_sort n q) = n.
Proof.
  intros n q H. rewrite (Permutation_length (sel_sort_perm n q H)). exact H.
Qed.

(* an input that is already in order comes out unchanged *)
Lemma sel_sort_sorted_id : forall n (q : list A), length q = n ->
  StronglySorted (fun a b => lt b a = false) q -> sel_sort n q = q.
Proof.
  induction n as [|n IH]; intros q Hl Hs.
  - destruct q; [reflexivity|discriminate].
  - destruct q as [|x q]; [discriminate|]. cbn [sel_sort pq_pop].
    inversion Hs; subst. rewrite pop_min_head by assumption.
    f_equal. apply IH; [cbn in Hl; lia|assumption].
Qed.

Section Sorted.
Variable P : A -> Prop.
Hypothesis lt_irrefl : forall x, P x -> lt x x = false.
Hypothesis lt_trans : forall x y z, P x -> P y -> P z ->
  lt x y = true -> lt y z = true -> lt x z = true.

Lemma sel_sort_sorted : forall n (q : list A), length q = n -> Forall P q ->
  StronglySorted (fun a b => lt b a = false) (sel_sort n q).
Proof.
  induction n as [|n IH]; intros q Hl HP.
  - constructor.
  - destruct q as [|x q]; [discriminate|]. cbn [sel_sort pq_pop].
    destruct (pop_min lt x q) as [m rest] eqn:E.
    inversion HP as [|? ? Px Pq]; subst.
    destruct (pop_min_min P lt_irrefl lt_trans _ _ _ _ Px Pq E) as (_ & Pm & Hr).
    assert (Hlen : length rest = n) by (rewrite (pop_min_length _ _ _ _ E); cbn in Hl; lia).
    assert (Prest : Forall P rest).
    { assert (HPall : Forall P (m :: rest)).
      { eapply Permutation_Forall; [eapply pop_min_perm; eassumption|]. constructor; assumption. }
      inversion HPall; assumption. }
    constructor.
    + apply IH; assumption.
    + eapply Permutation_Forall; [apply Permutation_sym, sel_sort_perm; exact Hlen|]. exact Hr.
Qed.
End Sorted.

End PQProofs.

Arguments sel_sort {A}.

(* ================================================================== 2. FinalOrderPlan drains *)

Section PlanProofs.
Variable parse_int parse_float : bytes -> option Z.
Variable ords : list ofield.

Local Notation lessf := (lessf parse_int parse_float ords).
Local Notation ssort := (sel_sort lessf).

Lemma fold_push_spec : forall (b : list row) st,
  fold_left push_row b st = OState (pos st) (total st + length b) (sorted st ++ b).
Proof.
  induction b as [|r b IH]; intros st; cbn [fold_left length].
  - destruct st; cbn. rewrite Nat.add_0_r, app_nil_r. reflexivity.
  - rewrite IH. unfold push_row, pq_push. cbn [pos total sorted].
    rewrite <- app_assoc. cbn [app]. f_equal. lia.
Qed.

Lemma prepare_spec : forall (child : list row) st,
  prepare st child = (OState (pos st) (total st + length child) (sorted st ++ child), []).
Proof.
  induction child as [|r child IH]; intros st; cbn [prepare length].
  - destruct st; cbn. rewrite Nat.add_0_r, app_nil_r. reflexivity.
  - rewrite IH. unfold push_row, pq_push. cbn [pos total sorted].
    rewrite <- app_assoc. cbn [app]. do 2 f_equal. lia.
Qed.

Lemma prepare_batch_spec : forall (bs : list (list row)) st, Forall nonempty bs ->
  prepare_batch st bs =
    (OState (pos st) (total st + length (concat bs)) (sorted st ++ concat bs), []).
Proof.
  induction bs as [|b bs IH]; intros st Hne; cbn [prepare_batch concat].
  - destruct st; cbn. rewrite Nat.add_0_r, app_nil_r. reflexivity.
  - inversion Hne as [|? ? Hb Hbs]; subst.
    destruct b as [|r b]; [exfalso; apply Hb; reflexivity|].
    cbn [length Nat.eqb]. rewrite IH by assumption. rewrite fold_push_spec.
    cbn [pos total sorted]. rewrite app_length, <- app_assoc. do 2 f_equal. cbn [length]. lia.
Qed.

(* length of the heap = rows not served yet *)
Definition inv (st : ostate) : Prop := length (sorted st) + pos st = total st.

(* after prepare the child is exhausted; Next only pops *)
Lemma drain_row_popping : forall fuel st, inv st -> length (sorted st) < fuel ->
  drain_row_fuel parse_int parse_float ords fuel st [] = Some (ssort (length (sorted st)) (sorted st)).
Proof.
  induction fuel as [|f IH]; intros st Hinv Hf; [lia|].
  cbn [drain_row_fuel]. unfold next.
  assert (Hprep : (if (total st =? 0)%nat then prepare st [] else (st, [])) = (st, [])).
  { destruct (total st =? 0)%nat; reflexivity. }
  rewrite Hprep. unfold inv in Hinv.
  destruct st as [p t q]; cbn [pos total sorted] in *.
  destruct q as [|x q]; cbn [length] in *.
  - destruct (Nat.ltb_spec p t); [lia|]. reflexivity.
  - destruct (Nat.ltb_spec p t); [|lia].
    cbn [pq_pop sel_sort]. destruct (pop_min lessf x q) as [m rest] eqn:E.
    pose proof (pop_min_length _ _ _ _ _ _ E) as Hl.
    rewrite IH; cbn [sorted pos total]; [|unfold inv; cbn; lia|lia].
    rewrite Hl. reflexivity.
Qed.

Lemma next_oinit : forall child,
  next parse_int parse_float ords oinit child
  = next parse_int parse_float ords (OState 0 (length child) child) [].
Proof.
  intros child. unfold next, oinit. cbn [total Nat.eqb].
  rewrite prepare_spec. cbn [pos total sorted Nat.add app].
  destruct (length child =? 0)%nat eqn:E; [|reflexivity].
  apply Nat.eqb_eq in E. destruct child; [reflexivity|discriminate].
Qed.

Lemma drain_row_eq : forall child,
  drain_row parse_int parse_float ords child = Some (ssort (length child) child).
Proof.
  intros child. unfold drain_row.
  transitivity (drain_row_fuel parse_int parse_float ords (S (length child))
                  (OState 0 (length child) child) []).
  - cbn [drain_row_fuel]. rewrite next_oinit. reflexivity.
  - rewrite drain_row_popping; cbn [sorted]; [reflexivity|unfold inv; cbn; lia|lia].
Qed.

(* one call of the Batch loop takes a non-empty prefix of what is left *)
Lemma batch_loop_spec : forall fuel B st ret count, inv st -> fuel = length (sorted st) ->
  exists taken st',
    batch_loop parse_int parse_float ords fuel B st ret count = Some (ret ++ taken, st') /\
    inv st' /\
    ssort (length (sorted st)) (sorted st) = taken ++ ssort (length (sorted st')) (sorted st') /\
    (0 < length (sorted st) -> taken <> []) /\
    length taken + length (sorted st') = length (sorted st).
Proof.
  induction fuel as [|f IH]; intros B st ret count Hinv Hf.
  - exists [], st. cbn [batch_loop]. rewrite app_nil_r.
    repeat split; auto; try lia.
  - unfold inv in Hinv. destruct st as [p t q]; cbn [pos total sorted] in *.
    destruct q as [|x q]; [discriminate|]. cbn [length] in *.
    cbn [batch_loop pos total sorted].
    destruct (Nat.ltb_spec p t); [|lia].
    cbn [pq_pop sel_sort]. destruct (pop_min lessf x q) as [m rest] eqn:E.
    pose proof (pop_min_length _ _ _ _ _ _ E) as Hl.
    destruct (B <=? S count)%nat.
    + exists [m], (OState (S p) t rest). cbn [sorted pos total].
      repeat split; try (unfold inv; cbn; lia); try (cbn; lia).
      * rewrite Hl. reflexivity.
      * intros _. discriminate.
    + destruct (IH B (OState (S p) t rest) (ret ++ [m]) (S count)) as (taken & st' & H1 & H2 & H3 & H4 & H5).
      { unfold inv; cbn; lia. }
      { cbn; lia. }
      exists (m :: taken), st'. cbn [sorted] in *.
      repeat split; auto.
      * rewrite H1. rewrite <- app_assoc. reflexivity.
      * rewrite <- Hl, H3. reflexivity.
      * intros _. discriminate.
      * cbn [length]. lia.
Qed.

Lemma batch_popping : forall B st, inv st ->
  exists taken st',
    batch parse_int parse_float ords B st [] = Some (taken, st', []) /\
    inv st' /\
    ssort (length (sorted st)) (sorted st) = taken ++ ssort (length (sorted st')) (sorted st') /\
    (0 < length (sorted st) -> taken <> []) /\
    length taken + length (sorted st') = length (sorted st).
Proof.
  intros B st Hinv. unfold batch.
  assert (Hprep : (if (total st =? 0)%nat then prepare_batch st [] else (st, [])) = (st, [])).
  { destruct (total st =? 0)%nat; reflexivity. }
  rewrite Hprep.
  destruct (batch_loop_spec (total st - pos st) B st [] 0 Hinv) as (taken & st' & H1 & H2).
  { unfold inv in Hinv. lia. }
  exists taken, st'. rewrite H1. cbn [app]. split; [reflexivity|exact H2].
Qed.

Lemma drain_batch_popping : forall fuel B st, inv st -> length (sorted st) < fuel ->
  exists outs,
    drain_batch_fuel parse_int parse_float ords fuel B st [] = Some outs /\
    concat outs = ssort (length (sorted st)) (sorted st) /\
    Forall nonempty outs.
Proof.
  induction fuel as [|f IH]; intros B st Hinv Hf; [lia|].
  cbn [drain_batch_fuel].
  destruct (batch_popping B st Hinv) as (taken & st' & H1 & H2 & H3 & H4 & H5).
  rewrite H1. destruct taken as [|t taken].
  - exists []. split; [reflexivity|]. split; [|constructor].
    destruct (sorted st) as [|x q] eqn:Eq; [reflexivity|].
    exfalso. apply H4; [cbn; lia|reflexivity].
  - destruct (IH B st' H2) as (outs & G1 & G2 & G3).
    { cbn [length] in H5. lia. }
    rewrite G1. exists ((t :: taken) :: outs). split; [reflexivity|]. split.
    + cbn [concat]. rewrite G2, H3. reflexivity.
    + constructor; [discriminate|assumption].
Qed.

Lemma batch_oinit : forall B bs, Forall nonempty bs ->
  batch parse_int parse_float ords B oinit bs
  = batch parse_int parse_float ords B (OState 0 (length (concat bs)) (concat bs)) [].
Proof.
  intros B bs Hne. unfold batch, oinit. cbn [total Nat.eqb].
  rewrite prepare_batch_spec by assumption. cbn [pos total sorted Nat.add app].
  destruct (length (concat bs) =? 0)%nat eqn:E; [|reflexivity].
  apply Nat.eqb_eq in E. destruct (concat bs); [reflexivity|discriminate].
Qed.

Lemma drain_batch_eq : forall B bs, Forall nonempty bs ->
  exists outs,
    drain_batch parse_int parse_float ords B bs = Some outs /\
    concat outs = ssort (length (concat bs)) (concat bs) /\
    Forall nonempty outs.
Proof.
  intros B bs Hne. unfold drain_batch.
  set (n := length (concat bs)).
  destruct (drain_batch_popping (S n) B (OState 0 n (concat bs))) as (outs & H1 & H2 & H3).
  { unfold inv; cbn; lia. }
  { cbn; lia. }
  exists outs. split; [|split; assumption].
  rewrite <- H1. cbn [drain_batch_fuel]. rewrite batch_oinit by assumption. reflexivity.
Qed.

End PlanProofs.

(* ================================================================== 3. the specification comparator *)

(* a three-way comparison that is a total preorder *)
Record cmp_laws {A : Type} (c : A -> A -> comparison) : Prop := {
  cl_refl : forall a, c a a = Eq;
  cl_antisym : forall a b, c b a = CompOpp (c a b);
  cl_trans : forall a b x, c a b = Lt -> c b x = Lt -> c a x = Lt;
  cl_eq : forall a b x, c a b = Eq -> c a x = c b x
}.
Arguments cl_refl {A c}.
Arguments cl_antisym {A c}.
Arguments cl_trans {A c}.
Arguments cl_eq {A c}.

(* bytes.Compare (the same four facts as Base/Ord.v; repeated to keep this file's closure small) *)
Lemma ob_N_of_ascii_inj a b : Ascii.N_of_ascii a = Ascii.N_of_ascii b -> a = b.
Proof.
  intros H. rewrite <- (Ascii.ascii_N_embedding a), <- (Ascii.ascii_N_embedding b), H. reflexivity.
Qed.

Lemma ob_refl a : bcompare a a = Eq.
Proof. induction a as [|x a IH]; cbn; [reflexivity|]. rewrite N.compare_refl. exact IH. Qed.

Lemma ob_eq a b : bcompare a b = Eq -> a = b.
Proof.
  revert b; induction a as [|x a IH]; destruct b as [|y b]; cbn; try discriminate; auto.
  destruct (N.compare (Ascii.N_of_ascii x) (Ascii.N_of_ascii y)) eqn:E; try discriminate.
  intros H. apply N.compare_eq in E. apply ob_N_of_ascii_inj in E. subst. f_equal. auto.
Qed.

Lemma ob_antisym a b : bcompare b a = CompOpp (bcompare a b).
Proof.
  revert b; induction a as [|x a IH]; destruct b as [|y b]; cbn; try reflexivity.
  rewrite (N.compare_antisym (Ascii.N_of_ascii x) (Ascii.N_of_ascii y)).
  destruct (N.compare (Ascii.N_of_ascii x) (Ascii.N_of_ascii y)); cbn; auto.
Qed.

Lemma ob_trans a b c : bcompare a b = Lt -> bcompare b c = Lt -> bcompare a c = Lt.
Proof.
  revert b c; induction a as [|x a IH]; destruct b as [|y b]; destruct c as [|z c]; cbn;
    try discriminate; auto.
  destruct (N.compare (Ascii.N_of_ascii x) (Ascii.N_of_ascii y)) eqn:E1;
  destruct (N.compare (Ascii.N_of_ascii y) (Ascii.N_of_ascii z)) eqn:E2; try discriminate; intros H1 H2.
  - apply N.compare_eq in E1, E2. rewrite E1, E2, N.compare_refl. eauto.
  - apply N.compare_eq in E1. rewrite E1, E2. reflexivity.
  - apply N.compare_eq in E2. rewrite <- E2, E1. reflexivity.
  - rewrite N.compare_lt_iff in E1, E2.
    assert (E3 : (Ascii.N_of_ascii x < Ascii.N_of_ascii z)%N) by lia.
    rewrite <- N.compare_lt_iff in E3. rewrite E3. reflexivity.
Qed.

Lemma bcompare_laws : cmp_laws bcompare.
Proof.
  constructor.
  - exact ob_refl.
  - exact ob_antisym.
  - exact ob_trans.
  - intros a b x H. apply ob_eq in H. subst. reflexivity.
Qed.

Lemma Zcompare_laws : cmp_laws Z.compare.
Proof.
  constructor.
  - exact Z.compare_refl.
  - intros a b. apply Z.compare_antisym.
  - intros a b x. rewrite !Z.compare_lt_iff. lia.
  - intros a b x H. apply Z.compare_eq in H. subst. reflexivity.
Qed.

Lemma bool_cmp_laws : cmp_laws bool_cmp.
Proof.
  constructor.
  - intros []; reflexivity.
  - intros [] []; reflexivity.
  - intros [] [] []; cbn; congruence.
  - intros [] [] []; cbn; congruence.
Qed.

Lemma okey_cmp_laws : cmp_laws okey_cmp.
Proof.
  pose proof bcompare_laws as LB. pose proof Zcompare_laws as LZ. pose proof bool_cmp_laws as LO.
  constructor.
  - intros [[x|x|x]|]; cbn; [apply LB|apply LZ|apply LO|reflexivity].
  - intros [[x|x|x]|] [[y|y|y]|]; cbn; try reflexivity; [apply LB|apply LZ|apply LO].
  - intros [[x|x|x]|] [[y|y|y]|] [[z|z|z]|]; cbn; intros H1 H2;
      try discriminate; try reflexivity;
      [eapply (cl_trans LB)|eapply (cl_trans LZ)|eapply (cl_trans LO)]; eassumption.
  - intros [[x|x|x]|] [[y|y|y]|] [[z|z|z]|]; cbn; intros H1;
      try discriminate; try reflexivity;
      [apply (cl_eq LB)|apply (cl_eq LZ)|apply (cl_eq LO)]; assumption.
Qed.

(* descending = the opposite order *)
Lemma dir_laws {A : Type} (c : A -> A -> comparison) (d : bool) :
  cmp_laws c -> cmp_laws (fun a b => dir d (c a b)).
Proof.
  intros L. destruct d; cbn [dir]; [|destruct L; constructor; assumption].
  constructor.
  - intros a. rewrite (cl_refl L). reflexivity.
  - intros a b. rewrite (cl_antisym L a b). reflexivity.
  - intros a b x H1 H2.
    assert (G1 : c b a = Lt) by (rewrite (cl_antisym L a b); destruct (c a b); cbn in *; congruence).
    assert (G2 : c x b = Lt) by (rewrite (cl_antisym L b x); destruct (c b x); cbn in *; congruence).
    rewrite (cl_antisym L x a), (cl_trans L _ _ _ G2 G1). reflexivity.
  - intros a b x H. f_equal. apply (cl_eq L).
    destruct (c a b); cbn in H; congruence.
Qed.

(* comparing images *)
Lemma pullback_laws {A B : Type} (f : A -> B) (c : B -> B -> comparison) :
  cmp_laws c -> cmp_laws (fun a b => c (f a) (f b)).
Proof.
  intros L. constructor; intros.
  - apply (cl_refl L).
  - apply (cl_antisym L).
  - eapply (cl_trans L); eassumption.
  - apply (cl_eq L); assumption.
Qed.

Lemma col_cmp_laws (o : ofield) : cmp_laws (col_cmp o).
Proof.
  unfold col_cmp.
  apply (dir_laws (fun a b => okey_cmp (spec_key (otype o) (col a (opos o)))
                                       (spec_key (otype o) (col b (opos o)))) (odesc o)).
  apply (pullback_laws (fun r => spec_key (otype o) (col r (opos o))) okey_cmp okey_cmp_laws).
Qed.

(* lexicographic products *)
Lemma spec_cmp_laws (ords : list ofield) : cmp_laws (spec_cmp ords).
Proof.
  induction ords as [|o ords IH].
  - constructor; intros; cbn in *; congruence.
  - pose proof (col_cmp_laws o) as L. constructor.
    + intros a. cbn [spec_cmp]. rewrite (cl_refl L). apply (cl_refl IH).
    + intros a b. cbn [spec_cmp]. rewrite (cl_antisym L a b).
      destruct (col_cmp o a b); cbn; [apply (cl_antisym IH)|reflexivity|reflexivity].
    + intros a b x. cbn [spec_cmp].
      destruct (col_cmp o a b) eqn:E1; try discriminate;
      destruct (col_cmp o b x) eqn:E2; try discriminate; intros H1 H2.
      * rewrite (cl_eq L _ _ x E1), E2. eapply (cl_trans IH); eassumption.
      * rewrite (cl_eq L _ _ x E1), E2. reflexivity.
      * (* a < b on this column, b = x *)
        assert (G : col_cmp o x b = Eq) by (rewrite (cl_antisym L b x), E2; reflexivity).
        assert (G2 : col_cmp o x a = Gt).
        { rewrite (cl_eq L _ _ a G), (cl_antisym L a b), E1. reflexivity. }
        rewrite (cl_antisym L x a), G2. reflexivity.
      * rewrite (cl_trans L _ _ _ E1 E2). reflexivity.
    + intros a b x. cbn [spec_cmp].
      destruct (col_cmp o a b) eqn:E1; try discriminate. intros H.
      rewrite (cl_eq L _ _ x E1). destruct (col_cmp o b x); [apply (cl_eq IH); assumption|reflexivity|reflexivity].
Qed.

(* consequences used below *)
Lemma cmp_not_lt_gt {A : Type} (c : A -> A -> comparison) (L : cmp_laws c) a b :
  c b a <> Lt <-> c a b <> Gt.
Proof.
  rewrite (cl_antisym L a b). destruct (c a b); cbn; split; congruence.
Qed.

Lemma spec_le_refl ords a : spec_le ords a a.
Proof. unfold spec_le. rewrite (cl_refl (spec_cmp_laws ords)). discriminate. Qed.

Lemma spec_le_total ords a b : spec_le ords a b \/ spec_le ords b a.
Proof.
  unfold spec_le. rewrite (cl_antisym (spec_cmp_laws ords) a b).
  destruct (spec_cmp ords a b); cbn; [left|left|right]; discriminate.
Qed.

Lemma spec_le_trans ords a b x : spec_le ords a b -> spec_le ords b x -> spec_le ords a x.
Proof.
  pose proof (spec_cmp_laws ords) as L. unfold spec_le. intros H1 H2 H3.
  (* a > x: then x < a *)
  assert (G : spec_cmp ords x a = Lt) by (rewrite (cl_antisym L a x), H3; reflexivity).
  destruct (spec_cmp ords a b) eqn:E1; [| |congruence].
  - rewrite (cl_eq L _ _ x E1) in H3. congruence.
  - assert (G2 : spec_cmp ords x b = Lt) by (eapply (cl_trans L); eassumption).
    rewrite (cl_antisym L x b), G2 in H2. cbn in H2. congruence.
Qed.

Lemma spec_le_preorder : forall ords,
  (forall a, spec_le ords a a) /\
  (forall a b c, spec_le ords a b -> spec_le ords b c -> spec_le ords a c) /\
  (forall a b, spec_le ords a b \/ spec_le ords b a).
Proof.
  intros ords. split; [apply spec_le_refl|]. split; [apply spec_le_trans|apply spec_le_total].
Qed.

Lemma spec_leb_le ords a b : spec_leb ords a b = true <-> spec_le ords a b.
Proof. unfold spec_leb, spec_le. destruct (spec_cmp ords a b); split; congruence. Qed.

(* ================================================================== 4. binary64 patterns *)

Section FloatProofs.
Local Open Scope Z_scope.

Definition mag_of (x : Z) : Z :=
  if x / two52 =? 0 then x mod two52 else Z.shiftl (two52 + x mod two52) (x / two52 - 1).

Lemma f_mag_eq bits : f_mag bits = mag_of (f_abs bits).
Proof. reflexivity. Qed.

(* the denoted magnitude grows strictly with the pattern (exponent field, then mantissa) *)
Lemma mag_of_mono x y : 0 <= x < y -> mag_of x < mag_of y.
Proof.
  intros [Hx Hxy]. unfold mag_of.
  change two52 with 4503599627370496 in *.
  pose proof (Z.div_mod x 4503599627370496 ltac:(lia)) as Dx.
  pose proof (Z.div_mod y 4503599627370496 ltac:(lia)) as Dy.
  pose proof (Z.mod_pos_bound x 4503599627370496 ltac:(lia)) as Bx.
  pose proof (Z.mod_pos_bound y 4503599627370496 ltac:(lia)) as By.
  assert (Ex : 0 <= x / 4503599627370496) by (apply Z.div_pos; lia).
  assert (Ey : 0 <= y / 4503599627370496) by (apply Z.div_pos; lia).
  set (E1 := x / 4503599627370496) in *. set (M1 := x mod 4503599627370496) in *.
  set (E2 := y / 4503599627370496) in *. set (M2 := y mod 4503599627370496) in *.
  assert (HE : E1 <= E2) by lia.
  assert (HM : E1 = E2 -> M1 < M2) by lia.
  destruct (Z.eqb_spec E1 0) as [Z1|Z1]; destruct (Z.eqb_spec E2 0) as [Z2|Z2].
  - lia.
  - rewrite Z.shiftl_mul_pow2 by lia.
    assert (0 < 2 ^ (E2 - 1)) by (apply Z.pow_pos_nonneg; lia). nia.
  - lia.
  - rewrite !Z.shiftl_mul_pow2 by lia.
    assert (P1 : 0 < 2 ^ (E1 - 1)) by (apply Z.pow_pos_nonneg; lia).
    destruct (Z.eq_dec E1 E2) as [Q|Q].
    + rewrite <- Q. specialize (HM Q). nia.
    + assert (P2 : 2 * 2 ^ (E1 - 1) <= 2 ^ (E2 - 1)).
      { rewrite <- Z.pow_succ_r by lia. apply Z.pow_le_mono_r; lia. }
      nia.
Qed.

Lemma mag_of_0 : mag_of 0 = 0.
Proof. reflexivity. Qed.

Lemma f_abs_nonneg bits : f_wf bits = true -> 0 <= f_abs bits.
Proof.
  unfold f_wf, f_abs, f_neg. intros H. apply andb_true_iff in H. destruct H as [H1 H2].
  apply Z.leb_le in H1. destruct (Z.leb_spec two63 bits); lia.
Qed.

(* comparing the sign-magnitude encodings is comparing the denoted numbers *)
Lemma f_key_compare a b : f_wf a = true -> f_wf b = true ->
  Z.compare (f_key a) (f_key b) = Z.compare (f_val a) (f_val b).
Proof.
  intros Wa Wb. pose proof (f_abs_nonneg a Wa) as Ha. pose proof (f_abs_nonneg b Wb) as Hb.
  unfold f_key, f_val. rewrite !f_mag_eq.
  set (x := f_abs a) in *. set (y := f_abs b) in *.
  assert (Mxy : x < y -> mag_of x < mag_of y) by (intros; apply mag_of_mono; lia).
  assert (Myx : y < x -> mag_of y < mag_of x) by (intros; apply mag_of_mono; lia).
  assert (Mx : 0 < x -> 0 < mag_of x) by (intros; rewrite <- mag_of_0; apply mag_of_mono; lia).
  assert (My : 0 < y -> 0 < mag_of y) by (intros; rewrite <- mag_of_0; apply mag_of_mono; lia).
  assert (Mx0 : x = 0 -> mag_of x = 0) by (intros ->; reflexivity).
  assert (My0 : y = 0 -> mag_of y = 0) by (intros ->; reflexivity).
  assert (Meq : x = y -> mag_of x = mag_of y) by (intros ->; reflexivity).
  clearbody x y. generalize dependent (mag_of x). generalize dependent (mag_of y).
  intros my My My0 mx; intros.
  destruct (f_neg a), (f_neg b);
  match goal with |- (?l ?= ?r) = _ => destruct (Z.compare_spec l r) end;
  symmetry; first [apply Z.compare_eq_iff; lia | apply Z.compare_lt_iff; lia | apply Z.compare_gt_iff; lia].
Qed.

(* compareInt / compareFloat are the three-way comparison, reversed for DESC *)
Lemma compare_int_dir l r rev : compare_int l r rev = dir rev (Z.compare l r).
Proof.
  unfold compare_int. rewrite Z.gtb_ltb.
  destruct (Z.eqb_spec l r) as [->|N].
  - rewrite Z.compare_refl. destruct rev; reflexivity.
  - destruct (Z.compare_spec l r) as [E|E|E]; [contradiction| |];
    destruct rev; cbn [dir CompOpp];
    destruct (Z.ltb_spec r l); destruct (Z.ltb_spec l r); try lia; reflexivity.
Qed.

Lemma compare_float_dir l r rev : f_is_nan l = false -> f_is_nan r = false ->
  compare_float l r rev = dir rev (Z.compare (f_key l) (f_key r)).
Proof.
  intros Nl Nr. unfold compare_float, f_eq, f_gt, f_lt. rewrite Nl, Nr. cbn [negb andb].
  destruct (Z.eqb_spec (f_key l) (f_key r)) as [E|N].
  - rewrite E, Z.compare_refl. destruct rev; reflexivity.
  - destruct (Z.compare_spec (f_key l) (f_key r)) as [E|E|E]; [contradiction| |];
    destruct rev; cbn [dir CompOpp];
    destruct (Z.ltb_spec (f_key r) (f_key l)); destruct (Z.ltb_spec (f_key l) (f_key r)); try lia; reflexivity.
Qed.

Lemma shiftl_compare a b : Z.compare (Z.shiftl a 1074) (Z.shiftl b 1074) = Z.compare a b.
Proof.
  rewrite !Z.shiftl_mul_pow2 by lia. symmetry. apply Zmult_compare_compat_r.
  apply Z.lt_gt. apply Z.pow_pos_nonneg; lia.
Qed.

Lemma div_mod_split E M : 0 <= M < 4503599627370496 ->
  (E * 4503599627370496 + M) / 4503599627370496 = E /\ (E * 4503599627370496 + M) mod 4503599627370496 = M.
Proof.
  intros H. split.
  - rewrite Z.div_add_l by lia. rewrite Z.div_small by lia. lia.
  - rewrite Z.add_comm, Z.mod_add by lia. apply Z.mod_small. lia.
Qed.

(* float64(x) is exact for |x| <= 2^53 *)
Lemma float_of_int_exact z : Z.abs z <= 2 ^ 53 ->
  f_wf (float_of_int z) = true /\ f_is_nan (float_of_int z) = false /\
  f_val (float_of_int z) = Z.shiftl z 1074.
Proof.
  intros Hz. unfold float_of_int. cbv zeta.
  destruct (Z.eqb_spec z 0) as [->|Nz]; [repeat split; reflexivity|].
  set (a := Z.abs z) in *. assert (Ha : 0 < a) by (subst a; lia).
  pose proof (Z.log2_spec a Ha) as [L1 L2]. pose proof (Z.log2_nonneg a) as L0.
  set (n := Z.log2 a) in *.
  assert (Az : (z < 0 -> a = - z) /\ (0 <= z -> a = z)) by (subst a; lia).
  assert (Hz' : a <= 2 ^ 53) by exact Hz.
  clearbody n. clearbody a.
  assert (Hn : n <= 53).
  { destruct (Z.le_gt_cases n 53); [assumption|].
    assert (2 ^ 54 <= 2 ^ n) by (apply Z.pow_le_mono_r; lia). lia. }
  (* mantissa and exponent *)
  match goal with |- context [let '(m0, e0) := ?t in _] =>
    assert (exists m, t = (m, n) /\ two52 <= m < 2 * two52 /\ m * 2 ^ n = a * two52)
      as (m & Em & Bm & Vm) end.
  { destruct (Z.leb_spec n 52).
    - exists (a * 2 ^ (52 - n)). split; [reflexivity|].
      assert (P : 2 ^ n * 2 ^ (52 - n) = two52).
      { rewrite <- Z.pow_add_r by lia. replace (n + (52 - n)) with 52 by lia. reflexivity. }
      assert (P' : 2 ^ Z.succ n = 2 * 2 ^ n) by (apply Z.pow_succ_r; lia).
      assert (0 < 2 ^ (52 - n)) by (apply Z.pow_pos_nonneg; lia).
      assert (Q1 : 2 ^ n * 2 ^ (52 - n) <= a * 2 ^ (52 - n)) by (apply Z.mul_le_mono_nonneg_r; lia).
      assert (Q2 : a * 2 ^ (52 - n) < (2 * 2 ^ n) * 2 ^ (52 - n)) by (apply Z.mul_lt_mono_pos_r; lia).
      split; [rewrite <- P; lia|]. rewrite <- P. ring.
    - assert (n = 53) by lia. subst n.
      assert (a = 2 ^ 53) by lia.
      exists two52. rewrite H0. split; [reflexivity|]. split; [unfold two52; lia|reflexivity]. }
  rewrite Em.
  set (S := if z <? 0 then two63 else 0).
  assert (HS : S = 0 \/ S = two63) by (subst S; destruct (z <? 0); auto).
  set (M := m - two52).
  assert (BM : 0 <= M < two52) by (subst M; lia).
  assert (Habs : f_abs (S + (n + 1023) * two52 + M) = (n + 1023) * two52 + M /\
                 f_neg (S + (n + 1023) * two52 + M) = (z <? 0)).
  { unfold f_abs, f_neg. subst S. unfold two63, two52 in *.
    destruct (z <? 0); destruct (Z.leb_spec (2^63) (0 + (n + 1023) * 2^52 + M));
    destruct (Z.leb_spec (2^63) (2^63 + (n + 1023) * 2^52 + M)); split; try reflexivity; try lia. }
  destruct Habs as [Habs Hneg].
  split; [|split].
  - unfold f_wf. unfold two63, two52 in *. destruct HS as [-> | ->];
    apply andb_true_iff; split; [apply Z.leb_le|apply Z.ltb_lt|apply Z.leb_le|apply Z.ltb_lt]; lia.
  - unfold f_is_nan. rewrite Habs. apply Z.ltb_ge. unfold f_inf, two52 in *. lia.
  - unfold f_val, f_mag, f_exp, f_man. rewrite Hneg, Habs.
    unfold two52 in BM |- *. change (2 ^ 52) with 4503599627370496 in *.
    destruct (div_mod_split (n + 1023) M BM) as [-> ->].
    destruct (Z.eqb_spec (n + 1023) 0); [lia|].
    rewrite !Z.shiftl_mul_pow2 by lia.
    replace (4503599627370496 + M) with m by (subst M; unfold two52; lia).
    replace (n + 1023 - 1) with (n + 1022) by lia.
    assert (Q : m * 2 ^ (n + 1022) = a * 2 ^ 1074).
    { rewrite Z.pow_add_r by lia. rewrite Z.mul_assoc, Vm.
      unfold two52. rewrite <- Z.mul_assoc. rewrite <- Z.pow_add_r by lia. reflexivity. }
    rewrite Q. destruct Az as [A1 A2].
    destruct (Z.ltb_spec z 0); [rewrite A1 by lia|rewrite A2 by lia]; ring.
Qed.

End FloatProofs.

(* ================================================================== 5. Less and the specification *)

Lemma kind_eqb_eq a b : kind_eqb a b = true -> a = b.
Proof. destruct a, b; cbn; congruence. Qed.

Section LessProofs.
Variable parse_int parse_float : bytes -> option Z.

Local Notation compare := (compare parse_int parse_float).
Local Notation less := (less parse_int parse_float).

(* on two values of one kind that fits the declared type, compare is the specification's
   comparison of their keys, reversed for DESC *)
Lemma compare_agrees : forall tp va vb k desc,
  col_kind tp va = Some k -> col_kind tp vb = Some k ->
  compare tp va vb desc = dir desc (okey_cmp (spec_key tp va) (spec_key tp vb)).
Proof.
  intros tp va vb k desc Ha Hb.
  destruct tp; cbn [col_kind] in Ha, Hb;
    try (cbn [Model.Order.compare]; destruct va, vb; cbn; destruct desc; reflexivity).
  - (* TBOOL *)
    destruct va; try discriminate; destruct vb; try discriminate.
    cbn. destruct b, b0, desc; reflexivity.
  - (* TSTR *)
    destruct va; try discriminate; destruct vb; try discriminate; cbn; destruct desc; reflexivity.
  - (* TNUMBER *)
    destruct va as [| |za|fa| |]; try discriminate; destruct vb as [| |zb|fb| |]; try discriminate.
    + cbn [Model.Order.compare compare_number order_number orb spec_key okey_cmp].
      rewrite compare_int_dir, shiftl_compare. reflexivity.
    + destruct (f_wf fb && negb (f_is_nan fb)); congruence.
    + destruct (f_wf fa && negb (f_is_nan fa)); congruence.
    + cbn [Model.Order.compare compare_number order_number orb spec_key].
      destruct (f_wf fa && negb (f_is_nan fa)) eqn:Ea; [|discriminate].
      destruct (f_wf fb && negb (f_is_nan fb)) eqn:Eb; [|discriminate].
      apply andb_true_iff in Ea, Eb. destruct Ea as [Wa Na], Eb as [Wb Nb].
      apply negb_true_iff in Na, Nb.
      cbn [okey_cmp]. rewrite compare_float_dir by assumption.
      rewrite f_key_compare by assumption. reflexivity.
Qed.

(* a number column mixing floats and exactly representable integers *)
Lemma compare_agrees_exact : forall va vb desc,
  exact_number va = true -> exact_number vb = true ->
  compare TNUMBER va vb desc = dir desc (okey_cmp (spec_key TNUMBER va) (spec_key TNUMBER vb)).
Proof.
  intros va vb desc Ha Hb.
  destruct va as [| |za|fa| |]; try discriminate; destruct vb as [| |zb|fb| |]; try discriminate;
    cbn [exact_number] in Ha, Hb.
  - apply (compare_agrees TNUMBER (VInt za) (VInt zb) KInt); reflexivity.
  - (* integer, float *)
    apply Z.leb_le in Ha. destruct (float_of_int_exact za Ha) as (Wa & Na & Va).
    cbn [Model.Order.compare compare_number order_number orb spec_key]. rewrite Hb.
    apply andb_true_iff in Hb. destruct Hb as [Wb Nb]. apply negb_true_iff in Nb.
    cbn [okey_cmp]. rewrite compare_float_dir by assumption.
    rewrite f_key_compare by assumption. rewrite Va. reflexivity.
  - (* float, integer *)
    apply Z.leb_le in Hb. destruct (float_of_int_exact zb Hb) as (Wb & Nb & Vb).
    cbn [Model.Order.compare compare_number order_number orb spec_key]. rewrite Ha.
    apply andb_true_iff in Ha. destruct Ha as [Wa Na]. apply negb_true_iff in Na.
    cbn [okey_cmp]. rewrite compare_float_dir by assumption.
    rewrite f_key_compare by assumption. rewrite Vb. reflexivity.
  - apply (compare_agrees TNUMBER (VFloat fa) (VFloat fb) KFloat); cbn [col_kind];
      [rewrite Ha|rewrite Hb]; reflexivity.
Qed.

(* two rows whose sort columns hold, column by column, values of one fitting kind (or exact
   numbers in a number column) *)
Definition col_ok (o : ofield) (a b : row) : Prop :=
  (exists k, col_kind (otype o) (col a (opos o)) = Some k /\
             col_kind (otype o) (col b (opos o)) = Some k) \/
  (otype o = TNUMBER /\ exact_number (col a (opos o)) = true /\
                        exact_number (col b (opos o)) = true).

Definition pair_ok (ords : list ofield) (a b : row) : Prop := Forall (fun o => col_ok o a b) ords.

Lemma less_spec : forall ords a b, pair_ok ords a b ->
  less ords a b = match spec_cmp ords a b with Lt => true | _ => false end.
Proof.
  induction ords as [|o ords IH]; intros a b H; [reflexivity|].
  inversion H as [|? ? Hc H']; subst.
  cbn [Model.Order.less spec_cmp].
  assert (E : compare (otype o) (col a (opos o)) (col b (opos o)) (odesc o) = col_cmp o a b).
  { unfold col_cmp. destruct Hc as [(k & Ka & Kb)|(Et & Xa & Xb)].
    - apply (compare_agrees _ _ _ _ _ Ka Kb).
    - rewrite Et. apply compare_agrees_exact; assumption. }
  rewrite E. destruct (col_cmp o a b); auto.
Qed.

Lemma homogeneous_pair : forall ords rows a b,
  homogeneous ords rows = true -> In a rows -> In b rows -> pair_ok ords a b.
Proof.
  intros ords rows a b H Ia Ib. unfold homogeneous in H. rewrite forallb_forall in H.
  apply Forall_forall. intros o Io. specialize (H o Io). unfold homogeneous_col in H.
  destruct (one_kind_col rows o) eqn:E1.
  - left. unfold one_kind_col in E1.
    destruct rows as [|r rows]; [contradiction|].
    destruct (col_kind (otype o) (col r (opos o))) as [k|] eqn:Ek; [|discriminate].
    rewrite forallb_forall in E1. exists k.
    assert (G : forall x, In x (r :: rows) -> col_kind (otype o) (col x (opos o)) = Some k).
    { intros x Ix. specialize (E1 x Ix). unfold has_kind in E1.
      destruct (col_kind (otype o) (col x (opos o))) as [k'|]; [|discriminate].
      apply kind_eqb_eq in E1. congruence. }
    split; apply G; assumption.
  - right. unfold exact_number_col in H.
    destruct (otype o); try discriminate.
    rewrite forallb_forall in H. split; [reflexivity|]. split; apply H; assumption.
Qed.

(* Less is "strictly before" of the specification on homogeneous rows *)
Lemma less_irrefl : forall ords a, pair_ok ords a a -> less ords a a = false.
Proof.
  intros ords a H. rewrite less_spec by assumption.
  rewrite (cl_refl (spec_cmp_laws ords)). reflexivity.
Qed.

Lemma less_trans : forall ords a b x, pair_ok ords a b -> pair_ok ords b x -> pair_ok ords a x ->
  less ords a b = true -> less ords b x = true -> less ords a x = true.
Proof.
  intros ords a b x Hab Hbx Hax. rewrite !less_spec by assumption.
  destruct (spec_cmp ords a b) eqn:E1; try discriminate.
  destruct (spec_cmp ords b x) eqn:E2; try discriminate.
  rewrite (cl_trans (spec_cmp_laws ords) _ _ _ E1 E2). reflexivity.
Qed.

Lemma incomparable_eq : forall ords a b, pair_ok ords a b -> pair_ok ords b a ->
  less ords a b = false -> less ords b a = false -> spec_cmp ords a b = Eq.
Proof.
  intros ords a b Hab Hba. rewrite !less_spec by assumption.
  rewrite (cl_antisym (spec_cmp_laws ords) a b).
  destruct (spec_cmp ords a b); cbn; congruence.
Qed.

Lemma less_incomparable_trans : forall ords a b x,
  pair_ok ords a b -> pair_ok ords b a -> pair_ok ords b x -> pair_ok ords x b ->
  pair_ok ords a x -> pair_ok ords x a ->
  less ords a b = false -> less ords b a = false ->
  less ords b x = false -> less ords x b = false ->
  less ords a x = false /\ less ords x a = false.
Proof.
  intros ords a b x Hab Hba Hbx Hxb Hax Hxa L1 L2 L3 L4.
  pose proof (incomparable_eq _ _ _ Hab Hba L1 L2) as E1.
  pose proof (incomparable_eq _ _ _ Hbx Hxb L3 L4) as E2.
  pose proof (spec_cmp_laws ords) as L.
  assert (E3 : spec_cmp ords a x = Eq) by (rewrite (cl_eq L _ _ x E1); exact E2).
  rewrite !less_spec by assumption.
  rewrite (cl_antisym L a x), E3. split; reflexivity.
Qed.

Lemma less_spec_homogeneous : forall ords rows a b,
  homogeneous ords rows = true -> In a rows -> In b rows ->
  less ords a b = match spec_cmp ords a b with Lt => true | _ => false end.
Proof.
  intros ords rows a b H Ia Ib. apply less_spec. eapply homogeneous_pair; eassumption.
Qed.

(* ------------------------------------------------------------------ the main lemmas *)

Lemma StronglySorted_impl_In {A : Type} (R R' : A -> A -> Prop) (l : list A) :
  (forall a b, In a l -> In b l -> R a b -> R' a b) ->
  StronglySorted R l -> StronglySorted R' l.
Proof.
  induction l as [|x l IH]; intros H S; [constructor|].
  inversion S as [|? ? S' F]; subst. constructor.
  - apply IH; [|assumption]. intros a b Ia Ib. apply H; right; assumption.
  - rewrite Forall_forall in *. intros y Iy. apply H; [left; reflexivity|right; assumption|auto].
Qed.

Lemma ssort_spec_sorted : forall ords rows,
  homogeneous ords rows = true ->
  StronglySorted (spec_le ords) (sel_sort (less ords) (length rows) rows).
Proof.
  intros ords rows Hh.
  set (out := sel_sort (less ords) (length rows) rows).
  assert (Hperm : Permutation out rows) by (apply sel_sort_perm; reflexivity).
  assert (Hs : StronglySorted (fun a b => less ords b a = false) out).
  { apply (sel_sort_sorted _ (less ords) (fun r => In r rows)).
    - intros x Ix. apply less_irrefl. eapply homogeneous_pair; eassumption.
    - intros x y z Ix Iy Iz. apply less_trans; eapply homogeneous_pair; eassumption.
    - reflexivity.
    - apply Forall_forall. auto. }
  apply (StronglySorted_impl_In (fun a b => less ords b a = false)); [|exact Hs].
  intros a b Ia Ib Hl.
  assert (Ia' : In a rows) by (eapply Permutation_in; eassumption).
  assert (Ib' : In b rows) by (eapply Permutation_in; eassumption).
  rewrite less_spec in Hl by (eapply homogeneous_pair; eassumption).
  unfold spec_le. apply (cmp_not_lt_gt (spec_cmp ords) (spec_cmp_laws ords)).
  destruct (spec_cmp ords b a); congruence.
Qed.

(* row mode *)
Lemma drain_row_sorted_perm : forall ords rows,
  exists out, drain_row parse_int parse_float ords rows = Some out /\
              Permutation out rows /\
              (homogeneous ords rows = true -> StronglySorted (spec_le ords) out).
Proof.
  intros ords rows. eexists. split; [apply drain_row_eq|]. split.
  - apply sel_sort_perm. reflexivity.
  - apply ssort_spec_sorted.
Qed.

(* batch mode, for every batch size and every chunking of the child's rows *)
Lemma drain_batch_sorted_perm : forall ords B bs, Forall nonempty bs ->
  exists outs, drain_batch parse_int parse_float ords B bs = Some outs /\
               Forall nonempty outs /\
               Permutation (concat outs) (concat bs) /\
               (homogeneous ords (concat bs) = true -> StronglySorted (spec_le ords) (concat outs)).
Proof.
  intros ords B bs Hne.
  destruct (drain_batch_eq parse_int parse_float ords B bs Hne) as (outs & H1 & H2 & H3).
  exists outs. split; [assumption|]. split; [assumption|]. rewrite H2. split.
  - apply sel_sort_perm. reflexivity.
  - apply ssort_spec_sorted.
Qed.

(* both modes return the same sequence *)
Lemma drain_batch_row : forall ords B bs, Forall nonempty bs ->
  exists outs, drain_batch parse_int parse_float ords B bs = Some outs /\
               drain_row parse_int parse_float ords (concat bs) = Some (concat outs).
Proof.
  intros ords B bs Hne.
  destruct (drain_batch_eq parse_int parse_float ords B bs Hne) as (outs & H1 & H2 & H3).
  exists outs. split; [assumption|]. rewrite drain_row_eq, H2. reflexivity.
Qed.

(* Less is a strict weak order on homogeneous rows *)
Lemma less_strict_weak_order : forall ords a b x,
  homogeneous ords [a; b; x] = true ->
  less ords a a = false /\
  (less ords a b = true -> less ords b x = true -> less ords a x = true) /\
  (less ords a b = false -> less ords b a = false ->
   less ords b x = false -> less ords x b = false ->
   less ords a x = false /\ less ords x a = false).
Proof.
  intros ords a b x H.
  assert (P : forall u v, In u [a; b; x] -> In v [a; b; x] -> pair_ok ords u v).
  { intros u v. apply homogeneous_pair. exact H. }
  assert (Ia : In a [a; b; x]) by (cbn; auto).
  assert (Ib : In b [a; b; x]) by (cbn; auto).
  assert (Ix : In x [a; b; x]) by (cbn; auto).
  split; [apply less_irrefl; auto|]. split.
  - apply less_trans; auto.
  - apply less_incomparable_trans; auto.
Qed.

(* rows that are already in order pass through unchanged (ties keep their order) *)
Lemma drain_row_sorted_input : forall ords rows,
  StronglySorted (fun a b => less ords b a = false) rows ->
  drain_row parse_int parse_float ords rows = Some rows.
Proof.
  intros ords rows H. rewrite drain_row_eq. f_equal. apply sel_sort_sorted_id; [reflexivity|assumption].
Qed.

Lemma drain_row_spec_sorted_input : forall ords rows,
  homogeneous ords rows = true -> StronglySorted (spec_le ords) rows ->
  drain_row parse_int parse_float ords rows = Some rows.
Proof.
  intros ords rows Hh Hs. apply drain_row_sorted_input.
  apply (StronglySorted_impl_In (spec_le ords)); [|exact Hs].
  intros a b Ia Ib Hle.
  rewrite less_spec by (eapply homogeneous_pair; eassumption).
  apply (cmp_not_lt_gt (spec_cmp ords) (spec_cmp_laws ords)) in Hle.
  destruct (spec_cmp ords b a); congruence.
Qed.

End LessProofs.

(* ================================================================== 6. buildFinalOrderPlan *)

Lemma build_elides_key_asc : forall ffp name p,
  build_final_order_plan ffp false [OrderField name (EField p KeyKW) false] = ffp.
Proof. reflexivity. Qed.

(* ... and nothing else is dropped *)
Lemma build_shape : forall ffp has_aggr orders,
  build_final_order_plan ffp has_aggr orders = FOrder orders ffp \/
  (has_aggr = false /\ exists name p, orders = [OrderField name (EField p KeyKW) false]).
Proof.
  intros ffp ha orders. unfold build_final_order_plan.
  destruct ha; cbn [negb andb]; [left; reflexivity|].
  destruct orders as [|[name f d] [|o2 rest]]; cbn; try (left; reflexivity).
  destruct f; try (left; reflexivity).
  destruct f; try (left; reflexivity).
  destruct d; cbn; [left; reflexivity|]. right. split; [reflexivity|]. eauto.
Qed.

(* the natural order of a scan: the key column holds strictly ascending keys *)
Definition key_ascending (idx : nat) (rows : list row) : Prop :=
  StronglySorted (fun a b => exists ka kb, col a idx = VBytes ka /\ col b idx = VBytes kb /\
                                           bcompare ka kb = Lt) rows.

(* dropping the node is unobservable: on rows in natural key order the order node returns its
   input unchanged *)
Lemma key_asc_unobservable : forall parse_int parse_float names types name p idx rows,
  find_order_idx names name 0 = Some idx ->
  nth idx types TUNKNOWN = TSTR ->
  key_ascending idx rows ->
  run_row parse_int parse_float (FOrder [OrderField name (EField p KeyKW) false] FChild) names types rows
    = Some rows /\
  run_row parse_int parse_float
      (build_final_order_plan FChild false [OrderField name (EField p KeyKW) false]) names types rows
    = Some rows.
Proof.
  intros pi pf names types name p idx rows Hf Ht Hk. split; [|reflexivity].
  cbn [run_row init_orders of_name of_desc]. rewrite Hf, Ht.
  apply drain_row_sorted_input.
  revert Hk. apply StronglySorted_impl_In.
  intros a b _ _ (ka & kb & Ea & Eb & Hlt).
  cbn [less opos otype odesc Model.Order.compare]. rewrite Ea, Eb.
  cbn [compare_bytes order_bytes]. rewrite (ob_antisym ka kb), Hlt. reflexivity.
Qed.

(* ================================================================== 7. the pinned compare* (D16) *)

Lemma pinned_compare_number_panics :
  compare_number_pinned (VInt 3) (VFloat 4612811918334230528) false = None.
Proof. reflexivity. Qed.

Lemma pinned_compare_bytes_panics :
  compare_bytes_pinned (VStr "s") (VFloat 4607182418800017408) false = None.
Proof. reflexivity. Qed.

Lemma pinned_numbers_refuted :
  compare_number_pinned (VInt 3) (VFloat 4612811918334230528) false = None /\
  compare (fun _ => None) (fun _ => None) TNUMBER (VInt 3) (VFloat 4612811918334230528) false = Gt.
Proof. split; reflexivity. Qed.

Lemma pinned_json_refuted :
  compare_bytes_pinned (VStr "s") (VFloat 4607182418800017408) false = None /\
  compare (fun _ => None) (fun _ => None) TSTR (VStr "s") (VFloat 4607182418800017408) false = Eq.
Proof. split; reflexivity. Qed.

(* ================================================================== 8. whole statements *)

Lemma run_row_order : forall parse_int parse_float orders names types ords rows,
  init_orders orders names types = Some ords ->
  run_row parse_int parse_float (FOrder orders FChild) names types rows
  = drain_row parse_int parse_float ords rows.
Proof. intros pi pf orders names types ords rows H. cbn [run_row]. rewrite H. reflexivity. Qed.

Lemma key_ascending_spec_sorted : forall idx rows,
  key_ascending idx rows -> StronglySorted (spec_le [OField idx TSTR false]) rows.
Proof.
  intros idx rows. unfold key_ascending. apply StronglySorted_impl_In.
  intros a b _ _ (ka & kb & Ea & Eb & Hlt).
  unfold spec_le. cbn [spec_cmp]. unfold col_cmp. cbn [otype opos odesc dir].
  rewrite Ea, Eb. cbn [spec_key okey_cmp]. rewrite Hlt. discriminate.
Qed.

(* Whatever plan buildFinalOrderPlan puts on the child, the statement returns a sorted
   permutation of the child's rows; where the planner drops the order node ([order by key asc]
   alone) this rests on the child delivering its rows in natural key order (C01). *)
Lemma statement_sorted_perm : forall parse_int parse_float has_aggr orders names types ords rows,
  init_orders orders names types = Some ords ->
  (forall name p idx, has_aggr = false -> orders = [OrderField name (EField p KeyKW) false] ->
     find_order_idx names name 0 = Some idx ->
     nth idx types TUNKNOWN = TSTR /\ key_ascending idx rows) ->
  exists out,
    run_row parse_int parse_float (build_final_order_plan FChild has_aggr orders) names types rows
      = Some out /\
    Permutation out rows /\
    (homogeneous ords rows = true -> StronglySorted (spec_le ords) out).
Proof.
  intros pi pf ha orders names types ords rows Hi Hnat.
  destruct (build_shape FChild ha orders) as [E|(Ha & name & p & Eo)].
  - rewrite E, (run_row_order pi pf _ _ _ _ rows Hi). apply drain_row_sorted_perm.
  - subst ha orders. rewrite build_elides_key_asc. exists rows.
    split; [reflexivity|]. split; [apply Permutation_refl|]. intros _.
    cbn [init_orders of_name of_desc] in Hi.
    destruct (find_order_idx names name 0) as [idx|] eqn:Ef; [|discriminate].
    destruct (Hnat name p idx eq_refl eq_refl Ef) as [Ht Hk].
    rewrite Ht in Hi. inversion Hi; subst. apply key_ascending_spec_sorted. exact Hk.
Qed.
