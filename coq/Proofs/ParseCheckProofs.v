(* Proofs/ParseCheckProofs.v -- positions of the CHECKER twin (Model/Checker.v) and of the
   composite Model/ParseCheck.parse_check (query text -> lexer twin -> parser twin with the real
   mid-parse tests -> checker twin -> call validation -> buildFinalPlan's tests).

   A. the checker invents no position: every SyntaxError of Check / Validate / ValidateFields /
      checkStatementFunctionCalls carries the Pos of a node of the statement (or the position of
      an ORDER BY item), and every Pos in the checked statement is one of the input statement
      (a FieldReferenceExpr reuses the position of the name it replaces and carries a field of
      the statement);
   B. to_check hands every tree over unchanged;
   C. the real mid-parse tests (checkFieldCycles twin, findFieldInSelect, the aggregate-name test,
      Check of the GROUP BY fields) satisfy the premise [hooks_ok] of the parser's theorems;
   D. for EVERY query text: a rejection of parse_check carries -1, 0 or the offset of one of the
      query's tokens, inside the query; every Pos stored in an accepted statement (parser's
      statement and checked trees) is 0 or a token offset inside the query. *)
From Coq Require Import String List Arith Bool ZArith Lia.
Import ListNotations.
From KV Require Import Model.ErrRender Spec.CaretSpec.
From KV Require Import Base.Bytes Base.Num Model.Token Model.Ast Model.Lexer
                       Model.ExprParser Model.ErrPos Model.StmtParser
                       Proofs.ErrPosProofs Proofs.StmtParserProofs Proofs.ParsePosProofs.
From KV Require Import Model.Value Model.Eval Model.ParseCheck.
From KV Require Model.Checker Proofs.CheckerProofs.
Local Open Scope list_scope.
Set Warnings "-unused-intro-pattern".

Import Checker.
Local Open Scope list_scope.

(* ================================================================ A. the checker *)

Lemma rbind_ok {A B} (r : res A) (f : A -> res B) b :
  Value.bind r f = Ok b -> exists a, r = Ok a /\ f a = Ok b.
Proof. destruct r as [a|e| |]; cbn [Value.bind]; intros H; try discriminate. eauto. Qed.

Section CheckProv.
Variable fo : fops.
Variable P : nat -> Prop.

Notation APp := (AP P).
Notation chk := (Checker.check fo true).

(* a result of the checker: a value satisfying Q, or a SyntaxError at a P-position (or "outside
   the model") -- never a panic, never an error of another kind *)
Definition okr {A} (Q : A -> Prop) (r : res A) : Prop :=
  match r with
  | Ok a => Q a
  | Err (ESyntax p) => P p
  | Err _ => False
  | Panic => False
  | OutOfModel => True
  end.

Lemma okr_bind {A B} (QA : A -> Prop) (QB : B -> Prop) (r : res A) (k : A -> res B) :
  okr QA r -> (forall a, QA a -> okr QB (k a)) -> okr QB (Value.bind r k).
Proof. intros H Hk. destruct r as [a|[]| |]; cbn [Value.bind okr] in *; auto. Qed.

Lemma okr_weaken {A} (Q Q' : A -> Prop) (r : res A) :
  (forall a, Q a -> Q' a) -> okr Q r -> okr Q' r.
Proof. intros H. destruct r as [a|[]| |]; cbn [okr]; auto. Qed.

Lemma okr_serr {A} (Q : A -> Prop) p : P p -> okr Q (@serr A p).
Proof. intros H. exact H. Qed.

Definition anyu : unit -> Prop := fun _ => True.

(* ---- inversion of AP *)
Lemma AP_bin_inv p o l r : APp (EBin p o l r) -> P p /\ APp l /\ APp r.
Proof.
  unfold AP. cbn [positions]. intros H. inversion H as [|? ? Hp Hr]; subst.
  apply Forall_app in Hr. tauto.
Qed.
Lemma AP_not_inv p r : APp (ENot p r) -> P p /\ APp r.
Proof. unfold AP. cbn [positions]. intros H. inversion H; subst. tauto. Qed.
Lemma AP_flat_inv l : Forall P (flat_map positions l) -> Forall APp l.
Proof.
  induction l as [|a l IH]; cbn [flat_map]; intros H; [constructor|].
  apply Forall_app in H. destruct H as [Ha Hl]. constructor; [exact Ha|apply IH; exact Hl].
Qed.
Lemma AP_call_inv p n args : APp (ECall p n args) -> P p /\ APp n /\ Forall APp args.
Proof.
  unfold AP. cbn [positions]. intros H. inversion H as [|? ? Hp Hr]; subst.
  apply Forall_app in Hr. destruct Hr as [Hn Ha]. split; [exact Hp|]. split; [exact Hn|].
  apply AP_flat_inv. exact Ha.
Qed.
Lemma AP_call_intro p n args : P p -> APp n -> Forall APp args -> APp (ECall p n args).
Proof.
  intros Hp Hn Ha. unfold AP. cbn [positions]. constructor; [exact Hp|].
  apply Forall_app. split; [exact Hn|apply AP_flat; exact Ha].
Qed.
Lemma AP_list_inv p l : APp (EList p l) -> P p /\ Forall APp l.
Proof.
  unfold AP. cbn [positions]. intros H. inversion H as [|? ? Hp Hr]; subst.
  split; [exact Hp|apply AP_flat_inv; exact Hr].
Qed.
Lemma AP_access_inv p l f : APp (EAccess p l f) -> P p /\ APp l /\ APp f.
Proof.
  unfold AP. cbn [positions]. intros H. inversion H as [|? ? Hp Hr]; subst.
  apply Forall_app in Hr. tauto.
Qed.
Lemma AP_ref_inv p s d : APp (ERef p s d) -> P p /\ APp d.
Proof. unfold AP. cbn [positions]. intros H. inversion H; subst. tauto. Qed.
Lemma AP_ref_intro p s d : P p -> APp d -> APp (ERef p s d).
Proof. intros Hp Hd. unfold AP. cbn [positions]. constructor; assumption. Qed.

(* ---- the field table of a CheckCtx *)
Definition names_ok (names : list (string * expr)) : Prop := Forall (fun nd => APp (snd nd)) names.

Lemma get_named_AP names s d : names_ok names -> get_named names s = Some d -> APp d.
Proof.
  intros H. induction H as [|[n d0] l Hd Hl IH]; cbn [get_named]; [discriminate|].
  destruct (String.eqb n s); [intros E; inversion E; subst; exact Hd|exact IH].
Qed.

Lemma rewrite_name_AP names e : names_ok names -> APp e -> APp (rewrite_name names e).
Proof.
  intros Hn He. destruct e; cbn [rewrite_name]; try exact He.
  destruct (get_named names s) as [d|] eqn:E; [|exact He].
  apply AP_ref_intro; [exact (AP_epos P _ He)|exact (get_named_AP _ _ _ Hn E)].
Qed.

(* ---- the operand tests: every error sits at one of the two operands or at the operator *)
Ltac side :=
  repeat first
    [ exact I
    | assumption
    | progress cbn [okr serr Value.bind anyu]
    | match goal with
      | |- okr _ (if ?b then _ else _) => destruct b
      | |- okr _ (match ?x with _ => _ end) => destruct x
      end ].

Lemma andor_side_ok e : APp e -> okr anyu (andor_side true e).
Proof. intros H. pose proof (AP_epos P e H) as Hp. unfold andor_side. side. Qed.

Lemma check_andor_ok l r : APp l -> APp r -> okr anyu (check_andor true l r).
Proof.
  intros Hl Hr. unfold check_andor. eapply okr_bind; [apply andor_side_ok; exact Hl|].
  intros _ _. apply andor_side_ok. exact Hr.
Qed.

Lemma math_side_ok e : APp e -> okr (fun _ : bool => True) (math_side e).
Proof. intros H. pose proof (AP_epos P e H) as Hp. unfold math_side. side. Qed.

Lemma zero_divisor_ok r : okr (fun _ : bool => True) (zero_divisor fo r).
Proof.
  unfold zero_divisor. destruct r; cbn [okr]; try exact I.
  unfold float_value. destruct (f_parse fo data); cbn [Value.bind okr]; exact I.
Qed.

Lemma check_math_ok o l r : APp l -> APp r -> okr anyu (check_math fo o l r).
Proof.
  intros Hl Hr. pose proof (AP_epos P l Hl) as Hpl. pose proof (AP_epos P r Hr) as Hpr.
  unfold check_math.
  eapply okr_bind; [apply math_side_ok; exact Hl|]. intros ls _.
  eapply okr_bind; [apply math_side_ok; exact Hr|]. intros rs _.
  eapply (okr_bind anyu).
  { destruct (op_eqb o OAdd && ls && rs); [exact I|]. destruct ls; [exact Hpl|]. destruct rs; [exact Hpr|exact I]. }
  intros _ _. destruct (op_eqb o ODiv); [|exact I].
  eapply okr_bind; [apply zero_divisor_ok|]. intros z _. destruct z; [exact Hpr|exact I].
Qed.

Lemma compare_side_ok e : APp e -> okr (fun _ : nat * nat => True) (compare_side true e).
Proof. intros H. pose proof (AP_epos P e H) as Hp. unfold compare_side. side. Qed.

Lemma check_compares_ok p o l r : P p -> APp l -> APp r -> okr anyu (check_compares true p o l r).
Proof.
  intros Hp Hl Hr. pose proof (AP_epos P l Hl) as Hpl. unfold check_compares.
  eapply okr_bind; [apply compare_side_ok; exact Hl|]. intros lc _.
  eapply okr_bind; [apply compare_side_ok; exact Hr|]. intros rc _.
  destruct (Nat.eqb (fst lc + fst rc) 2 || Nat.eqb (snd lc + snd rc) 2); [exact Hp|].
  destruct (negb (ty_eqb (rtype l) (rtype r))); [exact Hp|].
  destruct o; cbn [andb]; try exact I;
    match goal with |- okr _ (if ?b then _ else _) => destruct b end; first [exact I|exact Hpl].
Qed.

Lemma first_mistyped_in t l x : first_mistyped t l = Some x -> In x l.
Proof.
  induction l as [|a l IH]; cbn [first_mistyped]; [discriminate|].
  destruct (ty_eqb (rtype a) t); [intros H; right; exact (IH H)|intros H; inversion H; subst; left; reflexivity].
Qed.

Lemma first_mistyped_P t l x : Forall APp l -> first_mistyped t l = Some x -> P (epos x).
Proof.
  intros H E. apply first_mistyped_in in E. rewrite Forall_forall in H. apply AP_epos. exact (H _ E).
Qed.

Lemma check_in_ok l r : APp l -> APp r -> okr anyu (check_in true l r).
Proof.
  intros Hl Hr. pose proof (AP_epos P l Hl) as Hpl. pose proof (AP_epos P r Hr) as Hpr.
  unfold check_in. destruct (true && negb (is_strnum_ty (rtype l))); [exact Hpl|].
  destruct r; try exact Hpr.
  - destruct (ty_eqb _ TList); [exact I|exact Hpr].
  - destruct (ty_eqb _ TList); [exact I|exact Hpr].
  - destruct (AP_list_inv _ _ Hr) as [_ Hitems].
    destruct (first_mistyped (rtype l) l0) as [x|] eqn:E; [|exact I].
    exact (first_mistyped_P _ _ _ Hitems E).
Qed.

Lemma check_between_ok l r : APp l -> APp r -> okr anyu (check_between l r).
Proof.
  intros Hl Hr. pose proof (AP_epos P l Hl) as Hpl. pose proof (AP_epos P r Hr) as Hpr.
  unfold check_between. destruct r; try exact Hpr.
  destruct l0 as [|lo [|hi [|x l0]]]; try exact Hpr.
  destruct (negb (is_strnum_ty (rtype l))); [exact Hpl|].
  destruct (ty_eqb (rtype lo) (rtype l) && ty_eqb (rtype hi) (rtype l)); [exact I|exact Hpr].
Qed.

Lemma check_access_shape_ok l f : APp l -> APp f -> okr anyu (check_access_shape true l f).
Proof.
  intros Hl Hf. pose proof (AP_epos P l Hl) as Hpl. pose proof (AP_epos P f Hf) as Hpf.
  unfold check_access_shape. generalize (is_access l). intros fae.
  destruct (rtype l); destruct f; destruct fae; cbn [okr serr]; first [exact I|exact Hpf|exact Hpl].
Qed.

(* ---- Expression.Check *)
Section WithCtx.
Variable ctx : cctx.
Hypothesis Hctx : names_ok (c_names ctx).

Notation rw := (rewrite_name (c_names ctx)).

Lemma check_list_okr l :
  Forall (fun a => APp a -> okr APp (chk ctx a)) l -> Forall APp l ->
  okr (Forall APp) (CheckerProofs.check_list fo ctx l).
Proof.
  intros HI HA. induction l as [|a l IH]; cbn [CheckerProofs.check_list]; [constructor|].
  inversion HI as [|? ? Ha HIl]; subst. inversion HA as [|? ? Hpa HAl]; subst.
  eapply okr_bind; [exact (Ha Hpa)|]. intros a1 Ha1.
  eapply okr_bind; [exact (IH HIl HAl)|]. intros l2 Hl2. cbn [okr].
  constructor; [apply rewrite_name_AP; assumption|exact Hl2].
Qed.

Lemma check_ok : forall e, APp e -> okr APp (chk ctx e).
Proof.
  induction e using CheckerProofs.expr_induction; intros HA.
  - (* EBin *)
    destruct (AP_bin_inv _ _ _ _ HA) as (Hp & Hl & Hr). cbn [Checker.check].
    eapply okr_bind; [exact (IHe1 Hl)|]. intros l1 Hl1.
    eapply okr_bind; [exact (IHe2 Hr)|]. intros r1 Hr1.
    pose proof (rewrite_name_AP _ _ Hctx Hl1) as Hl2. pose proof (rewrite_name_AP _ _ Hctx Hr1) as Hr2.
    eapply (okr_bind anyu).
    + destruct o; first [apply check_andor_ok; assumption | apply check_compares_ok; assumption
                        | apply check_math_ok; assumption | apply check_in_ok; assumption
                        | apply check_between_ok; assumption | exact Hp].
    + intros _ _. cbn [okr]. apply AP_bin; assumption.
  - (* EField *)
    pose proof (AP_epos P _ HA) as Hp. cbn [epos] in Hp. cbn [Checker.check].
    destruct f; [destruct (c_nokey ctx)|destruct (c_novalue ctx)]; cbn [okr serr]; assumption.
  - exact HA.
  - (* ENot *)
    destruct (AP_not_inv _ _ HA) as (Hp & Hr). cbn [Checker.check].
    eapply okr_bind.
    { eapply okr_bind; [exact (IHe Hr)|]. intros r1 Hr1. cbn [okr]. apply rewrite_name_AP; [exact Hctx|exact Hr1]. }
    intros r2 Hr2. destruct (ty_eqb (rtype r2) TBool); cbn [okr serr].
    + apply AP_not; assumption.
    + apply AP_epos. exact Hr2.
  - (* ECall *)
    destruct (AP_call_inv _ _ _ HA) as (Hp & Hn & Hargs).
    destruct e; try (cbn [Checker.check okr serr]; exact (AP_epos P _ Hn)).
    rewrite CheckerProofs.check_call_eq.
    eapply okr_bind; [apply check_list_okr; assumption|]. intros args2 Ha2. cbn [okr].
    apply AP_call_intro; assumption.
  - exact HA.
  - exact HA.
  - exact HA.
  - exact HA.
  - exact HA.
  - (* EList *)
    destruct (AP_list_inv _ _ HA) as (Hp & Hl). destruct l as [|x items]; [exact Hp|].
    rewrite CheckerProofs.check_list_eq.
    eapply okr_bind; [apply check_list_okr; assumption|]. intros items2 Hi2.
    destruct items2 as [|y rest]; [exact Hp|]. inversion Hi2 as [|? ? Hy Hrest]; subst.
    destruct (first_mistyped (rtype y) rest) as [z|] eqn:E; cbn [okr serr].
    + exact (first_mistyped_P _ _ _ Hrest E).
    + apply AP_list; assumption.
  - (* EAccess *)
    destruct (AP_access_inv _ _ _ HA) as (Hp & Hl & Hf). cbn [Checker.check].
    eapply okr_bind.
    { eapply okr_bind; [exact (IHe1 Hl)|]. intros l1 Hl1. cbn [okr]. apply rewrite_name_AP; [exact Hctx|exact Hl1]. }
    intros l2 Hl2. eapply okr_bind; [exact (IHe2 Hf)|]. intros f2 Hf2.
    eapply (okr_bind anyu); [apply check_access_shape_ok; assumption|].
    intros _ _. cbn [okr]. apply AP_access; assumption.
Qed.

End WithCtx.

(* ---- statement.go: aggregate arguments *)
Lemma aggr_arg_ok : forall a, APp a -> okr anyu (aggr_arg a).
Proof.
  induction a using CheckerProofs.expr_induction; intros HA; cbn [aggr_arg okr anyu]; try exact I.
  - destruct (AP_bin_inv _ _ _ _ HA) as (_ & Hl & Hr).
    eapply okr_bind; [exact (IHa1 Hl)|]. intros _ _. exact (IHa2 Hr).
  - destruct (AP_call_inv _ _ _ HA) as (Hp & _ & _).
    destruct (is_aggr_call (ECall p a args)); [exact Hp|exact I].
Qed.

Lemma aggr_args_ok : forall l, Forall APp l -> okr anyu (aggr_args l).
Proof.
  induction l as [|a l IH]; intros H; cbn [aggr_args]; [exact I|].
  inversion H; subst. eapply okr_bind; [apply aggr_arg_ok; assumption|]. intros _ _. apply IH. assumption.
Qed.

Lemma aggr_field_ok : forall e, APp e -> okr anyu (aggr_field e).
Proof.
  induction e using CheckerProofs.expr_induction; intros HA; cbn [aggr_field okr anyu]; try exact I.
  - destruct (AP_bin_inv _ _ _ _ HA) as (_ & Hl & Hr).
    eapply okr_bind; [exact (IHe1 Hl)|]. intros _ _. exact (IHe2 Hr).
  - destruct (AP_call_inv _ _ _ HA) as (_ & _ & Hargs).
    destruct (is_aggr_call (ECall p e args)); [apply aggr_args_ok; exact Hargs|exact I].
Qed.

(* ---- resolveFieldNames: references carry positions of the query *)
Lemma resolve_AP names : names_ok names -> forall e, APp e -> APp (resolve names e).
Proof.
  intros Hn. induction e using CheckerProofs.expr_induction; intros HA; cbn [resolve]; try exact HA.
  - destruct (AP_bin_inv _ _ _ _ HA) as (Hp & Hl & Hr). apply AP_bin; [exact Hp| |]; apply rewrite_name_AP; auto.
  - destruct (AP_not_inv _ _ HA) as (Hp & Hr). apply AP_not; [exact Hp|]. apply rewrite_name_AP; auto.
  - destruct (AP_call_inv _ _ _ HA) as (Hp & Hn' & Hargs). apply AP_call_intro; [exact Hp|exact Hn'|].
    clear HA. induction H as [|a l Ha Hl IH]; cbn [map]; [constructor|].
    inversion Hargs; subst. constructor; [apply rewrite_name_AP; auto|auto].
  - destruct (AP_list_inv _ _ HA) as (Hp & Hl). apply AP_list; [exact Hp|].
    clear HA. induction H as [|a l0 Ha Hl0 IH]; cbn [map]; [constructor|].
    inversion Hl; subst. constructor; [apply rewrite_name_AP; auto|auto].
  - destruct (AP_access_inv _ _ _ HA) as (Hp & Hl & Hf). apply AP_access; [exact Hp| |auto].
    apply rewrite_name_AP; auto.
Qed.

Lemma link_n_ok raw : names_ok raw -> forall k, names_ok (link_n k raw).
Proof.
  intros Hraw. induction k as [|k IH]; cbn [link_n]; [exact Hraw|].
  unfold names_ok in *. rewrite Forall_map. eapply Forall_impl; [|exact Hraw].
  intros nf Hnf. cbn [snd]. apply resolve_AP; assumption.
Qed.

Lemma link_ok raw : names_ok raw -> names_ok (link raw).
Proof. intros H. unfold link. apply link_n_ok. exact H. Qed.

(* ---- SelectStmt.ValidateFields *)
Lemma validate_fields_ok : forall all todo,
  names_ok all -> names_ok todo -> okr names_ok (validate_fields fo true all todo).
Proof.
  intros all. induction todo as [|[n f] todo IH]; intros Ha Ht; cbn [validate_fields]; [constructor|].
  inversion Ht as [|? ? Hf Ht']; subst. cbn [snd] in Hf.
  eapply okr_bind; [apply check_ok; [exact Ha|exact Hf]|].
  intros f2 Hf2. eapply okr_bind; [apply aggr_field_ok; exact Hf2|]. intros _ _.
  eapply okr_bind; [exact (IH Ha Ht')|]. intros r Hr. cbn [okr]. constructor; [exact Hf2|exact Hr].
Qed.

(* ---- findFieldInSelect for ORDER BY *)
Lemma find_order_field_ok names it :
  names_ok names -> P (fst it) -> okr anyu (find_order_field names it).
Proof.
  intros Hn Hp. unfold find_order_field. destruct (get_named names (snd it)) as [f|] eqn:E; [|exact Hp].
  destruct (is_scalar_ty (rtype f)); [exact I|]. apply AP_epos. exact (get_named_AP _ _ _ Hn E).
Qed.

Lemma check_order_ok names l :
  names_ok names -> Forall (fun it => P (fst it)) l -> okr anyu (check_order names l).
Proof.
  intros Hn H. induction H as [|it l Hit Hl IH]; cbn [check_order]; [exact I|].
  eapply okr_bind; [apply find_order_field_ok; assumption|]. intros _ _. exact IH.
Qed.

(* ---- positions of a statement of the checker twin *)
Definition cstmt_ok (c : Checker.stmt) : Prop := Forall P (cstmt_positions c).

Lemma cstmt_ok_select fields w order :
  cstmt_ok (SSelect fields w order) <->
  names_ok fields /\ APp w /\ Forall (fun it => P (fst it)) order.
Proof.
  unfold cstmt_ok, cstmt_positions. cbn [cstmt_exprs cstmt_order_positions].
  rewrite Forall_app, flat_map_app, Forall_app. cbn [flat_map]. rewrite app_nil_r.
  unfold names_ok. split.
  - intros ((Hf & Hw) & Ho). split; [|split; [exact Hw|]].
    + apply AP_flat_inv in Hf. rewrite Forall_map in Hf. exact Hf.
    + rewrite Forall_map in Ho. exact Ho.
  - intros (Hf & Hw & Ho). split; [split; [|exact Hw]|].
    + apply AP_flat. rewrite Forall_map. exact Hf.
    + rewrite Forall_map. exact Ho.
Qed.

Definition pairs_ok (l : list (expr * expr)) : Prop := Forall (fun kv => APp (fst kv) /\ APp (snd kv)) l.

Lemma cstmt_ok_put pairs : cstmt_ok (SPut pairs) <-> pairs_ok pairs.
Proof.
  unfold cstmt_ok, cstmt_positions, pairs_ok. cbn [cstmt_exprs cstmt_order_positions]. rewrite app_nil_r.
  induction pairs as [|[k v] l IH]; cbn [flat_map]; [split; constructor|].
  cbn [app fst snd flat_map]. rewrite !Forall_app. rewrite Forall_cons_iff, IH. cbn [fst snd]. unfold AP. tauto.
Qed.

Lemma cstmt_ok_remove keys : cstmt_ok (SRemove keys) <-> Forall APp keys.
Proof.
  unfold cstmt_ok, cstmt_positions. cbn [cstmt_exprs cstmt_order_positions]. rewrite app_nil_r.
  split; [apply AP_flat_inv|apply AP_flat].
Qed.

Lemma cstmt_ok_delete w : cstmt_ok (SDelete w) <-> APp w.
Proof.
  unfold cstmt_ok, cstmt_positions. cbn [cstmt_exprs cstmt_order_positions flat_map]. rewrite !app_nil_r.
  reflexivity.
Qed.

(* ---- Parser.Parse from the point where the statement has been read *)
Lemma where_bool_ok w : APp w -> okr anyu (where_bool w).
Proof. intros H. unfold where_bool. destruct (ty_eqb (rtype w) TBool); [exact I|apply AP_epos; exact H]. Qed.

Lemma strnum_or_ok e : APp e -> okr anyu (strnum_or e).
Proof. intros H. unfold strnum_or. destruct (is_strnum_ty (rtype e)); [exact I|apply AP_epos; exact H]. Qed.

Lemma names_ok_nil : names_ok [].
Proof. constructor. Qed.

Lemma check_select_ok fields w order :
  cstmt_ok (SSelect fields w order) -> okr cstmt_ok (check_select fo true fields w order).
Proof.
  intros H. apply cstmt_ok_select in H. destruct H as (Hf & Hw & Ho). unfold check_select.
  pose proof (link_ok _ Hf) as Hl. cbv zeta.
  eapply okr_bind; [apply check_order_ok; assumption|]. intros _ _.
  eapply okr_bind; [apply check_ok; [exact Hl|exact Hw]|]. intros w1 Hw1.
  pose proof (rewrite_name_AP _ _ Hl Hw1) as Hw2.
  eapply okr_bind; [apply where_bool_ok; exact Hw2|]. intros _ _.
  eapply okr_bind; [apply validate_fields_ok; [exact Hl|exact Hf]|]. intros f2 Hf2.
  cbn [okr]. apply cstmt_ok_select. auto.
Qed.

Lemma check_pairs_ok l : pairs_ok l -> okr pairs_ok (check_pairs fo true l).
Proof.
  intros H. induction H as [|[k v] l (Hk & Hv) Hl IH]; cbn [check_pairs]; [constructor|].
  cbn [fst snd] in Hk, Hv. eapply okr_bind.
  { unfold check_pair. cbn [fst snd].
    eapply okr_bind; [apply check_ok; [apply names_ok_nil|exact Hk]|]. intros k2 Hk2.
    eapply okr_bind; [apply strnum_or_ok; exact Hk2|]. intros _ _.
    eapply okr_bind; [apply check_ok; [apply names_ok_nil|exact Hv]|]. intros v2 Hv2.
    eapply okr_bind; [apply strnum_or_ok; exact Hv2|]. intros _ _.
    instantiate (1 := fun kv => APp (fst kv) /\ APp (snd kv)). cbn [okr fst snd]. split; assumption. }
  intros kv2 Hkv2. eapply okr_bind; [exact IH|]. intros l2 Hl2. cbn [okr]. constructor; assumption.
Qed.

Lemma check_keys_ok l : Forall APp l -> okr (Forall APp) (check_keys fo true l).
Proof.
  intros H. induction H as [|k l Hk Hl IH]; cbn [check_keys]; [constructor|].
  eapply okr_bind; [apply strnum_or_ok; exact Hk|]. intros _ _.
  eapply okr_bind; [apply check_ok; [apply names_ok_nil|exact Hk]|]. intros k2 Hk2.
  eapply okr_bind; [exact IH|]. intros l2 Hl2. cbn [okr]. constructor; assumption.
Qed.

Lemma check_stmt_ok s : cstmt_ok s -> okr cstmt_ok (check_stmt fo true s).
Proof.
  intros H. destruct s as [fields w order|pairs|keys|w]; cbn [check_stmt].
  - apply check_select_ok. exact H.
  - apply cstmt_ok_put in H. eapply okr_bind; [apply check_pairs_ok; exact H|].
    intros p2 Hp2. cbn [okr]. apply cstmt_ok_put. exact Hp2.
  - apply cstmt_ok_remove in H. eapply okr_bind; [apply check_keys_ok; exact H|].
    intros k2 Hk2. cbn [okr]. apply cstmt_ok_remove. exact Hk2.
  - apply cstmt_ok_delete in H.
    eapply okr_bind; [apply check_ok; [apply names_ok_nil|exact H]|]. intros w2 Hw2.
    eapply okr_bind; [apply where_bool_ok; exact Hw2|]. intros _ _. cbn [okr].
    apply cstmt_ok_delete. exact Hw2.
Qed.

(* ---- optimizer.go: the call validation *)
Fixpoint calls_list (l : list expr) : res unit :=
  match l with
  | [] => Ok tt
  | a :: l' => do _ <- check_calls false a; calls_list l'
  end.

Lemma calls_list_okr l :
  Forall (fun a => forall allow, APp a -> okr anyu (check_calls allow a)) l -> Forall APp l ->
  okr anyu (calls_list l).
Proof.
  intros HI HA. induction l as [|a l IH]; cbn [calls_list]; [exact I|].
  inversion HI as [|? ? Ha HIl]; subst. inversion HA as [|? ? Hpa HAl]; subst.
  eapply okr_bind; [exact (Ha false Hpa)|]. intros _ _. exact (IH HIl HAl).
Qed.

Lemma check_calls_ok : forall e allow, APp e -> okr anyu (check_calls allow e).
Proof.
  induction e using CheckerProofs.expr_induction; intros allow HA; cbn [check_calls okr anyu]; try exact I.
  - destruct (AP_bin_inv _ _ _ _ HA) as (_ & Hl & Hr).
    eapply okr_bind; [exact (IHe1 allow Hl)|]. intros _ _. exact (IHe2 allow Hr).
  - destruct (AP_not_inv _ _ HA) as (_ & Hr). exact (IHe false Hr).
  - destruct (AP_call_inv _ _ _ HA) as (Hp & Hn & Hargs).
    destruct e; try exact Hp.
    destruct (call_name (EName pos s)) as [nm|]; [|exact I].
    eapply (okr_bind anyu).
    + destruct (func_info nm) as [[[nargs varargs] t]|].
      * match goal with |- okr _ (if ?b then _ else _) => destruct b end; [exact Hp|exact I].
      * destruct (aggr_rtype nm); [destruct allow; [exact I|exact Hp]|exact Hp].
    + intros _ _. change (okr anyu (calls_list args)). apply calls_list_okr; assumption.
  - destruct (AP_list_inv _ _ HA) as (_ & Hl).
    change (okr anyu (calls_list l)). apply calls_list_okr; assumption.
  - destruct (AP_access_inv _ _ _ HA) as (_ & Hl & _). exact (IHe1 false Hl).
Qed.

Lemma calls_fields_ok l : names_ok l -> okr anyu (calls_fields l).
Proof.
  intros H. induction H as [|[n f] l Hf Hl IH]; cbn [calls_fields]; [exact I|].
  eapply okr_bind; [apply check_calls_ok; exact Hf|]. intros _ _. exact IH.
Qed.

Lemma calls_pairs_ok l : pairs_ok l -> okr anyu (calls_pairs l).
Proof.
  intros H. induction H as [|[k v] l (Hk & Hv) Hl IH]; cbn [calls_pairs]; [exact I|].
  eapply okr_bind; [apply check_calls_ok; exact Hk|]. intros _ _.
  eapply okr_bind; [apply check_calls_ok; exact Hv|]. intros _ _. exact IH.
Qed.

Lemma calls_keys_ok l : Forall APp l -> okr anyu (calls_keys l).
Proof.
  intros H. induction H as [|k l Hk Hl IH]; cbn [calls_keys]; [exact I|].
  eapply okr_bind; [apply check_calls_ok; exact Hk|]. intros _ _. exact IH.
Qed.

Lemma check_stmt_calls_ok s : cstmt_ok s -> okr anyu (check_stmt_calls s).
Proof.
  intros H. destruct s as [fields w order|pairs|keys|w]; cbn [check_stmt_calls].
  - apply cstmt_ok_select in H. destruct H as (Hf & Hw & _).
    eapply okr_bind; [apply check_calls_ok; exact Hw|]. intros _ _. apply calls_fields_ok. exact Hf.
  - apply cstmt_ok_put in H. apply calls_pairs_ok. exact H.
  - apply cstmt_ok_remove in H. apply calls_keys_ok. exact H.
  - apply cstmt_ok_delete in H. apply check_calls_ok. exact H.
Qed.

(* Optimizer.init up to the point where the statement is accepted *)
Lemma build_check_ok s : cstmt_ok s -> okr cstmt_ok (build_check fo true s).
Proof.
  intros H. unfold build_check. eapply okr_bind; [apply check_stmt_ok; exact H|]. intros s2 Hs2.
  eapply okr_bind; [apply check_stmt_calls_ok; exact Hs2|]. intros _ _. exact Hs2.
Qed.

End CheckProv.

(* the two forms in which theorem A is used *)
Theorem build_check_err_position fo (s : Checker.stmt) (p : nat) :
  build_check fo true s = Err (ESyntax p) -> In p (cstmt_positions s).
Proof.
  intros E. pose proof (build_check_ok fo (fun x => In x (cstmt_positions s)) s) as H.
  rewrite E in H. apply H. unfold cstmt_ok. apply Forall_forall. auto.
Qed.

Theorem build_check_keeps_positions fo (s s2 : Checker.stmt) :
  build_check fo true s = Ok s2 -> incl (cstmt_positions s2) (cstmt_positions s).
Proof.
  intros E. pose proof (build_check_ok fo (fun x => In x (cstmt_positions s)) s) as H.
  rewrite E in H. cbn [okr] in H. unfold cstmt_ok in H.
  assert (H0 : Forall (fun x => In x (cstmt_positions s)) (cstmt_positions s)) by (apply Forall_forall; auto).
  specialize (H H0). rewrite Forall_forall in H. intros x Hx. exact (H x Hx).
Qed.

(* ================================================================ B. to_check *)

Lemma map_snd_combine {A B} (a : list A) (b : list B) :
  length a = length b -> map snd (combine a b) = b.
Proof.
  revert b. induction a as [|x a IH]; intros [|y b] H; cbn in *; try discriminate; [reflexivity|].
  f_equal. apply IH. lia.
Qed.

Lemma epos_in_positions' e : In (epos e) (positions e).
Proof. destruct e; cbn [epos positions]; left; reflexivity. Qed.

Theorem to_check_positions (s : StmtParser.stmt) (c : Checker.stmt) :
  to_check s = Some c -> incl (cstmt_positions c) (stmt_positions s).
Proof.
  unfold to_check. destruct s as [x|p pairs|p keys|p wp w lim].
  - destruct (Nat.eqb (length (s_names x)) (length (s_fields x))) eqn:El; cbn [negb]; [|discriminate].
    apply Nat.eqb_eq in El.
    intros H. inversion H; subst c. clear H.
    unfold cstmt_positions, stmt_positions. cbn [cstmt_exprs cstmt_order_positions stmt_exprs].
    rewrite (map_snd_combine _ _ El). intros q Hq. apply in_or_app. right.
    apply in_app_or in Hq. destruct Hq as [Hq|Hq].
    + rewrite flat_map_app in Hq. rewrite !flat_map_app. apply in_app_or in Hq. destruct Hq as [Hq|Hq].
      * apply in_or_app. left. exact Hq.
      * apply in_or_app. right. apply in_or_app. left. exact Hq.
    + rewrite !flat_map_app. apply in_or_app. right. apply in_or_app. right. apply in_or_app. left.
      unfold order_items in Hq. destruct (s_order x) as [o|]; [|contradiction].
      rewrite map_map in Hq. cbn [fst] in Hq. apply in_map_iff in Hq. destruct Hq as (it & <- & Hit).
      apply in_flat_map. exists (fst it). split; [apply in_map; exact Hit|apply epos_in_positions'].
  - intros H. inversion H; subst c. unfold cstmt_positions, stmt_positions.
    cbn [cstmt_exprs cstmt_order_positions stmt_exprs]. rewrite app_nil_r. intros q Hq. apply in_or_app. right. exact Hq.
  - intros H. inversion H; subst c. unfold cstmt_positions, stmt_positions.
    cbn [cstmt_exprs cstmt_order_positions stmt_exprs]. rewrite app_nil_r. intros q Hq. apply in_or_app. right. exact Hq.
  - intros H. inversion H; subst c. unfold cstmt_positions, stmt_positions.
    cbn [cstmt_exprs cstmt_order_positions stmt_exprs]. rewrite app_nil_r. intros q Hq. apply in_or_app. right. exact Hq.
Qed.

(* nothing is lost either: every expression tree of the parser's statement that the checker
   looks at is a tree of the converted statement (GROUP BY items are only looked up by name) *)
Theorem to_check_keeps_trees (s : StmtParser.stmt) (c : Checker.stmt) :
  to_check s = Some c ->
  cstmt_exprs c =
  match s with
  | StSelect x => s_fields x ++ [s_where x]
  | StPut _ pairs => flat_map (fun kv => [fst kv; snd kv]) pairs
  | StRemove _ keys => keys
  | StDelete _ _ w _ => [w]
  end.
Proof.
  unfold to_check. destruct s as [x|p pairs|p keys|p wp w lim].
  - destruct (Nat.eqb (length (s_names x)) (length (s_fields x))) eqn:El; cbn [negb]; [|discriminate].
    apply Nat.eqb_eq in El.
    intros H. inversion H; subst c. cbn [cstmt_exprs]. rewrite (map_snd_combine _ _ El). reflexivity.
  - intros H. inversion H; reflexivity.
  - intros H. inversion H; reflexivity.
  - intros H. inversion H; reflexivity.
Qed.

Lemma Forall_incl {A} (Q : A -> Prop) l l' : incl l l' -> Forall Q l' -> Forall Q l.
Proof. intros Hi H. rewrite Forall_forall in *. auto. Qed.

(* ================================================================ C. the real hooks *)

(* ---- checkFieldCycles: the walk callback as a function of its own, for the proofs *)
Section Walk.
Variable names : list string.
Variable fields : list expr.
Variable rec : list nat -> nat -> list nat * cyc_out.     (* visit with the remaining fuel *)

Fixpoint walk (st : list nat) (e : expr) {struct e} : list nat * cyc_out :=
  match e with
  | EBin _ _ l r =>
      match walk st l with
      | (st', CNone) => walk st' r
      | x => x
      end
  | ENot _ r => walk st r
  | ECall _ _ args =>
      (fix go (st : list nat) (l : list expr) {struct l} : list nat * cyc_out :=
         match l with
         | [] => (st, CNone)
         | a :: l' => match walk st a with
                      | (st', CNone) => go st' l'
                      | x => x
                      end
         end) st args
  | EName p s =>
      match field_idx names fields s with
      | None => (st, CNone)
      | Some j =>
          match nth j st 2 with
          | 1 => (st, CErr p)
          | 0 => rec st j
          | _ => (st, CNone)
          end
      end
  | ERef _ _ d => walk st d
  | EList _ items =>
      (fix go (st : list nat) (l : list expr) {struct l} : list nat * cyc_out :=
         match l with
         | [] => (st, CNone)
         | a :: l' => match walk st a with
                      | (st', CNone) => go st' l'
                      | x => x
                      end
         end) st items
  | EAccess _ l fn =>
      match walk st l with
      | (st', CNone) => walk st' fn
      | x => x
      end
  | _ => (st, CNone)
  end.

Fixpoint walk_list (st : list nat) (l : list expr) {struct l} : list nat * cyc_out :=
  match l with
  | [] => (st, CNone)
  | a :: l' => match walk st a with
               | (st', CNone) => walk_list st' l'
               | x => x
               end
  end.

Variable Q : nat -> Prop.
Hypothesis Hrec : forall st j st' p, rec st j = (st', CErr p) -> Q p.

Lemma walk_list_err l :
  Forall (fun a => AP Q a -> forall st st' p, walk st a = (st', CErr p) -> Q p) l ->
  Forall (AP Q) l -> forall st st' p, walk_list st l = (st', CErr p) -> Q p.
Proof.
  intros HI HA. induction l as [|a l IH]; intros st st' p E; cbn [walk_list] in E; [discriminate|].
  inversion HI as [|? ? Ha HIl]; subst. inversion HA as [|? ? Hpa HAl]; subst.
  destruct (walk st a) as [st1 [| |]] eqn:Ea.
  - exact (IH HIl HAl _ _ _ E).
  - inversion E; subst. exact (Ha Hpa _ _ _ Ea).
  - discriminate.
Qed.

Lemma walk_err : forall e, AP Q e -> forall st st' p, walk st e = (st', CErr p) -> Q p.
Proof.
  induction e using CheckerProofs.expr_induction; intros HA st st' q E; cbn [walk] in E; try discriminate.
  - destruct (AP_bin_inv Q _ _ _ _ HA) as (_ & Hl & Hr).
    destruct (walk st e1) as [st1 [| |]] eqn:E1.
    + exact (IHe2 Hr _ _ _ E).
    + inversion E; subst. exact (IHe1 Hl _ _ _ E1).
    + discriminate.
  - destruct (AP_not_inv Q _ _ HA) as (_ & Hr). exact (IHe Hr _ _ _ E).
  - destruct (AP_call_inv Q _ _ _ HA) as (_ & _ & Hargs).
    change (walk_list st args = (st', CErr q)) in E. exact (walk_list_err _ H Hargs _ _ _ E).
  - pose proof (AP_epos Q _ HA) as Hp. cbn [epos] in Hp.
    destruct (field_idx names fields s) as [j|]; [|discriminate].
    destruct (nth j st 2) as [|[|k]]; [exact (Hrec _ _ _ _ E)|inversion E; subst; exact Hp|discriminate].
  - destruct (AP_ref_inv Q _ _ _ HA) as (_ & Hd). exact (IHe Hd _ _ _ E).
  - destruct (AP_list_inv Q _ _ HA) as (_ & Hl).
    change (walk_list st l = (st', CErr q)) in E. exact (walk_list_err _ H Hl _ _ _ E).
  - destruct (AP_access_inv Q _ _ _ HA) as (_ & Hl & Hf).
    destruct (walk st e1) as [st1 [| |]] eqn:E1.
    + exact (IHe2 Hf _ _ _ E).
    + inversion E; subst. exact (IHe1 Hl _ _ _ E1).
    + discriminate.
Qed.

End Walk.

Lemma visit_unfold names fields f st i :
  visit names fields (S f) st i =
  let st1 := set_nth i 1 st in
  let r := match nth_error fields i with
           | None => (st1, CNone)
           | Some fe => match fe with
                        | EName _ _ => (st1, CNone)
                        | _ => walk names fields (visit names fields f) st1 fe
                        end
           end in
  (set_nth i 2 (fst r), snd r).
Proof. reflexivity. Qed.

Section CyclesProv.
Variable Q : nat -> Prop.
Variable names : list string.
Variable fields : list expr.
Hypothesis Hfields : Forall (AP Q) fields.

Lemma visit_err : forall fuel st i st' p,
  visit names fields fuel st i = (st', CErr p) -> Q p.
Proof.
  induction fuel as [|f IH]; intros st i st' p E; [cbn [visit] in E; inversion E|].
  rewrite visit_unfold in E. cbv zeta in E.
  destruct (nth_error fields i) as [fe|] eqn:En; [|cbn [fst snd] in E; inversion E].
  assert (Hfe : AP Q fe).
  { rewrite Forall_forall in Hfields. apply Hfields. exact (nth_error_In _ _ En). }
  assert (HW : forall st0 st1 q, walk names fields (visit names fields f) st0 fe = (st1, CErr q) -> Q q).
  { intros st0 st1 q. apply (walk_err names fields (visit names fields f) Q IH fe Hfe). }
  destruct fe; try (cbn [fst snd] in E; inversion E; fail);
    match type of E with
    | (_, snd ?w) = _ =>
        destruct w as [s1 o1] eqn:Ew; cbn [fst snd] in E; inversion E; subst; exact (HW _ _ _ Ew)
    end.
Qed.

Lemma cyc_loop_err : forall k i st p,
  cyc_loop names fields k i st = CErr p -> Q p.
Proof.
  induction k as [|k IH]; intros i st p E; cbn [cyc_loop] in E; [discriminate|].
  destruct (nth i st 2) as [|n].
  - destruct (visit names fields (S (length fields)) st i) as [st1 [| |]] eqn:Ev.
    + exact (IH _ _ _ E).
    + inversion E; subst. exact (visit_err _ _ _ _ _ Ev).
    + discriminate.
  - exact (IH _ _ _ E).
Qed.

Lemma check_cycles_err p : check_cycles names fields = CErr p -> Q p.
Proof. unfold check_cycles. apply cyc_loop_err. Qed.

End CyclesProv.

(* ---- the fuel of the checkFieldCycles twin is enough: every nested visit starts at a field
   that is still unvisited and marks it, so the nesting is at most the number of fields *)
Definition count0 (st : list nat) : nat := count_occ Nat.eq_dec st 0.

Lemma count0_set_nth_le i v st : v <> 0 -> count0 (set_nth i v st) <= count0 st.
Proof.
  intros Hv. unfold count0. revert i. induction st as [|y st IH]; intros i; [destruct i; cbn; lia|].
  destruct i; cbn [set_nth count_occ].
  - destruct (Nat.eq_dec v 0); [contradiction|]. destruct (Nat.eq_dec y 0); lia.
  - specialize (IH i). destruct (Nat.eq_dec y 0); lia.
Qed.

Lemma count0_set_nth_lt i v st : v <> 0 -> nth i st 2 = 0 -> S (count0 (set_nth i v st)) = count0 st.
Proof.
  intros Hv. unfold count0. revert i. induction st as [|y st IH]; intros i Hn; [destruct i; discriminate|].
  destruct i; cbn [set_nth count_occ nth] in *.
  - subst y. destruct (Nat.eq_dec v 0); [contradiction|]. destruct (Nat.eq_dec 0 0); [reflexivity|contradiction].
  - specialize (IH i Hn). destruct (Nat.eq_dec y 0); lia.
Qed.

Definition good (r : list nat * cyc_out) (st : list nat) : Prop :=
  snd r <> CFuel /\ count0 (fst r) <= count0 st.

Lemma good_refl st o : o <> CFuel -> good (st, o) st.
Proof. intros H. split; [exact H|cbn [fst]; lia]. Qed.

Section WalkFuel.
Variable names : list string.
Variable fields : list expr.
Variable rec : list nat -> nat -> list nat * cyc_out.
Variable f : nat.
Hypothesis Hrec : forall st j, nth j st 2 = 0 -> count0 st <= f -> good (rec st j) st.

Notation wk := (walk names fields rec).

Lemma good_seq (r1 : list nat * cyc_out) st (k : list nat -> list nat * cyc_out) :
  good r1 st -> (forall st', count0 st' <= count0 st -> good (k st') st') ->
  good (let (st', c) := r1 in
        match c with
        | CNone => k st'
        | CErr p => (st', CErr p)
        | CFuel => (st', CFuel)
        end) st.
Proof.
  intros (H1 & H2) Hk. destruct r1 as [st1 [|p|]]; cbn [fst snd] in *.
  - destruct (Hk st1 H2) as (K1 & K2). split; [exact K1|lia].
  - split; [discriminate|exact H2].
  - contradiction.
Qed.

Lemma walk_list_good l :
  Forall (fun a => forall st, count0 st <= f -> good (wk st a) st) l ->
  forall st, count0 st <= f -> good (walk_list names fields rec st l) st.
Proof.
  intros HI. induction HI as [|a l Ha Hl IH]; intros st Hst; cbn [walk_list]; [apply good_refl; discriminate|].
  apply good_seq; [exact (Ha st Hst)|]. intros st' Hle. apply IH. lia.
Qed.

Lemma walk_good : forall e st, count0 st <= f -> good (wk st e) st.
Proof.
  induction e using CheckerProofs.expr_induction; intros st Hst; cbn [walk];
    try (apply good_refl; discriminate).
  - apply good_seq; [exact (IHe1 st Hst)|]. intros st' Hle. apply IHe2. lia.
  - exact (IHe st Hst).
  - change (good (walk_list names fields rec st args) st). apply walk_list_good; assumption.
  - destruct (field_idx names fields s) as [j|]; [|apply good_refl; discriminate].
    destruct (nth j st 2) as [|[|k]] eqn:En; [exact (Hrec st j En Hst)|apply good_refl; discriminate|apply good_refl; discriminate].
  - exact (IHe st Hst).
  - change (good (walk_list names fields rec st l) st). apply walk_list_good; assumption.
  - apply good_seq; [exact (IHe1 st Hst)|]. intros st' Hle. apply IHe2. lia.
Qed.

End WalkFuel.

Lemma visit_good names fields : forall fuel st i,
  nth i st 2 = 0 -> count0 st <= fuel -> good (visit names fields fuel st i) st.
Proof.
  induction fuel as [|f IH]; intros st i Hn Hc.
  - exfalso. pose proof (count0_set_nth_lt i 1 st (Nat.neq_succ_0 0) Hn). lia.
  - rewrite visit_unfold. cbv zeta.
    pose proof (count0_set_nth_lt i 1 st (Nat.neq_succ_0 0) Hn) as H1.
    set (st1 := set_nth i 1 st) in *.
    assert (Hr : forall r, good r st1 -> good (set_nth i 2 (fst r), snd r) st).
    { intros r (R1 & R2). split; [exact R1|]. cbn [fst].
      pose proof (count0_set_nth_le i 2 (fst r) (Nat.neq_succ_0 1)). lia. }
    apply Hr. destruct (nth_error fields i) as [fe|]; [|apply good_refl; discriminate].
    assert (HW : good (walk names fields (visit names fields f) st1 fe) st1).
    { apply (walk_good names fields (visit names fields f) f IH). lia. }
    destruct fe; first [exact HW|apply good_refl; discriminate].
Qed.

Lemma cyc_loop_fuel names fields : forall k i st,
  count0 st <= length fields -> cyc_loop names fields k i st <> CFuel.
Proof.
  induction k as [|k IH]; intros i st Hc; cbn [cyc_loop]; [discriminate|].
  destruct (nth i st 2) as [|n] eqn:En; [|apply IH; exact Hc].
  destruct (visit_good names fields (S (length fields)) st i En ltac:(lia)) as (G1 & G2).
  destruct (visit names fields (S (length fields)) st i) as [st1 [|p|]]; cbn [fst snd] in *.
  - apply IH. lia.
  - discriminate.
  - contradiction.
Qed.

Theorem check_cycles_fuel_enough names fields : check_cycles names fields <> CFuel.
Proof.
  unfold check_cycles. apply cyc_loop_fuel. unfold count0.
  generalize (length fields). intros n. induction n as [|n IH]; cbn [repeat count_occ length]; [lia|].
  destruct (Nat.eq_dec 0 0); [lia|contradiction].
Qed.

(* ---- the four tests *)
Section HooksProv.
Variable fo : fops.
Variable Q : nat -> Prop.

Lemma names_ok_combine names fields : Forall (AP Q) fields -> names_ok Q (combine names fields).
Proof.
  intros H. revert names. induction H as [|f l Hf Hl IH]; intros [|n names]; cbn [combine]; try constructor.
  - exact Hf.
  - apply IH.
Qed.

Lemma syn_pos_okr {A} (R : A -> Prop) (r : res A) p : okr Q R r -> syn_pos r = Some p -> Q p.
Proof. destruct r as [a|[]| |]; cbn [okr syn_pos]; intros H E; try discriminate. inversion E; subst. exact H. Qed.

Lemma gcheck_loop_ok : forall items all raw,
  names_ok Q all -> names_ok Q raw -> Forall (AP Q) items -> okr Q (fun _ : unit => True) (gcheck_loop fo all raw items).
Proof.
  induction items as [|it items IH]; intros all raw Hall Hraw Hit; cbn [gcheck_loop]; [exact I|].
  inversion Hit as [|? ? Hi Hrest]; subst.
  assert (Hother :
    okr Q (fun _ : unit => True)
      match get_named raw (item_name it) with
      | None => gcheck_loop fo all raw items
      | Some f =>
          Value.bind (Checker.check fo true (Cctx all false false) f)
            (fun _ => gcheck_loop fo all raw items)
      end).
  { destruct (get_named raw (item_name it)) as [f|] eqn:En; [|apply IH; assumption].
    eapply okr_bind; [apply check_ok; [exact Hall|exact (get_named_AP Q _ _ _ Hraw En)]|]. intros _ _.
    apply IH; assumption. }
  destruct it; try exact Hother.
  eapply okr_bind; [apply check_ok; [exact Hall|exact Hi]|]. intros _ _. apply IH; assumption.
Qed.

Theorem real_hooks_ok : hooks_ok Q Q (real_hooks fo).
Proof.
  unfold hooks_ok, real_hooks. cbn [hk_cycles hk_order hk_gitem hk_gcheck]. repeat split.
  - intros ns fs p Hfs E. destruct (check_cycles ns fs) as [|q|] eqn:Ec; try discriminate.
    inversion E; subst. exact (check_cycles_err Q ns fs Hfs _ Ec).
  - intros ns fs e p Hfs He E. eapply syn_pos_okr; [|exact E].
    apply find_order_field_ok; [apply link_ok; apply names_ok_combine; exact Hfs|]. cbn [fst]. apply AP_epos. exact He.
  - intros ns fs e p Hfs He E. unfold gitem_real in E. cbv zeta in E.
    pose proof (link_ok Q _ (names_ok_combine ns fs Hfs)) as Hl.
    pose proof (find_order_field_ok Q (link (combine ns fs)) (epos e, item_name e) Hl
                  (AP_epos Q e He)) as Hfo.
    destruct (find_order_field (link (combine ns fs)) (epos e, item_name e)) as [u|[q|q|]| |] eqn:Ef;
      cbn [okr] in Hfo; try (inversion E; subst; exact Hfo);
      (destruct e; try discriminate;
       destruct e; cbn [is_atom_name] in E; try discriminate;
       try (inversion E; subst; exact (AP_epos Q _ He));
       destruct (call_name (EName pos0 s)) as [nm|]; try discriminate;
       destruct (aggr_rtype nm); try discriminate;
       destruct (get_named (link (combine ns fs)) (item_name (ECall pos (EName pos0 s) args))) as [d|] eqn:Eg;
       cbn [option_map] in E; try discriminate; inversion E; subst;
       apply AP_epos; exact (get_named_AP Q _ _ _ Hl Eg)).
  - intros ns fs items p Hfs Hitems E. eapply syn_pos_okr; [|exact E].
    apply gcheck_loop_ok; [apply link_ok; apply names_ok_combine; exact Hfs|apply names_ok_combine; exact Hfs|exact Hitems].
Qed.

End HooksProv.

(* ================================================================ D. the composite *)

Section Composite.
Variable fo : fops.
Variable re : string -> string -> res bool.
Variable fmt_v : F fo -> string.

Notation plan_check := (plan_check fo re fmt_v).
Notation plan_oom := (plan_oom fo re fmt_v).
Notation check_parsed := (check_parsed fo re fmt_v).
Notation parse_check := (parse_check fo re fmt_v).

Lemma err_at_nat (Q : nat -> Prop) p : Q p -> err_at Q (Z.of_nat p).
Proof. intros H. right. exists p. split; [reflexivity|exact H]. Qed.

Lemma plan_check_err (Q : nat -> Prop) s c z :
  Forall Q (stmt_own_positions s) -> plan_check s c = PlErr z -> err_at Q z.
Proof.
  intros H. unfold ParseCheck.plan_check. destruct s as [x| | |]; try discriminate. destruct c; try discriminate.
  cbn [stmt_own_positions] in H. inversion H as [|? ? Hsp Hrest]; subst. inversion Hrest as [|? ? _ Hrest']; subst.
  assert (Hg : forall g, s_group x = Some g -> Q (g_pos g)).
  { intros g Eg. rewrite Eg in Hrest'. apply Forall_app in Hrest'. destruct Hrest' as [_ Hr].
    apply Forall_app in Hr. destruct Hr as [Hr _]. inversion Hr; assumption. }
  unfold plan_select. cbv zeta. destruct (s_group x) as [g|].
  - specialize (Hg g eq_refl).
    repeat match goal with
           | |- context [if ?b then _ else _] => destruct b
           end; try discriminate; intros E; inversion E; subst; apply err_at_nat; assumption.
  - repeat match goal with
           | |- context [if ?b then _ else _] => destruct b
           end; try discriminate; intros E; inversion E; subst;
      first [apply err_at_nat; assumption | left; reflexivity].
Qed.

Lemma check_parsed_err (Q : nat -> Prop) s k z :
  Forall Q (stmt_positions s) -> check_parsed s = PCErr k z -> err_at Q z.
Proof.
  intros H. unfold ParseCheck.check_parsed, ParseCheck.plan_stage. destruct (to_check s) as [c|] eqn:Et; [|discriminate].
  assert (Hc : cstmt_ok Q c) by exact (Forall_incl Q _ _ (to_check_positions s c Et) H).
  pose proof (check_stmt_ok fo Q c Hc) as H1.
  destruct (check_stmt fo true c) as [c2|[p|p|]| |]; cbn [okr] in H1; try discriminate.
  - pose proof (check_stmt_calls_ok Q c2 H1) as H2.
    destruct (check_stmt_calls c2) as [u|[p|p|]| |]; cbn [okr] in H2; try discriminate.
    + destruct (plan_oom c2); [discriminate|].
      destruct (plan_check s c2) as [| |z'] eqn:Ep; try discriminate. intros E; inversion E; subst.
      apply (plan_check_err Q s c2); [|exact Ep]. unfold stmt_positions in H. apply Forall_app in H. tauto.
    + intros E; inversion E; subst. apply err_at_nat. exact H2.
  - intros E; inversion E; subst. apply err_at_nat. exact H1.
Qed.

Lemma check_parsed_ok (Q : nat -> Prop) s s' c a :
  Forall Q (stmt_positions s) -> check_parsed s = PCOk s' c a ->
  s' = s /\ Forall Q (cstmt_positions c).
Proof.
  intros H. unfold ParseCheck.check_parsed, ParseCheck.plan_stage. destruct (to_check s) as [c0|] eqn:Et; [|discriminate].
  assert (Hc : cstmt_ok Q c0) by exact (Forall_incl Q _ _ (to_check_positions s c0 Et) H).
  pose proof (check_stmt_ok fo Q c0 Hc) as H1.
  destruct (check_stmt fo true c0) as [c2|[p|p|]| |]; cbn [okr] in H1; try discriminate.
  destruct (check_stmt_calls c2) as [u|[p|p|]| |]; try discriminate.
  destruct (plan_oom c2); [discriminate|].
  destruct (plan_check s c2); try discriminate; intros E; inversion E; subst; split; [reflexivity|exact H1|reflexivity|exact H1].
Qed.

(* check_parsed is Checker.build_check followed by the plan tests *)
Lemma check_parsed_build s c :
  to_check s = Some c ->
  check_parsed s =
  match build_check fo true c with
  | Ok c2 => if plan_oom c2 then PCOutOfModel
             else match plan_check s c2 with
                  | PlErr z => PCErr KPlan z
                  | PlProjection => PCOk s c2 false
                  | PlAggregate => PCOk s c2 true
                  end
  | Err (ESyntax p) =>
      PCErr (match check_stmt fo true c with Ok _ => KCalls | _ => KCheck end) (Z.of_nat p)
  | Err _ => PCOther
  | Panic => PCPanic
  | OutOfModel => PCOutOfModel
  end.
Proof.
  intros Et. unfold ParseCheck.check_parsed, ParseCheck.plan_stage, build_check. rewrite Et.
  destruct (check_stmt fo true c) as [c2|[p|p|]| |]; cbn [Value.bind]; try reflexivity.
  destruct (check_stmt_calls c2) as [u|[p|p|]| |]; cbn [Value.bind]; reflexivity.
Qed.

Lemma parse_real_ok_nonempty ts s : parse_real fo ts = SOk s -> ts <> [].
Proof. intros E Hnil. subst ts. unfold parse_real, parse_with, parse_query in E. cbn in E. discriminate. Qed.

(* D1: rejections *)
Theorem parse_check_err_position_thm (q : string) (k : pckind) (z : Z) :
  parse_check q = PCErr k z ->
  pos_is_token_start (zstarts (lex q)) z = true /\ pos_in_query q z = true.
Proof.
  unfold ParseCheck.parse_check. cbv zeta. destruct (pc_oom fo q (lex q)); [discriminate|].
  destruct (parse_real fo (lex q)) as [s|z'| |] eqn:Ep; try discriminate.
  - (* the statement was read: checker, call validation, plan builder *)
    intros E. unfold parse_real in Ep.
    destruct (parse_tree_positions_are_token_starts_thm q (real_hooks fo) s
                (real_hooks_ok fo (prov (lex q))) Ep) as (Hprov & _ & _).
    pose proof (check_parsed_err (prov (lex q)) s k z Hprov E) as Hz.
    split.
    + apply err_at_token_start. exact Hz.
    + apply (err_at_in_query q (lex q)); [apply lex_tokens_in_query| |exact Hz].
      exact (parse_real_ok_nonempty _ _ Ep).
  - (* Parser.Parse rejected: syntax, or one of the four tests *)
    intros E. inversion E; subst z'. clear E. unfold parse_real in Ep. split.
    + exact (parse_err_pos_is_token_start_thm q (real_hooks fo) z (real_hooks_ok fo (prov (lex q))) Ep).
    + exact (parse_err_pos_in_query_thm q (real_hooks fo) z (real_hooks_ok fo (prov (lex q))) Ep).
Qed.

(* the statement as the task words it *)
Corollary parse_check_err_token_start_thm (q : string) (k : pckind) (z : Z) :
  parse_check q = PCErr k z ->
  z = (-1)%Z \/ pos_is_token_start (zstarts (lex q)) z = true.
Proof. intros E. right. exact (proj1 (parse_check_err_position_thm q k z E)). Qed.

Corollary parse_check_err_in_query_thm (q : string) (k : pckind) (z : Z) :
  parse_check q = PCErr k z -> pos_in_query q z = true.
Proof. intros E. exact (proj2 (parse_check_err_position_thm q k z E)). Qed.

(* ... and in plain arithmetic: -1, or 0 <= z < |q| and z is 0 or the offset of a token *)
Corollary parse_check_err_arith_thm (q : string) (k : pckind) (z : Z) :
  parse_check q = PCErr k z ->
  z = (-1)%Z \/
  ((0 <= z < Z.of_nat (String.length q))%Z /\ (z = 0%Z \/ In z (zstarts (lex q)))).
Proof.
  intros E. destruct (parse_check_err_position_thm q k z E) as (Ht & Hq).
  unfold pos_in_query, zlen in Hq. unfold pos_is_token_start in Ht.
  destruct (Z.eqb_spec z (-1)) as [->|Hne]; [left; reflexivity|right].
  cbn [orb] in Hq, Ht. apply andb_true_iff in Hq. destruct Hq as [H0 H1].
  apply Z.leb_le in H0. apply Z.ltb_lt in H1. split; [lia|].
  destruct (Z.eqb_spec z 0) as [->|Hz]; [left; reflexivity|right]. cbn [orb] in Ht.
  apply existsb_exists in Ht. destruct Ht as (x & Hx & Exz). apply Z.eqb_eq in Exz. subst. exact Hx.
Qed.

(* D2: accepted statements *)
Theorem parse_check_ok_positions_thm (q : string) (s : StmtParser.stmt) (c : Checker.stmt) (a : bool) :
  parse_check q = PCOk s c a ->
  parse_real fo (lex q) = SOk s /\
  Forall (prov (lex q)) (stmt_positions s) /\
  Forall (prov (lex q)) (cstmt_positions c) /\
  Forall (fun p => pos_in_query q (Z.of_nat p) = true) (stmt_positions s ++ cstmt_positions c).
Proof.
  unfold ParseCheck.parse_check. cbv zeta. destruct (pc_oom fo q (lex q)); [discriminate|].
  destruct (parse_real fo (lex q)) as [s0|z'| |] eqn:Ep; try discriminate.
  intros E. pose proof Ep as Ep'. unfold parse_real in Ep'.
  destruct (parse_tree_positions_are_token_starts_thm q (real_hooks fo) s0
              (real_hooks_ok fo (prov (lex q))) Ep') as (Hprov & _ & _).
  destruct (check_parsed_ok (prov (lex q)) s0 s c a Hprov E) as (-> & Hc).
  split; [reflexivity|]. split; [exact Hprov|]. split; [exact Hc|].
  assert (Hall : Forall (prov (lex q)) (stmt_positions s0 ++ cstmt_positions c))
    by (apply Forall_app; split; assumption).
  eapply Forall_impl; [|exact Hall]. intros p Hp.
  apply (err_at_in_query q (lex q)); [apply lex_tokens_in_query|exact (parse_real_ok_nonempty _ _ Ep)|].
  apply err_at_nat. exact Hp.
Qed.

(* D3: totality -- on EVERY query text the composite twin returns a checked statement, a
   positional rejection or "outside the model": the parser twin never runs out of fuel and never
   reaches a nil dereference (Proofs/StmtParserProofs.v), the checker twin never panics and never
   returns an error that is not a SyntaxError *)
Lemma check_parsed_total s :
  match check_parsed s with PCPanic | PCFuel | PCOther => False | _ => True end.
Proof.
  unfold ParseCheck.check_parsed, ParseCheck.plan_stage. destruct (to_check s) as [c|]; [|exact I].
  assert (Hc : cstmt_ok (fun _ => True) c) by (unfold cstmt_ok; apply Forall_forall; auto).
  pose proof (check_stmt_ok fo (fun _ => True) c Hc) as H1.
  destruct (check_stmt fo true c) as [c2|[p|p|]| |]; cbn [okr] in H1; try exact I; try contradiction.
  pose proof (check_stmt_calls_ok (fun _ => True) c2 H1) as H2.
  destruct (check_stmt_calls c2) as [u|[p|p|]| |]; cbn [okr] in H2; try exact I; try contradiction.
  destruct (plan_oom c2); [exact I|]. destruct (plan_check s c2); exact I.
Qed.

Theorem parse_check_total_thm (q : string) :
  match parse_check q with PCPanic | PCFuel | PCOther => False | _ => True end.
Proof.
  unfold ParseCheck.parse_check. cbv zeta. destruct (pc_oom fo q (lex q)); [exact I|].
  unfold parse_real. destruct (parse_with_total (real_hooks fo) (lex q)) as [(s & E)|(z & E)]; rewrite E.
  - apply check_parsed_total.
  - exact I.
Qed.

End Composite.

(* ================================================================ E. to_check takes every
   statement the parser returns: a statement Parser.Parse returns always has as many FieldNames
   as Fields *)

Definition lens_ok (r : pres (bool * list expr * list string)) : Prop :=
  match r with
  | POk (_, f, n) _ => length f = length n
  | _ => True
  end.

Lemma lens_bind {A} (r : pres A) (k : A -> list token -> pres (bool * list expr * list string)) :
  (forall a rest, lens_ok (k a rest)) -> lens_ok (ExprParser.bind r k).
Proof. intros H. destruct r as [a rest|p| |]; cbn [ExprParser.bind lens_ok]; auto. Qed.

Lemma snoc_len {A B} (l : list A) (m : list B) x y : length l = length m -> length (l ++ [x]) = length (m ++ [y]).
Proof. intros H. rewrite !app_length. cbn. lia. Qed.

Lemma select_loop_lens : forall fuel fields names ts,
  length fields = length names -> lens_ok (select_loop fuel fields names ts).
Proof.
  induction fuel as [|f IH]; intros fields names ts Hl; [exact I|]. cbn [select_loop].
  assert (Hnext : forall fs ns ts0, length fs = length ns -> lens_ok (select_next (select_loop f) fs ns ts0)).
  { intros fs ns ts0 H. unfold select_next. destruct ts0 as [|t ts']; [exact H|].
    destruct (is_tp t WHERE); [exact H|apply IH; exact H]. }
  destruct ts as [|t ts1]; [exact Hl|].
  destruct (is_tp t WHERE); [exact Hl|].
  destruct (is_tp t OPERATOR && (data t =? "*")%string).
  - destruct ts1 as [|t1 ts2].
    + destruct fields; [exact Hl|exact I].
    + destruct (negb (is_tp t1 WHERE)); [exact I|]. destruct fields; [exact Hl|exact I].
  - apply lens_bind. intros field ts2.
    destruct ts2 as [|t2 ts3]; [apply Hnext; apply snoc_len; exact Hl|].
    destruct (is_tp t2 AS).
    + destruct ts3 as [|t3 ts4]; [exact I|]. destruct (is_tp t3 NAME); [|exact I].
      apply Hnext. apply snoc_len. exact Hl.
    + destruct (is_comma t2 || is_tp t2 WHERE); [|exact I]. apply Hnext. apply snoc_len. exact Hl.
Qed.

Definition head_lens (r : pres sel_head) : Prop :=
  match r with
  | POk sh _ => length (sh_fields sh) = length (sh_names sh)
  | _ => True
  end.

Lemma parse_select_lens ts : head_lens (parse_select ts).
Proof.
  unfold parse_select. destruct ts as [|t ts']; [exact I|].
  destruct (expect SELECT (t :: ts')) as [u ts1|p| |]; cbn [ExprParser.bind head_lens]; try exact I.
  pose proof (select_loop_lens (S (length ts1)) [] [] ts1 eq_refl) as H.
  destruct (select_loop (S (length ts1)) [] [] ts1) as [[[all fields] names] rest|p| |]; cbn [ExprParser.bind head_lens lens_ok] in *; try exact I.
  destruct all; [reflexivity|]. destruct fields; [exact I|exact H].
Qed.

Lemma parse_where_tail_lens h sh wpos ts s rest x :
  length (sh_fields sh) = length (sh_names sh) ->
  parse_where_tail h sh wpos ts = POk s rest -> s = StSelect x ->
  length (s_names x) = length (s_fields x).
Proof.
  intros Hl. unfold parse_where_tail. destruct ts as [|t ts']; [discriminate|].
  destruct (pexpr (t :: ts')) as [w ts1|p| |]; cbn [ExprParser.bind]; try discriminate.
  destruct (hk_cycles h (sh_names sh) (sh_fields sh)); [discriminate|].
  destruct (tail_loop h (sh_names sh) (sh_fields sh) (S (length ts1)) (Tails None None None) ts1) as [tl r|p| |];
    cbn [ExprParser.bind]; try discriminate.
  intros E Es. inversion E; subst. inversion H0; subst. cbn [s_names s_fields]. symmetry. exact Hl.
Qed.

Theorem parsed_select_lengths h ts x :
  parse_with h ts = SOk (StSelect x) -> length (s_names x) = length (s_fields x).
Proof.
  unfold parse_with. destruct (parse_query h ts) as [s rest|p| |] eqn:E; try discriminate.
  intros Es. inversion Es; subst s. clear Es. unfold parse_query in E. cbv zeta in E.
  destruct (trim_end_semis ts) as [|t ts1]; [discriminate|].
  destruct (tp t); try discriminate.
  - (* SELECT *)
    pose proof (parse_select_lens (t :: ts1)) as Hs.
    destruct (parse_select (t :: ts1)) as [sh rest0|p| |]; cbn [ExprParser.bind head_lens] in *; try discriminate.
    destruct rest0 as [|tw rest1]; [discriminate|].
    exact (parse_where_tail_lens h sh (pos tw) rest1 _ _ x Hs E eq_refl).
  - (* WHERE *)
    exact (parse_where_tail_lens h (SelHead 0 true [] []) (pos t) ts1 _ _ x eq_refl E eq_refl).
  - (* PUT *)
    unfold parse_put in E. destruct (expect PUT (t :: ts1)) as [u r1|p| |]; cbn [ExprParser.bind] in E; try discriminate.
    destruct (put_loop (S (length r1)) [] r1) as [pairs r2|p| |]; cbn [ExprParser.bind] in E; discriminate.
  - (* REMOVE *)
    unfold parse_remove in E. destruct (expect REMOVE (t :: ts1)) as [u r1|p| |]; cbn [ExprParser.bind] in E; try discriminate.
    destruct (remove_loop (S (length r1)) [] r1) as [keys r2|p| |]; cbn [ExprParser.bind] in E; discriminate.
  - (* DELETE *)
    unfold parse_delete in E. destruct (expect DELETE (t :: ts1)) as [u r1|p| |]; cbn [ExprParser.bind] in E; try discriminate.
    destruct (expect WHERE r1) as [u2 r2|p| |]; cbn [ExprParser.bind] in E; try discriminate.
    destruct r1 as [|tw r1']; [discriminate|].
    destruct (pexpr r2) as [w r3|p| |]; cbn [ExprParser.bind] in E; try discriminate.
    destruct r3 as [|t3 r3']; [discriminate|].
    destruct (is_tp t3 LIMIT); [|discriminate].
    destruct (parse_limit (t3 :: r3')) as [l r4|p| |]; cbn [ExprParser.bind] in E; try discriminate.
    destruct r4; discriminate.
Qed.

(* for a statement the parser returned, to_check never gives None: no statement Parser.Parse
   returns is outside the checker twin (before, a SELECT with GROUP BY one of whose fields used
   the name of a field was) *)
Theorem to_check_parsed_some h ts s :
  parse_with h ts = SOk s -> exists c, to_check s = Some c.
Proof.
  intros E. destruct s as [x|p pairs|p keys|p wp w lim]; cbn [to_check]; eauto.
  rewrite (parsed_select_lengths h ts x E), Nat.eqb_refl. cbn [negb]. eauto.
Qed.
