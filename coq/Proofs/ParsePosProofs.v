(* Proofs/ParsePosProofs.v -- positions of PARSE outcomes of every query text: the position
   provenance of the parser twins (Proofs/StmtParserProofs.v) composed with the lexer twin's
   tiling theorem (Proofs/LexerProofs.v: every token's text lies inside the query), in the
   vocabulary of C17 (Spec/CaretSpec.v: pos_is_token_start, pos_in_query; Proofs/ErrPosProofs.v:
   prov, expr_prov, zstarts, tokens_in_query).  No abstract provenance model is assumed here:
   the trees and errors are those of Model/ExprParser.v and Model/StmtParser.v run on the
   tokens of Model/Lexer.lex. *)
From Coq Require Import String List Arith Bool ZArith Lia.
Import ListNotations.
From KV Require Import Base.Bytes Model.Token Model.Ast Model.Lexer Spec.LexSpec Model.ExprParser
                       Model.ErrPos Model.ErrRender Spec.CaretSpec Model.StmtParser
                       Proofs.LexerProofs Proofs.ErrPosProofs Proofs.StmtParserProofs.
Local Open Scope list_scope.

(* ---------------------------------------------------------------- the lexer: token offsets
   lie inside the query *)

Lemma covers_nonempty txt t : covers txt t -> 1 <= String.length txt.
Proof.
  intros H. destruct H as [s k p Hk|c b k p _ _|x p Hx].
  - apply sym_nonempty in Hk. destruct s; [congruence|cbn; lia].
  - cbn. lia.
  - destruct x; [congruence|cbn; lia].
Qed.

Theorem lex_tokens_in_query q : tokens_in_query q (lex q).
Proof.
  unfold tokens_in_query. pose proof (tiling_bound q q (lex q) (lex_tiling q)) as H.
  eapply Forall_impl; [|exact H]. cbn. intros t (txt & Hc & Hl).
  apply covers_nonempty in Hc. lia.
Qed.

Lemma lex_nonempty_query q : lex q <> [] -> 0 < String.length q.
Proof.
  intros H. pose proof (lex_tokens_in_query q) as HT. destruct (lex q) as [|t l]; [congruence|].
  inversion HT; subst. lia.
Qed.

(* ---------------------------------------------------------------- vocabulary bridges *)

Lemma tok_pos0_prov toks p : tok_pos0 toks p <-> prov toks p.
Proof. reflexivity. Qed.

Lemma err_at_token_start toks z :
  err_at (tok_pos0 toks) z -> pos_is_token_start (zstarts toks) z = true.
Proof.
  intros [->|(p & -> & [->|Hin])]; unfold pos_is_token_start.
  - reflexivity.
  - reflexivity.
  - apply orb_true_iff. right. apply existsb_exists. exists (Z.of_nat p). split.
    + unfold zstarts, tok_starts. apply in_map. exact Hin.
    + apply Z.eqb_refl.
Qed.

Lemma err_at_in_query q toks z :
  tokens_in_query q toks -> toks <> [] ->
  err_at (tok_pos0 toks) z -> pos_in_query q z = true.
Proof.
  intros HT Hne Hz.
  assert (Q : 0 < String.length q).
  { destruct toks as [|t l]; [congruence|]. inversion HT; subst. lia. }
  unfold pos_in_query, zlen. destruct Hz as [->|(p & -> & [->|Hin])].
  - reflexivity.
  - apply orb_true_iff. right. apply andb_true_iff. split; [apply Z.leb_le|apply Z.ltb_lt]; lia.
  - apply in_map_iff in Hin. destruct Hin as (t & <- & Ht).
    unfold tokens_in_query in HT. rewrite Forall_forall in HT. specialize (HT t Ht).
    apply orb_true_iff. right. apply andb_true_iff. split; [apply Z.leb_le|apply Z.ltb_lt]; lia.
Qed.

Lemma err_at_weaken toks z : err_at (tok_pos toks) z -> err_at (tok_pos0 toks) z.
Proof. intros [H|(p & H1 & H2)]; [left; exact H|right; exists p; split; [exact H1|right; exact H2]]. Qed.

Lemma parse_with_err_nonempty h ts z : parse_with h ts = SErr z -> z <> (-1)%Z -> ts <> [].
Proof.
  intros E Hz ->. unfold parse_with, parse_query in E. cbn in E. inversion E. congruence.
Qed.

(* ---------------------------------------------------------------- PARSE errors *)

(* the position of every error of the statement parser -- run on the tokens of ANY query text,
   with any semantic tests that report positions of the nodes they are given -- is -1, 0 or the
   offset of one of the query's tokens *)
Theorem parse_err_pos_is_token_start_thm (q : string) (h : hooks) (z : Z) :
  hooks_ok (prov (lex q)) (prov (lex q)) h ->
  parse_with h (lex q) = SErr z ->
  pos_is_token_start (zstarts (lex q)) z = true.
Proof.
  intros Hh E. apply err_at_token_start. exact (stmt_err_position_thm h (lex q) z Hh E).
Qed.

(* ... and lies inside the query text (or is -1) *)
Theorem parse_err_pos_in_query_thm (q : string) (h : hooks) (z : Z) :
  hooks_ok (prov (lex q)) (prov (lex q)) h ->
  parse_with h (lex q) = SErr z ->
  pos_in_query q z = true.
Proof.
  intros Hh E. pose proof (stmt_err_position_thm h (lex q) z Hh E) as Hz.
  destruct (Z.eq_dec z (-1)) as [->|Hne]; [reflexivity|].
  apply (err_at_in_query q (lex q)); [apply lex_tokens_in_query| |exact Hz].
  exact (parse_with_err_nonempty h (lex q) z E Hne).
Qed.

(* the pure syntax (every semantic test passing): no premise at all, and the position is -1 or
   the offset of a token -- never a made-up 0 *)
Theorem syntax_err_pos_thm (q : string) (z : Z) :
  parse_statement (lex q) = SErr z ->
  z = (-1)%Z \/
  (In z (zstarts (lex q)) /\ (0 <= z < Z.of_nat (String.length q))%Z).
Proof.
  intros E. destruct (syntax_err_position_thm (lex q) z E) as [->|(p & -> & Hin)]; [left; reflexivity|].
  right. split.
  - unfold zstarts, tok_starts. apply in_map. exact Hin.
  - apply in_map_iff in Hin. destruct Hin as (t & <- & Ht).
    pose proof (lex_tokens_in_query q) as HT. unfold tokens_in_query in HT.
    rewrite Forall_forall in HT. specialize (HT t Ht). lia.
Qed.

Corollary syntax_err_pos_is_token_start_thm (q : string) (z : Z) :
  parse_statement (lex q) = SErr z -> pos_is_token_start (zstarts (lex q)) z = true.
Proof. apply parse_err_pos_is_token_start_thm. apply no_hooks_ok. Qed.

Corollary syntax_err_pos_in_query_thm (q : string) (z : Z) :
  parse_statement (lex q) = SErr z -> pos_in_query q z = true.
Proof. apply parse_err_pos_in_query_thm. apply no_hooks_ok. Qed.

(* the expression parser alone (the observable of C15's correspondence): error positions *)
Theorem expr_err_pos_thm (q : string) (p : nat) :
  parse_expr_top (lex q) = PErr (Some p) ->
  In p (tok_starts (lex q)) /\ p < String.length q.
Proof.
  intros E. pose proof (expr_err_position_thm (lex q) p E) as Hin. split; [exact Hin|].
  apply in_map_iff in Hin. destruct Hin as (t & <- & Ht).
  pose proof (lex_tokens_in_query q) as HT. unfold tokens_in_query in HT.
  rewrite Forall_forall in HT. exact (HT t Ht).
Qed.

(* ---------------------------------------------------------------- trees *)

(* every Pos stored in a returned statement -- in the statement structs and in every node of
   every tree -- is 0 or the offset of one of the query's tokens, hence inside the query; in
   particular every tree satisfies the invariant [expr_prov] of the abstract model of C17 *)
Theorem parse_tree_positions_are_token_starts_thm (q : string) (h : hooks) (s : stmt) :
  hooks_ok (prov (lex q)) (prov (lex q)) h ->
  parse_with h (lex q) = SOk s ->
  Forall (prov (lex q)) (stmt_positions s) /\
  Forall (expr_prov (lex q)) (stmt_exprs s) /\
  Forall (fun p => pos_in_query q (Z.of_nat p) = true) (stmt_positions s).
Proof.
  intros Hh E. pose proof (stmt_tree_positions_thm h (lex q) s Hh E) as H.
  split; [exact H|]. split.
  - unfold stmt_positions in H. apply Forall_app in H. destruct H as [_ H].
    apply Forall_forall. intros e He. unfold expr_prov. apply Forall_forall. intros p Hp.
    rewrite Forall_forall in H. apply H. apply in_flat_map. exists e. split; assumption.
  - assert (Hne : lex q <> []).
    { intros Hnil. unfold parse_with, parse_query in E. rewrite Hnil in E. cbn in E. discriminate. }
    eapply Forall_impl; [|exact H]. intros p Hp.
    apply (err_at_in_query q (lex q)); [apply lex_tokens_in_query|exact Hne|].
    right. exists p. split; [reflexivity|exact Hp].
Qed.

Corollary syntax_tree_positions_thm' (q : string) (s : stmt) :
  parse_statement (lex q) = SOk s ->
  Forall (prov (lex q)) (stmt_positions s) /\
  Forall (expr_prov (lex q)) (stmt_exprs s) /\
  Forall (fun p => pos_in_query q (Z.of_nat p) = true) (stmt_positions s).
Proof. apply parse_tree_positions_are_token_starts_thm. apply no_hooks_ok. Qed.

(* the expression parser alone: every Pos of the tree is the offset of a token *)
Theorem expr_tree_pos_thm (q : string) (e : expr) (rest : list token) :
  parse_expr_top (lex q) = POk e rest ->
  Forall (fun p => In p (tok_starts (lex q)) /\ p < String.length q) (positions e).
Proof.
  intros E. pose proof (expr_tree_positions_thm (lex q) e rest E) as H.
  eapply Forall_impl; [|exact H]. intros p Hin. split; [exact Hin|].
  apply in_map_iff in Hin. destruct Hin as (t & <- & Ht).
  pose proof (lex_tokens_in_query q) as HT. unfold tokens_in_query in HT.
  rewrite Forall_forall in HT. exact (HT t Ht).
Qed.

(* the hooks the correspondence runs the twin with are covered *)
Lemma observed_hooks_prov toks p : hooks_ok (prov toks) (prov toks) (observed_hooks p).
Proof. apply observed_hooks_ok. Qed.
