(* Proofs/PipelineProofs.v -- `select *` from the QUERY TEXT (C01): the layers proved one by one
   are composed along Model/Pipeline.v (the twin of optimizer.go BuildPlan / buildSelectPlan):

     parse       the WHERE tree P is what the parser twin returns              (parsed_where)
     check       the checker returns P with field names resolved; resolving a name can only turn
                 a sub-tree WITHOUT reference value into one that may have a value
                                                                               (check_sem_mono)
                 and establishes the typing facts the folder needs            (check_fold_wt)
     fold        the folded tree filters like the checked one                  (FoldProofs.fold_preserves_filter)
     region      inferred from the FOLDED tree, it covers every pair on which the folded tree
                 evaluates to true -- at the level of the evaluator twin       (filter_true_covered)
     scan        the scan twins return the filtered pairs inside the region    (ScanSemProofs.scan_rows_row_lemma, scan_rows_batch_lemma)
     reference   the evaluator twin refines Spec/Sem.v                         (SemProofs.filter_refines_sem)

   and the front end never panics nor runs out of fuel (select_text_rejects_or_runs). *)
From Coq Require Import List String Ascii ZArith Bool Arith Lia.
Import ListNotations.
From KV Require Import Base.Bytes Base.Num Base.Ord Model.Token Model.Ast Model.Value Model.Eval
                       Model.Lexer Model.ExprParser Model.StmtParser Model.Checker Model.Fold
                       Model.FilterOpt Model.Storage Model.ScanIO Model.ScanSem Model.Pipeline
                       Spec.Sem Spec.KeySem Proofs.AstInd Proofs.SemProofs Proofs.FilterOptProofs
                       Proofs.LinkProofs Proofs.CheckerProofs Proofs.TypeSafetyProofs Proofs.FoldProofs
                       Proofs.StorageProofs Proofs.ScanSemProofs Proofs.SelectStarProofs
                       Proofs.StmtParserProofs.
Local Open Scope string_scope.

(* ================================================================== region inference, at the
   level of the evaluator twin: the key fragment of Spec/KeySem.v with the evaluator itself as
   the oracle for everything opaque *)
Section EvalCover.
Variable fo : fops.
Variable re_match : bytes -> bytes -> Value.res bool.
Variables k v : bytes.

Notation eval := (eval fo re_match k v).
Notation frow := (filter_row fo re_match k v).

Definition opq_eval (e : expr) : option bool :=
  match frow e with Value.Ok b => Some b | _ => None end.

Lemma frow_of_eval e b : eval e = Value.Ok (VBool b) -> frow e = Value.Ok b.
Proof. intros H. unfold filter_row. rewrite H. reflexivity. Qed.

Lemma frow_inv e b : frow e = Value.Ok b -> eval e = Value.Ok (VBool b).
Proof.
  unfold filter_row. destruct (eval e) as [x| | |]; cbn [Value.bind]; try discriminate.
  destruct x; try discriminate. intros H; injection H as <-. reflexivity.
Qed.

Lemma operand_eval e a : operand k v e = Some a -> eval e = Value.Ok (VBytes a) /\ rtype e = TStr.
Proof.
  destruct e; cbn; try discriminate.
  - destruct f; intros H; injection H as <-; split; reflexivity.
  - intros H; injection H as <-; split; reflexivity.
Qed.

Lemma opq_close e b : frow e = Value.Ok b -> opq_eval e = Some b.
Proof. intros H. unfold opq_eval. rewrite H. reflexivity. Qed.

(* a comparison of two key-fragment operands evaluates to the byte-wise comparison *)
Lemma cmp2_of_eval e l r (f : bytes -> bytes -> bool) b :
  frow e = Value.Ok b ->
  (forall x y, operand k v l = Some x -> operand k v r = Some y -> b = f x y) ->
  cmp2 opq_eval k v e l r f = Some b.
Proof.
  intros H Hf. unfold cmp2.
  destruct (operand k v l) as [x|] eqn:El; [|apply opq_close; exact H].
  destruct (operand k v r) as [y|] eqn:Er; [|apply opq_close; exact H].
  now rewrite (Hf x y eq_refl eq_refl).
Qed.

Lemma in_list_operands a items bs :
  operands k v items = Some bs ->
  in_list fo (VBytes a) false items (map eval items) = Value.Ok (existsb (String.eqb a) bs).
Proof.
  revert bs; induction items as [|it items IH]; intros bs H; cbn in H.
  - injection H as <-. reflexivity.
  - destruct (operand k v it) as [b|] eqn:Eo; [|discriminate].
    destruct (operands k v items) as [bs'|] eqn:Eos; [|discriminate].
    injection H as <-. destruct (operand_eval _ _ Eo) as [Ev Rt].
    cbn [map in_list]. rewrite Rt, Ev. cbn [ty_eqb negb Value.bind string_compare conv_bytes existsb].
    destruct (String.eqb a b); [reflexivity|]. cbn [orb]. now apply IH.
Qed.

Theorem psem_of_eval : forall e b, frow e = Value.Ok b -> psem opq_eval k v e = Some b.
Proof.
  induction e as [p o l IHl r IHr|p f|p s|p r IH|p n IHn args|p s|p nm d IHd|p d|p d|p b0|p l|p l IHl fn IHfn];
    intros b H; cbn [psem]; try (apply opq_close; exact H).
  - (* binary operators *)
    destruct o; try (apply opq_close; exact H).
    + (* & *) apply frow_inv in H. cbn [Eval.eval] in H.
      destruct (eval l) as [lv| | |] eqn:El; cbn [Value.bind] in H; try discriminate.
      destruct lv as [| | | |[|]| | | | |]; try discriminate.
      * rewrite (IHl true (frow_of_eval _ _ El)).
        destruct (eval r) as [rv| | |] eqn:Er; cbn [Value.bind] in H; try discriminate.
        destruct rv; try discriminate. injection H as <-. exact (IHr _ (frow_of_eval _ _ Er)).
      * injection H as <-. now rewrite (IHl false (frow_of_eval _ _ El)).
    + (* | *) apply frow_inv in H. cbn [Eval.eval] in H.
      destruct (eval l) as [lv| | |] eqn:El; cbn [Value.bind] in H; try discriminate.
      destruct lv as [| | | |[|]| | | | |]; try discriminate.
      * injection H as <-. now rewrite (IHl true (frow_of_eval _ _ El)).
      * rewrite (IHl false (frow_of_eval _ _ El)).
        destruct (eval r) as [rv| | |] eqn:Er; cbn [Value.bind] in H; try discriminate.
        destruct rv; try discriminate. injection H as <-. exact (IHr _ (frow_of_eval _ _ Er)).
    + (* = *) apply cmp2_of_eval; [assumption|]. intros x y Hx Hy. apply frow_inv in H.
      destruct (operand_eval _ _ Hx) as [Ex _]. destruct (operand_eval _ _ Hy) as [Ey _].
      cbn [Eval.eval] in H. rewrite Ex, Ey in H. cbn in H. congruence.
    + (* != *) apply cmp2_of_eval; [assumption|]. intros x y Hx Hy. apply frow_inv in H.
      destruct (operand_eval _ _ Hx) as [Ex _]. destruct (operand_eval _ _ Hy) as [Ey _].
      cbn [Eval.eval] in H. rewrite Ex, Ey in H. cbn in H. congruence.
    + (* ^= *) apply cmp2_of_eval; [assumption|]. intros x y Hx Hy. apply frow_inv in H.
      destruct (operand_eval _ _ Hx) as [Ex _]. destruct (operand_eval _ _ Hy) as [Ey _].
      cbn [Eval.eval] in H. rewrite Ex, Ey in H. cbn in H. congruence.
    + (* > *) apply cmp2_of_eval; [assumption|]. intros x y Hx Hy. apply frow_inv in H.
      destruct (operand_eval _ _ Hx) as [Ex Rx]. destruct (operand_eval _ _ Hy) as [Ey _].
      cbn [Eval.eval] in H. rewrite Ex, Ey, Rx in H. cbn in H. congruence.
    + (* >= *) apply cmp2_of_eval; [assumption|]. intros x y Hx Hy. apply frow_inv in H.
      destruct (operand_eval _ _ Hx) as [Ex Rx]. destruct (operand_eval _ _ Hy) as [Ey _].
      cbn [Eval.eval] in H. rewrite Ex, Ey, Rx in H. cbn in H. congruence.
    + (* < *) apply cmp2_of_eval; [assumption|]. intros x y Hx Hy. apply frow_inv in H.
      destruct (operand_eval _ _ Hx) as [Ex Rx]. destruct (operand_eval _ _ Hy) as [Ey _].
      cbn [Eval.eval] in H. rewrite Ex, Ey, Rx in H. cbn in H. congruence.
    + (* <= *) apply cmp2_of_eval; [assumption|]. intros x y Hx Hy. apply frow_inv in H.
      destruct (operand_eval _ _ Hx) as [Ex Rx]. destruct (operand_eval _ _ Hy) as [Ey _].
      cbn [Eval.eval] in H. rewrite Ex, Ey, Rx in H. cbn in H. congruence.
    + (* in *)
      destruct (operand k v l) as [a|] eqn:El; [|apply opq_close; exact H].
      destruct r; try (apply opq_close; exact H).
      destruct (operands k v l0) as [bs|] eqn:Eos; [|apply opq_close; exact H].
      apply frow_inv in H. destruct (operand_eval _ _ El) as [Ex Rx].
      cbn [Eval.eval] in H. rewrite Ex, Rx in H. cbn [Value.bind] in H.
      rewrite (in_list_operands a _ _ Eos) in H. cbn [Value.bind] in H. congruence.
    + (* between *)
      destruct (operand k v l) as [a|] eqn:El; [|apply opq_close; exact H].
      destruct r; try (apply opq_close; exact H).
      destruct l0 as [|lo [|hi [|? ?]]]; try (apply opq_close; exact H).
      destruct (operand k v lo) as [x|] eqn:Elo; [|apply opq_close; exact H].
      destruct (operand k v hi) as [y|] eqn:Ehi; [|apply opq_close; exact H].
      apply frow_inv in H. destruct (operand_eval _ _ El) as [Ex Rx].
      destruct (operand_eval _ _ Elo) as [Exl Rxl]. destruct (operand_eval _ _ Ehi) as [Exh Rxh].
      cbn [Eval.eval] in H. rewrite Ex, Rx, Rxl, Rxh, Exl, Exh in H.
      cbn [Value.bind ty_eqb negb string_compare conv_bytes] in H.
      destruct (bltb x y); cbn [negb] in H; [|discriminate].
      destruct (bleb x a); cbn [negb andb Value.bind] in H |- *; congruence.
    + (* and *) apply frow_inv in H. cbn [Eval.eval] in H.
      destruct (eval l) as [lv| | |] eqn:El; cbn [Value.bind] in H; try discriminate.
      destruct lv as [| | | |[|]| | | | |]; try discriminate.
      * rewrite (IHl true (frow_of_eval _ _ El)).
        destruct (eval r) as [rv| | |] eqn:Er; cbn [Value.bind] in H; try discriminate.
        destruct rv; try discriminate. injection H as <-. exact (IHr _ (frow_of_eval _ _ Er)).
      * injection H as <-. now rewrite (IHl false (frow_of_eval _ _ El)).
    + (* or *) apply frow_inv in H. cbn [Eval.eval] in H.
      destruct (eval l) as [lv| | |] eqn:El; cbn [Value.bind] in H; try discriminate.
      destruct lv as [| | | |[|]| | | | |]; try discriminate.
      * injection H as <-. now rewrite (IHl true (frow_of_eval _ _ El)).
      * rewrite (IHl false (frow_of_eval _ _ El)).
        destruct (eval r) as [rv| | |] eqn:Er; cbn [Value.bind] in H; try discriminate.
        destruct rv; try discriminate. injection H as <-. exact (IHr _ (frow_of_eval _ _ Er)).
  - (* ! *) apply frow_inv in H. cbn [Eval.eval] in H.
    destruct (eval r) as [rv| | |] eqn:Er; cbn [Value.bind] in H; try discriminate.
    destruct rv; try discriminate. injection H as <-. now rewrite (IH _ (frow_of_eval _ _ Er)).
  - (* true / false *) apply frow_inv in H. cbn in H. congruence.
Qed.

(* the region inferred for a WHERE tree covers every pair on which FilterExec.Filter's twin
   answers true *)
Theorem filter_true_covered e :
  frow e = Value.Ok true -> covers (FilterOpt.optimize e) k = true.
Proof. intros H. apply (optimize_sound_lemma opq_eval k v). now apply psem_of_eval. Qed.

End EvalCover.

(* ================================================================== what the checker hands to
   the folder: the typing facts of Model/Fold.wt *)
Section CheckWt.
Variable fo : fops.

Lemma ts_wt_fold_wt : forall e, TypeSafetyProofs.wt fo e = true -> Fold.wt e = true.
Proof.
  induction e as [p o l r IHl IHr|p f|p s|p r IH|p n args IHn IHargs|p s|p nm d IHd|p d|p d|p b0|p l IHl|p l fn IHl IHfn]
    using expr_ind2; intros H; try reflexivity.
  - cbn [TypeSafetyProofs.wt] in H. apply andb_true_iff in H. destruct H as [H Hop].
    apply andb_true_iff in H. destruct H as [Hl Hr].
    cbn [Fold.wt]. rewrite (IHl Hl), (IHr Hr). cbn [andb].
    destruct (op_check fo p o l r) as [u| | |] eqn:Hc; try discriminate Hop. destruct u.
    destruct o; try reflexivity; cbn [op_check] in Hc.
    + apply check_andor_spec in Hc. destruct Hc as [-> ->]. reflexivity.
    + apply check_andor_spec in Hc. destruct Hc as [-> ->]. reflexivity.
    + apply (check_math_spec fo OAdd l r eq_refl) in Hc. destruct Hc as [[(_ & -> & ->)|(-> & ->)] _]; reflexivity.
  - cbn [TypeSafetyProofs.wt] in H. cbn [Fold.wt].
    apply forallb_forall. intros a Ha. rewrite Forall_forall in IHargs. apply IHargs; [exact Ha|].
    rewrite forallb_forall in H. apply H. exact Ha.
Qed.

(* the checked WHERE tree of an accepted statement *)
Lemma check_fold_wt ctx e e1 :
  check fo true ctx e = Value.Ok e1 -> Fold.wt (rewrite_name (c_names ctx) e1) = true.
Proof. intros H. apply ts_wt_fold_wt. rewrite wt_rw. exact (check_wt fo ctx e e1 H). Qed.

End CheckWt.

(* ================================================================== resolving field names keeps
   every reference value: a name has no reference value (Spec/Sem.v knows no field names), so
   the checked tree evaluates, under the reference semantics, wherever the parsed tree does, and
   to the same value *)
Section CheckSem.
Variable fo : fops.
Variable re_spec : bytes -> bytes -> option bool.
Variable ctx : cctx.
Variables k v : bytes.

Notation semk := (sem fo re_spec k v).
Notation rw := (rewrite_name (c_names ctx)).
Notation check := (check fo true ctx).

Definition mono (a a2 : expr) : Prop := forall s, semk a = Some s -> semk a2 = Some s.

Lemma in_go_mono a items items2 : Forall2 mono items items2 -> forall s,
  (fix go (items : list expr) : option (sval fo) :=
     match items with
     | [] => Some (SBool false)
     | it :: items' =>
         match semk it with
         | Some b =>
             match (match a with SText _ => s_eq fo a b | _ => s_num_eq fo a b end) with
             | Some true => Some (SBool true)
             | Some false => go items'
             | None => None
             end
         | None => None
         end
     end) items = Some s ->
  (fix go (items : list expr) : option (sval fo) :=
     match items with
     | [] => Some (SBool false)
     | it :: items' =>
         match semk it with
         | Some b =>
             match (match a with SText _ => s_eq fo a b | _ => s_num_eq fo a b end) with
             | Some true => Some (SBool true)
             | Some false => go items'
             | None => None
             end
         | None => None
         end
     end) items2 = Some s.
Proof.
  induction 1 as [|it it2 items items2 Hm _ IH]; intros s Hs; [exact Hs|].
  destruct (semk it) as [b|] eqn:Ei; [|discriminate Hs]. rewrite (Hm _ Ei).
  destruct (match a with SText _ => s_eq fo a b | _ => s_num_eq fo a b end) as [[|]|]; auto.
Qed.

(* what is proved for every node: the value is kept, and a list stays a list whose items keep
   their values (IN and BETWEEN look at the list syntactically) *)
Definition keeps (e : expr) : Prop :=
  forall e1, check e = Value.Ok e1 ->
    mono e (rw e1) /\
    (forall q items, e = EList q items ->
       exists items2, rw e1 = EList q items2 /\ Forall2 mono items items2).

Lemma keeps_list items items2 :
  Forall keeps items -> check_list fo ctx items = Value.Ok items2 -> Forall2 mono items items2.
Proof.
  intros HF Hc. apply check_list_ok in Hc. revert HF.
  induction Hc as [|a a2 l l2 (a1 & Ha1 & ->) _ IH]; intros HF; [constructor|].
  inversion HF as [|? ? Ha HFl]; subst. constructor; [exact (proj1 (Ha _ Ha1)) | exact (IH HFl)].
Qed.

Ltac strict2 Ml Mr Hs l r :=
  let a := fresh "a" in let b := fresh "b" in let El := fresh "El" in let Er := fresh "Er" in
  destruct (semk l) as [a|] eqn:El; [|discriminate Hs];
  rewrite (Ml _ El);
  destruct (semk r) as [b|] eqn:Er;
  [rewrite (Mr _ Er); exact Hs | exfalso; destruct a; cbn in Hs; discriminate Hs].

Ltac andor2 Ml Mr Hs l r :=
  let El := fresh "El" in let Er := fresh "Er" in
  destruct (semk l) as [[| | |[|]]|] eqn:El; try discriminate Hs; rewrite (Ml _ El); try exact Hs;
  destruct (semk r) as [[| | |?]|] eqn:Er; try discriminate Hs; rewrite (Mr _ Er); exact Hs.

Lemma keeps_all : forall e, keeps e.
Proof.
  induction e as [p o l r IHl IHr|p f|p s0|p r IH|p n args IHn IHargs|p s0|p nm d IHd|p d|p d|p b0|p l IHl|p l fn IHl IHfn]
    using expr_ind2; intros e1 Hc.
  - (* binary operators *)
    rewrite check_bin_eq in Hc. inv_bind Hc as l1 Hl1 Hc. inv_bind Hc as r1 Hr1 Hc. inv_bind Hc as u Hu Hc.
    inversion Hc; subst e1. clear Hc. cbn [rewrite_name].
    destruct (IHl _ Hl1) as [Ml _]. destruct (IHr _ Hr1) as [Mr Lr].
    split; [|intros lq items Hq; discriminate Hq].
    intros sv Hs. destruct o; cbn [sem] in Hs |- *; try discriminate Hs.
    + andor2 Ml Mr Hs l r.
    + andor2 Ml Mr Hs l r.
    + strict2 Ml Mr Hs l r.
    + strict2 Ml Mr Hs l r.
    + strict2 Ml Mr Hs l r.
    + strict2 Ml Mr Hs l r.
    + strict2 Ml Mr Hs l r.
    + strict2 Ml Mr Hs l r.
    + strict2 Ml Mr Hs l r.
    + strict2 Ml Mr Hs l r.
    + strict2 Ml Mr Hs l r.
    + strict2 Ml Mr Hs l r.
    + strict2 Ml Mr Hs l r.
    + strict2 Ml Mr Hs l r.
    + (* in *)
      destruct (semk l) as [a|] eqn:El; [|discriminate Hs]. rewrite (Ml _ El).
      destruct r; try discriminate Hs.
      destruct (Lr _ _ eq_refl) as (items2 & -> & HF). exact (in_go_mono a _ _ HF sv Hs).
    + (* between *)
      destruct (semk l) as [a|] eqn:El; [|discriminate Hs]. rewrite (Ml _ El).
      destruct r; try discriminate Hs.
      destruct (Lr _ _ eq_refl) as (items2 & -> & HF).
      destruct l0 as [|lo [|hi [|? ?]]]; try discriminate Hs.
      inversion HF as [|? lo2 ? t2 Mlo HF2]; subst. inversion HF2 as [|? hi2 ? t3 Mhi HF3]; subst.
      inversion HF3; subst.
      destruct (semk lo) as [x|] eqn:Elo; [|discriminate Hs]. rewrite (Mlo _ Elo).
      destruct (semk hi) as [y|] eqn:Ehi; [|discriminate Hs]. rewrite (Mhi _ Ehi). exact Hs.
    + andor2 Ml Mr Hs l r.
    + andor2 Ml Mr Hs l r.
  - (* key / value *)
    cbn [Checker.check] in Hc.
    assert (e1 = EField p f) as ->.
    { destruct f; [destruct (c_nokey ctx) | destruct (c_novalue ctx)]; inversion Hc; reflexivity. }
    split; [intros sv Hs; exact Hs | intros lq items Hq; discriminate Hq].
  - inversion Hc; subst. split; [intros sv Hs; exact Hs | intros lq items Hq; discriminate Hq].
  - (* ! *)
    cbn [Checker.check] in Hc. inv_bind Hc as r2 Hr2 Hc. inv_bind Hr2 as r1 Hr1 Hr2. inversion Hr2; subst r2.
    destruct (ty_eqb _ TBool); inversion Hc; subst e1. cbn [rewrite_name].
    destruct (IH _ Hr1) as [Mr _].
    split; [|intros lq items Hq; discriminate Hq].
    intros sv Hs. cbn [sem] in Hs |- *.
    destruct (semk r) as [x|] eqn:Er; [|discriminate Hs]. rewrite (Mr _ Er). exact Hs.
  - (* function calls *)
    destruct n as [? ? ? ?|? ?|? ?|? ?|? ? ?|q fname|? ? ?|? ?|? ?|? ?|? ?|? ? ?];
      try (cbn [Checker.check] in Hc; discriminate Hc).
    rewrite check_call_eq in Hc. inv_bind Hc as a2 Ha2 Hc. inversion Hc; subst e1. cbn [rewrite_name].
    pose proof (keeps_list _ _ IHargs Ha2) as HF.
    split; [|intros lq items Hq; discriminate Hq].
    intros sv Hs. cbn [sem] in Hs |- *.
    destruct (ascii_lower fname) as [fnm|]; [|discriminate Hs].
    destruct args as [|a [|b [|c [|? ?]]]]; try discriminate Hs.
    + inversion HF as [|? a' ? t Ma HF1]; subst. inversion HF1; subst.
      destruct (semk a) as [x|] eqn:Ea; [|discriminate Hs]. rewrite (Ma _ Ea). exact Hs.
    + inversion HF as [|? a' ? t Ma HF1]; subst. inversion HF1 as [|? b' ? t1 Mb HF2]; subst.
      inversion HF2 as [|? c' ? t2 Mc HF3]; subst. inversion HF3; subst.
      destruct (String.eqb fnm "substr"); [|discriminate Hs].
      destruct (semk a) as [x|] eqn:Ea; [|discriminate Hs]. rewrite (Ma _ Ea).
      destruct (semk b) as [y|] eqn:Eb; [|discriminate Hs]. rewrite (Mb _ Eb).
      destruct (semk c) as [z|] eqn:Ec; [|destruct y; discriminate Hs]. rewrite (Mc _ Ec). exact Hs.
  - (* a name has no reference value *)
    split; [intros sv Hs; discriminate Hs | intros lq items Hq; discriminate Hq].
  - split; [intros sv Hs; discriminate Hs | intros lq items Hq; discriminate Hq].
  - inversion Hc; subst. split; [intros sv Hs; exact Hs | intros lq items Hq; discriminate Hq].
  - inversion Hc; subst. split; [intros sv Hs; exact Hs | intros lq items Hq; discriminate Hq].
  - inversion Hc; subst. split; [intros sv Hs; exact Hs | intros lq items Hq; discriminate Hq].
  - (* lists *)
    destruct l as [|x items]; [cbn in Hc; discriminate|].
    rewrite check_list_eq in Hc. inv_bind Hc as i2 Hi2 Hc. destruct i2 as [|y rest2]; [discriminate|].
    destruct (first_mistyped (rtype y) rest2); inversion Hc; subst e1. cbn [rewrite_name].
    split; [intros sv Hs; discriminate Hs|].
    intros lq items0 Hq. injection Hq as <- <-. eexists; split; [reflexivity|].
    exact (keeps_list _ _ IHl Hi2).
  - split; [intros sv Hs; discriminate Hs | intros lq items Hq; discriminate Hq].
Qed.

Theorem check_sem_mono e e1 s :
  check e = Value.Ok e1 -> semk e = Some s -> semk (rw e1) = Some s.
Proof. intros Hc Hs. exact (proj1 (keeps_all e e1 Hc) s Hs). Qed.

End CheckSem.

(* ================================================================== the checker twin raises
   SyntaxErrors only: it never panics and never returns another error class *)
Definition clean {A} (r : Value.res A) : Prop :=
  match r with
  | Value.Ok _ | Value.Err (Value.ESyntax _) | Value.OutOfModel => True
  | _ => False
  end.

Lemma clean_bind {A B} (r : Value.res A) (f : A -> Value.res B) :
  clean r -> (forall a, clean (f a)) -> clean (Value.bind r f).
Proof. destruct r as [a|[]| |]; cbn; auto; contradiction. Qed.

Ltac cl :=
  repeat first
    [ exact I
    | progress cbn [clean serr Value.bind]
    | apply clean_bind; [|intros ?]
    | match goal with |- clean (match ?x with _ => _ end) => destruct x end
    | match goal with |- clean (if ?x then _ else _) => destruct x end ].

Section CheckClean.
Variable fo : fops.

Lemma clean_andor_side e : clean (andor_side true e).
Proof. unfold andor_side. cl. Qed.
Lemma clean_math_side e : clean (math_side e).
Proof. unfold math_side. cl. Qed.
Lemma clean_zero_divisor r : clean (zero_divisor fo r).
Proof. unfold zero_divisor, float_value. cl. Qed.
Lemma clean_compare_side e : clean (compare_side true e).
Proof. unfold compare_side. cl. Qed.

Lemma clean_op_check p o l r : clean (op_check fo p o l r).
Proof.
  destruct o; cbn [op_check];
    unfold check_andor, check_math, check_in, check_between, check_compares;
    repeat first
      [ exact I
      | apply clean_andor_side | apply clean_math_side | apply clean_zero_divisor | apply clean_compare_side
      | progress cbn [clean serr Value.bind]
      | apply clean_bind; [|intros ?]
      | match goal with |- clean (match ?x with _ => _ end) => destruct x end
      | match goal with |- clean (if ?x then _ else _) => destruct x end ].
Qed.

Lemma clean_access_shape l f : clean (check_access_shape true l f).
Proof. unfold check_access_shape. cl. Qed.

Section WithCtx.
Variable ctx : cctx.
Notation check := (check fo true ctx).

Lemma clean_check_list l : Forall (fun e => clean (check e)) l -> clean (check_list fo ctx l).
Proof.
  induction 1 as [|x l Hx _ IH]; cbn [check_list]; [exact I|].
  apply clean_bind; [exact Hx|intros a]. apply clean_bind; [exact IH|intros l2]. exact I.
Qed.

Lemma clean_check : forall e, clean (check e).
Proof.
  induction e as [p o l r IHl IHr|p f|p s|p r IH|p n args IHn IHargs|p s|p nm d IHd|p d|p d|p b0|p l IHl|p l fn IHl IHfn]
    using expr_ind2; try exact I.
  - rewrite check_bin_eq. apply clean_bind; [exact IHl|intros l1]. apply clean_bind; [exact IHr|intros r1].
    apply clean_bind; [apply clean_op_check|intros u]. exact I.
  - cbn [Checker.check]. cl.
  - cbn [Checker.check]. apply clean_bind; [apply clean_bind; [exact IH|intros r1; exact I]|intros r2]. cl.
  - destruct n as [? ? ? ?|? ?|? ?|? ?|? ? ?|q fname|? ? ?|? ?|? ?|? ?|? ?|? ? ?]; try exact I.
    rewrite check_call_eq. apply clean_bind; [exact (clean_check_list _ IHargs)|intros a2]. exact I.
  - destruct l as [|x items]; [exact I|].
    rewrite check_list_eq. apply clean_bind; [exact (clean_check_list _ IHl)|intros i2]. cl.
  - cbn [Checker.check]. apply clean_bind; [apply clean_bind; [exact IHl|intros l1; exact I]|intros l2].
    apply clean_bind; [exact IHfn|intros f2]. apply clean_bind; [apply clean_access_shape|intros u]. exact I.
Qed.

End WithCtx.

Lemma clean_aggr_arg : forall a, clean (aggr_arg a).
Proof.
  induction a; cbn [aggr_arg]; try exact I.
  - apply clean_bind; [assumption|intros u; assumption].
  - cl.
Qed.
Lemma clean_aggr_args l : clean (aggr_args l).
Proof. induction l; cbn [aggr_args]; [exact I|]. apply clean_bind; [apply clean_aggr_arg|intros u; exact IHl]. Qed.
Lemma clean_aggr_field : forall e, clean (aggr_field e).
Proof.
  induction e; cbn [aggr_field]; try exact I.
  - apply clean_bind; [assumption|intros u; assumption].
  - destruct (is_aggr_call _); [apply clean_aggr_args | exact I].
Qed.

Lemma clean_validate_fields : forall todo all, clean (validate_fields fo true all todo).
Proof.
  induction todo as [|[n f] todo IH]; intros all; cbn [validate_fields]; [exact I|].
  apply clean_bind; [apply clean_check|intros f2]. apply clean_bind; [apply clean_aggr_field|intros u].
  apply clean_bind; [apply IH|intros r; exact I].
Qed.

Lemma clean_check_calls : forall a e, clean (check_calls a e).
Proof.
  intros a e; revert a.
  induction e as [p o l r IHl IHr|p f|p s|p r IH|p n args IHn IHargs|p s|p nm d IHd|p d|p d|p b0|p l IHl|p l fn IHl IHfn]
    using expr_ind2; intros a; try exact I.
  - cbn [check_calls]. apply clean_bind; [apply IHl|intros u; apply IHr].
  - cbn [check_calls]. apply IH.
  - assert (Hgo : clean ((fix go (l : list expr) : Value.res unit :=
                            match l with
                            | [] => Value.Ok tt
                            | a0 :: l' => Value.bind (check_calls false a0) (fun _ => go l')
                            end) args)).
    { induction IHargs as [|x l Hx _ IHF]; [exact I|]. apply clean_bind; [apply Hx|intros u; exact IHF]. }
    cbn [check_calls].
    destruct n as [? ? ? ?|? ?|? ?|? ?|? ? ?|q fname|? ? ?|? ?|? ?|? ?|? ?|? ? ?]; try exact I.
    destruct (call_name (EName q fname)) as [nm|]; [|exact I].
    apply clean_bind; [cl|intros u; exact Hgo].
  - cbn [check_calls].
    induction IHl as [|x l Hx _ IHF]; [exact I|]. apply clean_bind; [apply Hx|intros u; exact IHF].
  - cbn [check_calls]. apply IHl.
Qed.

Lemma clean_calls_fields l : clean (calls_fields l).
Proof.
  induction l as [|[n f] l IH]; cbn [calls_fields]; [exact I|].
  apply clean_bind; [apply clean_check_calls|intros u; exact IH].
Qed.

(* Parser.Parse's checks + checkStatementFunctionCalls on a select statement without ORDER BY *)
Lemma clean_build_check_select fields w : clean (build_check fo true (SSelect fields w [])).
Proof.
  unfold build_check. cbn [check_stmt]. unfold check_select. cbv zeta. cbn [check_order].
  apply clean_bind.
  - apply clean_bind; [exact I|intros u]. apply clean_bind; [apply clean_check|intros w1].
    apply clean_bind; [unfold where_bool; cl|intros u2].
    apply clean_bind; [apply clean_validate_fields|intros f2]. exact I.
  - intros s2. apply clean_bind; [|intros u; exact I].
    destruct s2; cbn [check_stmt_calls].
    + apply clean_bind; [apply clean_check_calls|intros u; apply clean_calls_fields].
    + induction pairs as [|[kk vv] l IH]; cbn [calls_pairs]; [exact I|].
      apply clean_bind; [apply clean_check_calls|intros u]. apply clean_bind; [apply clean_check_calls|intros u2; exact IH].
    + induction keys as [|kk l IH]; cbn [calls_keys]; [exact I|].
      apply clean_bind; [apply clean_check_calls|intros u; exact IH].
    + apply clean_check_calls.
Qed.

End CheckClean.

(* ================================================================== the composition *)

(* batch sizes the caller may use (PlanBatchSize >= 1) *)
Definition mode_ok (m : tmode) : Prop := match m with MRow => True | MBatch B => 1 <= B end.

Lemma map_star_row (l : list kvp) : map star_row l = l.
Proof. induction l as [|x l IH]; cbn [map]; [reflexivity|]. rewrite IH. reflexivity. Qed.

Section EndToEnd.
Variable fo : fops.
Variable re_match : bytes -> bytes -> Value.res bool.
Variable re_spec : bytes -> bytes -> option bool.
Variable fmt_v : F fo -> string.
Hypothesis re_agree : forall p t b, re_spec p t = Some b -> re_match p t = Value.Ok b.
Hypothesis fmt_round : forall f, f_parse fo (fmt_v f) = PF_ok f.

Notation fold := (Fold.fold fo re_match fmt_v).
Notation filter_of := (filter_of fo re_match).

(* what an accepted text went through: parse, then check with the field context the parser
   built; the checked tree is the parsed one with field names resolved *)
Lemma checked_where_inv q w2 :
  checked_where fo q = TOk w2 ->
  exists names P w1,
    parsed_where q = TOk (names, P) /\
    check fo true (Cctx (link names) false false) P = Value.Ok w1 /\
    w2 = rewrite_name (link names) w1.
Proof.
  unfold checked_where. destruct (parsed_where q) as [[names P]| | | | |] eqn:Hp; cbn [tbind]; try discriminate.
  cbn [fst snd].
  destruct (build_check fo true (SSelect names P [])) as [s2|[]| |] eqn:Hb; cbn [of_check tbind]; try discriminate.
  intros H. exists names, P.
  unfold build_check in Hb. inv_bind Hb as s1 Hs1 Hb. inv_bind Hb as u Hu Hb. inversion Hb; subst s2. clear Hb.
  cbn [check_stmt] in Hs1. unfold check_select in Hs1. cbv zeta in Hs1. cbn [check_order] in Hs1.
  inv_bind Hs1 as u0 Hu0 Hs1. inv_bind Hs1 as w1 Hw1 Hs1. inv_bind Hs1 as u1 Hu1 Hs1.
  inv_bind Hs1 as f2 Hf2 Hs1. inversion Hs1; subst s1. injection H as <-.
  exists w1. auto.
Qed.

(* the WHERE clause of `where P` alone is checked without field names: nothing is resolved *)
Lemma checked_where_plain q P w2 :
  parsed_where q = TOk ([], P) -> checked_where fo q = TOk w2 -> w2 = P.
Proof.
  intros Hp Hc. destruct (checked_where_inv _ _ Hc) as (names & P' & w1 & Hp' & Hck & ->).
  rewrite Hp in Hp'. injection Hp' as <- <-. change (link []) with (@nil (string * expr)) in *.
  rewrite rw_nil. exact (check_nil_id fo _ _ _ _ Hck).
Qed.

Section Rows.
Variable q : string.
Variable d : store.
Variables (names : list (string * expr)) (P w2 : expr).
Hypothesis Hparsed : parsed_where q = TOk (names, P).
Hypothesis Hchecked : checked_where fo q = TOk w2.
Hypothesis Hsorted : ssorted d.
Hypothesis Hevaluable : forall kv, In kv d -> evaluable fo re_spec P kv.
Hypothesis Hreassoc : forall kv, In kv d -> reassoc_exact fo re_match fmt_v w2 (fst kv) (snd kv).

(* on every stored pair the folded tree filters as the reference semantics of the PARSED tree says *)
Lemma folded_filter_is_reference kv : In kv d -> filter_of (fold w2) kv = selects fo re_spec P kv.
Proof.
  intros Hin. destruct (checked_where_inv _ _ Hchecked) as (names' & P' & w1 & Hp' & Hck & Hw2).
  rewrite Hparsed in Hp'. injection Hp' as <- <-.
  destruct (Hevaluable kv Hin) as [b Hb].
  assert (Hb2 : sem fo re_spec (fst kv) (snd kv) w2 = Some (SBool b)).
  { rewrite Hw2. exact (check_sem_mono fo re_spec (Cctx (link names) false false) _ _ P w1 _ Hck Hb). }
  pose proof (filter_refines_sem fo re_match re_spec re_agree _ _ _ _ Hb2) as Hf.
  assert (Hwt : Fold.wt w2 = true) by (rewrite Hw2; exact (check_fold_wt fo (Cctx (link names) false false) P w1 Hck)).
  pose proof (fold_preserves_filter fo re_match fmt_v fmt_round w2 _ _ b Hwt (Hreassoc kv Hin) Hf) as Hff.
  unfold Pipeline.filter_of, selects. rewrite Hff, Hb. destruct b; reflexivity.
Qed.

(* what `select *` over the plan built from the text denotes: the pairs the reference selects *)
Lemma rsel_text :
  Rsel (filter_of (fold w2)) (p_plan (planned_of fo re_match fmt_v w2)) d
  = filter (selects fo re_spec P) d.
Proof.
  unfold planned_of. cbn [p_plan Rsel].
  rewrite (filter_agree (fun kv => covers (region_of (scan_of_region (FilterOpt.optimize (fold w2)))) (fst kv))
                        (fun kv => covers (FilterOpt.optimize (fold w2)) (fst kv)))
    by (intros; apply covers_scan_of_region).
  rewrite filter_filter_absorb.
  - apply filter_agree. exact folded_filter_is_reference.
  - intros [k v] _ H. cbn [fst]. unfold Pipeline.filter_of in H. cbn [fst snd] in H.
    destruct (filter_row fo re_match k v (fold w2)) as [[|]| | |] eqn:E; try discriminate H.
    exact (filter_true_covered fo re_match k v _ E).
Qed.

Lemma drain_text m : mode_ok m ->
  drain fo re_match (planned_of fo re_match fmt_v w2) d m = TOk (filter (selects fo re_spec P) d).
Proof.
  intros Hm. unfold drain.
  set (pl := planned_of fo re_match fmt_v w2).
  assert (Hk : keys_ok (p_plan pl)) by apply keys_ok_scan_of_region.
  assert (Hfuel : List.length d + plan_keys (p_plan pl) < drain_fuel (p_plan pl) d) by (unfold drain_fuel; lia).
  assert (Hflt : p_filter pl = fold w2) by reflexivity.
  destruct m as [|B].
  - destruct (@scan_rows_row_lemma (filter_of (p_filter pl)) _ _ d [] Hsorted Hk Hfuel) as (l & Hrun & _).
    rewrite Hrun. cbn [fst of_run tbind]. rewrite map_star_row, Hflt. f_equal. exact rsel_text.
  - destruct (@scan_rows_batch_lemma (filter_of (p_filter pl)) B _ _ d [] Hm Hsorted Hk Hfuel)
      as (outs & l & Hrun & Hc & _).
    rewrite Hrun. cbn [fst of_run tbind]. rewrite map_star_row, Hc, Hflt. f_equal. exact rsel_text.
Qed.

Lemma select_text_runs_exact m : mode_ok m -> fold_oom fo re_match fmt_v w2 = false ->
  select_text fo re_match fmt_v q d m = TOk (filter (selects fo re_spec P) d).
Proof.
  intros Hm Hoom. unfold select_text, plan_text. rewrite Hchecked. cbn [tbind].
  unfold plan_of_checked. rewrite Hoom. cbn [tbind]. exact (drain_text m Hm).
Qed.

End Rows.

(* END TO END FROM THE TEXT, as asked: whatever rows the pipeline returns for the text are the
   stored pairs on which the reference semantics of the PARSED tree is true, in key order *)
Theorem select_text_exact_lemma q d m rows names P :
  parsed_where q = TOk (names, P) ->
  ssorted d ->
  (forall kv, In kv d -> evaluable fo re_spec P kv) ->
  (forall w2, checked_where fo q = TOk w2 ->
     forall kv, In kv d -> reassoc_exact fo re_match fmt_v w2 (fst kv) (snd kv)) ->
  mode_ok m ->
  select_text fo re_match fmt_v q d m = TOk rows ->
  rows = filter (selects fo re_spec P) d.
Proof.
  intros Hp Hs Hev Hre Hm Hrun.
  destruct (checked_where fo q) as [w2| | | | |] eqn:Hc;
    try (unfold select_text, plan_text in Hrun; rewrite Hc in Hrun; cbn [tbind] in Hrun; discriminate Hrun).
  destruct (fold_oom fo re_match fmt_v w2) eqn:Hoom.
  { unfold select_text, plan_text in Hrun. rewrite Hc in Hrun. cbn [tbind] in Hrun.
    unfold plan_of_checked in Hrun. rewrite Hoom in Hrun. cbn [tbind] in Hrun. discriminate Hrun. }
  rewrite (select_text_runs_exact q d names P w2 Hp Hc Hs Hev (Hre w2 eq_refl) m Hm Hoom) in Hrun.
  injection Hrun as <-. reflexivity.
Qed.

(* ... and an accepted text always runs: with the same premises, a plan built by the front end
   alone gives the rows (no drain can fail on a fault-free store) *)
Theorem select_text_accepted_runs_lemma q d m names P pl :
  parsed_where q = TOk (names, P) ->
  plan_text fo re_match fmt_v q = TOk pl ->
  ssorted d ->
  (forall kv, In kv d -> evaluable fo re_spec P kv) ->
  (forall w2, checked_where fo q = TOk w2 ->
     forall kv, In kv d -> reassoc_exact fo re_match fmt_v w2 (fst kv) (snd kv)) ->
  mode_ok m ->
  select_text fo re_match fmt_v q d m = TOk (filter (selects fo re_spec P) d).
Proof.
  intros Hp Hpl Hs Hev Hre Hm.
  unfold plan_text in Hpl.
  destruct (checked_where fo q) as [w2| | | | |] eqn:Hc; cbn [tbind] in Hpl; try discriminate Hpl.
  unfold plan_of_checked in Hpl. destruct (fold_oom fo re_match fmt_v w2) eqn:Hoom; [discriminate Hpl|].
  exact (select_text_runs_exact q d names P w2 Hp Hc Hs Hev (Hre w2 eq_refl) m Hm Hoom).
Qed.

End EndToEnd.

(* ================================================================== the front end is total:
   a syntax error with a position, or a plan; never a panic, never out of fuel *)
Section Total.
Variable fo : fops.
Variable re_match : bytes -> bytes -> Value.res bool.
Variable fmt_v : F fo -> string.

Lemma parsed_where_total q :
  (exists fw, parsed_where q = TOk fw) \/ (exists p, parsed_where q = TReject p) \/ parsed_where q = TOom.
Proof.
  unfold parsed_where. destruct (lex_oom q); [auto|].
  destruct (shape_guard (lex q)); cbn [negb]; [|auto].
  unfold parse_statement.
  destruct (parse_with_total no_hooks (lex q)) as [[s ->]|[p ->]]; [|eauto].
  destruct s as [s| | |]; auto.
  destruct (s_order s), (s_group s), (s_limit s); auto. destruct (s_all s); eauto.
Qed.

Lemma checked_where_total q :
  (exists w2, checked_where fo q = TOk w2) \/ (exists p, checked_where fo q = TReject p) \/
  checked_where fo q = TOom.
Proof.
  unfold checked_where.
  destruct (parsed_where_total q) as [[[names P] ->]|[[p ->]| ->]]; cbn [tbind]; eauto.
  cbn [fst snd]. pose proof (clean_build_check_select fo names P) as Hcl.
  destruct (build_check fo true (SSelect names P [])) as [s2|[]| |] eqn:Hb; cbn [clean] in Hcl; try contradiction;
    cbn [of_check tbind]; eauto.
  unfold build_check in Hb. inv_bind Hb as s1 Hs1 Hb. inv_bind Hb as u Hu Hb. inversion Hb; subst s2.
  cbn [check_stmt] in Hs1. unfold check_select in Hs1. cbv zeta in Hs1. cbn [check_order] in Hs1.
  inv_bind Hs1 as u0 Hu0 Hs1. inv_bind Hs1 as w1 Hw1 Hs1. inv_bind Hs1 as u1 Hu1 Hs1.
  inv_bind Hs1 as f2 Hf2 Hs1. inversion Hs1; subst s1. eauto.
Qed.

Theorem select_text_rejects_or_runs_lemma q :
  (exists pl, plan_text fo re_match fmt_v q = TOk pl) \/
  (exists p, plan_text fo re_match fmt_v q = TReject p) \/
  plan_text fo re_match fmt_v q = TOom.
Proof.
  unfold plan_text. destruct (checked_where_total q) as [[w2 ->]|[[p ->]| ->]]; cbn [tbind]; eauto.
  unfold plan_of_checked. destruct (fold_oom fo re_match fmt_v w2); eauto.
Qed.

(* with the drain: on a sorted store and with a batch size >= 1 the whole pipeline ends in rows,
   a syntax error, or the explicit model boundary -- for EVERY text *)
Theorem select_text_total_lemma q d m : ssorted d -> mode_ok m ->
  (exists rows, select_text fo re_match fmt_v q d m = TOk rows) \/
  (exists p, select_text fo re_match fmt_v q d m = TReject p) \/
  select_text fo re_match fmt_v q d m = TOom.
Proof.
  intros Hs Hm. unfold select_text.
  destruct (select_text_rejects_or_runs_lemma q) as [[pl Hpl]|[[p ->]| ->]]; cbn [tbind]; eauto.
  rewrite Hpl. cbn [tbind]. left.
  assert (Hk : keys_ok (p_plan pl)).
  { unfold plan_text in Hpl. destruct (checked_where fo q) as [w2| | | | |]; cbn [tbind] in Hpl; try discriminate.
    unfold plan_of_checked in Hpl. destruct (fold_oom fo re_match fmt_v w2); [discriminate|].
    injection Hpl as <-. apply keys_ok_scan_of_region. }
  assert (Hfuel : List.length d + plan_keys (p_plan pl) < drain_fuel (p_plan pl) d) by (unfold drain_fuel; lia).
  unfold drain. destruct m as [|B].
  - destruct (@scan_rows_row_lemma (Pipeline.filter_of fo re_match (p_filter pl)) _ _ d [] Hs Hk Hfuel) as (l & Hrun & _).
    rewrite Hrun. cbn [fst of_run tbind]. eauto.
  - destruct (@scan_rows_batch_lemma (Pipeline.filter_of fo re_match (p_filter pl)) B _ _ d [] Hm Hs Hk Hfuel)
      as (outs & l & Hrun & _).
    rewrite Hrun. cbn [fst of_run tbind]. eauto.
Qed.

End Total.

(* ================================================================== for concrete witnesses:
   [reassoc_exact] of a tree whose + / * chains carry no float on the pair at hand (every
   re-association site is closed by evaluating its three operands) *)
Ltac site_close :=
  compute_site_goal;
  first [ exact I
        | let X := fresh "X" in let C1 := fresh "C1" in let C2 := fresh "C2" in
          let HX := fresh "HX" in let HC1 := fresh "HC1" in let HC2 := fresh "HC2" in let Hf := fresh "Hf" in
          intros X C1 C2 HX HC1 HC2 Hf; vm_compute in HX, HC1, HC2;
          injection HX as <-; injection HC1 as <-; injection HC2 as <-; discriminate Hf ].
Ltac reassoc_close fo re_match fmt_v t :=
  unfold reassoc_exact; split;
  [ unfold t
  | let t' := eval vm_compute in (Fold.optimize fo re_match fmt_v t) in
    change (Fold.optimize fo re_match fmt_v t) with t' ];
  cbn [pass_exact args_exact Fold.opt_args map reorder_exact]; repeat split; try exact I; site_close.
