(* Proofs/PipelineSProofs.v -- SELECT from the QUERY TEXT (Model/PipelineS.v): the glue theorem and
   the property theorems of the plan nodes lifted to the text.

     1. parse_check is front_s followed by ParseCheck.plan_stage        front_s_parse_check,
                                                                       front_s_reject_parse_check,
                                                                       plan_stmt_text_parse_check
     2. the glue: what an accepted text plans and runs                 plan_stmt_text_inv,
                                                                       select_stmt_text_is_shape_run
     3. C03 at text level                                              batch_row_agree_text
     4. C08 at text level                                              limit_text_slice (+ _batch_partial)
     5. C07 at text level                                              order_by_text_sorted_permutation,
                                                                       order_by_limit_text_sorted_slice,
                                                                       order_by_key_asc_text_elided
     6. C09 at text level                                              aggregate_text_result
     7. the projection                                                 select_fields_text_values *)
From Coq Require Import List String ZArith Bool Arith Lia Permutation Sorted.
Import ListNotations.
From KV Require Import Base.Bytes Base.Num Model.Token Model.Ast Model.Value Model.Eval Model.EvalVec
                       Model.Lexer Model.ExprParser Model.StmtParser Model.ParseCheck Model.Fold
                       Model.FilterOpt Model.Storage Model.ScanIO Model.ScanSem Model.ScanProj
                       Model.LimitLazy Model.AggregateLazy Model.SelectPlans Model.Pipeline
                       Model.PipelineW Model.PipelineS.
From KV Require Model.Checker Model.FoldStmt Model.Order Model.Aggregate Spec.Group Spec.GroupLazy
                Spec.OrderSpec.
From KV Require Import Proofs.ScanProjProofs Proofs.BatchRowProofs Proofs.LimitLazyProofs
                       Proofs.OrderProofs Proofs.AggregateProofs Proofs.AggregateLazyProofs
                       Proofs.SelectPlansProofs.
Local Open Scope string_scope.
Local Open Scope list_scope.

(* ================================================================ generic inversions *)
Lemma stbind_ok {A B} (r : stres A) (f : A -> stres B) b :
  stbind r f = STOk b -> exists a, r = STOk a /\ f a = STOk b.
Proof. destruct r; cbn; try discriminate. intros H. eauto. Qed.

Lemma to_tres_ok {A} (r : stres A) a : to_tres r = TOk a -> r = STOk a.
Proof.
  destruct r as [x| |e|e| | | |]; cbn; try discriminate; try congruence.
  - destruct e; discriminate.
Qed.

Lemma of_drain_ok {A} (r : Value.res A) a : of_drain r = STOk a -> r = Value.Ok a.
Proof. destruct r; cbn; try discriminate. congruence. Qed.

Lemma of_front_ok {A} (r : Value.res A) a : of_front r = STOk a -> r = Value.Ok a.
Proof. destruct r as [x|e| |]; cbn; try discriminate; [congruence | destruct e; discriminate]. Qed.

Lemma of_init_ok {A} (r : Value.res A) a : of_init r = STOk a -> r = Value.Ok a.
Proof. destruct r as [x|e| |]; cbn; try discriminate; [congruence | destruct e; discriminate]. Qed.

Section Text.
Variable fo : fops.
Variable re : bytes -> bytes -> Value.res bool.
Variable fmt_v : F fo -> string.
Variable ag : aggops fo.
Variable pi pf : bytes -> option Z.

Notation front_s := (front_s fo).
Notation plan_of_front := (plan_of_front fo re fmt_v).
Notation plan_stmt_text := (plan_stmt_text fo re fmt_v).
Notation select_stmt_text_st := (select_stmt_text_st fo re fmt_v ag pi pf).
Notation select_stmt_text := (select_stmt_text fo re fmt_v ag pi pf).
Notation exec_of := (exec_of fo re fmt_v).
Notation run_mode := (run_mode fo re ag pi pf).
Notation shape_row := (select_shape_row fo re ag pi pf).
Notation shape_batch := (select_shape_batch fo re ag pi pf).

(* ================================================================ 1. front_s and parse_check *)

(* [to_check_s] is ParseCheck.to_check on a SELECT *)
Lemma to_check_s_agrees x : to_check (StmtParser.StSelect x) = to_check_s x.
Proof. reflexivity. Qed.

(* the checker hands the ORDER BY items through *)
Lemma check_stmt_select_order fields w order c2 :
  Checker.check_stmt fo true (Checker.SSelect fields w order) = Value.Ok c2 ->
  exists fields2 w2, c2 = Checker.SSelect fields2 w2 order.
Proof.
  cbn [Checker.check_stmt]. unfold Checker.check_select. intros E1.
  repeat (apply bind_ok' in E1; destruct E1 as (? & _ & E1)). injection E1 as <-. eauto.
Qed.

(* parse_check IS front_s followed by ParseCheck.plan_stage -- optimizeSelectExpressions on the
   select fields and the tests of buildFinalPlan on the folded fields, the same two things
   [plan_of_front] does with the result of front_s.  Unfolded:
     parse_check fo re fmt_v q =
       if existsb (fun nf => fold_oom fo re fmt_v (snd nf)) fields then PCOutOfModel
       else match plan_select x (map (fun nf => (fst nf, exec_of (snd nf))) fields) with
            | PlErr z => PCErr KPlan z
            | PlProjection => PCOk (StSelect x) (SSelect fields w (order_items (s_order x))) false
            | PlAggregate => PCOk (StSelect x) (SSelect fields w (order_items (s_order x))) true
            end *)
Theorem front_s_parse_check q x fields w :
  front_s q = STOk (x, fields, w) ->
  parse_check fo re fmt_v q =
  plan_stage fo re fmt_v (StmtParser.StSelect x)
             (Checker.SSelect fields w (order_items (StmtParser.s_order x))).
Proof.
  unfold PipelineS.front_s, parse_check. destruct (pc_oom fo q (lex q)); [discriminate|].
  destruct (head_kind (lex q)); try discriminate.
  destruct (parse_real fo (lex q)) as [s|z| |]; try discriminate.
  destruct s as [x0| | |]; try discriminate.
  unfold check_parsed. rewrite to_check_s_agrees. destruct (to_check_s x0) as [c|] eqn:Etc; [|discriminate].
  intros H. apply stbind_ok in H. destruct H as (c2 & E1 & H). apply of_front_ok in E1.
  apply stbind_ok in H. destruct H as (u & E2 & H). apply of_front_ok in E2.
  destruct c2 as [fields2 w2 order2| | |]; try discriminate. injection H as <- <- <-.
  rewrite E1, E2.
  assert (order2 = order_items (StmtParser.s_order x0)) as ->.
  { unfold to_check_s in Etc.
    destruct (negb (Nat.eqb (List.length (StmtParser.s_names x0)) (List.length (s_fields x0)))); [discriminate|].
    injection Etc as <-. apply check_stmt_select_order in E1. destruct E1 as (? & ? & E1). congruence. }
  reflexivity.
Qed.

(* the same, spelled out *)
Corollary front_s_parse_check_unfolded q x fields w :
  front_s q = STOk (x, fields, w) ->
  parse_check fo re fmt_v q =
  let c := Checker.SSelect fields w (order_items (StmtParser.s_order x)) in
  if existsb (fun nf => fold_oom fo re fmt_v (snd nf)) fields then PCOutOfModel
  else match plan_select x (map (fun nf => (fst nf, exec_of (snd nf))) fields) with
       | PlErr z => PCErr KPlan z
       | PlProjection => PCOk (StmtParser.StSelect x) c false
       | PlAggregate => PCOk (StmtParser.StSelect x) c true
       end.
Proof. exact (front_s_parse_check q x fields w). Qed.

(* a rejection of front_s is a rejection of parse_check at the same position, ahead of its plan
   stage *)
Theorem front_s_reject_parse_check q z :
  front_s q = STReject z -> exists k, k <> KPlan /\ parse_check fo re fmt_v q = PCErr k z.
Proof.
  unfold PipelineS.front_s, parse_check. destruct (pc_oom fo q (lex q)); [discriminate|].
  destruct (head_kind (lex q)); try discriminate.
  destruct (parse_real fo (lex q)) as [s|z'| |]; try discriminate.
  - destruct s as [x0| | |]; try discriminate.
    unfold check_parsed. rewrite to_check_s_agrees. destruct (to_check_s x0) as [c|]; [|discriminate].
    destruct (Checker.check_stmt fo true c) as [c2|[p|p|]| |]; cbn [of_front stbind]; try discriminate.
    + destruct (Checker.check_stmt_calls c2) as [u|[p|p|]| |]; cbn [of_front stbind]; try discriminate.
      * destruct c2; discriminate.
      * intros H. injection H as <-. exists KCalls. split; [discriminate|reflexivity].
    + intros H. injection H as <-. exists KCheck. split; [discriminate|reflexivity].
  - intros H. injection H as <-.
    destruct (sres_is_err (StmtParser.parse_statement (lex q)) z'); eexists; (split; [|reflexivity]); discriminate.
Qed.

(* C03's text twin and C17's composite twin accept the same texts with the same trees: what
   plan_stmt_text plans, parse_check accepts -- the parser's statement, the checked fields, the
   checked WHERE tree, and whether buildFinalPlan builds an AggregatePlan *)
Theorem plan_stmt_text_parse_check q pl :
  plan_stmt_text q = STOk pl ->
  parse_check fo re fmt_v q =
  PCOk (StmtParser.StSelect (sp_select fo pl))
       (Checker.SSelect (sp_fields fo pl) (sp_where fo pl) (order_items (StmtParser.s_order (sp_select fo pl))))
       (match s_aggr (F fo) (q_stmt fo (sp_q fo pl)) with Some _ => true | None => false end).
Proof.
  unfold PipelineS.plan_stmt_text. intros H. apply stbind_ok in H. destruct H as ([[x fields] w] & Ef & H).
  cbn [fst snd] in H. rewrite (front_s_parse_check q x fields w Ef).
  unfold PipelineS.plan_of_front in H.
  destruct (limit_of (StmtParser.s_limit x)) as [limit|]; [|discriminate].
  destruct (fold_oom fo re fmt_v w || existsb (fun nf => fold_oom fo re fmt_v (snd nf)) fields) eqn:Eo; [discriminate|].
  apply orb_false_iff in Eo. destruct Eo as [_ Eo].
  unfold plan_stage, plan_oom, plan_check, fold_fields. rewrite Eo.
  change (fun nf : string * expr => (fst nf, FoldStmt.exec_tree fo re fmt_v (snd nf)))
    with (fun nf : string * expr => (fst nf, exec_of (snd nf))).
  destruct (plan_select x _) eqn:Ep; try discriminate.
  - injection H as <-. reflexivity.
  - apply stbind_ok in H. destruct H as (sp & Es & H). injection H as <-. reflexivity.
Qed.

(* ================================================================ 2. the glue *)

(* has buildFinalPlan built an AggregatePlan *)
Definition is_agg (pl : splanned fo) : bool :=
  match s_aggr (F fo) (q_stmt fo (sp_q fo pl)) with Some _ => true | None => false end.

(* everything an accepted text fixes about its plan: the parser's statement and the checker's
   trees; the WHERE tree the filter evaluates is the FOLDED checked tree; the scan node is the
   one of the region inferred from THAT tree; the projection evaluates the folded fields; names
   and types are those of the checked fields; ORDER BY items resolve to the FIRST field of their
   name; the shape is build_final_plan of (aggregate?, ORDER BY, LIMIT) *)
Theorem plan_stmt_text_inv q pl :
  plan_stmt_text q = STOk pl ->
  let x := sp_select fo pl in
  let fields := sp_fields fo pl in
  let c := sp_q fo pl in
  front_s q = STOk (x, fields, sp_where fo pl) /\
  q_where fo c = exec_of (sp_where fo pl) /\
  sp_scan fo pl = scan_of_region (FilterOpt.optimize (q_where fo c)) /\
  (is_agg pl = false -> q_fields fo c = if s_all x then None else Some (map (fun nf => exec_of (snd nf)) fields)) /\
  SelectPlans.s_names (F fo) (q_stmt fo c) = plan_names x fields /\
  SelectPlans.s_types (F fo) (q_stmt fo c) = plan_types x fields /\
  SelectPlans.s_order (F fo) (q_stmt fo c) = option_map (order_fields fields) (StmtParser.s_order x) /\
  limit_of (StmtParser.s_limit x) = Some (SelectPlans.s_limit (F fo) (q_stmt fo c)) /\
  sp_shape fo pl = build_final_plan (is_agg pl) (SelectPlans.s_order (F fo) (q_stmt fo c))
                                    (SelectPlans.s_limit (F fo) (q_stmt fo c)).
Proof.
  unfold PipelineS.plan_stmt_text. intros H. apply stbind_ok in H. destruct H as ([[x fields] w] & Ef & H).
  cbn [fst snd] in H. unfold PipelineS.plan_of_front in H.
  destruct (limit_of (StmtParser.s_limit x)) as [limit|] eqn:El; [|discriminate].
  destruct (_ || _); [discriminate|].
  destruct (plan_select x _) eqn:Ep; try discriminate.
  - injection H as <-. cbn. rewrite map_map. repeat split; try reflexivity; assumption.
  - apply stbind_ok in H. destruct H as (sp & Es & H). injection H as <-. cbn.
    repeat split; try reflexivity; try assumption. intros; discriminate.
Qed.

(* THE GLUE THEOREM.  If the text is accepted and the drain completes, the rows are those of
   run_shape_row / run_shape_batch (Model/SelectPlans.v, instantiated with the evaluator twins:
   select_shape_row / select_shape_batch) of the shape build_final_plan gives for the checked
   statement, over the slots the scan of the region inferred from the folded WHERE tree yields
   from the store -- and conversely. *)
Theorem select_stmt_text_is_shape_run q d m rows :
  select_stmt_text q d m = TOk rows <->
  exists pl,
    plan_stmt_text q = STOk pl /\
    let c := sp_q fo pl in
    let sh := build_final_plan (is_agg pl) (SelectPlans.s_order (F fo) (q_stmt fo c))
                               (SelectPlans.s_limit (F fo) (q_stmt fo c)) in
    let sl := scan_slots (scan_of_region (FilterOpt.optimize (q_where fo c))) d in
    match m with
    | MRow => shape_row c sh sl = Value.Ok rows
    | MBatch B => shape_batch B c sh sl = Value.Ok rows
    end.
Proof.
  unfold PipelineS.select_stmt_text, PipelineS.select_stmt_text_st. split.
  - intros H. apply to_tres_ok in H. apply stbind_ok in H. destruct H as (pl & Ep & H).
    apply of_drain_ok in H. exists pl. split; [exact Ep|].
    destruct (plan_stmt_text_inv q pl Ep) as (_ & _ & Es & _ & _ & _ & _ & _ & Esh).
    cbv zeta. rewrite <- Esh, <- Es. unfold drain_planned, PipelineS.run_mode in H. destruct m; exact H.
  - intros (pl & Ep & H). rewrite Ep. cbn [stbind].
    destruct (plan_stmt_text_inv q pl Ep) as (_ & _ & Es & _ & _ & _ & _ & _ & Esh).
    cbv zeta in H. rewrite <- Esh, <- Es in H. unfold drain_planned, PipelineS.run_mode.
    destruct m; rewrite H; reflexivity.
Qed.

(* the same in the vocabulary of the corollaries below *)
Lemma text_run q d m rows :
  select_stmt_text q d m = TOk rows ->
  exists pl, plan_stmt_text q = STOk pl /\
             run_mode m (sp_q fo pl) (sp_shape fo pl) (scan_slots (sp_scan fo pl) d) = Value.Ok rows.
Proof.
  unfold PipelineS.select_stmt_text, PipelineS.select_stmt_text_st. intros H.
  apply to_tres_ok in H. apply stbind_ok in H. destruct H as (pl & Ep & H). apply of_drain_ok in H. eauto.
Qed.

Lemma run_text q d m pl rows :
  plan_stmt_text q = STOk pl ->
  run_mode m (sp_q fo pl) (sp_shape fo pl) (scan_slots (sp_scan fo pl) d) = Value.Ok rows ->
  select_stmt_text q d m = TOk rows.
Proof.
  intros Ep H. unfold PipelineS.select_stmt_text, PipelineS.select_stmt_text_st, drain_planned.
  rewrite Ep. cbn [stbind]. rewrite H. reflexivity.
Qed.

(* ================================================================ 3. C03 at text level *)

(* a batch drain of the text that completes => the row drain completes with the same rows (up to
   string / []byte, which is all [nrows] removes), at every batch size.  Premise: no select field
   is a list literal (fields_ok, as in Properties/C03.v batch_row_agree_statement). *)
Theorem batch_row_agree_text q d B outs :
  1 <= B ->
  (forall pl, plan_stmt_text q = STOk pl -> fields_ok (q_fields fo (sp_q fo pl))) ->
  select_stmt_text q d (MBatch B) = TOk outs ->
  exists rows, select_stmt_text q d MRow = TOk rows /\ nrows rows = nrows outs.
Proof.
  intros HB Hok H. apply text_run in H. destruct H as (pl & Ep & H). cbn [PipelineS.run_mode] in H.
  destruct (select_shape_batch_row fo re ag pi pf B _ _ _ _ HB (Hok pl Ep) H) as (rows & Er & En).
  exists rows. split; [|exact En]. eapply run_text; [exact Ep | exact Er].
Qed.


(* ================================================================ 4. C08 at text level *)

(* the same plan without its LIMIT clause *)
Definition no_limit (c : cstmt fo) : cstmt fo :=
  let st := q_stmt fo c in
  CStmt fo (q_where fo c) (q_fields fo c) (q_group fo c) (q_keys fo c) (q_args fo c)
        (Stmt (F fo) (s_aggr (F fo) st) (SelectPlans.s_names (F fo) st) (SelectPlans.s_types (F fo) st)
              (SelectPlans.s_order (F fo) st) None).

Definition slice {X} (s n : nat) (l : list X) : list X := firstn n (skipn s l).

Lemma serves_proj {P R} (frow : P -> Value.res bool) (prow : P -> Value.res R) :
  forall fuel sl l, drain_row_fuel frow prow fuel sl = Value.Ok l -> serves _ _ (proj_next frow prow) sl l.
Proof.
  induction fuel as [|f IH]; intros sl l H; [discriminate|]. cbn [drain_row_fuel] in H.
  apply bind_ok' in H. destruct H as ([r rest'] & En & H). destruct r as [row|].
  - apply bind_ok' in H. destruct H as (out & Ed & H). injection H as <-.
    cbn [serves]. exists rest'. split; [exact En | apply IH; exact Ed].
  - injection H as <-. cbn [serves]. eauto.
Qed.

Lemma seq_opt_firstn {X} : forall (l : list (option X)) all k,
  Group.seq_opt l = Some all -> Group.seq_opt (firstn k l) = Some (firstn k all).
Proof.
  induction l as [|o l IH]; intros all k H; cbn [Group.seq_opt] in H.
  - injection H as <-. now rewrite !firstn_nil.
  - destruct o as [x|]; [|discriminate]. destruct (Group.seq_opt l) as [r|] eqn:E; [|discriminate].
    injection H as <-. destruct k as [|k]; [reflexivity|]. cbn [firstn Group.seq_opt].
    now rewrite (IH r k eq_refl).
Qed.

(* the order node over a child whose row drain completes with [rows]: as a pulled child it
   serves the sorted rows *)
Lemma order_node_serves {C} (crows : C -> Value.res (list Order.row)) (cdone : C) ords c rows :
  crows cdone = Value.Ok [] -> crows c = Value.Ok rows ->
  serves _ _ (onext C crows cdone pi pf ords) (Order.oinit, c)
         (sel_sort (Order.lessf pi pf ords) (List.length rows) rows).
Proof.
  intros Hdone Hc. apply holds_serves; [exact Hdone|]. cbn [holds_r]. split.
  - unfold OrderProofs.inv, Order.oinit. cbn. lia.
  - cbn. exists rows. split; [exact Hc | reflexivity].
Qed.

Lemma ord_limit_row_slice {C} (crows : C -> Value.res (list Order.row)) (cdone : C) ords s n c all :
  crows cdone = Value.Ok [] ->
  ord_row C crows pi pf ords c = Value.Ok all ->
  ord_limit_row C crows cdone pi pf ords s n c = Value.Ok (slice s n all).
Proof.
  intros Hdone H. unfold ord_row in H. apply bind_ok' in H. destruct H as (rows & Ec & H).
  apply of_pop_ok in H. rewrite OrderProofs.drain_row_eq in H. injection H as <-.
  unfold ord_limit_row. apply ldrain_row_serves. now apply order_node_serves.
Qed.

(* LIMIT s, n at text level, row mode: whenever the same plan WITHOUT the limit completes with
   [all], the statement returns rows s .. s+n-1 of [all] -- with the FinalLimitPlan on top of the
   projection or of the order node, and with the LIMIT pushed into the AggregatePlan.  (Not
   conversely: the limited plan reads its child lazily and completes also where a pair or a group
   beyond the limit fails.) *)
Theorem limit_text_slice q d pl s n all :
  plan_stmt_text q = STOk pl ->
  SelectPlans.s_limit (F fo) (q_stmt fo (sp_q fo pl)) = Some (s, n) ->
  shape_row (no_limit (sp_q fo pl)) (stmt_shape (F fo) (q_stmt fo (no_limit (sp_q fo pl))))
            (scan_slots (sp_scan fo pl) d) = Value.Ok all ->
  select_stmt_text q d MRow = TOk (slice s n all).
Proof.
  intros Ep El Hall. eapply run_text; [exact Ep|]. cbn [PipelineS.run_mode].
  unfold sp_shape. set (sl := scan_slots (sp_scan fo pl) d) in *.
  destruct (sp_q fo pl) as [wh fields gs ks args st]. cbn [q_stmt] in *.
  destruct st as [aggr names types order limit]. cbn [SelectPlans.s_limit] in El. subst limit.
  unfold no_limit in Hall. cbn [q_stmt q_where q_fields q_group q_keys q_args s_aggr SelectPlans.s_names
                               SelectPlans.s_types SelectPlans.s_order] in Hall.
  unfold stmt_shape in *. cbn [s_aggr SelectPlans.s_order SelectPlans.s_limit] in *.
  unfold select_shape_row in *.
  cbn [q_stmt q_where q_fields q_group q_keys q_args s_aggr SelectPlans.s_names SelectPlans.s_types
       SelectPlans.s_order SelectPlans.s_limit] in *.
  destruct aggr as [[a fs]|].
  - (* AggregatePlan *)
    destruct order as [os|]; cbn [build_final_plan negb] in *.
    + (* ORDER BY: FinalLimitPlan(FinalOrderPlan(AggregatePlan)) *)
      cbn [run_shape_row] in *. unfold with_ords in *. cbn [SelectPlans.s_names SelectPlans.s_types] in *.
      destruct (Order.init_orders os names types) as [ords|]; [|discriminate Hall].
      apply ord_limit_row_slice; [|exact Hall].
      apply agg_done_r.
    + (* no ORDER BY: the LIMIT is pushed into the AggregatePlan *)
      cbn [run_shape_row] in *. unfold agg_rows, agg_row, stmt_plan in *. cbn [s_aggr] in *.
      apply bind_ok' in Hall. destruct Hall as (rows & Hr & Hall). injection Hall as <-.
      apply bind_ok' in Hr. destruct Hr as (obs & Eo & Hr).
      change (sdrain_row (sel_frow fo re wh) (c_lobs_row fo re ag gs ks args (Group.Plan a fs s (Some n))) [] sl)
        with (sdrain_row (sel_frow fo re wh) (c_lobs_row fo re ag gs ks args (Group.Plan a fs 0 None)) [] sl).
      rewrite Eo. cbn [Value.bind]. rewrite lrun_row_spec in Hr |- *.
      unfold GroupLazy.spec_result_lazy in *. cbn [Group.pl_limit Group.pl_start] in *.
      unfold exec_res in Hr. 
      match type of Hr with match ?o with _ => _ end = _ => destruct o as [rr|] eqn:Es; [|discriminate] end.
      injection Hr as <-. unfold Group.spec_rows in Es.
      change (Group.spec_groups (render_eqb (f_fmt fo) (a_bits fo ag)) (Group.Plan a fs s (Some n)) obs)
        with (Group.spec_groups (render_eqb (f_fmt fo) (a_bits fo ag)) (Group.Plan a fs 0 None) obs).
      rewrite <- firstn_map.
      change (Group.spec_row (fadd fo) (fsub fo) (fmul fo) (fdiv fo) (fltb fo) (a_is0 fo ag) (f_of_Z fo) (a_to_Z fo ag)
                (f_fmt fo) (a_json_f fo ag) (a_parse fo ag) Aggregate.parse_int (a_json_s fo ag) (Group.Plan a fs s (Some n)))
        with (Group.spec_row (fadd fo) (fsub fo) (fmul fo) (fdiv fo) (fltb fo) (a_is0 fo ag) (f_of_Z fo) (a_to_Z fo ag)
                (f_fmt fo) (a_json_f fo ag) (a_parse fo ag) Aggregate.parse_int (a_json_s fo ag) (Group.Plan a fs 0 None)).
      rewrite (seq_opt_firstn _ _ (s + n) Es). cbn [exec_res Value.bind].
      unfold slice. rewrite firstn_skipn_swap. now rewrite skipn_map, firstn_map.
  - (* ProjectionPlan *)
    cbn [build_final_plan negb] in *.
    assert (Hproj : forall allp, run_shape_row kvpair (sel_frow fo re wh) (c_prow fo re ag fields) (F fo) (fadd fo) (fsub fo)
                 (fmul fo) (fdiv fo) (fltb fo) (a_is0 fo ag) (f_of_Z fo) (a_to_Z fo ag) (f_fmt fo) (a_bits fo ag)
                 (a_json_f fo ag) (a_parse fo ag) (a_json_s fo ag) seen [] (c_lobs_row fo re ag gs ks args)
                 (aconv_row fo (a_fbits fo ag)) pi pf (Stmt (F fo) None names types order None) SProj sl = Value.Ok allp ->
               run_shape_row kvpair (sel_frow fo re wh) (c_prow fo re ag fields) (F fo) (fadd fo) (fsub fo)
                 (fmul fo) (fdiv fo) (fltb fo) (a_is0 fo ag) (f_of_Z fo) (a_to_Z fo ag) (f_fmt fo) (a_bits fo ag)
                 (a_json_f fo ag) (a_parse fo ag) (a_json_s fo ag) seen [] (c_lobs_row fo re ag gs ks args)
                 (aconv_row fo (a_fbits fo ag)) pi pf (Stmt (F fo) None names types order (Some (s, n))) (SLimit s n SProj) sl
               = Value.Ok (slice s n allp)).
    { intros allp Hp. cbn [run_shape_row] in *. unfold proj_rows, drain_row in Hp.
      apply ldrain_row_serves. eapply serves_proj; exact Hp. }
    destruct order as [os|].
    + destruct (Order.build_final_order_plan Order.FChild false os) as [|os' ch'] eqn:Eb.
      * apply Hproj. exact Hall.
      * cbn [run_shape_row] in *. unfold with_ords in *. cbn [SelectPlans.s_names SelectPlans.s_types] in *.
        destruct (Order.init_orders os' names types) as [ords|]; [|discriminate Hall].
        apply ord_limit_row_slice; [reflexivity | exact Hall].
    + apply Hproj. exact Hall.
Qed.


(* batch mode: a limited batch drain that completes returns, up to string / []byte, the same slice
   of the unlimited row drain (through batch_row_agree_text) *)
Theorem limit_text_slice_batch q d pl B s n all outs :
  1 <= B ->
  plan_stmt_text q = STOk pl ->
  fields_ok (q_fields fo (sp_q fo pl)) ->
  SelectPlans.s_limit (F fo) (q_stmt fo (sp_q fo pl)) = Some (s, n) ->
  shape_row (no_limit (sp_q fo pl)) (stmt_shape (F fo) (q_stmt fo (no_limit (sp_q fo pl))))
            (scan_slots (sp_scan fo pl) d) = Value.Ok all ->
  select_stmt_text q d (MBatch B) = TOk outs ->
  nrows outs = nrows (slice s n all).
Proof.
  intros HB Ep Hok El Hall H.
  destruct (batch_row_agree_text q d B outs HB) as (rows & Er & En); [|exact H|].
  - intros pl' Ep'. rewrite Ep in Ep'. injection Ep' as <-. exact Hok.
  - rewrite (limit_text_slice q d pl s n all Ep El Hall) in Er. injection Er as <-. now symmetry.
Qed.

(* ================================================================ 5. C07 at text level *)

(* the rows the node under the order / limit nodes delivers *)
Definition child_shape (sh : shape) : shape :=
  match sh with
  | SOrder _ ch => ch
  | SLimit _ _ (SOrder _ ch) => ch
  | _ => sh
  end.

Lemma shape_row_order_inv c os ch sl out :
  (ch = SProj \/ ch = SAgg 0 None) ->
  shape_row c (SOrder os ch) sl = Value.Ok out ->
  exists ords rows,
    Order.init_orders os (SelectPlans.s_names (F fo) (q_stmt fo c)) (SelectPlans.s_types (F fo) (q_stmt fo c)) = Some ords /\
    shape_row c ch sl = Value.Ok rows /\
    Order.drain_row pi pf ords rows = Some out.
Proof.
  intros Hch H. unfold select_shape_row in *.
  destruct Hch as [-> | ->]; cbn [run_shape_row] in *; unfold with_ords in *;
    destruct (Order.init_orders os _ _) as [ords|]; try discriminate H;
    unfold ord_row in H; apply bind_ok' in H; destruct H as (rows & Ec & H); apply of_pop_ok in H;
    exists ords, rows; repeat split; assumption.
Qed.

(* ORDER BY at text level (no LIMIT on top), row mode: the rows are a permutation of the rows the
   same plan delivers without its order node -- the projection, or the AggregatePlan -- and they
   are sorted under the requested keys (Spec/OrderSpec.v spec_le over the resolved fields: the
   FIRST field of each name, its declared type, DESC flag) whenever the sort columns are
   homogeneous (Properties/C07.v). *)
Theorem order_by_text_sorted_permutation q d pl os ch out :
  plan_stmt_text q = STOk pl ->
  sp_shape fo pl = SOrder os ch ->
  select_stmt_text q d MRow = TOk out ->
  exists ords rows,
    Order.init_orders os (SelectPlans.s_names (F fo) (q_stmt fo (sp_q fo pl)))
                         (SelectPlans.s_types (F fo) (q_stmt fo (sp_q fo pl))) = Some ords /\
    shape_row (sp_q fo pl) ch (scan_slots (sp_scan fo pl) d) = Value.Ok rows /\
    Permutation out rows /\
    (OrderSpec.homogeneous ords rows = true -> StronglySorted (OrderSpec.spec_le ords) out).
Proof.
  intros Ep Esh H. apply text_run in H. destruct H as (pl' & Ep' & H).
  rewrite Ep in Ep'. injection Ep' as <-. cbn [PipelineS.run_mode] in H. rewrite Esh in H.
  assert (Hch : ch = SProj \/ ch = SAgg 0 None).
  { destruct (plan_stmt_text_inv q pl Ep) as (_ & _ & _ & _ & _ & _ & _ & _ & Eb). rewrite Esh in Eb.
    unfold build_final_plan in Eb. destruct (is_agg pl); cbn [negb] in Eb.
    - destruct (SelectPlans.s_limit (F fo) _) as [[s n]|], (SelectPlans.s_order (F fo) _) as [os0|];
        try discriminate Eb; injection Eb as _ <-; auto.
    - destruct (SelectPlans.s_order (F fo) _) as [os0|].
      + destruct (Order.build_final_order_plan Order.FChild false os0);
          destruct (SelectPlans.s_limit (F fo) _) as [[s n]|]; try discriminate Eb. injection Eb as _ <-; auto.
      + destruct (SelectPlans.s_limit (F fo) _) as [[s n]|]; discriminate Eb. }
  destruct (shape_row_order_inv _ os ch _ out Hch H) as (ords & rows & Ei & Ec & Ed).
  destruct (drain_row_sorted_perm pi pf ords rows) as (out' & Ed' & Hp & Hs).
  rewrite Ed in Ed'. injection Ed' as <-. exists ords, rows. repeat split; assumption.
Qed.

(* ORDER BY ... LIMIT s, n at text level, row mode: whenever the node under the order node
   completes with [rows], the statement returns rows s .. s+n-1 of a sorted permutation of [rows] *)
Theorem order_by_limit_text_sorted_slice q d pl os ch s n ords rows :
  plan_stmt_text q = STOk pl ->
  sp_shape fo pl = SLimit s n (SOrder os ch) ->
  Order.init_orders os (SelectPlans.s_names (F fo) (q_stmt fo (sp_q fo pl)))
                       (SelectPlans.s_types (F fo) (q_stmt fo (sp_q fo pl))) = Some ords ->
  shape_row (sp_q fo pl) ch (scan_slots (sp_scan fo pl) d) = Value.Ok rows ->
  exists sorted,
    select_stmt_text q d MRow = TOk (slice s n sorted) /\
    Permutation sorted rows /\
    (OrderSpec.homogeneous ords rows = true -> StronglySorted (OrderSpec.spec_le ords) sorted).
Proof.
  intros Ep Esh Ei Hc.
  destruct (drain_row_sorted_perm pi pf ords rows) as (sorted & Ed & Hp & Hs).
  exists sorted. split; [|split; assumption].
  eapply run_text; [exact Ep|]. cbn [PipelineS.run_mode]. rewrite Esh.
  assert (Hch : ch = SProj \/ ch = SAgg 0 None).
  { destruct (plan_stmt_text_inv q pl Ep) as (_ & _ & _ & _ & _ & _ & _ & _ & Eb). rewrite Esh in Eb.
    unfold build_final_plan in Eb. destruct (is_agg pl); cbn [negb] in Eb.
    - destruct (SelectPlans.s_limit (F fo) _) as [[s0 n0]|], (SelectPlans.s_order (F fo) _) as [os0|];
        try discriminate Eb; injection Eb as _ _ _ <-; auto.
    - destruct (SelectPlans.s_order (F fo) _) as [os0|].
      + destruct (Order.build_final_order_plan Order.FChild false os0);
          destruct (SelectPlans.s_limit (F fo) _) as [[s0 n0]|]; try discriminate Eb. injection Eb as _ _ _ <-; auto.
      + destruct (SelectPlans.s_limit (F fo) _) as [[s0 n0]|]; discriminate Eb. }
  unfold select_shape_row in *.
  destruct Hch as [-> | ->]; cbn [run_shape_row] in *; unfold with_ords; rewrite Ei.
  - apply ord_limit_row_slice; [reflexivity|]. unfold ord_row. rewrite Hc. cbn [Value.bind]. now rewrite Ed.
  - apply ord_limit_row_slice.
    + unfold stmt_plan. destruct (s_aggr (F fo) _) as [[a fs]|]; apply agg_done_r.
    + unfold ord_row. rewrite Hc. cbn [Value.bind]. now rewrite Ed.
Qed.

(* `order by key asc` alone over a projection: buildFinalOrderPlan builds no order node -- the
   plan is the plan of the same text without the ORDER BY clause (the rows are then in the scan's
   key order: C01 / Properties/C07.v order_key_asc_keeps_natural_order) *)
Theorem order_by_key_asc_text_elided q pl name p :
  plan_stmt_text q = STOk pl ->
  is_agg pl = false ->
  SelectPlans.s_order (F fo) (q_stmt fo (sp_q fo pl)) = Some [Order.OrderField name (EField p KeyKW) false] ->
  sp_shape fo pl = build_final_plan false None (SelectPlans.s_limit (F fo) (q_stmt fo (sp_q fo pl))).
Proof.
  intros Ep Ha Eo. destruct (plan_stmt_text_inv q pl Ep) as (_ & _ & _ & _ & _ & _ & _ & _ & Eb).
  rewrite Eb, Ha, Eo. reflexivity.
Qed.


(* ================================================================ 6. C09 at text level *)

(* the AggregatePlan node of an accepted text (on its own: shape SAgg st l with the LIMIT pushed
   into it; or under an order node: SAgg 0 None), row mode: its rows are EXACTLY the lazy reference
   result Spec/GroupLazy.v spec_result_lazy -- partition of the observed pairs by equality of
   their GROUP BY value tuples, groups in first-occurrence order, each aggregate the fold of
   Spec/Group.v over the group's members, the LIMIT slice, failing iff one of the groups the
   LIMIT reaches is undefined -- of the plan's fields over the observations the node makes on
   the pairs of the scan that pass the WHERE clause (Model/AggregateLazy.v sdrain_row with
   SelectPlans.c_lobs_row: the GROUP BY expressions, the key fields and the aggregate arguments
   of the CHECKED AND FOLDED statement evaluated by the evaluator twin), rendered column by
   column (aconv_row). *)
Theorem aggregate_node_result (c : cstmt fo) st l sl out :
  let p := stmt_plan (F fo) (q_stmt fo c) st l in
  shape_row c (SAgg st l) sl = Value.Ok out <->
  exists obs rows,
    sdrain_row (sel_frow fo re (q_where fo c))
               (c_lobs_row fo re ag (q_group fo c) (q_keys fo c) (q_args fo c) p) [] sl = Value.Ok obs /\
    GroupLazy.spec_result_lazy (fadd fo) (fsub fo) (fmul fo) (fdiv fo) (fltb fo) (a_is0 fo ag) (f_of_Z fo)
      (a_to_Z fo ag) (f_fmt fo) (a_json_f fo ag) (a_parse fo ag) Aggregate.parse_int (a_json_s fo ag)
      (render_eqb (f_fmt fo) (a_bits fo ag)) p obs = Some rows /\
    out = map (aconv_row fo (a_fbits fo ag)) rows.
Proof.
  cbv zeta. unfold select_shape_row. cbn [run_shape_row]. unfold agg_rows, agg_row. split.
  - intros H. apply bind_ok' in H. destruct H as (rows & Hr & H). injection H as <-.
    apply bind_ok' in Hr. destruct Hr as (obs & Eo & Hr). rewrite lrun_row_spec in Hr.
    exists obs, rows. split; [exact Eo|]. split; [|reflexivity].
    unfold exec_res in Hr. destruct (GroupLazy.spec_result_lazy _ _ _ _ _ _ _ _ _ _ _ _ _ _ _ _) as [r|];
      [injection Hr as <-; reflexivity | discriminate Hr].
  - intros (obs & rows & Eo & Es & ->). rewrite Eo. cbn [Value.bind]. rewrite lrun_row_spec, Es. reflexivity.
Qed.

Theorem aggregate_text_result q d pl st l out :
  plan_stmt_text q = STOk pl ->
  sp_shape fo pl = SAgg st l ->
  select_stmt_text q d MRow = TOk out ->
  let c := sp_q fo pl in
  let p := stmt_plan (F fo) (q_stmt fo c) st l in
  exists obs rows,
    sdrain_row (sel_frow fo re (q_where fo c))
               (c_lobs_row fo re ag (q_group fo c) (q_keys fo c) (q_args fo c) p) []
               (scan_slots (sp_scan fo pl) d) = Value.Ok obs /\
    GroupLazy.spec_result_lazy (fadd fo) (fsub fo) (fmul fo) (fdiv fo) (fltb fo) (a_is0 fo ag) (f_of_Z fo)
      (a_to_Z fo ag) (f_fmt fo) (a_json_f fo ag) (a_parse fo ag) Aggregate.parse_int (a_json_s fo ag)
      (render_eqb (f_fmt fo) (a_bits fo ag)) p obs = Some rows /\
    out = map (aconv_row fo (a_fbits fo ag)) rows.
Proof.
  intros Ep Esh H. apply text_run in H. destruct H as (pl' & Ep' & H).
  rewrite Ep in Ep'. injection Ep' as <-. cbn [PipelineS.run_mode] in H. rewrite Esh in H.
  cbv zeta. now apply aggregate_node_result.
Qed.

(* ================================================================ 7. the projection *)

Lemma row_list_inv {P R} (frow : P -> Value.res bool) (prow : P -> Value.res R) : forall l out,
  row_list P R frow prow l = Value.Ok out ->
  Forall (fun kv => exists b, frow kv = Value.Ok b) l /\
  Forall2 (fun kv row => prow kv = Value.Ok row)
          (filter (fun kv => match frow kv with Value.Ok true => true | _ => false end) l) out.
Proof.
  induction l as [|kv l IH]; intros out H; cbn [row_list] in H.
  - injection H as <-. split; constructor.
  - apply bind_ok' in H. destruct H as (b & Ef & H). cbn [filter]. rewrite Ef. destruct b.
    + apply bind_ok' in H. destruct H as (row & Epr & H). apply bind_ok' in H. destruct H as (o & Eo & H).
      injection H as <-. destruct (IH o Eo) as (I1 & I2). split; constructor; eauto.
    + destruct (IH out H) as (I1 & I2). split; [constructor; eauto | exact I2].
Qed.

Lemma Forall2_imp {X Y} (P Q : X -> Y -> Prop) l l' :
  (forall a b, P a b -> Q a b) -> Forall2 P l l' -> Forall2 Q l l'.
Proof. intros HPQ H. induction H; constructor; auto. Qed.

Lemma project_row_values kv : forall fs vs,
  project_row fo re fs kv = Value.Ok vs ->
  Forall2 (fun f v => eval fo re (fst kv) (snd kv) f = Value.Ok v) fs vs.
Proof.
  induction fs as [|f fs IH]; intros vs H; cbn [project_row] in H.
  - injection H as <-. constructor.
  - apply bind_ok' in H. destruct H as (v & Ev & H).
    destruct v; try discriminate H;
      (apply bind_ok' in H; destruct H as (vs' & Ep & H); injection H as <-; constructor; [exact Ev | now apply IH]).
Qed.

(* a row of the projection: every column is the value of its field's expression -- the CHECKED AND
   FOLDED field, evaluated by the evaluator twin -- on the pair of that row, rendered (conv_val);
   for `*` the row is the pair *)
Definition row_of_fields (fields : option (list expr)) (kv : kvpair) (row : Order.row) : Prop :=
  match fields with
  | None => row = [Order.VBytes (fst kv); Order.VBytes (snd kv)]
  | Some fs => Forall2 (fun f col => exists v, eval fo re (fst kv) (snd kv) f = Value.Ok v /\
                                               col = conv_val fo (a_fbits fo ag) v) fs row
  end.

(* SELECT fields WHERE P from the text (no aggregate, no ORDER BY node, no LIMIT), row mode: the
   WHERE clause evaluates on every pair the scan yields, and the rows are, in scan order, one row
   per pair on which it is true, each column the value of its field on that pair *)
Theorem select_fields_text_values q d pl out :
  plan_stmt_text q = STOk pl ->
  sp_shape fo pl = SProj ->
  select_stmt_text q d MRow = TOk out ->
  let c := sp_q fo pl in
  let pairs := somes (scan_slots (sp_scan fo pl) d) in
  Forall (fun kv => exists b, filter_row fo re (fst kv) (snd kv) (q_where fo c) = Value.Ok b) pairs /\
  Forall2 (row_of_fields (q_fields fo c))
          (filter (fun kv => match filter_row fo re (fst kv) (snd kv) (q_where fo c) with
                             | Value.Ok true => true | _ => false end) pairs) out.
Proof.
  intros Ep Esh H. apply text_run in H. destruct H as (pl' & Ep' & H).
  rewrite Ep in Ep'. injection Ep' as <-. cbn [PipelineS.run_mode] in H. rewrite Esh in H.
  unfold select_shape_row in H. cbn [run_shape_row] in H. unfold proj_rows in H.
  rewrite drain_row_spec in H. apply row_list_inv in H. destruct H as (H1 & H2). cbv zeta.
  split; [exact H1|]. unfold sel_frow in H2.
  eapply Forall2_imp; [|exact H2]. intros kv row Hr. cbv beta in Hr. unfold c_prow in Hr.
  apply bind_ok' in Hr. destruct Hr as (vs & Ev & Hr). injection Hr as <-.
  unfold row_of_fields. destruct (q_fields fo (sp_q fo pl)) as [fs|]; cbn [sel_prow] in Ev.
  - apply project_row_values in Ev. unfold conv_row. clear -Ev.
    induction Ev; cbn [map]; constructor; eauto.
  - unfold star_row in Ev. injection Ev as <-. reflexivity.
Qed.

End Text.
