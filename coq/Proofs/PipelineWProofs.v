(* Proofs/PipelineWProofs.v -- the WRITE statements from the QUERY TEXT (C12, C11): the layers
   proved one by one are composed along Model/PipelineW.v (the twin of optimizer.go BuildPlan for
   PUT / REMOVE / DELETE):

     parse       the statement is what the parser twin returns                      (parsed_text)
     check       without field names the checker returns every tree unchanged       (CheckerProofs.check_nil_id)
                 and establishes the typing facts the folder needs                  (PipelineProofs.check_fold_wt)
     PUT/REMOVE  nothing is folded; PutPlan / RemovePlan over the evaluator twin    (WriteProofs: put_effect_lemma,
                 remove_effect_lemma, put_once_lemma, remove_once_lemma, polls_idempotent,
                 put_all_or_nothing_lemma, remove_all_or_nothing_lemma)
     DELETE      fold: the folded tree filters like the parsed one                  (FoldProofs.fold_preserves_filter)
                 region (from the FOLDED tree) covers what the folded tree accepts  (PipelineProofs.filter_true_covered)
                 the RemovePlan shortcut is only taken when the folded filter is "the key is listed"
                                                                                    (ShortcutProofs.optimize_mget_exact, PipelineProofs.psem_of_eval)
                 scan-and-delete under LIMIT deletes what SELECT returns            (DeleteProofs.delete_exact_lemma, C08's slice
                                                                                     inside ScanSemProofs.Rsel)
                 reference: the evaluator twin refines Spec/Sem.v                   (SemProofs.filter_refines_sem) *)
From Coq Require Import List String Ascii ZArith Bool Arith Lia.
Import ListNotations.
From KV Require Import Base.Bytes Base.Num Base.Ord Model.Token Model.Ast Model.Value Model.Eval
                       Model.Lexer Model.ExprParser Model.StmtParser Model.Checker Model.ParseCheck Model.Fold
                       Model.FilterOpt Model.Storage Model.Write Model.ScanIO Model.ScanSem Model.Delete
                       Model.Pipeline Model.PipelineW
                       Spec.Sem Spec.KeySem Proofs.AstInd Proofs.SemProofs Proofs.FilterOptProofs
                       Proofs.LinkProofs Proofs.CheckerProofs Proofs.TypeSafetyProofs Proofs.FoldProofs
                       Proofs.StorageProofs Proofs.WriteProofs Proofs.ScanSemProofs Proofs.ShortcutProofs
                       Proofs.SelectStarProofs Proofs.DeleteProofs Proofs.PipelineProofs.
Local Open Scope string_scope.
Local Open Scope list_scope.

(* ================================================================== the checker on statements
   without field names returns them unchanged *)
Section CheckId.
Variable fo : fops.

Lemma check_pairs_id : forall prs p2, check_pairs fo true prs = Value.Ok p2 -> p2 = prs.
Proof.
  induction prs as [|[k v] prs IH]; intros p2 H; cbn [check_pairs] in H.
  - inversion H; reflexivity.
  - inv_bind H as kv2 Hkv H. inv_bind H as l2 Hl2 H. inversion H; subst p2. clear H.
    unfold check_pair in Hkv. cbn [fst snd] in Hkv.
    inv_bind Hkv as k2 Hk2 Hkv. inv_bind Hkv as u1 Hu1 Hkv. inv_bind Hkv as v2 Hv2 Hkv. inv_bind Hkv as u2 Hu2 Hkv.
    inversion Hkv; subst kv2. clear Hkv.
    rewrite (check_nil_id fo _ _ _ _ Hk2), (check_nil_id fo _ _ _ _ Hv2), (IH _ Hl2). reflexivity.
Qed.

Lemma check_keys_id : forall ks k2, check_keys fo true ks = Value.Ok k2 -> k2 = ks.
Proof.
  induction ks as [|k ks IH]; intros k2 H; cbn [check_keys] in H.
  - inversion H; reflexivity.
  - inv_bind H as u Hu H. inv_bind H as k1 Hk1 H. inv_bind H as l2 Hl2 H. inversion H; subst k2. clear H.
    rewrite (check_nil_id fo _ _ _ _ Hk1), (IH _ Hl2). reflexivity.
Qed.

Lemma build_check_put prs c2 : build_check fo true (Checker.SPut prs) = Value.Ok c2 -> c2 = Checker.SPut prs.
Proof.
  unfold build_check. intros H. inv_bind H as s2 Hs2 H. inv_bind H as u Hu H. inversion H; subst c2. clear H.
  cbn [check_stmt] in Hs2. inv_bind Hs2 as p2 Hp2 Hs2. inversion Hs2; subst s2.
  rewrite (check_pairs_id _ _ Hp2). reflexivity.
Qed.

Lemma build_check_remove ks c2 : build_check fo true (Checker.SRemove ks) = Value.Ok c2 -> c2 = Checker.SRemove ks.
Proof.
  unfold build_check. intros H. inv_bind H as s2 Hs2 H. inv_bind H as u Hu H. inversion H; subst c2. clear H.
  cbn [check_stmt] in Hs2. inv_bind Hs2 as p2 Hp2 Hs2. inversion Hs2; subst s2.
  rewrite (check_keys_id _ _ Hp2). reflexivity.
Qed.

(* DELETE: the checked WHERE tree is the parsed one, it is well typed for the folder *)
Lemma build_check_delete w c2 :
  build_check fo true (Checker.SDelete w) = Value.Ok c2 -> c2 = Checker.SDelete w /\ Fold.wt w = true.
Proof.
  unfold build_check. intros H. inv_bind H as s2 Hs2 H. inv_bind H as u Hu H. inversion H; subst c2. clear H.
  cbn [check_stmt] in Hs2. inv_bind Hs2 as w2 Hw2 Hs2. inv_bind Hs2 as u2 Hu2 Hs2. inversion Hs2; subst s2.
  pose proof (check_fold_wt fo (Cctx [] false false) w w2 Hw2) as Hwt. cbn [c_names] in Hwt. rewrite rw_nil in Hwt.
  rewrite (check_nil_id fo _ _ _ _ Hw2) in *. auto.
Qed.

End CheckId.

(* ================================================================== PUT / REMOVE from the text *)
Section WriteText.
Variable fo : fops.
Variable re_match : bytes -> bytes -> Value.res bool.

Notation ev := (ev_expr fo re_match).
Notation write_text := (write_text fo re_match).
Notation write_plan_text := (write_plan_text fo re_match).

(* the plan BuildPlan returns for a text the parser reads as a PUT carries the PARSED pairs *)
Lemma write_plan_put q p prs pl :
  parsed_text fo is_write_kind q = TOk (StmtParser.StPut p prs) -> write_plan_text q = TOk pl -> pl = WPut prs.
Proof.
  intros Hp H. unfold PipelineW.write_plan_text, front in H. rewrite Hp in H. cbn [tbind to_check] in H.
  destruct (build_check fo true (Checker.SPut prs)) as [c2|[]| |] eqn:Hb; cbn [of_check tbind] in H; try discriminate H.
  rewrite (build_check_put fo _ _ Hb) in H. cbn [snd wplan_of] in H.
  destruct (plan_stat fo re_match (WPut prs)); inversion H; reflexivity.
Qed.

Lemma write_plan_remove q p ks pl :
  parsed_text fo is_write_kind q = TOk (StmtParser.StRemove p ks) -> write_plan_text q = TOk pl -> pl = WRemove ks.
Proof.
  intros Hp H. unfold PipelineW.write_plan_text, front in H. rewrite Hp in H. cbn [tbind to_check] in H.
  destruct (build_check fo true (Checker.SRemove ks)) as [c2|[]| |] eqn:Hb; cbn [of_check tbind] in H; try discriminate H.
  rewrite (build_check_remove fo _ _ Hb) in H. cbn [snd wplan_of] in H.
  destruct (plan_stat fo re_match (WRemove ks)); inversion H; reflexivity.
Qed.

(* an accepted text ran the plan BuildPlan returned *)
Lemma write_text_ok_inv q polls s out s' :
  write_text q polls s = (TOk out, s') ->
  exists pl, write_plan_text q = TOk pl /\ wexec ev pl polls s = (out, s').
Proof.
  unfold PipelineW.write_text. destruct (write_plan_text q) as [pl| | | | |]; cbn [tcast]; intros H; try discriminate H.
  exists pl. split; [reflexivity|]. injection H as <- <-. apply surjective_pairing.
Qed.

(* nothing is touched when the text is not accepted (rejected, or outside the model) *)
Theorem write_text_not_accepted_untouched_lemma q polls s r s' :
  write_text q polls s = (r, s') -> (forall out, r <> TOk out) -> s' = s.
Proof.
  unfold PipelineW.write_text. destruct (write_plan_text q) as [pl| | | | |]; cbn [tcast]; intros H Hr;
    injection H as <- <-; try reflexivity.
  exfalso. exact (Hr _ eq_refl).
Qed.

(* a plan that is never polled writes nothing *)
Theorem write_text_unpolled_lemma q s r s' : write_text q [] s = (r, s') -> s' = s.
Proof.
  unfold PipelineW.write_text. destruct (write_plan_text q) as [pl| | | | |]; cbn [tcast]; intros H;
    injection H as <- <-; reflexivity.
Qed.

(* exactly once, whatever is polled after the first poll, from any storage state *)
Theorem write_text_exactly_once_lemma q p polls s out s' :
  write_text q (p :: polls) s = (TOk out, s') ->
  exists out1, write_text q [p] s = (TOk out1, s') /\ out = out1 ++ idle (List.length polls).
Proof.
  intros H. destruct (write_text_ok_inv _ _ _ _ _ H) as (pl & Hpl & Hx).
  rewrite (polls_idempotent ev pl p polls s) in Hx. injection Hx as <- <-.
  exists (fst (wexec ev pl [p] s)). split; [|reflexivity].
  unfold PipelineW.write_text. rewrite Hpl. reflexivity.
Qed.

(* PUT *)
Theorem put_text_effect_lemma q p prs kvs poll polls st out s' :
  parsed_text fo is_write_kind q = TOk (StmtParser.StPut p prs) ->
  pairs_eval ev prs kvs ->
  write_text q (poll :: polls) (sinit st None) = (TOk out, s') ->
  sdata s' = fold_left (fun s kv => sput (fst kv) (snd kv) s) kvs st
  /\ (forall k, sget k (sdata s') = last_binding k kvs (sget k st))
  /\ (ssorted st -> ssorted (sdata s'))
  /\ out = (Some (List.length kvs), None) :: idle (List.length polls)
  /\ slog s' = put_call kvs.
Proof.
  intros Hp He H. destruct (write_text_ok_inv _ _ _ _ _ H) as (pl & Hpl & Hx).
  rewrite (write_plan_put _ _ _ _ Hp Hpl) in Hx.
  pose proof (put_effect_lemma poll polls st He) as Heff. cbv zeta in Heff. rewrite Hx in Heff.
  cbn [fst snd] in Heff. destruct Heff as (E1 & E2 & E3 & E4).
  pose proof (put_once_lemma poll polls (sinit st None) He) as [Hlog _]. rewrite Hx in Hlog.
  cbn [snd sinit slog app] in Hlog. auto.
Qed.

Theorem put_text_all_or_nothing_lemma q p prs poll polls s out s' :
  parsed_text fo is_write_kind q = TOk (StmtParser.StPut p prs) ->
  Exists (pair_fails ev) prs ->
  write_text q (poll :: polls) s = (TOk out, s') ->
  s' = s /\ exists e, out = (Some 0, Some e) :: idle (List.length polls).
Proof.
  intros Hp He H. destruct (write_text_ok_inv _ _ _ _ _ H) as (pl & Hpl & Hx).
  rewrite (write_plan_put _ _ _ _ Hp Hpl) in Hx.
  destruct (put_all_or_nothing_lemma poll polls s He) as [e Hall]. rewrite Hall in Hx.
  injection Hx as <- <-. eauto.
Qed.

(* REMOVE *)
Theorem remove_text_effect_lemma q p ks keys poll polls st out s' :
  parsed_text fo is_write_kind q = TOk (StmtParser.StRemove p ks) ->
  keys_eval ev ks keys ->
  write_text q (poll :: polls) (sinit st None) = (TOk out, s') ->
  sdata s' = fold_left (fun s k => sdel k s) keys st
  /\ (forall k, sget k (sdata s') = if existsb (String.eqb k) keys then None else sget k st)
  /\ (ssorted st -> ssorted (sdata s'))
  /\ out = (Some (List.length keys), None) :: idle (List.length polls)
  /\ slog s' = remove_call keys.
Proof.
  intros Hp He H. destruct (write_text_ok_inv _ _ _ _ _ H) as (pl & Hpl & Hx).
  rewrite (write_plan_remove _ _ _ _ Hp Hpl) in Hx.
  pose proof (remove_effect_lemma poll polls st He) as Heff. cbv zeta in Heff. rewrite Hx in Heff.
  cbn [fst snd] in Heff. destruct Heff as (E1 & E2 & E3 & E4).
  pose proof (remove_once_lemma poll polls (sinit st None) He) as [Hlog _]. rewrite Hx in Hlog.
  cbn [snd sinit slog app] in Hlog. auto.
Qed.

Theorem remove_text_all_or_nothing_lemma q p ks poll polls s out s' :
  parsed_text fo is_write_kind q = TOk (StmtParser.StRemove p ks) ->
  Exists (key_fails ev) ks ->
  write_text q (poll :: polls) s = (TOk out, s') ->
  s' = s /\ exists e, out = (Some 0, Some e) :: idle (List.length polls).
Proof.
  intros Hp He H. destruct (write_text_ok_inv _ _ _ _ _ H) as (pl & Hpl & Hx).
  rewrite (write_plan_remove _ _ _ _ Hp Hpl) in Hx.
  destruct (remove_all_or_nothing_lemma poll polls s He) as [e Hall]. rewrite Hall in Hx.
  injection Hx as <- <-. eauto.
Qed.

(* an accepted text is a PUT or a REMOVE of the parser twin *)
Theorem write_text_accepted_is_write_lemma q polls s out s' :
  write_text q polls s = (TOk out, s') ->
  (exists p prs, parsed_text fo is_write_kind q = TOk (StmtParser.StPut p prs)) \/
  (exists p ks, parsed_text fo is_write_kind q = TOk (StmtParser.StRemove p ks)).
Proof.
  intros H. destruct (write_text_ok_inv _ _ _ _ _ H) as (pl & Hpl & _).
  unfold PipelineW.write_plan_text, front in Hpl.
  destruct (parsed_text fo is_write_kind q) as [st| | | | |]; cbn [tbind] in Hpl; try discriminate Hpl.
  destruct st as [x|p prs|p ks|p wp w lim]; [|eauto|eauto|].
  - cbn [to_check] in Hpl.
    destruct (negb _); [discriminate Hpl|].
    destruct (build_check fo true _) as [c2|[]| |] eqn:Hb; cbn [of_check tbind] in Hpl; try discriminate Hpl.
    unfold build_check in Hb. inv_bind Hb as s2 Hs2 Hb. inv_bind Hb as u Hu Hb. inversion Hb; subst c2.
    cbn [check_stmt] in Hs2. unfold check_select in Hs2. cbv zeta in Hs2.
    inv_bind Hs2 as u0 Hu0 Hs2. inv_bind Hs2 as w1 Hw1 Hs2. inv_bind Hs2 as u1 Hu1 Hs2. inv_bind Hs2 as f2 Hf2 Hs2.
    inversion Hs2; subst s2. cbn [snd wplan_of] in Hpl. discriminate Hpl.
  - cbn [to_check] in Hpl.
    destruct (build_check fo true _) as [c2|[]| |] eqn:Hb; cbn [of_check tbind] in Hpl; try discriminate Hpl.
    destruct (build_check_delete fo _ _ Hb) as [-> _]. cbn [snd wplan_of] in Hpl. discriminate Hpl.
Qed.

End WriteText.

(* ================================================================== DELETE from the text *)

(* what the log of a RemovePlan run is *)
Lemma remove_call_no_put keys : forallb no_put (remove_call keys) = true.
Proof. destruct keys as [|k [|k2 l]]; reflexivity. Qed.

Lemma remove_call_deleted keys : deleted_keys (remove_call keys) = keys.
Proof. destruct keys as [|k [|k2 l]]; cbn; try reflexivity. now rewrite app_nil_r. Qed.

(* ------------------------------------------------------------------ buildDeletePlan + the run,
   for ANY per-pair verdict [flt] and ANY tree [e] the plan is built from, provided that on the
   stored pairs (1) the region inferred from e covers what flt accepts and (2) when e qualifies
   for the RemovePlan shortcut, flt is "the key is listed": the store loses exactly the pairs flt
   accepts, sliced by LIMIT in key order; nothing is put; the deleted keys are the selected ones
   (the shortcut also hands the listed keys that are not stored to BatchDelete) *)
Section BuildDelete.
Variable flt : kvp -> bool.
Variable e : expr.
Variables B fuel : nat.
Variable d : store.
Hypothesis HB : 1 <= B.
Hypothesis Hsorted : ssorted d.
Hypothesis Hcov : forall kv, In kv d -> flt kv = true -> covers (optimize e) (fst kv) = true.
Hypothesis Hpoint : has_and e = false -> forall ks, optimize e = RMget ks ->
                    forall kv, In kv d -> flt kv = mem (fst kv) ks.


Definition delete_facts (sel : list kvp) (s' : sstate) : Prop :=
  sdata s' = sdel_all (map fst sel) d /\
  forallb no_put (slog s') = true /\
  (forall k, In k (map fst sel) -> In k (deleted_keys (slog s'))) /\
  (forall k, In k (deleted_keys (slog s')) -> In k (map fst d) -> In k (map fst sel)).

Lemma dscan_facts c sel :
  keys_ok c -> List.length d + plan_keys c + 2 <= fuel -> Rsel flt c d = sel ->
  delete_facts sel (run_delete flt B fuel (DScan c) (sinit d None)).
Proof.
  intros K Hf Er. cbn [run_delete]. unfold sinit.
  destruct (@delete_exact_lemma flt B fuel c d [] HB Hsorted K Hf) as (s1 & E & E2 & _ & _ & _ & ext & El & Enp & Edk & _).
  rewrite E. cbn [snd]. unfold delete_facts. rewrite Er in *. cbn [app] in El. rewrite El.
  split; [rewrite E2; symmetry; apply sdel_all_filter|].
  split; [exact Enp|]. rewrite Edk. split; auto.
Qed.

Lemma rsel_scan_all : Rsel flt (PScan (scan_of_region (optimize e))) d = filter flt d.
Proof.
  cbn [Rsel].
  rewrite (filter_agree (fun kv => covers (region_of (scan_of_region (optimize e))) (fst kv))
                        (fun kv => covers (optimize e) (fst kv)))
    by (intros; apply covers_scan_of_region).
  apply filter_filter_absorb. exact Hcov.
Qed.

Lemma build_delete_facts limit :
  List.length d + dplan_nkeys (build_delete e limit) + 2 <= fuel ->
  delete_facts (limit_slice limit (filter flt d)) (run_delete flt B fuel (build_delete e limit) (sinit d None)).
Proof.
  intros Hfuel. pose proof rsel_scan_all as HR.
  pose proof (keys_ok_scan_of_region (optimize e)) as HK.
  unfold build_delete in *. set (sc := scan_of_region (optimize e)) in *.
  assert (Hlim : forall s n, Rsel flt (PLimit s n (PScan sc)) d = limit_slice (Some (s, n)) (filter flt d)).
  { intros s n. cbn [Rsel limit_slice] in *. rewrite HR. reflexivity. }
  destruct sc as [| |p|lo hi|keys] eqn:Esc.
  - (* EmptyResultPlan: LIMIT ignored; nothing passes the filter *)
    apply dscan_facts; [exact I|cbn [plan_keys dplan_nkeys] in *; lia|].
    rewrite HR. cbn [Rsel region_of covers] in HR.
    rewrite (@filter_all_false kvp _ d) in HR by (intros; reflexivity). cbn [filter] in HR.
    rewrite <- HR. destruct limit as [[s n]|]; cbn [limit_slice]; [rewrite skipn_nil, firstn_nil|]; reflexivity.
  - destruct limit as [[s n]|]; apply dscan_facts; try exact I; cbn [plan_keys dplan_nkeys] in *; try lia;
      [apply Hlim|exact HR].
  - destruct limit as [[s n]|]; apply dscan_facts; try exact I; cbn [plan_keys dplan_nkeys] in *; try lia;
      [apply Hlim|exact HR].
  - destruct limit as [[s n]|]; apply dscan_facts; try exact I; cbn [plan_keys dplan_nkeys] in *; try lia;
      [apply Hlim|exact HR].
  - destruct limit as [[s n]|].
    + apply dscan_facts; [exact HK|cbn [plan_keys dplan_nkeys] in *; lia|apply Hlim].
    + destruct (has_and e) eqn:Ea; cbn [negb] in *.
      * apply dscan_facts; [exact HK|cbn [plan_keys dplan_nkeys] in *; lia|exact HR].
      * (* the RemovePlan shortcut *)
        unfold sinit. rewrite remove_plan_effect. unfold delete_facts. cbn [sdata slog app].
        destruct (optimize e) as [|ks|q|a b|] eqn:Ho; try discriminate Esc.
        cbn [scan_of_region] in Esc. injection Esc as <-.
        assert (Hflt : forall kv, In kv d -> flt kv = mem (fst kv) ks) by (intros kv Hin; exact (Hpoint eq_refl ks eq_refl kv Hin)).
        cbn [limit_slice].
        assert (Hsel : forall k, In k (map fst d) -> (In k (map fst (filter flt d)) <-> mem k ks = true)).
        { intros k Hk. split.
          - intros Hin. apply in_map_iff in Hin. destruct Hin as [kv [<- Hkv]]. apply filter_In in Hkv.
            destruct Hkv as [Hd Hf]. rewrite <- (Hflt kv Hd). exact Hf.
          - intros Hm. apply in_map_iff in Hk. destruct Hk as [kv [<- Hkv]]. apply in_map. apply filter_In.
            split; [exact Hkv|]. rewrite (Hflt kv Hkv). exact Hm. }
        split.
        { rewrite !sdel_all_filter. apply filter_ext_in. intros kv Hin. f_equal. rewrite mget_keys_mem.
          pose proof (Hsel (fst kv) (in_map fst _ _ Hin)) as [H1 H2].
          destruct (mem (fst kv) ks) eqn:Em.
          - symmetry. apply mem_in. apply H2. reflexivity.
          - destruct (mem (fst kv) (map fst (filter flt d))) eqn:E3; [|reflexivity].
            apply mem_in in E3. apply H1 in E3. discriminate E3. }
        split; [apply remove_call_no_put|]. rewrite remove_call_deleted.
        split.
        { intros k Hin. apply mem_in. rewrite mget_keys_mem.
          assert (Hd : In k (map fst d)).
          { apply in_map_iff in Hin. destruct Hin as [kv [<- Hkv]]. apply filter_In in Hkv. apply in_map. tauto. }
          apply (Hsel k Hd). exact Hin. }
        { intros k Hin Hd. apply (Hsel k Hd). rewrite <- mget_keys_mem. apply mem_in. exact Hin. }
Qed.

End BuildDelete.

(* what [delete_facts] says about the data, spelled out *)
Lemma delete_facts_data d sel s' : ssorted d -> delete_facts d sel s' ->
  sdata s' = filter (fun kv => negb (mem (fst kv) (map fst sel))) d /\
  (forall k, sget k (sdata s') = if mem k (map fst sel) then None else sget k d) /\
  ssorted (sdata s').
Proof.
  intros S (E & _). rewrite E. split; [apply sdel_all_filter|]. split; [intros k; apply sget_sdel_all|].
  apply ssorted_sdel_all. exact S.
Qed.

Section DeleteText.
Variable fo : fops.
Variable re_match : bytes -> bytes -> Value.res bool.
Variable re_spec : bytes -> bytes -> option bool.
Variable fmt_v : F fo -> string.
Hypothesis re_agree : forall p t b, re_spec p t = Some b -> re_match p t = Value.Ok b.
Hypothesis fmt_round : forall f, f_parse fo (fmt_v f) = PF_ok f.

Notation fold := (Fold.fold fo re_match fmt_v).
Notation filter_of := (Pipeline.filter_of fo re_match).
Notation delete_text := (delete_text fo re_match fmt_v).
Notation delete_plan_text := (delete_plan_text fo re_match fmt_v).

(* what an accepted DELETE text went through: the checked WHERE tree is the parsed one, filter and
   plan are built from its folded form, with the LIMIT of the parsed statement *)
Lemma delete_plan_inv q p wp P lim pl :
  parsed_text fo is_delete_kind q = TOk (StmtParser.StDelete p wp P lim) ->
  delete_plan_text q = TOk pl ->
  exists limit, limit_of lim = Some limit /\ Fold.wt P = true /\
                pl = DPlanned (fold P) (build_delete (fold P) limit).
Proof.
  intros Hp H. unfold PipelineW.delete_plan_text, front in H. rewrite Hp in H. cbn [tbind to_check] in H.
  destruct (build_check fo true (Checker.SDelete P)) as [c2|[]| |] eqn:Hb; cbn [of_check tbind] in H; try discriminate H.
  destruct (build_check_delete fo _ _ Hb) as [-> Hwt].
  destruct (limit_of lim) as [limit|]; [|discriminate H].
  destruct (fold_oom fo re_match fmt_v P); [discriminate H|]. injection H as <-. eauto.
Qed.

Lemma delete_text_ok_inv q B s dp s' :
  delete_text q B s = (TOk dp, s') ->
  exists pl, delete_plan_text q = TOk pl /\ dp = dp_plan pl /\
             s' = run_delete (filter_of (dp_filter pl)) B (delete_fuel dp (sdata s)) dp s.
Proof.
  unfold PipelineW.delete_text. destruct (delete_plan_text q) as [pl| | | | |]; cbn [tcast]; intros H; try discriminate H.
  destruct (filter_oom fo re_match (dp_filter pl) (sdata s)); [discriminate H|].
  injection H as <- <-. eauto.
Qed.

(* nothing is touched when the text is not accepted *)
Theorem delete_text_not_accepted_untouched_lemma q B s r s' :
  delete_text q B s = (r, s') -> (forall dp, r <> TOk dp) -> s' = s.
Proof.
  unfold PipelineW.delete_text. destruct (delete_plan_text q) as [pl| | | | |]; cbn [tcast]; intros H Hr;
    try (injection H as <- <-; reflexivity).
  destruct (filter_oom fo re_match (dp_filter pl) (sdata s)); injection H as <- <-; [reflexivity|].
  exfalso. exact (Hr _ eq_refl).
Qed.

Section Exact.
Variables (q : string) (p wp : nat) (P : expr) (lim : option limit_t) (limit : option (nat * nat)).
Variables (B : nat) (d : store).
Hypothesis Hparsed : parsed_text fo is_delete_kind q = TOk (StmtParser.StDelete p wp P lim).
Hypothesis Hlimit : limit_of lim = Some limit.
Hypothesis HB : 1 <= B.
Hypothesis Hsorted : ssorted d.
Hypothesis Hevaluable : forall kv, In kv d -> evaluable fo re_spec P kv.
Hypothesis Hreassoc : forall kv, In kv d -> reassoc_exact fo re_match fmt_v P (fst kv) (snd kv).

(* on every stored pair the folded tree evaluates, to what the reference semantics of the PARSED
   tree says *)
Lemma folded_row kv : Fold.wt P = true -> In kv d ->
  exists b, sem fo re_spec (fst kv) (snd kv) P = Some (SBool b) /\
            filter_row fo re_match (fst kv) (snd kv) (fold P) = Value.Ok b.
Proof.
  intros Hwt Hin. destruct (Hevaluable kv Hin) as [b Hb]. exists b. split; [exact Hb|].
  pose proof (filter_refines_sem fo re_match re_spec re_agree _ _ _ _ Hb) as Hf.
  exact (fold_preserves_filter fo re_match fmt_v fmt_round P _ _ b Hwt (Hreassoc kv Hin) Hf).
Qed.

Lemma folded_filter_selects kv : Fold.wt P = true -> In kv d -> filter_of (fold P) kv = selects fo re_spec P kv.
Proof.
  intros Hwt Hin. destruct (folded_row kv Hwt Hin) as (b & Hb & Hf).
  unfold Pipeline.filter_of, selects. rewrite Hf, Hb. destruct b; reflexivity.
Qed.

Theorem delete_text_exact_lemma dp s' :
  delete_text q B (sinit d None) = (TOk dp, s') ->
  let sel := limit_slice limit (filter (selects fo re_spec P) d) in
  sdata s' = filter (fun kv => negb (mem (fst kv) (map fst sel))) d /\
  (forall k, sget k (sdata s') = if mem k (map fst sel) then None else sget k d) /\
  ssorted (sdata s') /\
  forallb no_put (slog s') = true /\
  (forall k, In k (map fst sel) -> In k (deleted_keys (slog s'))) /\
  (forall k, In k (deleted_keys (slog s')) -> In k (map fst d) -> In k (map fst sel)).
Proof.
  intros H sel. destruct (delete_text_ok_inv _ _ _ _ _ H) as (pl & Hpl & -> & ->).
  destruct (delete_plan_inv _ _ _ _ _ _ Hparsed Hpl) as (limit' & Hl' & Hwt & ->).
  rewrite Hlimit in Hl'. injection Hl' as <-. cbn [dp_plan dp_filter sinit sdata].
  assert (Hfacts : delete_facts d (limit_slice limit (filter (filter_of (fold P)) d))
                     (run_delete (filter_of (fold P)) B (delete_fuel (build_delete (fold P) limit) d)
                                 (build_delete (fold P) limit) (sinit d None))).
  { apply build_delete_facts; [exact HB|exact Hsorted| | |unfold delete_fuel; lia].
    - intros [k v] _ Hf. cbn [fst]. unfold Pipeline.filter_of in Hf. cbn [fst snd] in Hf.
      destruct (filter_row fo re_match k v (fold P)) as [[|]| | |] eqn:E; try discriminate Hf.
      exact (filter_true_covered fo re_match k v _ E).
    - intros Ha ks Ho [k v] Hin. cbn [fst].
      destruct (folded_row (k, v) Hwt Hin) as (b & _ & Hf). cbn [fst snd] in Hf.
      pose proof (psem_of_eval fo re_match k v _ b Hf) as Hps.
      rewrite (optimize_mget_exact (opq_eval fo re_match k v) _ ks Ha Ho k v) in Hps. injection Hps as <-.
      unfold Pipeline.filter_of. cbn [fst snd]. rewrite Hf. destruct (mem k ks); reflexivity. }
  rewrite (filter_agree (filter_of (fold P)) (selects fo re_spec P) d) in Hfacts
    by (intros kv Hin; apply folded_filter_selects; assumption).
  fold sel in Hfacts. unfold sinit in Hfacts.
  destruct (delete_facts_data d sel _ Hsorted Hfacts) as (D1 & D2 & D3).
  destruct Hfacts as (_ & L1 & L2 & L3). auto 10.
Qed.

End Exact.

End DeleteText.
