(* Proofs/FilterOptProofs.v -- every access path covers the filter (C02). *)
From Coq Require Import List String Bool Arith Lia.
Import ListNotations.
From KV Require Import Base.Bytes Base.Ord Model.Ast Model.FilterOpt Spec.KeySem.
Open Scope string_scope.

(* a range with two bounds is never reversed; established by optimizeBetweenExpr's guard
   and preserved by every combinator *)
Definition wf (r : region) : Prop :=
  match r with
  | RRange (Some a) (Some b) => bleb a b = true
  | _ => True
  end.

Lemma bltb_negb a b : bltb a b = negb (bleb b a).
Proof. destruct (bleb b a) eqn:E; cbn; [now apply bltb_false_iff | now apply bltb_true_iff]. Qed.

Lemma mem_true k ks : mem k ks = true <-> In k ks.
Proof.
  unfold mem. rewrite existsb_exists. split.
  - intros (x & Hin & E). apply String.eqb_eq in E. now subst.
  - intros H. exists k. split; [assumption | apply String.eqb_refl].
Qed.

Lemma in_range_covers st en x : in_range st en (Some x) false = covers (RRange st en) x.
Proof.
  unfold in_range, covers. destruct st as [s|], en as [e|]; rewrite ?bltb_negb;
    repeat match goal with |- context [bleb ?a ?b] => destruct (bleb a b) end; reflexivity.
Qed.

Ltac break_if :=
  match goal with
  | |- context [if ?c then _ else _] => destruct c eqn:?
  end.

Ltac fin :=
  cbn [covers finish_range mem existsb] in *;
  repeat match goal with
         | H : context [if ?c then _ else _] |- _ => destruct c eqn:?
         | H : andb _ _ = false |- _ => apply andb_false_iff in H; destruct H
         | H : negb _ = true |- _ => apply negb_true_iff in H
         | H : negb _ = false |- _ => apply negb_false_iff in H
         | H : true = false |- _ => discriminate H
         | H : false = true |- _ => discriminate H
         | H : _ \/ _ |- _ => destruct H
         | H : _ /\ _ |- _ => destruct H
         | H : andb _ _ = true |- _ => apply andb_true_iff in H; destruct H
         | |- andb _ _ = true => apply andb_true_iff; split
         | |- orb _ false = true => rewrite orb_false_r
         | |- String.eqb _ _ = true => apply String.eqb_eq
         | |- true = true => reflexivity
         end;
  try discriminate; try (ord; fail).

Lemma finish_range_sound ns ne k :
  covers (RRange ns ne) k = true -> covers (finish_range ns ne) k = true.
Proof.
  unfold finish_range. destruct ns as [a|], ne as [b|]; auto.
  destruct (String.eqb a b) eqn:E; auto. intros H. fin.
Qed.

Lemma finish_range_wf ns ne : wf (RRange ns ne) -> wf (finish_range ns ne).
Proof.
  unfold finish_range. destruct ns as [a|], ne as [b|]; cbn; auto.
  destruct (String.eqb a b); cbn; auto.
Qed.

Lemma swap_bounds_wf s e : wf (RRange s e) -> swap_bounds s e = (s, e).
Proof.
  unfold swap_bounds. destruct s as [a|], e as [b|]; cbn; auto.
  intros H. rewrite bltb_negb, H. reflexivity.
Qed.

Lemma union_range_sound ls le rs re k :
  wf (RRange ls le) -> wf (RRange rs re) ->
  covers (RRange ls le) k = true \/ covers (RRange rs re) k = true ->
  covers (union_range ls le rs re) k = true.
Proof.
  intros W1 W2 H. unfold union_range. rewrite (swap_bounds_wf _ _ W1), (swap_bounds_wf _ _ W2).
  destruct ls as [ls|], le as [le|], rs as [rs|], re as [re|];
    cbn [same_bound is_none in_range negb andb wf] in *;
    repeat break_if; try apply finish_range_sound; fin.
Qed.

Lemma inter_range_sound ls le rs re k :
  wf (RRange ls le) -> wf (RRange rs re) ->
  covers (RRange ls le) k = true -> covers (RRange rs re) k = true ->
  covers (inter_range ls le rs re) k = true.
Proof.
  intros W1 W2 H1 H2. unfold inter_range. rewrite (swap_bounds_wf _ _ W1), (swap_bounds_wf _ _ W2).
  destruct ls as [ls|], le as [le|], rs as [rs|], re as [re|];
    cbn [same_bound is_none in_range negb andb wf] in *;
    repeat break_if; try apply finish_range_sound; fin.
Qed.

Lemma union_range_wf ls le rs re :
  wf (RRange ls le) -> wf (RRange rs re) -> wf (union_range ls le rs re).
Proof.
  intros W1 W2. unfold union_range. rewrite (swap_bounds_wf _ _ W1), (swap_bounds_wf _ _ W2).
  destruct ls as [ls|], le as [le|], rs as [rs|], re as [re|];
    cbn [same_bound is_none in_range negb andb wf] in *;
    repeat break_if; try apply finish_range_wf; cbn [wf]; auto; fin.
Qed.

Lemma inter_range_wf ls le rs re :
  wf (RRange ls le) -> wf (RRange rs re) -> wf (inter_range ls le rs re).
Proof.
  intros W1 W2. unfold inter_range. rewrite (swap_bounds_wf _ _ W1), (swap_bounds_wf _ _ W2).
  destruct ls as [ls|], le as [le|], rs as [rs|], re as [re|];
    cbn [same_bound is_none in_range negb andb wf] in *;
    repeat break_if; try apply finish_range_wf; cbn [wf]; auto; fin.
Qed.

