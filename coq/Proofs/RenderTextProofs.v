(* Proofs/RenderTextProofs.v -- the TEXT-level round trip of C15: the lexer twin of C16 run on
   the canonical rendering of a tree yields exactly the tokens [rtoks] that print_parse is stated
   over, so parsing the lexed rendering gives the tree back.

   Part 1  [ritems] (Model/RenderText.v) is the rendering: written out with its gaps it is
           [ExprParser.render e]                                        (render_ritems)
   Part 2  its lexemes' tokens are [rtoks e]                            (etoks_ritems)
   Part 3  it is an admissible lexeme sequence in the sense of C16      (adm_ritems)
   Part 4  hence  lex (render e) = expected (ritems "" e []) 0, kinds and texts = rtoks e,
           and [print_parse_text_thm]. *)
From Coq Require Import String Ascii List Bool Arith Lia.
From KV Require Import Base.Bytes Model.Token Model.Ast Model.Lexer Model.ExprParser Spec.LexSpec
                       Model.RenderText Proofs.AstInd Proofs.LexerProofs Proofs.ExprParserProofs.
Import ListNotations.
Local Open Scope string_scope.

(* ================================================================== induction principle *)

Section ExprInd3.
Variable P : expr -> Prop.
Hypothesis HBin : forall p o l r, P l -> P r ->
  (forall q items, r = EList q items -> Forall P items) -> P (EBin p o l r).
Hypothesis HField : forall p f, P (EField p f).
Hypothesis HStr : forall p s, P (EStr p s).
Hypothesis HNot : forall p r, P r -> P (ENot p r).
Hypothesis HCall : forall p n args, P n -> Forall P args -> P (ECall p n args).
Hypothesis HName : forall p s, P (EName p s).
Hypothesis HRef : forall p nm d, P (ERef p nm d).
Hypothesis HNum : forall p d, P (ENum p d).
Hypothesis HFloat : forall p d, P (EFloat p d).
Hypothesis HBool : forall p b, P (EBool p b).
Hypothesis HList : forall p l, Forall P l -> P (EList p l).
Hypothesis HAccess : forall p l f, P l -> P f -> P (EAccess p l f).

Lemma expr_ind3 : forall e, P e.
Proof.
  assert (H : forall e, P e /\ (forall q items, e = EList q items -> Forall P items)).
  { induction e using expr_ind2; (split; [|try (intros; discriminate)]).
    - destruct IHe1, IHe2. apply HBin; auto.
    - apply HField.
    - apply HStr.
    - apply HNot. apply IHe.
    - apply HCall; [apply IHe|]. eapply Forall_impl; [|exact H]. intros a Ha. apply Ha.
    - apply HName.
    - apply HRef.
    - apply HNum.
    - apply HFloat.
    - apply HBool.
    - apply HList. eapply Forall_impl; [|exact H]. intros a Ha. apply Ha.
    - intros q items E. inversion E; subst. eapply Forall_impl; [|exact H]. intros a Ha. apply Ha.
    - destruct IHe1, IHe2. apply HAccess; auto. }
  intro e. apply H.
Qed.
End ExprInd3.

(* ================================================================== shapes *)

Definition btw (o : op) (r : expr) : option (expr * expr) :=
  match o, r with
  | OBetween, EList _ [lo; hi] => Some (lo, hi)
  | _, _ => None
  end.

Lemma btw_some o r lo hi : btw o r = Some (lo, hi) -> o = OBetween /\ exists q, r = EList q [lo; hi].
Proof.
  destruct o; try discriminate. destruct r; try discriminate.
  destruct l as [|a [|b [|c l]]]; try discriminate. cbn. intros E. inversion E; subst. eauto.
Qed.

Lemma btw_none_render o r p l : btw o r = None ->
  ExprParser.render (EBin p o l r) =
  "(" ++ ExprParser.render l ++ " " ++ op_text o ++ " " ++ ExprParser.render r ++ ")".
Proof.
  destruct o; try reflexivity. destruct r; try reflexivity.
  destruct l0 as [|a [|b [|c l0]]]; try reflexivity. discriminate.
Qed.

Lemma btw_none_ritems o r p l g rest : btw o r = None ->
  ritems g (EBin p o l r) rest =
  (g, LSym "(") :: ritems "" l ((" ", op_lexeme o) :: ritems " " r (("", LSym ")") :: rest)).
Proof.
  destruct o; try reflexivity. destruct r; try reflexivity.
  destruct l0 as [|a [|b [|c l0]]]; try reflexivity. discriminate.
Qed.

Lemma btw_none_rtoks o r p l : btw o r = None ->
  rtoks (EBin p o l r) =
  ([T LPAREN "("] ++ rtoks l ++ ([T OPERATOR (op_text o)] ++ rtoks r) ++ [T RPAREN ")"])%list.
Proof.
  destruct o; try reflexivity. destruct r; try reflexivity.
  destruct l0 as [|a [|b [|c l0]]]; try reflexivity. discriminate.
Qed.

Lemma ritems_go_list : forall (R : list ritem) l g0,
  (fix go (g0 : string) (l : list expr) {struct l} : list ritem :=
     match l with
     | [] => R
     | a :: l' => ritems g0 a (match l' with [] => R | _ => ("", LSym ",") :: go " " l' end)
     end) g0 l = ritems_list g0 l R.
Proof.
  intros R. induction l as [|a l' IH]; intro g0; [reflexivity|].
  destruct l' as [|b l'']; [reflexivity|]. specialize (IH " ").
  transitivity (ritems g0 a (("", LSym ",") :: ritems_list " " (b :: l'') R)); [|reflexivity].
  rewrite <- IH. reflexivity.
Qed.

Lemma ritems_call g p n args rest :
  ritems g (ECall p n args) rest =
  ritems g n (("", LSym "(") :: ritems_list "" args (("", LSym ")") :: rest)).
Proof. cbn [ritems]. rewrite ritems_go_list. reflexivity. Qed.

Lemma ritems_elist g p l rest :
  ritems g (EList p l) rest = (g, LSym "(") :: ritems_list "" l (("", LSym ")") :: rest).
Proof. cbn [ritems]. rewrite ritems_go_list. reflexivity. Qed.

(* ================================================================== Part 1: the text *)

Ltac snorm := repeat (progress (rewrite ?sapp_assoc; cbn [append])).

Definition P1 (e : expr) : Prop := forall g rest tail,
  LexSpec.render (ritems g e rest) tail = g ++ ExprParser.render e ++ LexSpec.render rest tail.

Lemma render_list l : Forall P1 l -> forall g0 rest tail,
  LexSpec.render (ritems_list g0 l rest) tail =
  match l with
  | [] => LexSpec.render rest tail
  | _ => g0 ++ join ", " (map ExprParser.render l) ++ LexSpec.render rest tail
  end.
Proof.
  induction 1 as [|a l' Ha Hl IH]; intros g0 rest tail; [reflexivity|].
  cbn [ritems_list]. rewrite Ha. destruct l' as [|b l'']; [reflexivity|].
  cbn [LexSpec.render lexeme_text]. rewrite IH. cbn [map join]. snorm. reflexivity.
Qed.

Lemma render_ritems : forall e, P1 e.
Proof.
  induction e using expr_ind3; intros g rest tail.
  - destruct (btw o e2) as [[lo hi]|] eqn:B.
    + apply btw_some in B. destruct B as [-> [q ->]].
      pose proof (H q _ eq_refl) as HF. inversion HF as [|x1 l1 Hlo HF2]; subst.
      inversion HF2 as [|x2 l2 Hhi _]; subst.
      cbn [ritems ExprParser.render LexSpec.render lexeme_text].
      rewrite IHe1. cbn [LexSpec.render lexeme_text]. rewrite Hlo.
      cbn [LexSpec.render lexeme_text]. rewrite Hhi. cbn [LexSpec.render lexeme_text].
      snorm. reflexivity.
    + rewrite btw_none_ritems, btw_none_render by assumption.
      cbn [LexSpec.render lexeme_text]. rewrite IHe1. cbn [LexSpec.render lexeme_text].
      rewrite IHe2. cbn [LexSpec.render lexeme_text].
      replace (lexeme_text (op_lexeme o)) with (op_text o) by (destruct o; reflexivity).
      snorm. reflexivity.
  - destruct f; cbn [ritems ExprParser.render LexSpec.render lexeme_text]; snorm; reflexivity.
  - cbn [ritems ExprParser.render LexSpec.render lexeme_text]. unfold str1. snorm. reflexivity.
  - cbn [ritems ExprParser.render LexSpec.render lexeme_text]. rewrite IHe.
    cbn [LexSpec.render lexeme_text]. snorm. reflexivity.
  - rewrite ritems_call. rewrite IHe. cbn [LexSpec.render lexeme_text ExprParser.render].
    rewrite (render_list args H). destruct args as [|a args'].
    + cbn [LexSpec.render lexeme_text map join]. snorm. reflexivity.
    + cbn [LexSpec.render lexeme_text]. snorm. reflexivity.
  - cbn [ritems ExprParser.render LexSpec.render]. unfold name_lexeme, name_text.
    destruct (plain_name s); cbn [lexeme_text]; unfold str1; snorm; reflexivity.
  - cbn [ritems ExprParser.render LexSpec.render lexeme_text]. unfold str1. snorm. reflexivity.
  - cbn [ritems ExprParser.render LexSpec.render lexeme_text]. snorm. reflexivity.
  - cbn [ritems ExprParser.render LexSpec.render lexeme_text]. snorm. reflexivity.
  - destruct b; cbn [ritems ExprParser.render LexSpec.render lexeme_text]; snorm; reflexivity.
  - rewrite ritems_elist. cbn [LexSpec.render lexeme_text ExprParser.render].
    rewrite (render_list l H). destruct l as [|a l'].
    + cbn [LexSpec.render lexeme_text map join]. snorm. reflexivity.
    + cbn [LexSpec.render lexeme_text]. snorm. reflexivity.
  - cbn [ritems ExprParser.render]. rewrite IHe1. cbn [LexSpec.render lexeme_text].
    rewrite IHe2. cbn [LexSpec.render lexeme_text]. snorm. reflexivity.
Qed.

(* ================================================================== plain names are words *)

Lemma plain_char_word c : plain_char c = true -> word_char c = true /\ lower_char c = c.
Proof. all_chars c; vm_compute; intros; try discriminate; auto. Qed.

Lemma plain_chars_word s : forallb plain_char (list_ascii_of_string s) = true ->
  sforall word_char s = true /\ to_lower s = s.
Proof.
  induction s as [|c s IH]; cbn [list_ascii_of_string forallb]; intros H; [split; reflexivity|].
  apply andb_prop in H. destruct H as [Hc Hs]. apply plain_char_word in Hc. destruct Hc as [Hw Hl].
  destruct (IH Hs) as [IH1 IH2]. unfold to_lower in *. cbn [sforall smap]. rewrite Hw, Hl, IH1, IH2.
  split; reflexivity.
Qed.

Lemma plain_char_sign c s : plain_char c = true -> strip_sign (String c s) = (None, String c s).
Proof. all_chars c; vm_compute; intros; try discriminate; reflexivity. Qed.

Lemma not_digit_char c :
  (Nat.leb 48 (nat_of_ascii c) && Nat.leb (nat_of_ascii c) 57) = false -> is_digit c = false.
Proof. all_chars c; vm_compute; intros; try discriminate; reflexivity. Qed.

Lemma not_dot_char c (A : Type) (X : string -> A) (Y : A) s :
  Nat.eqb (nat_of_ascii c) 46 = false ->
  match String c s with String "."%char r => X r | _ => Y end = Y.
Proof. all_chars c; vm_compute; intros; try discriminate; reflexivity. Qed.

Lemma kw_lookup_none s : existsb (String.eqb s) ExprParser.keywords = false ->
  kw_lookup s Lexer.keywords = None.
Proof.
  cbn [existsb ExprParser.keywords]. intros H.
  repeat (apply orb_false_elim in H; let E := fresh "E" in destruct H as [E H]).
  cbn [kw_lookup Lexer.keywords].
  repeat match goal with E : (s =? _) = false |- _ => rewrite E; clear E end.
  reflexivity.
Qed.

Lemma plain_name_word s : plain_name s = true ->
  s <> "" /\ sforall word_char s = true /\ to_lower s = s /\ word_kind s = NAME.
Proof.
  unfold plain_name. intros H.
  apply andb_prop in H. destruct H as [H Hn]. apply andb_prop in H. destruct H as [H Hk].
  apply andb_prop in H. destruct H as [He Hc].
  apply negb_true_iff in Hn, Hk, He.
  destruct (plain_chars_word s Hc) as [Hw Hl].
  split; [intros ->; discriminate|]. split; [exact Hw|]. split; [exact Hl|].
  unfold word_kind. rewrite (kw_lookup_none s Hk).
  destruct s as [|c s']; [discriminate|].
  cbn [list_ascii_of_string forallb] in Hc. apply andb_prop in Hc. destruct Hc as [Hc _].
  cbn [number_like] in Hn.
  apply orb_false_elim in Hn. destruct Hn as [Hn Hnan].
  apply orb_false_elim in Hn. destruct Hn as [Hn Hinfinity].
  apply orb_false_elim in Hn. destruct Hn as [Hn Hinf].
  apply orb_false_elim in Hn. destruct Hn as [Hdig Hdot].
  apply not_digit_char in Hdig.
  assert (Hnum : is_number (String c s') = false).
  { unfold is_number, parse_int_ok. rewrite (plain_char_sign c s' Hc).
    cbn [sforall]. rewrite Hdig. cbn [andb]. rewrite andb_false_r. reflexivity. }
  assert (Hflt : is_float (String c s') = false).
  { unfold is_float, parse_float_ok. rewrite (plain_char_sign c s' Hc).
    rewrite Hinf, Hinfinity, Hnan. cbn [orb].
    cbn [span_digits]. rewrite Hdig.
    rewrite (not_dot_char c _ (fun r => span_digits r) (EmptyString, String c s') s' Hdot).
    reflexivity. }
  rewrite Hnum, Hflt. reflexivity.
Qed.

(* ================================================================== Part 2: the tokens *)

Lemma etoks_cons g l rest : etoks ((g, l) :: rest) = strip (lexeme_token l 0) :: etoks rest.
Proof. reflexivity. Qed.

Lemma strip_expected : forall items p, map strip (expected items p) = etoks items.
Proof.
  induction items as [|[g l] r IH]; intros p; [reflexivity|].
  cbn [expected map]. rewrite IH, etoks_cons. f_equal. destruct l; reflexivity.
Qed.

Lemma op_lexeme_token o : strip (lexeme_token (op_lexeme o) 0) = T OPERATOR (op_text o).
Proof. destruct o; reflexivity. Qed.

Lemma word_lit_facts k d : word_lit k d = true ->
  d <> "" /\ sforall word_char d = true /\ to_lower d = d /\ word_kind d = k.
Proof.
  unfold word_lit. intros H.
  apply andb_prop in H. destruct H as [H Hk]. apply andb_prop in H. destruct H as [H Hl].
  apply andb_prop in H. destruct H as [He Hw].
  apply negb_true_iff in He. apply String.eqb_eq in Hl.
  split; [intros ->; discriminate|]. split; [exact Hw|]. split; [exact Hl|].
  unfold toktype_eqb in Hk. apply Nat.eqb_eq in Hk.
  destruct (word_kind d), k; try reflexivity; discriminate.
Qed.

Lemma word_token k d : d <> "" -> to_lower d = d -> word_kind d = k ->
  strip (lexeme_token (LWord d) 0) = T k d.
Proof. intros _ Hl Hk. cbn [lexeme_token]. rewrite Hl, Hk. reflexivity. Qed.

Lemma name_token s : name_ok s = true -> strip (lexeme_token (name_lexeme s) 0) = T NAME s.
Proof.
  unfold name_ok, name_lexeme. destruct (plain_name s) eqn:Hp; intros H.
  - destruct (plain_name_word s Hp) as (Hne & _ & Hl & Hk). apply word_token; assumption.
  - reflexivity.
Qed.

Definition P2 (e : expr) : Prop := txt_ok e = true -> forall g rest,
  etoks (ritems g e rest) = (rtoks e ++ etoks rest)%list.

Local Open Scope list_scope.

Lemma etoks_list l : Forall P2 l -> forallb txt_ok l = true -> forall g0 rest,
  etoks (ritems_list g0 l rest) = sep_concat [T SEP ","%string] (map rtoks l) ++ etoks rest.
Proof.
  induction 1 as [|a l' Ha Hl IH]; intros Hok g0 rest; [reflexivity|].
  cbn [forallb] in Hok. apply andb_prop in Hok. destruct Hok as [Hoka Hokl].
  cbn [ritems_list]. rewrite (Ha Hoka). destruct l' as [|b l'']; [reflexivity|].
  rewrite etoks_cons, (IH Hokl). cbn [map sep_concat]. rewrite <- !app_assoc. reflexivity.
Qed.

Lemma etoks_ritems : forall e, P2 e.
Proof.
  induction e using expr_ind3; intros Hok g rest.
  - cbn [txt_ok] in Hok. apply andb_prop in Hok. destruct Hok as [Hok1 Hok2].
    destruct (btw o e2) as [[lo hi]|] eqn:B.
    + apply btw_some in B. destruct B as [-> [q ->]].
      pose proof (H q _ eq_refl) as HF. inversion HF as [|x1 l1 Hlo HF2]; subst.
      inversion HF2 as [|x2 l2 Hhi _]; subst.
      cbn [txt_ok forallb] in Hok2. apply andb_prop in Hok2. destruct Hok2 as [Hlo' Hok2].
      apply andb_prop in Hok2. destruct Hok2 as [Hhi' _].
      cbn [ritems rtoks]. rewrite etoks_cons, (IHe1 Hok1), etoks_cons, (Hlo Hlo'), etoks_cons,
        (Hhi Hhi'), etoks_cons.
      rewrite <- !app_assoc. reflexivity.
    + rewrite btw_none_ritems, btw_none_rtoks by assumption.
      rewrite etoks_cons, (IHe1 Hok1), etoks_cons, (IHe2 Hok2), etoks_cons, op_lexeme_token.
      rewrite <- !app_assoc. reflexivity.
  - destruct f; reflexivity.
  - reflexivity.
  - cbn [txt_ok] in Hok. cbn [ritems rtoks]. rewrite !etoks_cons, (IHe Hok), etoks_cons.
    rewrite <- !app_assoc. reflexivity.
  - cbn [txt_ok] in Hok. apply andb_prop in Hok. destruct Hok as [Hok1 Hok2].
    rewrite ritems_call, (IHe Hok1), etoks_cons, (etoks_list args H Hok2), etoks_cons.
    cbn [rtoks]. rewrite <- !app_assoc. reflexivity.
  - cbn [txt_ok] in Hok. cbn [ritems rtoks]. rewrite etoks_cons, (name_token s Hok). reflexivity.
  - reflexivity.
  - cbn [txt_ok] in Hok. destruct (word_lit_facts _ _ Hok) as (Hne & _ & Hl & Hk).
    cbn [ritems rtoks]. rewrite etoks_cons, (word_token NUMBER d Hne Hl Hk). reflexivity.
  - cbn [txt_ok] in Hok. destruct (word_lit_facts _ _ Hok) as (Hne & _ & Hl & Hk).
    cbn [ritems rtoks]. rewrite etoks_cons, (word_token FLOAT d Hne Hl Hk). reflexivity.
  - destruct b; reflexivity.
  - cbn [txt_ok] in Hok.
    rewrite ritems_elist, etoks_cons, (etoks_list l H Hok), etoks_cons.
    cbn [rtoks]. rewrite <- !app_assoc. reflexivity.
  - cbn [txt_ok] in Hok. apply andb_prop in Hok. destruct Hok as [Hok1 Hok2].
    cbn [ritems rtoks]. rewrite (IHe1 Hok1), etoks_cons, (IHe2 Hok2), etoks_cons.
    rewrite <- !app_assoc. reflexivity.
Qed.

Local Open Scope string_scope.

(* ================================================================== Part 3: admissibility *)

Lemma fuses_sym_neq a s : (s =? "=") = false -> fuses a (LSym s) = false.
Proof.
  intros H. destruct a; try reflexivity. cbn [fuses].
  destruct s as [|c [|c' s']]; try reflexivity.
  - all_chars c; try reflexivity. discriminate.
  - all_chars c; reflexivity.
Qed.

Lemma adm_head rest : safe_head rest = true ->
  forall p, admissible_from p rest = admissible_from None rest.
Proof.
  destruct rest as [|[g l] r]; [reflexivity|]. cbn [safe_head admissible_from]. intros H p.
  destruct p as [a|]; [|reflexivity]. f_equal. f_equal.
  destruct (g =? "") eqn:G; [|reflexivity]. cbn [negb orb andb] in *.
  destruct l as [w|c b|s].
  - discriminate.
  - destruct a; reflexivity.
  - apply negb_true_iff in H. rewrite (fuses_sym_neq a s H). reflexivity.
Qed.

Lemma adm_sym g s prev r :
  gap_ok g = true -> valid_lexeme (LSym s) = true -> (s =? "=") = false ->
  admissible_from (Some (LSym s)) r = true -> admissible_from prev ((g, LSym s) :: r) = true.
Proof.
  intros Hg Hv Hs Hr. cbn [admissible_from]. rewrite Hg, Hv, Hr.
  destruct prev as [a|]; [|reflexivity]. rewrite (fuses_sym_neq a s Hs), andb_false_r. reflexivity.
Qed.

Lemma adm_spaced l prev r :
  valid_lexeme l = true -> admissible_from (Some l) r = true ->
  admissible_from prev ((" ", l) :: r) = true.
Proof. intros Hv Hr. cbn [admissible_from]. rewrite Hv, Hr. destruct prev; reflexivity. Qed.

Lemma adm_quote g c b prev r :
  gap_ok g = true -> valid_lexeme (LQuote c b) = true ->
  admissible_from (Some (LQuote c b)) r = true -> admissible_from prev ((g, LQuote c b) :: r) = true.
Proof.
  intros Hg Hv Hr. cbn [admissible_from]. rewrite Hg, Hv, Hr.
  destruct prev as [a|]; [|reflexivity]. destruct a; cbn [fuses]; rewrite andb_false_r; reflexivity.
Qed.

Lemma adm_word g w prev r :
  gap_ok g = true -> valid_lexeme (LWord w) = true -> (g = "" -> noword prev = true) ->
  admissible_from (Some (LWord w)) r = true -> admissible_from prev ((g, LWord w) :: r) = true.
Proof.
  intros Hg Hv Hp Hr. cbn [admissible_from]. rewrite Hg, Hv, Hr.
  destruct prev as [a|]; [|reflexivity].
  destruct (String.eqb_spec g ""); [|reflexivity].
  specialize (Hp e). destruct a; try discriminate; reflexivity.
Qed.

Lemma valid_word w : w <> "" -> sforall word_char w = true -> valid_lexeme (LWord w) = true.
Proof.
  intros Hne Hw. cbn [valid_lexeme]. rewrite Hw.
  destruct (String.eqb_spec w ""); [contradiction|reflexivity].
Qed.

Lemma valid_op o : valid_lexeme (op_lexeme o) = true.
Proof. destruct o; reflexivity. Qed.

Lemma valid_name s : name_ok s = true -> valid_lexeme (name_lexeme s) = true.
Proof.
  unfold name_ok, name_lexeme. destruct (plain_name s) eqn:Hp; intros H.
  - destruct (plain_name_word s Hp) as (Hne & Hw & _). apply valid_word; assumption.
  - cbn [orb] in H. cbn [valid_lexeme]. rewrite H. reflexivity.
Qed.

Definition P3 (e : expr) : Prop := txt_ok e = true -> forall g prev rest,
  gap_ok g = true -> (g = "" -> noword prev = true) -> safe_head rest = true ->
  admissible_from None rest = true -> admissible_from prev (ritems g e rest) = true.

Ltac rest_none := match goal with
  | |- admissible_from (Some _) ?r = true => rewrite (adm_head r) by reflexivity
  end.

Lemma adm_list l : Forall P3 l -> forallb txt_ok l = true -> forall g0 prev rest,
  gap_ok g0 = true -> (g0 = "" -> noword prev = true) -> safe_head rest = true ->
  admissible_from None rest = true -> admissible_from prev (ritems_list g0 l rest) = true.
Proof.
  induction 1 as [|a l' Ha Hl IH]; intros Hok g0 prev rest Hg Hp Hs Hr.
  - cbn [ritems_list]. rewrite (adm_head rest Hs). exact Hr.
  - cbn [forallb] in Hok. apply andb_prop in Hok. destruct Hok as [Hoka Hokl].
    cbn [ritems_list]. destruct l' as [|b l''].
    + apply Ha; assumption.
    + apply Ha; try assumption; [reflexivity|].
      apply adm_sym; try reflexivity.
      apply IH; try assumption; [reflexivity|intros; discriminate].
Qed.

Lemma adm_close rest : safe_head rest = true -> admissible_from None rest = true ->
  forall s, valid_lexeme (LSym s) = true -> (s =? "=") = false ->
  admissible_from None (("", LSym s) :: rest) = true.
Proof.
  intros Hs Hr s Hv He. apply adm_sym; try assumption; try reflexivity.
  rewrite (adm_head rest Hs). exact Hr.
Qed.

Lemma adm_ritems : forall e, P3 e.
Proof.
  induction e using expr_ind3; intros Hok g prev rest Hg Hp Hs Hr.
  - cbn [txt_ok] in Hok. apply andb_prop in Hok. destruct Hok as [Hok1 Hok2].
    destruct (btw o e2) as [[lo hi]|] eqn:B.
    + apply btw_some in B. destruct B as [-> [q ->]].
      pose proof (H q _ eq_refl) as HF. inversion HF as [|x1 l1 Hlo HF2]; subst.
      inversion HF2 as [|x2 l2 Hhi _]; subst.
      cbn [txt_ok forallb] in Hok2. apply andb_prop in Hok2. destruct Hok2 as [Hlo' Hok2].
      apply andb_prop in Hok2. destruct Hok2 as [Hhi' _].
      cbn [ritems]. apply adm_sym; try assumption; try reflexivity.
      apply IHe1; try assumption; try reflexivity.
      apply adm_spaced; [reflexivity|].
      apply Hlo; try assumption; try reflexivity; [intros; discriminate|].
      apply adm_spaced; [reflexivity|].
      apply Hhi; try assumption; try reflexivity; [intros; discriminate|].
      apply adm_close; try assumption; reflexivity.
    + rewrite btw_none_ritems by assumption.
      apply adm_sym; try assumption; try reflexivity.
      apply IHe1; try assumption; try reflexivity.
      apply adm_spaced; [apply valid_op|].
      apply IHe2; try assumption; try reflexivity; [intros; discriminate|].
      apply adm_close; try assumption; reflexivity.
  - assert (forall w, w = "KEY" \/ w = "VALUE" ->
                      admissible_from prev ((g, LWord w) :: rest) = true) as HW.
    { intros w Hw. apply adm_word; try assumption.
      - destruct Hw; subst; reflexivity.
      - rewrite (adm_head rest Hs). exact Hr. }
    destruct f; cbn [ritems]; apply HW; auto.
  - cbn [txt_ok] in Hok. cbn [ritems]. apply adm_quote; try assumption.
    rewrite (adm_head rest Hs). exact Hr.
  - cbn [txt_ok] in Hok. cbn [ritems]. apply adm_sym; try assumption; try reflexivity.
    apply adm_sym; try reflexivity.
    apply IHe; try assumption; try reflexivity.
    apply adm_close; try assumption; reflexivity.
  - cbn [txt_ok] in Hok. apply andb_prop in Hok. destruct Hok as [Hok1 Hok2].
    rewrite ritems_call. apply IHe; try assumption; try reflexivity.
    apply adm_sym; try reflexivity.
    apply (adm_list args H Hok2); try reflexivity.
    apply adm_close; try assumption; reflexivity.
  - cbn [txt_ok] in Hok. cbn [ritems]. pose proof (valid_name s Hok) as Hv.
    unfold name_lexeme in *. destruct (plain_name s).
    + apply adm_word; try assumption. rewrite (adm_head rest Hs). exact Hr.
    + apply adm_quote; try assumption. rewrite (adm_head rest Hs). exact Hr.
  - cbn [txt_ok] in Hok. cbn [ritems]. apply adm_quote; try assumption.
    rewrite (adm_head rest Hs). exact Hr.
  - cbn [txt_ok] in Hok. destruct (word_lit_facts _ _ Hok) as (Hne & Hw & _).
    cbn [ritems]. apply adm_word; try assumption; [apply valid_word; assumption|].
    rewrite (adm_head rest Hs). exact Hr.
  - cbn [txt_ok] in Hok. destruct (word_lit_facts _ _ Hok) as (Hne & Hw & _).
    cbn [ritems]. apply adm_word; try assumption; [apply valid_word; assumption|].
    rewrite (adm_head rest Hs). exact Hr.
  - assert (forall w, w = "true" \/ w = "false" ->
                      admissible_from prev ((g, LWord w) :: rest) = true) as HW.
    { intros w Hw. apply adm_word; try assumption.
      - destruct Hw; subst; reflexivity.
      - rewrite (adm_head rest Hs). exact Hr. }
    destruct b; cbn [ritems]; apply HW; auto.
  - cbn [txt_ok] in Hok. rewrite ritems_elist.
    apply adm_sym; try assumption; try reflexivity.
    apply (adm_list l H Hok); try reflexivity.
    apply adm_close; try assumption; reflexivity.
  - cbn [txt_ok] in Hok. apply andb_prop in Hok. destruct Hok as [Hok1 Hok2].
    cbn [ritems]. apply IHe1; try assumption; try reflexivity.
    apply adm_sym; try reflexivity.
    apply IHe2; try assumption; try reflexivity.
    apply adm_close; try assumption; reflexivity.
Qed.

(* ================================================================== Part 4: the theorems *)

(* the rendering, read as lexemes with their gaps, is the text String() returns *)
Lemma render_text_items e : LexSpec.render (ritems "" e []) "" = render_text e.
Proof.
  rewrite render_ritems. cbn [LexSpec.render append]. rewrite sapp_nil_r. reflexivity.
Qed.

Lemma render_text_admissible e : txt_ok e = true -> admissible (ritems "" e []) "" = true.
Proof.
  intros Hok. unfold admissible. rewrite (adm_ritems e Hok "" None []); reflexivity.
Qed.

(* the lexer on the rendered TEXT: one token per lexeme, each at the offset of its lexeme *)
Theorem lex_render_text_thm e : txt_ok e = true ->
  lex (render_text e) = expected (ritems "" e []) 0.
Proof.
  intros Hok. rewrite <- render_text_items.
  apply lex_render_expected. apply render_text_admissible. exact Hok.
Qed.

(* ... and these are, offsets apart, the tokens print_parse is stated over *)
Theorem lex_render_rtoks_thm e : txt_ok e = true -> map strip (lex (render_text e)) = rtoks e.
Proof.
  intros Hok. rewrite (lex_render_text_thm e Hok), strip_expected, (etoks_ritems e Hok).
  cbn [etoks map]. apply app_nil_r.
Qed.

(* the text-level round trip *)
Theorem print_parse_text_thm e : rt_ok e = true -> txt_ok e = true ->
  exists e', parse_expr_top (lex (render_text e)) = POk e' [] /\ erase e' = erase e.
Proof.
  intros Hrt Hok. apply print_parse_positions_thm; [exact Hrt|].
  apply lex_render_rtoks_thm. exact Hok.
Qed.

(* ================================================================== Part 5: EXPLAIN *)
From KV Require Import Model.ScanIO Model.ExplainText.

Lemma explain_cut_thm sc f h : explain_head sc = Some h ->
  explain_filter_text sc (explain_scan sc f) = Some (render_text f).
Proof.
  intros Hh. unfold explain_filter_text, explain_scan. rewrite Hh. f_equal.
  rewrite !slength_app. cbn [String.length].
  replace (String.length h + (String.length (render_text f) + 2) - String.length h - 2)
    with (String.length (render_text f)) by lia.
  apply substring_mid.
Qed.

Theorem explain_filter_reparses_thm sc f txt :
  rt_ok f = true -> txt_ok f = true ->
  explain_filter_text sc (explain_scan sc f) = Some txt ->
  exists e', parse_expr_top (lex txt) = POk e' [] /\ erase e' = erase f.
Proof.
  intros Hrt Hok Hcut. destruct (explain_head sc) as [h|] eqn:Hh.
  - rewrite (explain_cut_thm sc f h Hh) in Hcut. inversion Hcut; subst txt.
    apply print_parse_text_thm; assumption.
  - unfold explain_filter_text in Hcut. rewrite Hh in Hcut. discriminate.
Qed.

(* ================================================================== Part 6: letter case *)

Lemma word_char_lower c : word_char (lower_char c) = word_char c.
Proof. all_chars c; reflexivity. Qed.

Lemma sforall_word_lower s : sforall word_char (to_lower s) = sforall word_char s.
Proof.
  unfold to_lower. induction s as [|c s IH]; [reflexivity|].
  cbn [smap sforall]. rewrite word_char_lower, IH. reflexivity.
Qed.

Lemma to_lower_eq_length x y : to_lower x = to_lower y -> String.length x = String.length y.
Proof. intros H. rewrite <- (to_lower_length x), <- (to_lower_length y), H. reflexivity. Qed.

Lemma to_lower_empty x : (x =? "") = (to_lower x =? "").
Proof. destruct x; reflexivity. Qed.

Lemma case_valid a b : case_lexeme_eq a b -> valid_lexeme a = valid_lexeme b.
Proof.
  destruct a as [x|c s|s], b as [y|c' s'|s']; cbn [case_lexeme_eq]; intros H;
    try discriminate; try (inversion H; reflexivity).
  cbn [valid_lexeme]. rewrite (to_lower_empty x), (to_lower_empty y).
  rewrite <- (sforall_word_lower x), <- (sforall_word_lower y), H. reflexivity.
Qed.

Lemma case_fuses a b a' b' : case_lexeme_eq a a' -> case_lexeme_eq b b' -> fuses a b = fuses a' b'.
Proof.
  destruct a, a'; cbn [case_lexeme_eq]; intros Ha; try discriminate; try inversion Ha; subst;
  destruct b, b'; cbn [case_lexeme_eq]; intros Hb; try discriminate; try inversion Hb; subst;
  reflexivity.
Qed.

Lemma case_admissible_from : forall items1 items2, Forall2 case_item_eq items1 items2 ->
  forall p1 p2, match p1, p2 with
                | Some a, Some b => case_lexeme_eq a b
                | None, None => True
                | _, _ => False
                end ->
  admissible_from p1 items1 = admissible_from p2 items2.
Proof.
  induction 1 as [|[g1 l1] [g2 l2] r1 r2 [Hg Hl] Hr IH]; intros p1 p2 Hp; [reflexivity|].
  cbn [fst snd] in Hg, Hl. subst g2. cbn [admissible_from].
  rewrite (case_valid l1 l2 Hl). rewrite (IH (Some l1) (Some l2) Hl).
  destruct p1 as [a|], p2 as [b|]; try contradiction; [|reflexivity].
  rewrite (case_fuses a l1 b l2 Hp Hl). reflexivity.
Qed.

Lemma case_render_length : forall items1 items2, Forall2 case_item_eq items1 items2 ->
  forall p, expected items1 p = expected items2 p.
Proof.
  induction 1 as [|[g1 l1] [g2 l2] r1 r2 [Hg Hl] Hr IH]; intros p; [reflexivity|].
  cbn [fst snd] in Hg, Hl. subst g2. cbn [expected].
  destruct l1 as [x|c s|s], l2 as [y|c' s'|s']; cbn [case_lexeme_eq] in Hl;
    try discriminate; try (inversion Hl; subst; rewrite IH; reflexivity).
  cbn [lexeme_token lexeme_text]. rewrite Hl, (to_lower_eq_length x y Hl), IH. reflexivity.
Qed.

(* the letter case of words outside quotes does not change a single token, offsets included *)
Theorem keyword_case_irrelevant_thm items1 items2 tail :
  Forall2 case_item_eq items1 items2 -> admissible items1 tail = true ->
  admissible items2 tail = true /\
  lex (LexSpec.render items1 tail) = lex (LexSpec.render items2 tail).
Proof.
  intros H Ha.
  assert (Ha2 : admissible items2 tail = true).
  { unfold admissible in *. rewrite <- (case_admissible_from items1 items2 H None None I). exact Ha. }
  split; [exact Ha2|].
  rewrite (lex_render_expected items1 tail Ha), (lex_render_expected items2 tail Ha2).
  apply case_render_length. exact H.
Qed.
