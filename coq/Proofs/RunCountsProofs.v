(* Proofs/RunCountsProofs.v -- SELECT given as TEXT: storage faults, the batch sequence a caller
   sees, and what LIMIT does to the storage calls.

     select_text_fault_surfaces_lemma   C13 at text level, every SELECT shape: the run with the
                                        i-th storage call failing returns the storage error with
                                        exactly i+1 calls logged (the first i+1 of the fault-free
                                        run), or never reaches call i and IS the fault-free run;
                                        in both cases the data is unchanged and no call mutates
     select_text_batches_determined_lemma
                                        projection shape: BuildPlan + Batch() polled until the
                                        empty batch returns EXACTLY the polls of
                                        ScanBatches.scan_polls_spec over the scan node of the text
                                        (calls and row count per Batch() call); the batches are
                                        those Model/ScanProj.v cuts the slots into; lengths
     limit_calls_prefix_batch_refuted   `a LIMIT statement issues a prefix of the unlimited
                                        statement's storage calls` is FALSE in batch mode over a
                                        full scan: one more Next on the exhausted cursor
                                        (witness replayed on the Go code)

   NOT proved here (task (ii)): the row COUNTS of ScanIO.run_stmt for ORDER BY / LIMIT / aggregate
   shapes against the rows of select_stmt_text, and the prefix property of LIMIT in row mode. *)
From Coq Require Import List String Bool Arith Lia ZArith.
Import ListNotations.
From KV Require Import Base.Bytes Model.Value Model.Storage Model.ScanIO Model.FilterOpt Model.ScanSem
                       Model.ScanProj Model.SelectPlans Model.Pipeline Model.PipelineS Model.PipelineIO
                       Model.ScanBatches
                       Proofs.StorageProofs Proofs.ScanIOProofs Proofs.ScanIOFuel Proofs.ScanSemProofs
                       Proofs.ScanSlotsProofs Proofs.ScanBatchBoundaryProofs.
From KV Require Proofs.PipelineSProofs.

Local Open Scope list_scope.
Local Open Scope nat_scope.

Section Text.
Variable fo : fops.
Variable re : bytes -> bytes -> Value.res bool.
Variable fmt_v : F fo -> string.

(* C13 for the text, every SELECT shape (and every rejected text) *)
Theorem select_text_fault_surfaces_lemma :
  forall (remember_end : bool) (flt : kvp -> bool) (gkey : kvp -> bytes) (B fuel : nat) (m : mode)
         (q : string) (s : ScanIO.stmt) (st : store) (i : nat),
  text_stmt fo re fmt_v q = Some s ->
  let free := ScanIO.run_stmt remember_end flt gkey B fuel m s (sinit st None) in
  let faulty := ScanIO.run_stmt remember_end flt gkey B fuel m s (sinit st (Some i)) in
  fault_outcome i free faulty /\
  sdata (snd faulty) = st /\ read_only (slog (snd faulty)) = true /\
  sdata (snd free) = st /\ read_only (slog (snd free)) = true.
Proof.
  intros remember_end flt gkey B fuel m q s st i E. cbv zeta.
  split; [apply stmt_fault_surfaces|].
  destruct (@select_text_read_only_lemma fo re fmt_v remember_end flt gkey B fuel m q s (sinit st (Some i)) E)
    as [D1 [e1 [L1 R1]]].
  destruct (@select_text_read_only_lemma fo re fmt_v remember_end flt gkey B fuel m q s (sinit st None) E)
    as [D2 [e2 [L2 R2]]].
  cbn [sinit sdata slog app] in *. rewrite L1, L2. auto.
Qed.

(* the batch sequence of `select <fields> where <filter>` (no aggregate, ORDER BY kept, LIMIT) *)
Theorem select_text_batches_determined_lemma :
  forall (flt : kvp -> bool) (gkey : kvp -> bytes) (B fuel : nat) (q : string) (pl : splanned fo)
         (d : store) (l0 : list scall),
  plan_stmt_text fo re fmt_v q = STOk pl -> sp_shape fo pl = SProj ->
  1 <= B -> List.length d + plan_keys (PScan (sp_scan fo pl)) < fuel ->
  let sc := sp_scan fo pl in
  let ps := scan_polls_spec flt B sc d in
  text_stmt fo re fmt_v q = Some (StSelect (text_fplan fo pl)) /\
  (exists l, select_polls true flt gkey B fuel BatchMode (text_fplan fo pl) (SState d l0 None)
             = (Ok (scan_init_calls sc ++ scan_init_calls sc, map (fun p => (fst p, List.length (snd p))) ps),
                SState d (l0 ++ l) None)) /\
  ScanProj.drain_batch (fbatch_of flt) pbatch_id B (scan_slots sc d) = Value.Ok (removelast (map snd ps)) /\
  Forall (fun p => List.length (snd p) < 2 * B) ps /\
  (forall i, S (S i) < List.length ps -> B <= List.length (snd (nth i ps ([], [])))).
Proof.
  intros flt gkey B fuel q pl d l0 Ep Esh HB Hf. cbv zeta.
  assert (Efp : text_fplan fo pl = FProj (PScan (sp_scan fo pl))).
  { unfold text_fplan. rewrite Esh. reflexivity. }
  split; [unfold PipelineIO.text_stmt; rewrite Ep; reflexivity|]. rewrite Efp.
  split; [apply proj_polls_agree_lemma; assumption|].
  split; [apply scan_batches_are_scanproj_lemma; exact HB|].
  unfold scan_polls_spec. destruct (sp_scan fo pl) as [| |p|lo hi|keys];
    try (apply polls_spec_lengths; [exact HB|discriminate]).
  split; [repeat constructor; cbn; lia|cbn; lia].
Qed.

End Text.

(* `the storage calls of a LIMIT statement are a prefix of those of the statement without the
   LIMIT` does NOT hold in batch mode over a full scan: FinalLimitPlan.Batch polls its child once
   more after the child's empty batch (it returns what it has, the caller polls again, the limit
   node polls the exhausted child again), and FullScanPlan.Batch asks the exhausted cursor again
   (it has no done flag).  The extra call is a Next that returns nil: no key is read. *)
Lemma limit_calls_prefix_batch_refuted_lemma :
  let d := [("a","x");("ab","y")]%string in
  let lg fp := slog (snd (ScanIO.run_stmt true (fun _ => true) snd 32 30 BatchMode (StSelect fp) (sinit d None))) in
  lg (FProj (PScan SFull)) = [CCursor; CSeek ""; CCursor; CSeek ""; CNext (Some "a"); CNext (Some "ab"); CNext None; CNext None]%string /\
  lg (FLimit 0 100 (FProj (PScan SFull))) = lg (FProj (PScan SFull)) ++ [CNext None].
Proof. vm_compute. split; reflexivity. Qed.
