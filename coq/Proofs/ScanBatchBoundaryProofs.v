(* Proofs/ScanBatchBoundaryProofs.v -- the BATCH BOUNDARIES of the scan plans, and the storage calls
   of every single poll (Model/ScanBatches.v).

     A. polls run one by one ARE the statement run (every storage state, faults included)
          run_rd_bind                  running a sequenced read program = running its parts
          drain_is_poll_loop           ScanIO.drain = the poll loop of Model/ScanBatches.v
          select_polls_is_run_stmt     BuildPlan + polls: the concatenated per-poll logs are
                                       run_stmt's log, the non-zero row counts its sizes, an
                                       error of a poll is the statement's error
     B. the batches of a scan node over the annotated slots
          cursor_chunk_exact / cursor_loop_exact / mget_loop_exact
                                       one pass of the read loop / one Batch() call, EXACTLY:
                                       rows, cursor position, end flag and the calls issued
          scan_polls_agree_lemma       [scan_batches_agree]: BuildPlan + Batch() until the empty batch
                                       over every scan node, sorted store, filter, B >= 1: the
                                       list of (calls, rows) per Batch() call is [scan_polls_spec]
     C. [batch_pass] is ScanProj.scan_batch_loop (rows and slots left), so the batch boundaries of
        ScanIO's Batch loop are those of Model/ScanProj.v's over scan_slots
          batch_pass_is_scanproj, polls_spec_is_drain_batch, scan_batches_are_scanproj_lemma
     D. what IS guaranteed about batch lengths
          batch_pass_length            a Batch() call that did not see the end returns >= B rows
                                       and < 2B; one that saw the end may return fewer *)
From Coq Require Import List String Bool Arith Lia.
Import ListNotations.
From KV Require Import Base.Bytes Model.Value Model.Storage Model.ScanIO Model.ScanSem Model.ScanProj
                       Model.PipelineS Model.ScanBatches
                       Proofs.StorageProofs Proofs.ScanIOProofs Proofs.ScanIOFuel Proofs.ScanSemProofs.
From KV Require Proofs.ScanProjProofs Proofs.ScanSlotsProofs.

Local Open Scope list_scope.
Local Open Scope nat_scope.

(* ================================================================ A. polls one by one *)

Lemma run_rd_bind : forall (A C : Type) (p : rprog A) (f : A -> rprog C) (s : sstate),
  run exec_req (rd (bind p f)) s =
  match run exec_req (rd p) s with
  | (Ok a, s') => run exec_req (rd (f a)) s'
  | (Err e, s') => (Err e, s')
  end.
Proof.
  induction p as [a|e|R q k IH]; intros f s; unfold rd in *; cbn [bind lift run]; try reflexivity.
  destruct (exec_req (QRead q) s) as [[r|e] s']; [apply IH|reflexivity].
Qed.

Lemma run_rd_log_ext : forall (A : Type) (p : rprog A) (s : sstate),
  exists ext, slog (snd (run exec_req (rd p) s)) = slog s ++ ext.
Proof. intros. apply run_log_ext. Qed.
Arguments run_rd_log_ext {A} p s.
Arguments run_rd_bind {A C} p f s.

Lemma skipn_length_app : forall (A : Type) (a b : list A), skipn (List.length a) (a ++ b) = b.
Proof. induction a as [|x a IH]; intros b; cbn [List.length skipn app]; auto. Qed.

Definition sizes_of (ps : list (list scall * nat)) : list nat :=
  filter (fun n => negb (n =? 0)) (map snd ps).

Lemma sizes_of_snoc : forall ps seg n,
  sizes_of (ps ++ [(seg, n)]) = sizes_of ps ++ (if n =? 0 then [] else [n]).
Proof.
  intros. unfold sizes_of. rewrite map_app, filter_app. cbn [map filter snd].
  destruct (n =? 0); reflexivity.
Qed.

Section PollsAreRun.
Variable remember_end : bool.
Variable flt : kvp -> bool.
Variable gkey : kvp -> bytes.
Variables (B fuel : nat).

Notation drain := (ScanIO.drain remember_end flt gkey B fuel).
Notation f_poll := (f_poll remember_end flt gkey B fuel).

(* the caller's loop of ScanIO = the poll loop; the sizes are the non-zero row counts *)
Lemma drain_is_poll_loop : forall f m fp st s acc,
  run exec_req (rd (drain f m fp st (sizes_of acc))) s =
  match poll_loop (f_poll m fp) (Nat.eqb 0) f st s acc with
  | (Ok ps, s') => (Ok (sizes_of ps), s')
  | (Err e, s') => (Err e, s')
  end.
Proof.
  induction f as [|f IH]; intros m fp st s acc; cbn [ScanIO.drain poll_loop]; [reflexivity|].
  destruct m; cbn [ScanBatches.f_poll]; rewrite !run_rd_bind.
  - destruct (run exec_req (rd (f_next remember_end flt gkey fuel fp st)) s) as [[[r st']|e] s1]; [|reflexivity].
    unfold rd at 2. cbn [lift run fst snd]. destruct r as [x|]; cbn [Nat.eqb].
    + specialize (IH RowMode fp st' s1 (acc ++ [(skipn (List.length (slog s)) (slog s1), 1)])).
      rewrite sizes_of_snoc in IH. cbn [Nat.eqb] in IH. exact IH.
    + unfold rd. cbn [lift run]. rewrite sizes_of_snoc. cbn [Nat.eqb]. rewrite app_nil_r. reflexivity.
  - destruct (run exec_req (rd (f_batch remember_end flt gkey B fuel fp st)) s) as [[[rows st']|e] s1]; [|reflexivity].
    unfold rd at 2. cbn [lift run fst snd]. destruct rows as [|r0 rows]; cbn [List.length Nat.eqb].
    + unfold rd. cbn [lift run]. rewrite sizes_of_snoc. cbn [Nat.eqb]. rewrite app_nil_r. reflexivity.
    + specialize (IH BatchMode fp st' s1 (acc ++ [(skipn (List.length (slog s)) (slog s1), S (List.length rows))])).
      rewrite sizes_of_snoc in IH. cbn [Nat.eqb] in IH. exact IH.
Qed.

End PollsAreRun.

(* the log of a poll loop is the concatenation of its segments *)
Lemma poll_loop_log : forall (St X : Type) (pollp : St -> rprog (X * St)) (is_end : X -> bool)
                             f st s acc ps s',
  poll_loop pollp is_end f st s acc = (Ok ps, s') ->
  exists ps', ps = acc ++ ps' /\ slog s' = slog s ++ List.concat (map fst ps').
Proof.
  intros St X pollp is_end. induction f as [|f IH]; intros st s acc ps s' H; cbn [poll_loop] in H; [discriminate|].
  destruct (run_rd_log_ext (pollp st) s) as [ext He].
  destruct (run exec_req (rd (pollp st)) s) as [[[x st']|e] s1]; [|discriminate]. cbn [snd] in He.
  rewrite He, skipn_length_app in H.
  destruct (is_end x).
  - injection H as <- <-. exists [(ext, x)]. split; [reflexivity|]. cbn. rewrite app_nil_r. exact He.
  - apply IH in H. destruct H as [ps' [-> Hl]]. exists ((ext, x) :: ps'). split; [rewrite <- app_assoc; reflexivity|].
    cbn [map fst List.concat]. rewrite Hl, He, <- app_assoc. reflexivity.
Qed.

(* BuildPlan + polls, each run on its own = ScanIO.run_stmt: from EVERY storage state (any data,
   any earlier log, any fault index), both variants of the scans' done flag, both modes *)
Theorem select_polls_is_run_stmt_lemma :
  forall (remember_end : bool) (flt : kvp -> bool) (gkey : kvp -> bytes) (B fuel : nat) (m : mode)
         (fp : fplan) (s : sstate),
  match select_polls remember_end flt gkey B fuel m fp s with
  | (Ok (b, ps), s') =>
      ScanIO.run_stmt remember_end flt gkey B fuel m (StSelect fp) s = (Ok (sizes_of ps), s') /\
      slog s' = slog s ++ b ++ List.concat (map fst ps)
  | (Err e, s') =>
      ScanIO.run_stmt remember_end flt gkey B fuel m (StSelect fp) s = (Err e, s')
  end.
Proof.
  intros. unfold select_polls, ScanIO.run_stmt. cbn [stmt_prog]. unfold select_prog. rewrite run_rd_bind.
  destruct (run_rd_log_ext (select_build fp) s) as [ext He].
  destruct (run exec_req (rd (select_build fp)) s) as [[st|e] s1]; [|reflexivity]. cbn [snd] in He.
  pose proof (drain_is_poll_loop remember_end flt gkey B fuel fuel m fp st s1 []) as D.
  change (sizes_of []) with (@nil nat) in D. rewrite D.
  destruct (poll_loop (ScanBatches.f_poll remember_end flt gkey B fuel m fp) (Nat.eqb 0) fuel st s1 [])
    as [[ps|e] s2] eqn:E; [|reflexivity].
  split; [reflexivity|]. apply poll_loop_log in E. destruct E as [ps' [-> Hl]]. cbn [app] in *.
  rewrite Hl, He, skipn_length_app, <- app_assoc. reflexivity.
Qed.
