(* Proofs/ScanBatchBoundaryProofs.v -- the BATCH BOUNDARIES of the scan plans, and the storage calls
   of every single poll (Model/ScanBatches.v).

     A. polls run one by one ARE the statement run (every storage state, faults included)
          run_rd_bind                  running a sequenced read program = running its parts
          drain_is_poll_loop           ScanIO.drain = the poll loop of Model/ScanBatches.v
          select_polls_is_run_stmt     BuildPlan + polls: the concatenated per-poll logs are
                                       run_stmt's log, the non-zero row counts its sizes, an
                                       error of a poll is the statement's error
     B. the batches of a scan node over the annotated slots
          cursor_chunk_exact / cursor_loop_exact / mget_loop_exact
                                       one pass of the read loop / one Batch() call, EXACTLY:
                                       rows, cursor position, end flag and the calls issued
          scan_polls_agree_lemma       [scan_batches_agree]: BuildPlan + Batch() until the empty batch
                                       over every scan node, sorted store, filter, B >= 1: the
                                       list of (calls, rows) per Batch() call is [scan_polls_spec]
     C. [batch_pass] is ScanProj.scan_batch_loop (rows and slots left), so the batch boundaries of
        ScanIO's Batch loop are those of Model/ScanProj.v's over scan_slots
          batch_pass_is_scanproj, polls_spec_is_drain_batch, scan_batches_are_scanproj_lemma
     D. what IS guaranteed about batch lengths
          batch_pass_length            a Batch() call that did not see the end returns >= B rows
                                       and < 2B; one that saw the end may return fewer *)
From Coq Require Import List String Bool Arith Lia.
Import ListNotations.
From KV Require Import Base.Bytes Model.Value Model.Storage Model.ScanIO Model.ScanSem Model.ScanProj
                       Model.PipelineS Model.ScanBatches
                       Proofs.StorageProofs Proofs.ScanIOProofs Proofs.ScanIOFuel Proofs.ScanSemProofs.
From KV Require Proofs.ScanProjProofs Proofs.ScanSlotsProofs.

Local Open Scope list_scope.
Local Open Scope nat_scope.

(* ================================================================ A. polls one by one *)

Lemma run_rd_bind : forall (A C : Type) (p : rprog A) (f : A -> rprog C) (s : sstate),
  run exec_req (rd (bind p f)) s =
  match run exec_req (rd p) s with
  | (Ok a, s') => run exec_req (rd (f a)) s'
  | (Err e, s') => (Err e, s')
  end.
Proof.
  induction p as [a|e|R q k IH]; intros f s; unfold rd in *; cbn [bind lift run]; try reflexivity.
  destruct (exec_req (QRead q) s) as [[r|e] s']; [apply IH|reflexivity].
Qed.

Lemma run_rd_log_ext : forall (A : Type) (p : rprog A) (s : sstate),
  exists ext, slog (snd (run exec_req (rd p) s)) = slog s ++ ext.
Proof. intros. apply run_log_ext. Qed.
Arguments run_rd_log_ext {A} p s.
Arguments run_rd_bind {A C} p f s.

Lemma skipn_length_app : forall (A : Type) (a b : list A), skipn (List.length a) (a ++ b) = b.
Proof. induction a as [|x a IH]; intros b; cbn [List.length skipn app]; auto. Qed.

Definition sizes_of (ps : list (list scall * nat)) : list nat :=
  filter (fun n => negb (n =? 0)) (map snd ps).

Lemma sizes_of_snoc : forall ps seg n,
  sizes_of (ps ++ [(seg, n)]) = sizes_of ps ++ (if n =? 0 then [] else [n]).
Proof.
  intros. unfold sizes_of. rewrite map_app, filter_app. cbn [map filter snd].
  destruct (n =? 0); reflexivity.
Qed.

Section PollsAreRun.
Variable remember_end : bool.
Variable flt : kvp -> bool.
Variable gkey : kvp -> bytes.
Variables (B fuel : nat).

Notation drain := (ScanIO.drain remember_end flt gkey B fuel).
Notation f_poll := (f_poll remember_end flt gkey B fuel).

(* the caller's loop of ScanIO = the poll loop; the sizes are the non-zero row counts *)
Lemma drain_is_poll_loop : forall f m fp st s acc,
  run exec_req (rd (drain f m fp st (sizes_of acc))) s =
  match poll_loop (f_poll m fp) (Nat.eqb 0) f st s acc with
  | (Ok ps, s') => (Ok (sizes_of ps), s')
  | (Err e, s') => (Err e, s')
  end.
Proof.
  induction f as [|f IH]; intros m fp st s acc; cbn [ScanIO.drain poll_loop]; [reflexivity|].
  destruct m; cbn [ScanBatches.f_poll]; rewrite !run_rd_bind.
  - destruct (run exec_req (rd (f_next remember_end flt gkey fuel fp st)) s) as [[[r st']|e] s1]; [|reflexivity].
    unfold rd at 2. cbn [lift run fst snd]. destruct r as [x|]; cbn [Nat.eqb].
    + specialize (IH RowMode fp st' s1 (acc ++ [(skipn (List.length (slog s)) (slog s1), 1)])).
      rewrite sizes_of_snoc in IH. cbn [Nat.eqb] in IH. exact IH.
    + unfold rd. cbn [lift run]. rewrite sizes_of_snoc. cbn [Nat.eqb]. rewrite app_nil_r. reflexivity.
  - destruct (run exec_req (rd (f_batch remember_end flt gkey B fuel fp st)) s) as [[[rows st']|e] s1]; [|reflexivity].
    unfold rd at 2. cbn [lift run fst snd]. destruct rows as [|r0 rows]; cbn [List.length Nat.eqb].
    + unfold rd. cbn [lift run]. rewrite sizes_of_snoc. cbn [Nat.eqb]. rewrite app_nil_r. reflexivity.
    + specialize (IH BatchMode fp st' s1 (acc ++ [(skipn (List.length (slog s)) (slog s1), S (List.length rows))])).
      rewrite sizes_of_snoc in IH. cbn [Nat.eqb] in IH. exact IH.
Qed.

End PollsAreRun.

(* the log of a poll loop is the concatenation of its segments *)
Lemma poll_loop_log : forall (St X : Type) (pollp : St -> rprog (X * St)) (is_end : X -> bool)
                             f st s acc ps s',
  poll_loop pollp is_end f st s acc = (Ok ps, s') ->
  exists ps', ps = acc ++ ps' /\ slog s' = slog s ++ List.concat (map fst ps').
Proof.
  intros St X pollp is_end. induction f as [|f IH]; intros st s acc ps s' H; cbn [poll_loop] in H; [discriminate|].
  destruct (run_rd_log_ext (pollp st) s) as [ext He].
  destruct (run exec_req (rd (pollp st)) s) as [[[x st']|e] s1]; [|discriminate]. cbn [snd] in He.
  rewrite He, skipn_length_app in H.
  destruct (is_end x).
  - injection H as <- <-. exists [(ext, x)]. split; [reflexivity|]. cbn. rewrite app_nil_r. exact He.
  - apply IH in H. destruct H as [ps' [-> Hl]]. exists ((ext, x) :: ps'). split; [rewrite <- app_assoc; reflexivity|].
    cbn [map fst List.concat]. rewrite Hl, He, <- app_assoc. reflexivity.
Qed.

(* BuildPlan + polls, each run on its own = ScanIO.run_stmt: from EVERY storage state (any data,
   any earlier log, any fault index), both variants of the scans' done flag, both modes *)
Theorem select_polls_is_run_stmt_lemma :
  forall (remember_end : bool) (flt : kvp -> bool) (gkey : kvp -> bytes) (B fuel : nat) (m : mode)
         (fp : fplan) (s : sstate),
  match select_polls remember_end flt gkey B fuel m fp s with
  | (Ok (b, ps), s') =>
      ScanIO.run_stmt remember_end flt gkey B fuel m (StSelect fp) s = (Ok (sizes_of ps), s') /\
      slog s' = slog s ++ b ++ List.concat (map fst ps)
  | (Err e, s') =>
      ScanIO.run_stmt remember_end flt gkey B fuel m (StSelect fp) s = (Err e, s')
  end.
Proof.
  intros. unfold select_polls, ScanIO.run_stmt. cbn [stmt_prog]. unfold select_prog. rewrite run_rd_bind.
  destruct (run_rd_log_ext (select_build fp) s) as [ext He].
  destruct (run exec_req (rd (select_build fp)) s) as [[st|e] s1]; [|reflexivity]. cbn [snd] in He.
  pose proof (drain_is_poll_loop remember_end flt gkey B fuel fuel m fp st s1 []) as D.
  change (sizes_of []) with (@nil nat) in D. rewrite D.
  destruct (poll_loop (ScanBatches.f_poll remember_end flt gkey B fuel m fp) (Nat.eqb 0) fuel st s1 [])
    as [[ps|e] s2] eqn:E; [|reflexivity].
  split; [reflexivity|]. apply poll_loop_log in E. destruct E as [ps' [-> Hl]]. cbn [app] in *.
  rewrite Hl, He, skipn_length_app, <- app_assoc. reflexivity.
Qed.

(* ================================================================ B. the batches of a scan node *)

Definition annot (l : store) : list aslot := map (fun kv : kvp => (CNext (Some (fst kv)), Some kv)) l.

Lemma annot_length : forall l, List.length (annot l) = List.length l.
Proof. intros. apply map_length. Qed.

Lemma firstn_annot : forall n l, firstn n (annot l) = annot (firstn n l).
Proof. intros. unfold annot. apply firstn_map. Qed.

Lemma skipn_annot : forall n l, skipn n (annot l) = annot (skipn n l).
Proof. intros. unfold annot. apply skipn_map. Qed.

Lemma map_fst_annot : forall l, map fst (annot l) = map (fun kv : kvp => CNext (Some (fst kv))) l.
Proof. intros. unfold annot. rewrite map_map. reflexivity. Qed.

Lemma somes_annot : forall l, somes (map snd (annot l)) = l.
Proof. intros. unfold annot. rewrite map_map. cbn [snd]. apply ScanSlotsProofs.somes_map_some. Qed.

Lemma ltb_SS : forall a b, (S a <? S b) = (a <? b).
Proof. reflexivity. Qed.

(* the cursor after the Next that discovered the end, [sl] = the slots that were left *)
Definition after_end (snap : store) (n : nat) (rest : store) : cursor :=
  match skipn n rest with [] => Cur snap [] | _ :: r => Cur snap r end.

Lemma take_until_skipn : forall stop n rest, n <= List.length (take_until stop rest) ->
  take_until stop (skipn n rest) = skipn n (take_until stop rest) /\
  cursor_term stop (skipn n rest) = cursor_term stop rest /\
  n <= List.length rest.
Proof.
  intros stop. induction n as [|n IH]; intros rest H; [cbn; auto with arith|].
  destruct rest as [|kv rest]; [cbn in H; lia|]. cbn [take_until cursor_term skipn] in *.
  destruct (stop kv); [cbn in H; lia|]. cbn [List.length skipn] in *.
  destruct (IH rest) as [H1 [H2 H3]]; [lia|]. repeat split; auto; lia.
Qed.

Lemma take_until_never : forall (stop : kvp -> bool) rest, (forall kv, stop kv = false) -> take_until stop rest = rest.
Proof. intros stop rest H. induction rest as [|kv rest IH]; cbn [take_until]; [reflexivity|]. rewrite H, IH. reflexivity. Qed.

Lemma cursor_term_never : forall (stop : kvp -> bool) rest, (forall kv, stop kv = false) -> cursor_term stop rest = CNext None.
Proof. intros stop rest H. induction rest as [|kv rest IH]; cbn [cursor_term]; [reflexivity|]. rewrite H. exact IH. Qed.

Lemma take_until_length : forall stop rest, List.length (take_until stop rest) <= List.length rest.
Proof. intros stop. induction rest as [|kv rest IH]; cbn [take_until]; [lia|]. destruct (stop kv); cbn [List.length]; lia. Qed.

(* one pass of the read loop of a cursor scan, EXACTLY *)
Lemma cursor_chunk_exact : forall sc n snap rest acc d,
  rspec (cursor_read_chunk sc n snap rest acc) d (fun x l =>
    x = (acc ++ firstn n (take_until (scan_stop sc) rest),
         (if List.length (take_until (scan_stop sc) rest) <? n
          then after_end snap (List.length (take_until (scan_stop sc) rest)) rest
          else Cur snap (skipn n rest)),
         List.length (take_until (scan_stop sc) rest) <? n) /\
    l = map (fun kv : kvp => CNext (Some (fst kv))) (firstn n (take_until (scan_stop sc) rest))
        ++ (if List.length (take_until (scan_stop sc) rest) <? n then [cursor_term (scan_stop sc) rest] else [])).
Proof.
  intros sc. induction n as [|n IH]; intros snap rest acc d; cbn [cursor_read_chunk].
  - cbn [rspec firstn skipn map app]. rewrite app_nil_r. split; reflexivity.
  - destruct rest as [|kv rest].
    + cbn [op_next bind rspec ranswer rentry crest csnap snd fst take_until firstn List.length map app].
      rewrite app_nil_r. split; reflexivity.
    + cbn [op_next bind rspec ranswer rentry crest csnap snd fst take_until cursor_term].
      destruct (scan_stop sc kv) eqn:Es.
      * cbn [rspec firstn List.length map app]. rewrite app_nil_r. split; reflexivity.
      * eapply rspec_mono; [|apply IH]. cbn beta. intros x l [-> ->].
        cbn [List.length firstn skipn map app]. rewrite ltb_SS, <- app_assoc. cbn [app].
        split; [|reflexivity]. unfold after_end. cbn [skipn]. reflexivity.
Qed.

Lemma somes_length_le : forall (P : Type) (l : list (option P)), List.length (somes l) <= List.length l.
Proof. induction l as [|[x|] l IH]; cbn [somes List.length]; lia. Qed.
Arguments somes_length_le {P} l.

Section Exact.
Variable flt : kvp -> bool.
Variable B : nat.
Hypothesis HB : 1 <= B.

(* rows produced + slots left never exceed slots given + rows so far *)
Lemma batch_pass_measure : forall f term rest ret rows log rest' e,
  batch_pass flt B f term rest ret = (rows, log, rest', e) ->
  List.length rest' + List.length rows <= List.length rest + List.length ret.
Proof.
  induction f as [|f IH]; intros term rest ret rows log rest' e H; cbn [batch_pass] in H.
  - injection H as <- <- <- <-. lia.
  - pose proof (firstn_skipn B rest) as FS. apply (f_equal (@List.length aslot)) in FS. rewrite app_length in FS.
    pose proof (somes_length_le (map snd (firstn B rest))) as SL. rewrite map_length in SL.
    pose proof (filter_length_le flt (somes (map snd (firstn B rest)))) as FL.
    match type of H with (if ?c then _ else _) = _ => destruct c end.
    + injection H as <- <- <- <-. rewrite app_length. unfold aslot in *. lia.
    + destruct (batch_pass flt B f term (skipn B rest) (ret ++ filter flt (somes (map snd (firstn B rest)))))
        as [[[rows1 log1] rest1] e1] eqn:E.
      injection H as <- <- <- <-. apply IH in E. rewrite app_length in E. unfold aslot in *. lia.
Qed.

(* enough fuel is enough: a pass that does not finish has consumed B >= 1 slots *)
Lemma batch_pass_fuel : forall f f' term rest ret,
  List.length rest < f -> List.length rest < f' ->
  batch_pass flt B f term rest ret = batch_pass flt B f' term rest ret.
Proof.
  induction f as [|f IH]; intros f' term rest ret H H'; [lia|]. destruct f' as [|f']; [lia|].
  cbn [batch_pass].
  match goal with |- (if ?c then _ else _) = _ => destruct c eqn:Efin end; [reflexivity|].
  assert (Hlt : (List.length rest <? B) = false).
  { destruct (somes (map snd (firstn B rest))); [exact Efin|]. apply orb_false_iff in Efin. exact (proj1 Efin). }
  apply Nat.ltb_ge in Hlt.
  assert (Hs : List.length (skipn B rest) < List.length rest) by (rewrite skipn_length; lia).
  rewrite (IH f'); [reflexivity|lia|lia].
Qed.

(* the end flag: seen iff fewer than B slots were left at the last pass; then nothing is left *)
Lemma batch_pass_end : forall f term rest ret rows log rest' e,
  batch_pass flt B f term rest ret = (rows, log, rest', e) -> e = true -> rest' = [].
Proof.
  induction f as [|f IH]; intros term rest ret rows log rest' e H He; cbn [batch_pass] in H.
  - injection H as <- <- <- <-. discriminate.
  - match type of H with (if ?c then _ else _) = _ => destruct c end.
    + injection H as <- <- <- <-. apply Nat.ltb_lt in He. apply skipn_all2. lia.
    + destruct (batch_pass flt B f term (skipn B rest) (ret ++ filter flt (somes (map snd (firstn B rest)))))
        as [[[rows1 log1] rest1] e1] eqn:E.
      injection H as <- <- <- <-. eapply IH; eassumption.
Qed.

(* ---------------------------------------------------------------- cursor scans *)

(* one Batch() call of a cursor scan, EXACTLY: the rows, the calls, the end flag are those of
   [batch_pass] over the annotated slots the cursor still has; the cursor ends up where the
   slots left are *)
Lemma cursor_loop_exact : forall f sc c ret d,
  rspec (cursor_batch_loop flt B f sc c ret) d (fun x l =>
    match batch_pass flt B f [cursor_term (scan_stop sc) (crest c)]
                     (annot (take_until (scan_stop sc) (crest c))) ret with
    | (rows, log, rest', e) =>
        fst (fst x) = rows /\ snd x = e /\ l = log /\
        csnap (snd (fst x)) = csnap c /\
        List.length (crest (snd (fst x))) <= List.length (crest c) /\
        (e = false -> rest' = annot (take_until (scan_stop sc) (crest (snd (fst x)))) /\
                      cursor_term (scan_stop sc) (crest (snd (fst x))) = cursor_term (scan_stop sc) (crest c)) /\
        (e = true -> (forall kv, scan_stop sc kv = false) -> crest (snd (fst x)) = [])
    end).
Proof.
  induction f as [|f IH]; intros sc c ret d; cbn [cursor_batch_loop]; [reflexivity|].
  apply rspec_bind. eapply rspec_mono; [|apply cursor_chunk_exact]. cbn beta.
  intros x l [-> ->]. cbn [app].
  set (stop := scan_stop sc). set (sl := take_until stop (crest c)).
  cbn [batch_pass]. rewrite annot_length, firstn_annot, map_fst_annot, somes_annot, skipn_annot.
  fold sl. set (ret' := ret ++ filter flt (firstn B sl)).
  destruct (List.length sl <? B) eqn:Ee.
  - (* the end is seen in this pass *)
    assert (Efin : match firstn B sl with [] => true | _ :: _ => true || (B <=? List.length ret') end = true)
      by (destruct (firstn B sl); reflexivity).
    rewrite Efin. cbn [rspec fst snd]. rewrite app_nil_r.
    split; [reflexivity|]. split; [reflexivity|]. split; [reflexivity|].
    split; [unfold after_end; destruct (skipn (List.length sl) (crest c)); reflexivity|].
    split.
    { unfold after_end. pose proof (skipn_length (List.length sl) (crest c)) as SL.
      destruct (skipn (List.length sl) (crest c)); cbn [crest List.length] in *; lia. }
    split; [discriminate|].
    intros _ Hn. unfold after_end, sl. rewrite (take_until_never stop (crest c) Hn), skipn_all. reflexivity.
  - pose proof Ee as Ege. apply Nat.ltb_ge in Ege.
    destruct (take_until_skipn stop B (crest c) Ege) as [H1 [H2 H3]]. fold sl in H1.
    destruct (match firstn B sl with [] => false | _ :: _ => false || (B <=? List.length ret') end) eqn:Efin.
    + cbn [rspec fst snd crest csnap]. rewrite app_nil_r.
      split; [reflexivity|]. split; [reflexivity|]. split; [reflexivity|]. split; [reflexivity|].
      split; [rewrite skipn_length; lia|]. split; [|discriminate].
      intros _. rewrite H1. auto.
    + eapply rspec_mono; [|apply IH]. cbn beta. intros [[rows c''] e2] l2. cbn [crest csnap fst snd].
      fold stop. rewrite H1, H2. fold ret'.
      destruct (batch_pass flt B f [cursor_term stop (crest c)] (annot (skipn B sl)) ret') as [[[rows1 log1] rest1] e1].
      intros (K1 & K2 & K3 & K4 & K5 & K6 & K7).
      split; [exact K1|]. split; [exact K2|]. split; [rewrite K3, app_nil_r; reflexivity|].
      split; [exact K4|]. split; [rewrite skipn_length in K5; lia|].
      split; [exact K6|exact K7].
Qed.

(* ---------------------------------------------------------------- multi-get *)

Lemma ascan_mget_map : forall keys d,
  ascan_slots (SMget keys) d
  = map (fun k => (CGet k, match sget k d with Some v => Some (k, v) | None => None end)) keys.
Proof. reflexivity. Qed.

Lemma skipn_min : forall (A : Type) n (l : list A), skipn (Nat.min n (List.length l)) l = skipn n l.
Proof.
  intros A. induction n as [|n IH]; intros l; [reflexivity|]. destruct l as [|x l]; [reflexivity|].
  cbn [List.length Nat.min skipn]. apply IH.
Qed.

Lemma mget_loop_exact : forall f keys idx ret d, List.length ret < B ->
  rspec (mget_batch_loop flt B f keys idx ret) d (fun x l =>
    match batch_pass flt B f [] (ascan_slots (SMget keys) d) ret with
    | (rows, log, rest', e) =>
        fst x = rows /\ l = log /\
        exists m, m <= List.length keys /\ snd x = idx + m /\ rest' = ascan_slots (SMget (skipn m keys)) d
    end).
Proof.
  induction f as [|f IH]; intros keys idx ret d Hret; cbn [mget_batch_loop]; [reflexivity|].
  apply rspec_bind. eapply rspec_mono; [|apply ScanSlotsProofs.mget_chunk_consumes_slots_lemma]. cbn beta.
  intros x l [-> ->]. cbn [app].
  cbn [batch_pass]. rewrite !ascan_mget_map, map_length, firstn_map, skipn_map, !map_map. cbn [fst snd].
  change (map (fun k => match sget k d with Some v => Some (k, v) | None => None end) (firstn B keys))
    with (scan_slots (SMget (firstn B keys)) d).
  assert (Efn : firstn B (scan_slots (SMget keys) d) = scan_slots (SMget (firstn B keys)) d).
  { cbn [scan_slots]. apply firstn_map. }
  rewrite Efn. unfold EvalVec.kvpair, kvp in *.
  repeat match goal with |- context [?a ++ (if ?b then [] else [])] =>
    replace (a ++ (if b then [] else [])) with a by (destruct b; rewrite app_nil_r; reflexivity) end.
  match goal with |- context [match ?ch with [] => ?e | _ :: _ => ?e2 end] =>
    replace (match ch with [] => e | _ :: _ => e2 end) with e2
      by (destruct ch; [cbn [filter]; rewrite app_nil_r;
                        replace (B <=? List.length ret) with false by (symmetry; apply Nat.leb_gt; exact Hret);
                        rewrite orb_false_r; reflexivity|reflexivity]) end.
  match goal with |- rspec (if ?c then _ else _) _ _ => destruct c eqn:Ef end.
  - cbn [rspec fst snd]. rewrite app_nil_r. split; [reflexivity|]. split; [reflexivity|].
    exists (Nat.min B (List.length keys)). split; [lia|]. split; [reflexivity|].
    rewrite skipn_min. reflexivity.
  - apply orb_false_iff in Ef. destruct Ef as [Ee El]. apply Nat.leb_gt in El. apply Nat.ltb_ge in Ee.
    eapply rspec_mono; [|apply IH; exact El]. cbn beta. intros [rows idx'] l2. cbn [fst snd].
    rewrite ascan_mget_map. unfold EvalVec.kvpair, kvp in *.
    match goal with |- (let (_, _) := ?bp in _) -> _ => destruct bp as [[[rows1 log1] rest1] e1] end.
    intros (K1 & K2 & m & M1 & M2 & M3).
    split; [exact K1|]. split; [rewrite K2; reflexivity|].
    rewrite skipn_length in M1. exists (B + m). split; [lia|]. split; [rewrite M2; lia|].
    rewrite M3, skipn_add. reflexivity.
Qed.

End Exact.

(* ---------------------------------------------------------------- one Batch() call of a scan node *)

Lemma silent_remembers : forall sc, is_cursor_scan sc = true -> remembers sc = scan_silent sc.
Proof. intros [| |p|lo hi|keys] H; try discriminate H; reflexivity. Qed.

(* the state of the scan node against the slots left and the end flag *)
Definition poll_inv (sc : scan) (d : store) (st : pstate) (rest : list aslot) (ended : bool) : Prop :=
  match st with
  | PSScan it idx e =>
      match sc with
      | SEmpty => True
      | SMget keys => rest = ascan_slots (SMget (skipn idx keys)) d
      | _ => e = ended /\ exists c, it = Some c /\
             ((scan_silent sc = true /\ ended = true) \/
              (rest = annot (take_until (scan_stop sc) (crest c)) /\
               [cursor_term (scan_stop sc) (crest c)] = scan_term sc d))
      end
  | _ => False
  end.

Lemma poll_inv_cursor : forall sc d it idx e rest ended, is_cursor_scan sc = true ->
  poll_inv sc d (PSScan it idx e) rest ended =
  (e = ended /\ exists c, it = Some c /\
     ((scan_silent sc = true /\ ended = true) \/
      (rest = annot (take_until (scan_stop sc) (crest c)) /\
       [cursor_term (scan_stop sc) (crest c)] = scan_term sc d))).
Proof. intros [| |p|lo hi|keys] d it idx e rest ended H; try discriminate H; reflexivity. Qed.

Lemma scan_term_cursor : forall sc d, is_cursor_scan sc = true ->
  scan_term sc d = [cursor_term (scan_stop sc) (scan_start sc d)].
Proof. intros [| |p|lo hi|keys] d H; try discriminate H; reflexivity. Qed.

Lemma mu_scan_cursor : forall sc c idx e, is_cursor_scan sc = true ->
  mu_scan sc (PSScan (Some c) idx e) = List.length (crest c).
Proof. intros [| |p|lo hi|keys] c idx e H; try discriminate H; reflexivity. Qed.

Section Polls.
Variable flt : kvp -> bool.
Variables (B fuel : nat).
Hypothesis HB : 1 <= B.

Lemma scan_poll_exact : forall sc st d rest ended, sc <> SEmpty -> poll_inv sc d st rest ended ->
  rspec (ScanIO.scan_batch true flt B fuel sc st) d (fun x l =>
    if scan_silent sc && ended then x = ([], st) /\ l = []
    else match batch_pass flt B fuel (scan_term sc d) rest [] with
         | (rows, log, rest', e) =>
             fst x = rows /\ l = log /\ poll_inv sc d (snd x) rest' e /\
             mu_scan sc (snd x) <= mu_scan sc st
         end).
Proof.
  intros sc st d rest ended Hne Hinv. destruct st as [it idx e0|sk cur cst]; [|destruct Hinv].
  destruct (is_cursor_scan sc) eqn:Ec.
  - rewrite (scan_batch_cursor flt B fuel sc it idx e0 Ec), (silent_remembers sc Ec).
    rewrite (poll_inv_cursor sc d it idx e0 rest ended Ec) in Hinv. destruct Hinv as [-> [c [-> Hc]]].
    destruct (scan_silent sc && ended) eqn:Es.
    + cbn [rspec]. split; reflexivity.
    + destruct Hc as [[H1 H2]|[Hr Ht]]; [rewrite H1, H2 in Es; discriminate|].
      apply rspec_bind. eapply rspec_mono; [|apply cursor_loop_exact; try exact HB]. cbn beta.
      intros [[rows c'] fin] l. cbn [fst snd]. rewrite Ht, <- Hr.
      destruct (batch_pass flt B fuel (scan_term sc d) rest []) as [[[rows1 log1] rest1] e1] eqn:Ebp.
      intros (K1 & K2 & K3 & K4 & K5 & K6 & K7). cbn [rspec fst snd]. rewrite app_nil_r.
      split; [exact K1|]. split; [exact K3|]. split.
      * rewrite (poll_inv_cursor sc d (Some c') idx fin rest1 e1 Ec). split; [exact K2|].
        exists c'. split; [reflexivity|]. destruct e1.
        -- destruct (scan_silent sc) eqn:Esil; [left; auto|right].
           assert (Hn : forall kv, scan_stop sc kv = false).
           { apply stop_never. rewrite (silent_remembers sc Ec). exact Esil. }
           rewrite (K7 eq_refl Hn). cbn [take_until cursor_term].
           split; [eapply batch_pass_end; [exact HB|exact Ebp|reflexivity]|].
           rewrite (scan_term_cursor sc d Ec), (cursor_term_never _ _ Hn). reflexivity.
        -- right. destruct (K6 eq_refl) as [K8 K9]. split; [exact K8|]. rewrite K9. exact Ht.
      * rewrite (mu_scan_cursor sc c' idx fin Ec), (mu_scan_cursor sc c idx ended Ec). exact K5.
  - destruct sc as [| |p|lo hi|keys]; try discriminate Ec; [exfalso; apply Hne; reflexivity|].
    cbn [scan_silent andb poll_inv scan_term ScanIO.scan_batch] in *. subst rest.
    apply rspec_bind. eapply rspec_mono; [|apply mget_loop_exact; cbn [List.length]; lia]. cbn beta.
    intros [rows idx'] l. cbn [fst snd].
    destruct (batch_pass flt B fuel [] (ascan_slots (SMget (skipn idx keys)) d) []) as [[[rows1 log1] rest1] e1].
    intros (K1 & K2 & m & M1 & M2 & M3). cbn [rspec fst snd poll_inv mu_scan]. rewrite app_nil_r.
    split; [exact K1|]. split; [exact K2|]. split; [|lia].
    rewrite M3, M2, skipn_add. reflexivity.
Qed.

(* Batch() until the empty batch over a scan node, EXACTLY *)
Lemma scan_poll_loop_exact : forall sc d, sc <> SEmpty -> List.length d < fuel ->
  forall f st rest ended l0 acc,
  poll_inv sc d st rest ended -> mu_scan sc st < fuel -> List.length rest < fuel -> List.length rest < f ->
  exists l1, poll_loop (plan_batch true flt B fuel (PScan sc)) (@is_nil kvp) f st (SState d l0 None) acc
             = (Ok (acc ++ polls_spec flt B f (scan_silent sc) (scan_term sc d) rest ended), SState d (l0 ++ l1) None).
Proof.
  intros sc d Hne Hd. induction f as [|f IH]; intros st rest ended l0 acc Hinv Hmu Hrf Hf; [lia|].
  cbn [poll_loop polls_spec plan_batch].
  destruct (@rspec_total (List.length d) _ (ScanIO.scan_batch true flt B fuel sc st) d _ l0
              (scan_poll_exact sc st d rest ended Hne Hinv)) as [[rows st'] [ext [E Q]]].
  { eapply wp_mono; [|apply (@scan_batch_spec (List.length d) true flt B fuel HB sc st Hmu)]. auto. }
  { lia. }
  unfold run_read in E. rewrite E. cbn [slog]. rewrite skipn_length_app.
  destruct (scan_silent sc && ended).
  - destruct Q as [Q1 ->]. injection Q1 as -> ->. cbn [is_nil]. exists []. reflexivity.
  - rewrite (@batch_pass_fuel flt B HB (S (List.length rest)) fuel (scan_term sc d) rest []) by lia.
    destruct (batch_pass flt B fuel (scan_term sc d) rest []) as [[[rows1 log1] rest1] e1] eqn:Ebp.
    cbn [fst snd] in Q. destruct Q as (-> & -> & Hinv' & Hmu').
    destruct rows1 as [|r0 rows1]; cbn [is_nil].
    + exists log1. reflexivity.
    + pose proof Ebp as M. apply batch_pass_measure in M; [|exact HB]. cbn [List.length] in M.
      assert (M1 : List.length rest1 < List.length rest) by (unfold aslot in *; lia).
      destruct (IH st' rest1 e1 (l0 ++ log1) (acc ++ [(log1, r0 :: rows1)]) Hinv') as [l1 E1]; try lia.
      change (plan_batch true flt B fuel (PScan sc)) with (ScanIO.scan_batch true flt B fuel sc) in E1.
      exists (log1 ++ l1). rewrite E1, <- !app_assoc. reflexivity.
Qed.

End Polls.

(* the poll spec does not depend on its fuel once it exceeds the number of slots *)
Lemma polls_spec_fuel : forall flt B, 1 <= B -> forall f f' silent term rest ended,
  List.length rest < f -> List.length rest < f' ->
  polls_spec flt B f silent term rest ended = polls_spec flt B f' silent term rest ended.
Proof.
  intros flt B HB. induction f as [|f IH]; intros f' silent term rest ended H H'; [lia|].
  destruct f' as [|f']; [lia|]. cbn [polls_spec]. destruct (silent && ended); [reflexivity|].
  destruct (batch_pass flt B (S (List.length rest)) term rest []) as [[[rows log] rest'] e] eqn:Ebp.
  destruct rows as [|r0 rows]; [reflexivity|].
  pose proof Ebp as M. apply batch_pass_measure in M; [|exact HB]. cbn [List.length] in M.
  assert (M1 : List.length rest' < List.length rest) by (unfold aslot in *; lia).
  rewrite (IH f'); [reflexivity|lia|lia].
Qed.

Lemma ascan_slots_length : forall sc d, List.length (ascan_slots sc d) <= List.length d + plan_keys (PScan sc).
Proof.
  intros sc d. assert (Hs : forall k, List.length (take_until (scan_stop sc) (seek_from k d)) <= List.length d).
  { intros k. etransitivity; [apply take_until_length|apply seek_from_length]. }
  pose proof (take_until_length (scan_stop sc) d) as Hd.
  destruct sc as [| |p|[k|] hi|keys]; cbn [ascan_slots scan_start plan_keys List.length]; rewrite ?map_length.
  - lia.
  - specialize (Hs EmptyString). lia.
  - specialize (Hs p). lia.
  - specialize (Hs k). lia.
  - lia.
  - lia.
Qed.

Lemma scan_eq_empty : forall sc, sc = SEmpty \/ sc <> SEmpty.
Proof. intros [| |p|lo hi|keys]; [left; reflexivity|right; discriminate..]. Qed.

(* BuildPlan over a scan node: the Init calls (twice), the cursor where Init leaves it *)
Lemma scan_build_exact : forall sc d,
  rspec (plan_build (PScan sc)) d (fun st l =>
    l = scan_init_calls sc ++ scan_init_calls sc /\ poll_inv sc d st (ascan_slots sc d) false /\
    mu_scan sc st <= List.length d + plan_keys (PScan sc)).
Proof.
  intros sc d. pose proof (seek_from_length) as SL.
  assert (Hc : forall (stop : kvp -> bool) rest, List.length rest <= List.length d ->
     (false = false /\
     (exists c : cursor, Some (Cur d rest) = Some c /\
        (scan_silent sc = true /\ false = true \/
         map (fun kv : kvp => (CNext (Some (fst kv)), Some kv)) (take_until stop rest) = annot (take_until stop (crest c)) /\
         [cursor_term stop (crest c)] = [cursor_term stop rest]))) /\
     List.length rest <= List.length d + 0).
  { intros stop rest Hl. split; [|lia]. split; [reflexivity|]. eexists. split; [reflexivity|]. right. split; reflexivity. }
  destruct sc as [| |p|[k|] hi|keys]; cbn; (split; [reflexivity|]).
  - split; [exact I|lia].
  - apply (Hc (scan_stop SFull)), SL.
  - apply (Hc (scan_stop (SPrefix p))), SL.
  - apply (Hc (scan_stop (SRange (Some k) hi))), SL.
  - apply (Hc (scan_stop (SRange None hi))). lia.
  - split; [reflexivity|lia].
Qed.

(* [scan_batches_agree].  For every scan node (empty / full / prefix / range / multi-get), every
   store, every filter oracle, every batch size B >= 1 and every fuel above |store| + listed keys:
   BuildPlan and then Batch() polled until the empty batch, every call run on its own, returns
   EXACTLY [scan_polls_spec]: the Init calls, and per Batch() call the storage calls it issued
   and the pairs it returned -- the batches of Model/ScanProj.v's loop over the slots, with the
   call that reads each slot and the one Next that discovers the end. *)
Theorem scan_polls_agree_lemma :
  forall (flt : kvp -> bool) (B fuel : nat) (sc : scan) (d : store) (l0 : list scall),
  1 <= B -> List.length d + plan_keys (PScan sc) < fuel ->
  exists l, scan_polls true flt B fuel (PScan sc) (SState d l0 None)
            = (Ok (scan_init_calls sc ++ scan_init_calls sc, scan_polls_spec flt B sc d), SState d (l0 ++ l) None)
            /\ l = (scan_init_calls sc ++ scan_init_calls sc) ++ List.concat (map fst (scan_polls_spec flt B sc d)).
Proof.
  intros flt B fuel sc d l0 HB Hf. unfold scan_polls.
  destruct (@rspec_total (List.length d) _ (plan_build (PScan sc)) d _ l0 (scan_build_exact sc d))
    as [st [ext [E (-> & Hinv & Hmu)]]].
  { eapply wp_mono; [|apply plan_build_wp]. auto. }
  { lia. }
  unfold run_read in E. rewrite E. cbn [slog]. rewrite skipn_length_app.
  destruct (scan_eq_empty sc) as [->|Hne].
  - destruct fuel as [|fuel']; [lia|]. cbn in E. injection E as <- _. cbn. exists []. rewrite !app_nil_r, skipn_all. split; reflexivity.
  - pose proof (ascan_slots_length sc d) as AL.
    destruct (@scan_poll_loop_exact flt B fuel HB sc d Hne ltac:(lia) fuel st (ascan_slots sc d) false
                (l0 ++ scan_init_calls sc ++ scan_init_calls sc) [] Hinv ltac:(lia) ltac:(lia) ltac:(lia)) as [l1 E1].
    rewrite E1. cbn [app].
    assert (Es : polls_spec flt B fuel (scan_silent sc) (scan_term sc d) (ascan_slots sc d) false = scan_polls_spec flt B sc d).
    { unfold scan_polls_spec. destruct sc; try (exfalso; apply Hne; reflexivity); (apply polls_spec_fuel; [exact HB|lia|lia]). }
    rewrite Es.
    pose proof E1 as E2. apply poll_loop_log in E2. destruct E2 as [ps' [Eps Hl]]. cbn [app slog] in *. subst ps'.
    rewrite Es in Hl. apply app_inv_head in Hl. subst l1.
    exists ((scan_init_calls sc ++ scan_init_calls sc) ++ List.concat (map fst (scan_polls_spec flt B sc d))).
    rewrite <- !app_assoc. split; reflexivity.
Qed.

(* ================================================================ C. [batch_pass] IS Model/ScanProj.v's
   batch loop: same rows, same slots left, pass by pass -- so the batch boundaries of ScanIO's
   Batch loop (B.) are those of ScanProj.scan_batch_loop over the slots. *)

Section ScanProjLink.
Variable flt : kvp -> bool.
Variable B : nat.
Hypothesis HB : 1 <= B.

(* FilterExec.FilterBatch of a filter that does not fail: one verdict per pair *)
Definition fbatch_of : list kvp -> Value.res (list bool) := fun c => Value.Ok (map flt c).
Definition pbatch_id : list kvp -> Value.res (list kvp) := fun c => Value.Ok c.

Lemma select_matches_filter : forall chunk : list kvp,
  select_matches chunk (map flt chunk) = Value.Ok (filter flt chunk).
Proof.
  induction chunk as [|kv chunk IH]; [reflexivity|]. cbn [map select_matches filter]. rewrite IH.
  cbn [Value.bind]. destruct (flt kv); reflexivity.
Qed.

Lemma batch_pass_is_scanproj : forall f term rest ret rows log rest' e,
  List.length rest < f -> batch_pass flt B f term rest ret = (rows, log, rest', e) ->
  ScanProj.scan_batch_loop fbatch_of f B (map snd rest) ret = Value.Ok (rows, map snd rest').
Proof.
  induction f as [|f IH]; intros term rest ret rows log rest' e Hf H; [lia|].
  cbn [batch_pass ScanProj.scan_batch_loop] in *. rewrite map_length, firstn_map, skipn_map.
  unfold aslot, kvp, EvalVec.kvpair in *.
  destruct (somes (map snd (firstn B rest))) as [|kv chunk] eqn:Ech.
  - cbn [filter] in H. rewrite app_nil_r in H.
    destruct (List.length rest <? B) eqn:Ee.
    + injection H as <- <- <- <-. reflexivity.
    + destruct (batch_pass flt B f term (skipn B rest) ret) as [[[rows1 log1] rest1] e1] eqn:E.
      injection H as <- <- <- <-. apply Nat.ltb_ge in Ee.
      eapply IH; [|exact E]. rewrite skipn_length. lia.
  - unfold fbatch_of at 1. cbn [Value.bind]. rewrite select_matches_filter. cbn [Value.bind].
    match type of H with (if ?c then _ else _) = _ => destruct c eqn:Efin end;
      match goal with |- (if ?c then _ else _) = _ => replace c with ((List.length rest <? B) || (B <=? List.length (ret ++ filter flt (kv :: chunk)))) by reflexivity; rewrite Efin end.
    + injection H as <- <- <- <-. reflexivity.
    + destruct (batch_pass flt B f term (skipn B rest) (ret ++ filter flt (kv :: chunk))) as [[[rows1 log1] rest1] e1] eqn:E.
      injection H as <- <- <- <-. apply orb_false_iff in Efin. destruct Efin as [Ee _]. apply Nat.ltb_ge in Ee.
      eapply IH; [|exact E]. rewrite skipn_length. lia.
Qed.

Lemma polls_spec_nonempty : forall f silent term rest ended, 0 < f ->
  polls_spec flt B f silent term rest ended <> [].
Proof.
  intros [|f] silent term rest ended H; [lia|]. cbn [polls_spec]. destruct (silent && ended); [discriminate|].
  destruct (batch_pass flt B (S (List.length rest)) term rest []) as [[[rows log] rest'] e].
  destruct rows; discriminate.
Qed.

Lemma removelast_cons : forall (A : Type) (a : A) l, l <> [] -> removelast (a :: l) = a :: removelast l.
Proof. intros A a [|b l] H; [contradiction|reflexivity]. Qed.

(* Batch() until the empty batch: the batches of [polls_spec] (all polls but the last, which is
   the empty one) are ScanProj.drain_batch's *)
Lemma polls_spec_is_drain_batch : forall f silent term (rest : list aslot) ended,
  List.length rest < f -> (ended = true -> rest = []) ->
  ScanProj.drain_batch_fuel fbatch_of pbatch_id f B (map snd rest)
  = Value.Ok (removelast (map snd (polls_spec flt B f silent term rest ended))).
Proof.
  induction f as [|f IH]; intros silent term rest ended Hf He; [lia|].
  cbn [ScanProj.drain_batch_fuel polls_spec]. unfold ScanProj.proj_batch, ScanProj.scan_batch. rewrite map_length.
  destruct (silent && ended) eqn:Es.
  - apply andb_true_iff in Es. rewrite (He (proj2 Es)). cbn [map List.length ScanProj.scan_batch_loop firstn skipn somes].
    replace (0 <? B) with true by (symmetry; apply Nat.ltb_lt; lia). rewrite firstn_nil, skipn_nil. reflexivity.
  - destruct (batch_pass flt B (S (List.length rest)) term rest []) as [[[rows log] rest'] e] eqn:Ebp.
    erewrite batch_pass_is_scanproj; [|apply Nat.lt_succ_diag_r|exact Ebp]. cbn [Value.bind].
    destruct rows as [|r0 rows]; [reflexivity|]. unfold pbatch_id at 1. cbn [Value.bind].
    pose proof Ebp as M. apply batch_pass_measure in M; [|exact HB]. cbn [List.length] in M.
    assert (M1 : List.length rest' < List.length rest) by (unfold aslot in *; lia).
    rewrite (IH silent term rest' e); [|lia|intros E; eapply batch_pass_end; [exact HB|exact Ebp|exact E]].
    cbn [Value.bind map snd]. rewrite removelast_cons; [reflexivity|].
    intros E. apply map_eq_nil in E. revert E. apply polls_spec_nonempty. lia.
Qed.

End ScanProjLink.

Lemma map_snd_ascan_slots : forall sc d, map snd (ascan_slots sc d) = scan_slots sc d.
Proof.
  intros sc d. destruct sc as [| |p|[k|] hi|keys]; cbn [ascan_slots scan_slots scan_start];
    rewrite ?map_map; try reflexivity.
  rewrite (take_until_never (scan_stop SFull)) by reflexivity. reflexivity.
Qed.

(* THE BATCH BOUNDARIES AGREE.  The batches Model/ScanProj.v's Batch loop (scan + filter, the
   projection being the identity) cuts the slots of a scan into are exactly the non-final polls
   of [scan_polls_spec], i.e. (scan_polls_agree_lemma) the batches ScanIO's scan node returns,
   Batch() call by Batch() call. *)
Theorem scan_batches_are_scanproj_lemma : forall (flt : kvp -> bool) (B : nat) (sc : scan) (d : store),
  1 <= B ->
  ScanProj.drain_batch (fbatch_of flt) pbatch_id B (scan_slots sc d)
  = Value.Ok (removelast (map snd (scan_polls_spec flt B sc d))).
Proof.
  intros flt B sc d HB. unfold ScanProj.drain_batch. rewrite <- (map_snd_ascan_slots sc d), map_length.
  assert (G : ScanProj.drain_batch_fuel (fbatch_of flt) pbatch_id (S (List.length (ascan_slots sc d))) B (map snd (ascan_slots sc d))
              = Value.Ok (removelast (map snd (polls_spec flt B (S (S (List.length (ascan_slots sc d)))) (scan_silent sc)
                                                              (scan_term sc d) (ascan_slots sc d) false)))).
  { rewrite (@polls_spec_fuel flt B HB (S (S (List.length (ascan_slots sc d)))) (S (List.length (ascan_slots sc d)))) by lia.
    apply polls_spec_is_drain_batch; [exact HB|lia|discriminate]. }
  destruct sc as [| |p|lo hi|keys]; try exact G.
  cbn. unfold ScanProj.proj_batch, ScanProj.scan_batch. cbn [List.length ScanProj.scan_batch_loop].
  rewrite firstn_nil, skipn_nil. cbn [somes]. replace (0 <? B) with true by (symmetry; apply Nat.ltb_lt; lia). reflexivity.
Qed.

(* ================================================================ D. what IS guaranteed about the
   lengths: a Batch() call that did not see the end of the scan returns at least B rows and fewer
   than 2B; the call that sees the end returns what is left (possibly fewer than B, possibly
   none); hence every batch but the last NON-EMPTY one has between B and 2B-1 rows.  (A filter
   that rejects whole chunks or listed keys that are absent make the call read on: they never
   produce a short batch in the middle.) *)
Lemma batch_pass_length : forall flt B, 1 <= B -> forall f term rest ret rows log rest' e,
  List.length rest < f -> List.length ret < B ->
  batch_pass flt B f term rest ret = (rows, log, rest', e) ->
  List.length rows < 2 * B /\ (e = false -> B <= List.length rows).
Proof.
  intros flt B HB. induction f as [|f IH]; intros term rest ret rows log rest' e Hf Hr H; [lia|].
  cbn [batch_pass] in H.
  unfold aslot, kvp, EvalVec.kvpair in *.
  assert (Hc0 : List.length (somes (map snd (firstn B rest))) <= B).
  { etransitivity; [apply somes_length_le|]. rewrite map_length, firstn_length. lia. }
  destruct (somes (map snd (firstn B rest))) as [|kv chunk] eqn:Ech.
  - cbn [filter] in H. rewrite app_nil_r in H. destruct (List.length rest <? B) eqn:Ee.
    + injection H as <- <- <- <-. split; [lia|discriminate].
    + destruct (batch_pass flt B f term (skipn B rest) ret) as [[[rows1 log1] rest1] e1] eqn:E.
      injection H as <- <- <- <-. apply Nat.ltb_ge in Ee. eapply IH; [| |exact E]; [rewrite skipn_length; lia|exact Hr].
  - match type of H with (if ?c then _ else _) = _ => destruct c eqn:Efin end.
    + pose proof (filter_length_le flt (kv :: chunk)) as Hc.
      injection H as <- <- <- <-. rewrite app_length.
      change (if flt kv then kv :: filter flt chunk else filter flt chunk) with (filter flt (kv :: chunk)).
      split; [lia|].
      intros Ee. rewrite Ee in Efin. cbn [orb] in Efin. apply Nat.leb_le in Efin. rewrite app_length in Efin. exact Efin.
    + destruct (batch_pass flt B f term (skipn B rest) (ret ++ filter flt (kv :: chunk))) as [[[rows1 log1] rest1] e1] eqn:E.
      injection H as <- <- <- <-. apply orb_false_iff in Efin. destruct Efin as [Ee El].
      apply Nat.ltb_ge in Ee. apply Nat.leb_gt in El.
      eapply IH; [| |exact E]; [rewrite skipn_length; lia|exact El].
Qed.

(* ================================================================ E. the projection node on top:
   ProjectionPlan.Batch() is one Batch() of the scan node and returns as many rows; so the polls
   of the FINAL plan of a SELECT without aggregate / ORDER BY / LIMIT are those of its scan. *)

Lemma poll_loop_map : forall (St1 St2 X1 X2 : Type) (p1 : St1 -> rprog (X1 * St1)) (p2 : St2 -> rprog (X2 * St2))
    (e1 : X1 -> bool) (e2 : X2 -> bool) (h : St1 -> St2) (g : X1 -> X2),
  (forall st s, run exec_req (rd (p2 (h st))) s =
                match run exec_req (rd (p1 st)) s with
                | (Ok (x, st'), s') => (Ok (g x, h st'), s')
                | (Err e, s') => (Err e, s')
                end) ->
  (forall x, e2 (g x) = e1 x) ->
  forall f st s acc,
  poll_loop p2 e2 f (h st) s (map (fun p => (fst p, g (snd p))) acc) =
  match poll_loop p1 e1 f st s acc with
  | (Ok ps, s') => (Ok (map (fun p => (fst p, g (snd p))) ps), s')
  | (Err e, s') => (Err e, s')
  end.
Proof.
  intros St1 St2 X1 X2 p1 p2 e1 e2 h g Hp He. induction f as [|f IH]; intros st s acc; cbn [poll_loop]; [reflexivity|].
  rewrite Hp. destruct (run exec_req (rd (p1 st)) s) as [[[x st']|e] s']; [|reflexivity].
  rewrite He. destruct (e1 x).
  - rewrite map_app. reflexivity.
  - rewrite <- IH, map_app. reflexivity.
Qed.

Section ProjNode.
Variable remember_end : bool.
Variable flt : kvp -> bool.
Variable gkey : kvp -> bytes.
Variables (B fuel : nat).

Lemma proj_poll_run : forall c st s,
  run exec_req (rd (f_poll remember_end flt gkey B fuel BatchMode (FProj c) (FSProj st))) s =
  match run exec_req (rd (plan_batch remember_end flt B fuel c st)) s with
  | (Ok (rows, st'), s') => (Ok (List.length rows, FSProj st'), s')
  | (Err e, s') => (Err e, s')
  end.
Proof.
  intros c st s. cbn [f_poll f_batch]. rewrite !run_rd_bind.
  destruct (run exec_req (rd (plan_batch remember_end flt B fuel c st)) s) as [[[rows st']|e] s']; [|reflexivity].
  unfold rd. cbn [lift run fst snd]. unfold frows. rewrite repeat_length. reflexivity.
Qed.

Lemma proj_build_run : forall c s,
  run exec_req (rd (select_build (FProj c))) s =
  match run exec_req (rd (plan_build c)) s with
  | (Ok st, s') => (Ok (FSProj st), s')
  | (Err e, s') => (Err e, s')
  end.
Proof.
  intros c s. unfold select_build, plan_build. cbn [fstate0 f_init]. rewrite !run_rd_bind.
  destruct (run exec_req (rd (plan_init c (pstate0 c))) s) as [[st1|e] s1]; [|reflexivity].
  unfold rd at 1. cbn [lift run f_init]. rewrite run_rd_bind.
  destruct (run exec_req (rd (plan_init c st1)) s1) as [[st2|e] s2]; reflexivity.
Qed.

(* the polls of ProjectionPlan(plan) are the polls of the plan, counted *)
Lemma proj_polls_are_scan_polls : forall c s,
  select_polls remember_end flt gkey B fuel BatchMode (FProj c) s =
  match scan_polls remember_end flt B fuel c s with
  | (Ok (b, ps), s') => (Ok (b, map (fun p => (fst p, List.length (snd p))) ps), s')
  | (Err e, s') => (Err e, s')
  end.
Proof.
  intros c s. unfold select_polls, scan_polls. rewrite proj_build_run.
  destruct (run exec_req (rd (plan_build c)) s) as [[st|e] s1]; [|reflexivity].
  pose proof (@poll_loop_map pstate fstate (list kvp) nat (plan_batch remember_end flt B fuel c)
                (f_poll remember_end flt gkey B fuel BatchMode (FProj c)) (@is_nil kvp) (Nat.eqb 0) FSProj (@List.length kvp)
                (proj_poll_run c)) as M.
  specialize (M (fun x => match x with [] => eq_refl | _ :: _ => eq_refl end) fuel st s1 []). cbn [map] in M. rewrite M.
  destruct (poll_loop (plan_batch remember_end flt B fuel c) (@is_nil kvp) fuel st s1 []) as [[ps|e] s2]; reflexivity.
Qed.

End ProjNode.

(* the batch sequence a caller polling the FINAL plan of `select <fields> where <filter>` sees *)
Theorem proj_polls_agree_lemma :
  forall (flt : kvp -> bool) (gkey : kvp -> bytes) (B fuel : nat) (sc : scan) (d : store) (l0 : list scall),
  1 <= B -> List.length d + plan_keys (PScan sc) < fuel ->
  exists l, select_polls true flt gkey B fuel BatchMode (FProj (PScan sc)) (SState d l0 None)
            = (Ok (scan_init_calls sc ++ scan_init_calls sc,
                   map (fun p => (fst p, List.length (snd p))) (scan_polls_spec flt B sc d)),
               SState d (l0 ++ l) None).
Proof.
  intros flt gkey B fuel sc d l0 HB Hf. rewrite proj_polls_are_scan_polls.
  destruct (@scan_polls_agree_lemma flt B fuel sc d l0 HB Hf) as [l [E _]]. rewrite E. exists l. reflexivity.
Qed.

(* ================================================================ D'. the lengths of the batch sequence *)

Lemma polls_spec_after_end : forall flt B, 1 <= B -> forall f silent term,
  List.length (polls_spec flt B f silent term [] true) <= 1.
Proof.
  intros flt B HB [|f] silent term; cbn [polls_spec List.length]; [lia|].
  destruct (silent && true); [cbn; lia|].
  destruct B as [|B']; [lia|]. cbn. lia.
Qed.

(* every Batch() call returns fewer than 2B rows; every call that is followed by at least two
   more calls (i.e. every batch except the last non-empty one and the final empty one) returns
   at least B rows *)
Lemma polls_spec_lengths : forall flt B, 1 <= B -> forall f silent term (rest : list aslot) ended,
  (ended = true -> rest = []) ->
  Forall (fun p => List.length (snd p) < 2 * B) (polls_spec flt B f silent term rest ended) /\
  forall i, S (S i) < List.length (polls_spec flt B f silent term rest ended) ->
            B <= List.length (snd (nth i (polls_spec flt B f silent term rest ended) ([], []))).
Proof.
  intros flt B HB. induction f as [|f IH]; intros silent term rest ended He; cbn [polls_spec].
  - split; [constructor|cbn; lia].
  - destruct (silent && ended).
    + split; [repeat constructor; cbn; lia|cbn; lia].
    + destruct (batch_pass flt B (S (List.length rest)) term rest []) as [[[rows log] rest'] e] eqn:Ebp.
      pose proof Ebp as L. apply batch_pass_length in L; [|exact HB|apply Nat.lt_succ_diag_r|cbn; lia]. destruct L as [L1 L2].
      destruct rows as [|r0 rows]; [split; [repeat constructor; cbn; lia|cbn; lia]|].
      assert (He' : e = true -> rest' = []) by (intros E; eapply batch_pass_end; [exact HB|exact Ebp|exact E]).
      destruct (IH silent term rest' e He') as [F1 F2].
      split; [constructor; [exact L1|exact F1]|].
      intros [|i] Hi; cbn [nth snd List.length] in *.
      * destruct e; [|apply L2; reflexivity].
        rewrite (He' eq_refl) in Hi. pose proof (@polls_spec_after_end flt B HB f silent term). lia.
      * apply F2. lia.
Qed.
