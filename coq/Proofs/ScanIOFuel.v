(* Proofs/ScanIOFuel.v -- the loop fuel of the twins of Model/ScanIO.v suffices: with
   PlanBatchSize >= 1, a store of at most N pairs and fuel above (N or the number of point-read
   keys, whichever the access path uses), no run of a statement ends in [EFuel].

   Method: a weakest-precondition calculus [wp] over programs, where the answer to each storage
   instruction ranges over everything a store of at most N pairs can answer; a measure on plan
   states (what the leaf scan has left + what the order / aggregate nodes hold in memory) that
   no poll increases and that every returned row pays for. *)
From Coq Require Import List String Bool Arith Lia.
Import ListNotations.
From KV Require Import Base.Bytes Model.Storage Model.ScanIO Proofs.StorageProofs Proofs.ScanIOProofs.

Set Implicit Arguments.
Local Open Scope list_scope.
Local Open Scope nat_scope.

(* ------------------------------------------------------------------ sizes *)

Lemma seek_from_length : forall k d, List.length (seek_from k d) <= List.length d.
Proof.
  intros k d. induction d as [|[k' v'] d IH]; cbn [seek_from]; [lia|].
  destruct (bltb k' k); cbn [List.length] in *; lia.
Qed.

Lemma sdel_length : forall k d, List.length (sdel k d) <= List.length d.
Proof.
  intros k d. induction d as [|[k' v'] d IH]; cbn [sdel]; [lia|].
  destruct (String.eqb k k'); cbn [List.length]; lia.
Qed.

Lemma sdel_all_length : forall ks d, List.length (sdel_all ks d) <= List.length d.
Proof.
  unfold sdel_all. induction ks as [|k ks IH]; intros d; cbn [fold_left]; [lia|].
  etransitivity; [apply IH|apply sdel_length].
Qed.

Lemma filter_length_le : forall (A : Type) (f : A -> bool) l, List.length (filter f l) <= List.length l.
Proof. intros A f l. induction l as [|a l IH]; cbn; [lia|]. destruct (f a); cbn; lia. Qed.

Section Fuel.
Variable N : nat.                     (* the store never holds more than N pairs *)

(* ------------------------------------------------------------------ wp *)

Fixpoint wp (A : Type) (p : rprog A) (Q : A -> Prop) : Prop :=
  match p with
  | Ret a => Q a
  | Fail e => e <> EFuel
  | Op q k => forall d, List.length d <= N -> wp (k (ranswer q d)) Q
  end.

Fixpoint wpw (A : Type) (p : wprog A) (Q : A -> Prop) : Prop :=
  match p with
  | Ret a => Q a
  | Fail e => e <> EFuel
  | Op q k => forall d, List.length d <= N -> wpw (k (answer q d)) Q
  end.

Lemma wp_bind : forall (A C : Type) (p : rprog A) (f : A -> rprog C) (Q : C -> Prop),
  wp p (fun a => wp (f a) Q) -> wp (bind p f) Q.
Proof.
  induction p as [a|e|R q k IH]; intros f Q H; cbn [bind wp] in *; auto.
Qed.

Lemma wpw_bind : forall (A C : Type) (p : wprog A) (f : A -> wprog C) (Q : C -> Prop),
  wpw p (fun a => wpw (f a) Q) -> wpw (bind p f) Q.
Proof.
  induction p as [a|e|R q k IH]; intros f Q H; cbn [bind wpw] in *; auto.
Qed.

Lemma wp_mono : forall (A : Type) (p : rprog A) (Q Q' : A -> Prop),
  (forall a, Q a -> Q' a) -> wp p Q -> wp p Q'.
Proof.
  induction p as [a|e|R q k IH]; intros Q Q' HQ H; cbn [wp] in *; auto.
  intros d Hd. eapply IH; [exact HQ|]. apply H. exact Hd.
Qed.

Lemma wpw_mono : forall (A : Type) (p : wprog A) (Q Q' : A -> Prop),
  (forall a, Q a -> Q' a) -> wpw p Q -> wpw p Q'.
Proof.
  induction p as [a|e|R q k IH]; intros Q Q' HQ H; cbn [wpw] in *; auto.
  intros d Hd. eapply IH; [exact HQ|]. apply H. exact Hd.
Qed.

Lemma wpw_rd : forall (A : Type) (p : rprog A) (Q : A -> Prop), wp p Q -> wpw (rd p) Q.
Proof.
  induction p as [a|e|R q k IH]; intros Q H; unfold rd in *; cbn [lift wp wpw] in *; auto.
  intros d Hd. cbn [answer]. apply IH. apply H. exact Hd.
Qed.

(* soundness: a run from a store of at most N pairs *)
Lemma wpw_sound : forall (A : Type) (p : wprog A) (Q : A -> Prop) (s : sstate),
  List.length (sdata s) <= N -> wpw p Q ->
  match fst (run exec_req p s) with
  | Ok a => Q a
  | Err e => e <> EFuel
  end.
Proof.
  induction p as [a|e|R q k IH]; intros Q s Hs H; cbn [run wpw] in *; auto.
  rewrite exec_req_spec. destruct (faulted s); cbn [fst]; [discriminate|].
  apply IH; [|apply H; exact Hs]. cbn [sdata].
  destruct q as [R q|ks]; cbn [effect]; [exact Hs|].
  etransitivity; [apply sdel_all_length|exact Hs].
Qed.

(* the four read instructions *)
Lemma wp_op_next : forall (c : cursor) (Q : option kvp * cursor -> Prop),
  Q (match crest c with [] => (None, c) | kv :: rest => (Some kv, Cur (csnap c) rest) end) ->
  wp (op_next c) Q.
Proof. intros c Q H d Hd. exact H. Qed.

Lemma wp_op_seek : forall (c : cursor) (k : bytes) (Q : cursor -> Prop),
  Q (Cur (csnap c) (seek_from k (csnap c))) -> wp (op_seek c k) Q.
Proof. intros c k Q H d Hd. exact H. Qed.

Lemma wp_op_cursor : forall (Q : cursor -> Prop),
  (forall d, List.length d <= N -> Q (Cur d d)) -> wp op_cursor Q.
Proof. intros Q H d Hd. apply H. exact Hd. Qed.

Lemma wp_op_get : forall (k : bytes) (Q : option bytes -> Prop),
  (forall v, Q v) -> wp (op_get k) Q.
Proof. intros k Q H d Hd. apply H. Qed.

(* ------------------------------------------------------------------ measures *)

Definition mu_scan (sc : scan) (st : pstate) : nat :=
  match st with
  | PSScan it idx _ =>
      match sc with
      | SEmpty => 0
      | SMget keys => List.length keys - idx
      | _ => match it with Some c => List.length (crest c) | None => 0 end
      end
  | _ => 0
  end.

Fixpoint mu (p : plan) (st : pstate) : nat :=
  match p with
  | PScan sc => mu_scan sc st
  | PLimit _ _ c => match st with PSLimit _ _ cst => mu c cst | _ => 0 end
  end.

Fixpoint muf (f : fplan) (st : fstate) : nat :=
  match f with
  | FProj c => match st with FSProj cst => mu c cst | _ => 0 end
  | FAggr c _ _ _ =>
      match st with FSAggr cst _ groups pos _ _ => mu c cst + (List.length groups - pos) | _ => 0 end
  | FOrder c => match st with FSOrder cst total pos => muf c cst + (total - pos) | _ => 0 end
  | FLimit _ _ c => match st with FSLimit _ _ cst => muf c cst | _ => 0 end
  end.

(* what Init leaves at most *)
Definition bound_scan (sc : scan) : nat :=
  match sc with
  | SEmpty => 0
  | SMget keys => List.length keys
  | _ => N
  end.
Fixpoint bound_plan (p : plan) : nat :=
  match p with
  | PScan sc => bound_scan sc
  | PLimit _ _ c => bound_plan c
  end.
Fixpoint bound_fplan (f : fplan) : nat :=
  match f with
  | FProj c => bound_plan c
  | FAggr c _ _ _ => bound_plan c
  | FOrder c => bound_fplan c
  | FLimit _ _ c => bound_fplan c
  end.

Definition opt1 (A : Type) (o : option A) : nat := match o with Some _ => 1 | None => 0 end.

Variable remember_end : bool.
Variable flt : kvp -> bool.
Variable gkey : kvp -> bytes.
Variable B : nat.
Variable fuel : nat.
Hypothesis HB : 1 <= B.

(* ------------------------------------------------------------------ scans, row mode *)

Lemma cursor_next_loop_spec : forall sc snap rest,
  wp (cursor_next_loop flt sc snap rest)
     (fun x => List.length (crest (snd x)) + opt1 (fst x) <= List.length rest).
Proof.
  intros sc snap rest. induction rest as [|kv rest IH]; cbn [cursor_next_loop].
  - apply wp_bind, wp_op_next. cbn. lia.
  - apply wp_bind, wp_op_next. cbn [crest csnap snd].
    destruct (scan_stop sc kv); [cbn; lia|].
    destruct (flt kv); [cbn; lia|].
    eapply wp_mono; [|exact IH]. cbn. intros x Hx. lia.
Qed.

Lemma mget_next_loop_spec : forall keys idx,
  wp (mget_next_loop flt keys idx)
     (fun x => idx <= snd x /\ snd x <= idx + List.length keys /\ (fst x <> None -> idx < snd x)).
Proof.
  intros keys. induction keys as [|k keys IH]; intros idx; cbn [mget_next_loop].
  - cbn. repeat split; try lia. congruence.
  - apply wp_bind, wp_op_get. intros [v|].
    + destruct (flt (k, v)).
      * cbn. repeat split; lia.
      * eapply wp_mono; [|apply IH]. cbn. intros x [H1 [H2 H3]]. repeat split; lia.
    + eapply wp_mono; [|apply IH]. cbn. intros x [H1 [H2 H3]]. repeat split; lia.
Qed.

Lemma scan_next_spec : forall sc st,
  wp (scan_next remember_end flt sc st)
     (fun x => mu_scan sc (snd x) + opt1 (fst x) <= mu_scan sc st).
Proof.
  intros sc st. destruct st as [it idx ended|sk cur cst]; [|cbn; discriminate].
  assert (Hcur : forall sc', (forall keys, sc' <> SMget keys) -> sc' <> SEmpty ->
            wp (if scan_remembers remember_end sc' && ended then Ret (None, PSScan it idx ended)
                else match it with
                     | None => Fail EPanic
                     | Some c =>
                         bind (cursor_next_loop flt sc' (csnap c) (crest c))
                           (fun x => match x with (r, c') =>
                              Ret (r, PSScan (Some c') idx (match r with None => true | Some _ => false end)) end)
                     end)
               (fun x => mu_scan sc' (snd x) + opt1 (fst x) <= mu_scan sc' (PSScan it idx ended))).
  { intros sc' Hm He.
    destruct (scan_remembers remember_end sc' && ended); [cbn; lia|].
    destruct it as [c|]; [|cbn; discriminate].
    apply wp_bind. eapply wp_mono; [|apply cursor_next_loop_spec].
    intros [r c'] Hx. cbn [wp snd fst] in *.
    destruct sc'; try (exfalso; apply He; reflexivity); try (exfalso; eapply Hm; reflexivity);
      cbn [mu_scan]; exact Hx. }
  destruct sc as [| |p|lo hi|keys]; cbn [scan_next].
  - cbn. lia.
  - apply Hcur; congruence.
  - apply Hcur; congruence.
  - apply Hcur; congruence.
  - apply wp_bind. eapply wp_mono; [|apply mget_next_loop_spec].
    intros [r idx'] [H1 [H2 H3]]. cbn [wp snd fst mu_scan] in *.
    rewrite skipn_length in H2.
    destruct r as [kv|]; cbn [opt1].
    + assert (idx < idx') by (apply H3; congruence). lia.
    + lia.
Qed.

(* ------------------------------------------------------------------ scans, batch mode *)

Lemma cursor_read_chunk_spec : forall sc n snap rest acc,
  wp (cursor_read_chunk sc n snap rest acc)
     (fun x => match x with (chunk, c', fin) =>
        List.length (crest c') + (List.length chunk - List.length acc) <= List.length rest /\
        List.length acc <= List.length chunk /\
        (fin = false -> List.length chunk = List.length acc + n) end).
Proof.
  intros sc n. induction n as [|n IH]; intros snap rest acc; cbn [cursor_read_chunk].
  - cbn. repeat split; lia.
  - destruct rest as [|kv rest].
    + apply wp_bind, wp_op_next. cbn. repeat split; try lia; try discriminate.
    + apply wp_bind, wp_op_next. cbn [crest csnap snd].
      destruct (scan_stop sc kv).
      * cbn. repeat split; try lia; try discriminate.
      * eapply wp_mono; [|apply IH]. intros [[chunk c'] fin] [H1 [H2 H3]].
        rewrite app_length in *. cbn [List.length] in *. repeat split; try lia;
        try (intros Hf; specialize (H3 Hf); lia).
Qed.

Lemma cursor_batch_loop_spec : forall f sc c ret,
  List.length (crest c) < f ->
  wp (cursor_batch_loop flt B f sc c ret)
     (fun x => match x with (rows, c', _) =>
        List.length (crest c') + (List.length rows - List.length ret) <= List.length (crest c) /\
        List.length ret <= List.length rows end).
Proof.
  induction f as [|f IH]; intros sc c ret Hf; [lia|]. cbn [cursor_batch_loop].
  apply wp_bind. eapply wp_mono; [|apply cursor_read_chunk_spec].
  intros [[chunk c'] fin] [H1 [H2 H3]]. cbn [List.length] in *.
  pose proof (filter_length_le flt chunk) as Hfl.
  set (ret' := ret ++ filter flt chunk).
  assert (Hr : List.length ret' = List.length ret + List.length (filter flt chunk))
    by (unfold ret'; apply app_length).
  destruct chunk as [|kv chunk].
  - destruct fin.
    + cbn [wp]. cbn [List.length] in *. split; lia.
    + specialize (H3 eq_refl). cbn [List.length] in H3. lia.
  - destruct (fin || (B <=? List.length ret')) eqn:Ef.
    + cbn [wp]. split; lia.
    + apply orb_false_iff in Ef. destruct Ef as [Ef _]. subst fin. specialize (H3 eq_refl).
      eapply wp_mono; [|apply IH; cbn [List.length] in *; lia].
      intros [[rows c''] e] [G1 G2]. split; lia.
Qed.

Lemma mget_read_chunk_spec : forall n keys idx acc,
  wp (mget_read_chunk n keys idx acc)
     (fun x => match x with (chunk, keys', idx', fin) =>
        List.length keys' <= List.length keys /\
        idx' = idx + (List.length keys - List.length keys') /\
        List.length chunk - List.length acc <= List.length keys - List.length keys' /\
        List.length acc <= List.length chunk /\
        (fin = false -> List.length keys - List.length keys' = n) end).
Proof.
  induction n as [|n IH]; intros keys idx acc; cbn [mget_read_chunk].
  - cbn. repeat split; lia.
  - destruct keys as [|k keys].
    + cbn. repeat split; try lia; try discriminate.
    + apply wp_bind, wp_op_get. intros [v|].
      * eapply wp_mono; [|apply IH]. intros [[[chunk keys'] idx'] fin] [H1 [H2 [H3 [H4 H5]]]].
        rewrite app_length in *. cbn [List.length] in *. repeat split; try lia;
        try (intros Hf; specialize (H5 Hf); lia).
      * eapply wp_mono; [|apply IH]. intros [[[chunk keys'] idx'] fin] [H1 [H2 [H3 [H4 H5]]]].
        cbn [List.length] in *. repeat split; try lia;
        try (intros Hf; specialize (H5 Hf); lia).
Qed.

Lemma mget_batch_loop_spec : forall f keys idx ret,
  List.length keys < f ->
  wp (mget_batch_loop flt B f keys idx ret)
     (fun x => match x with (rows, idx') =>
        idx <= idx' /\ idx' <= idx + List.length keys /\
        List.length rows - List.length ret <= idx' - idx /\
        List.length ret <= List.length rows end).
Proof.
  induction f as [|f IH]; intros keys idx ret Hf; [lia|]. cbn [mget_batch_loop].
  apply wp_bind. eapply wp_mono; [|apply mget_read_chunk_spec].
  intros [[[chunk keys'] idx'] fin] [H1 [H2 [H3 [H4 H5]]]]. cbn [List.length] in *.
  pose proof (filter_length_le flt chunk) as Hfl.
  set (ret' := ret ++ filter flt chunk).
  assert (Hr : List.length ret' = List.length ret + List.length (filter flt chunk))
    by (unfold ret'; apply app_length).
  destruct (fin || (B <=? List.length ret')) eqn:Ef.
  - cbn [wp]. repeat split; lia.
  - apply orb_false_iff in Ef. destruct Ef as [Ef _]. subst fin. specialize (H5 eq_refl).
    eapply wp_mono; [|apply IH; lia].
    intros [rows idx''] [G1 [G2 [G3 G4]]]. repeat split; lia.
Qed.

Lemma scan_batch_spec : forall sc st,
  mu_scan sc st < fuel ->
  wp (scan_batch remember_end flt B fuel sc st)
     (fun x => mu_scan sc (snd x) + List.length (fst x) <= mu_scan sc st).
Proof.
  intros sc st Hf. destruct st as [it idx ended|sk cur cst]; [|cbn; discriminate].
  assert (Hcur : forall sc', (forall keys, sc' <> SMget keys) -> sc' <> SEmpty ->
            mu_scan sc' (PSScan it idx ended) < fuel ->
            wp (if scan_remembers remember_end sc' && ended then Ret ([], PSScan it idx ended)
                else match it with
                     | None => Fail EPanic
                     | Some c =>
                         bind (cursor_batch_loop flt B fuel sc' c [])
                           (fun x => match x with (rows, c', fin) => Ret (rows, PSScan (Some c') idx fin) end)
                     end)
               (fun x => mu_scan sc' (snd x) + List.length (fst x) <= mu_scan sc' (PSScan it idx ended))).
  { intros sc' Hm He Hf'.
    destruct (scan_remembers remember_end sc' && ended); [cbn; lia|].
    destruct it as [c|]; [|cbn; discriminate].
    assert (Hc : List.length (crest c) < fuel).
    { destruct sc'; try (exfalso; apply He; reflexivity); try (exfalso; eapply Hm; reflexivity);
        exact Hf'. }
    apply wp_bind. eapply wp_mono; [|apply cursor_batch_loop_spec; exact Hc].
    intros [[rows c'] fin] [H1 H2]. cbn [wp snd fst List.length] in *.
    destruct sc'; try (exfalso; apply He; reflexivity); try (exfalso; eapply Hm; reflexivity);
      cbn [mu_scan]; lia. }
  destruct sc as [| |p|lo hi|keys]; cbn [scan_batch].
  - cbn. lia.
  - apply Hcur; [congruence|congruence|exact Hf].
  - apply Hcur; [congruence|congruence|exact Hf].
  - apply Hcur; [congruence|congruence|exact Hf].
  - cbn [mu_scan] in Hf.
    apply wp_bind. eapply wp_mono; [|apply mget_batch_loop_spec; rewrite skipn_length; exact Hf].
    intros [rows idx'] [H1 [H2 [H3 H4]]]. cbn [wp snd fst mu_scan List.length] in *.
    rewrite skipn_length in H2. lia.
Qed.


(* ------------------------------------------------------------------ the limit code *)

Section LimitFuel.
Variables (X St : Type).
Variable child_next : St -> rprog (option X * St).
Variable child_batch : St -> rprog (list X * St).
Variable muc : St -> nat.
Hypothesis Hnext : forall cs, muc cs < fuel ->
  wp (child_next cs) (fun x => muc (snd x) + opt1 (fst x) <= muc cs).
Hypothesis Hbatch : forall cs, muc cs < fuel ->
  wp (child_batch cs) (fun x => muc (snd x) + List.length (fst x) <= muc cs).

Lemma limit_skip_rows_spec : forall f start skips cs,
  muc cs < f -> f <= fuel ->
  wp (limit_skip_rows child_next f start skips cs)
     (fun x => match x with (_, _, cs') => muc cs' <= muc cs end).
Proof.
  induction f as [|f IH]; intros start skips cs Hf Hle; [lia|]. cbn [limit_skip_rows].
  destruct (skips <? start); [|cbn; lia].
  apply wp_bind. eapply wp_mono; [|apply Hnext; lia].
  intros [r cs'] Hx. cbn [fst snd] in Hx. destruct r as [x|]; cbn [opt1] in Hx.
  - eapply wp_mono; [|apply IH; lia]. intros [[ok sk'] cs''] Hy. lia.
  - cbn. lia.
Qed.

Lemma limit_next_spec : forall start count skips current cs,
  muc cs < fuel ->
  wp (limit_next fuel child_next start count skips current cs)
     (fun x => match x with (r, (_, _, cs')) => muc cs' + opt1 r <= muc cs end).
Proof.
  intros start count skips current cs Hf. unfold limit_next.
  apply wp_bind. eapply wp_mono; [|apply limit_skip_rows_spec; [exact Hf|lia]].
  intros [[ok sk'] cs'] Hx.
  destruct (negb ok); [cbn; lia|].
  destruct (count <=? current); [cbn; lia|].
  apply wp_bind. eapply wp_mono; [|apply Hnext; lia].
  intros [r cs''] Hy. cbn [fst snd] in Hy. destruct r as [x|]; cbn [opt1 wp] in *; lia.
Qed.

Lemma limit_skip_batches_spec : forall f start skips cs,
  muc cs < f -> f <= fuel ->
  wp (limit_skip_batches child_batch f start skips cs)
     (fun x => match x with (orows, _, cs') =>
        muc cs' + match orows with Some rows => List.length rows | None => 0 end <= muc cs end).
Proof.
  induction f as [|f IH]; intros start skips cs Hf Hle; [lia|]. cbn [limit_skip_batches].
  destruct (skips <? start); [|cbn; lia].
  apply wp_bind. eapply wp_mono; [|apply Hbatch; lia].
  intros [rows cs'] Hx. cbn [fst snd] in Hx.
  destruct (Nat.eqb_spec (List.length rows) 0) as [E|E]; [cbn; lia|].
  destruct (List.length rows <=? start - skips).
  - eapply wp_mono; [|apply IH; lia]. intros [[orows sk'] cs''] Hy. lia.
  - cbn [wp]. pose proof (skipn_length (start - skips) rows). lia.
Qed.

Lemma limit_fill_spec : forall f count current ret cs,
  muc cs < f -> f <= fuel ->
  wp (limit_fill B child_batch f count current ret cs)
     (fun x => match x with (ret', _, cs') =>
        muc cs' + (List.length ret' - List.length ret) <= muc cs /\
        List.length ret <= List.length ret' end).
Proof.
  induction f as [|f IH]; intros count current ret cs Hf Hle; [lia|]. cbn [limit_fill].
  apply wp_bind. eapply wp_mono; [|apply Hbatch; lia].
  intros [rows cs'] Hx. cbn [fst snd] in Hx.
  destruct rows as [|r0 rows]; [cbn; lia|].
  set (take := firstn (Nat.max 1 (count - current)) (r0 :: rows)).
  assert (Ht : List.length take <= List.length (r0 :: rows)) by (unfold take; rewrite firstn_length; lia).
  assert (Hr : List.length (ret ++ take) = List.length ret + List.length take) by apply app_length.
  destruct (count <=? current + List.length take); [cbn [wp]; lia|].
  destruct (B <=? List.length (ret ++ take)); [cbn [wp]; lia|].
  eapply wp_mono; [|apply IH; cbn [List.length] in *; lia].
  intros [[ret' cur'] cs''] [G1 G2]. cbn [List.length] in *. lia.
Qed.

Lemma limit_batch_spec : forall start count skips current cs,
  muc cs < fuel ->
  wp (limit_batch B fuel child_batch start count skips current cs)
     (fun x => match x with (rows, (_, _, cs')) => muc cs' + List.length rows <= muc cs end).
Proof.
  intros start count skips current cs Hf. unfold limit_batch.
  apply wp_bind. eapply wp_mono; [|apply limit_skip_batches_spec; [exact Hf|lia]].
  intros [[orows sk'] cs'] Hx.
  destruct orows as [rows|]; [|cbn; lia].
  set (take := firstn (count - current) rows).
  assert (Ht : List.length take <= List.length rows) by (unfold take; rewrite firstn_length; lia).
  destruct (count <=? current + List.length take); [cbn [wp]; lia|].
  apply wp_bind. eapply wp_mono; [|apply limit_fill_spec; lia].
  intros [[ret cur''] cs''] [G1 G2]. cbn [wp]. lia.
Qed.

End LimitFuel.

(* ------------------------------------------------------------------ kvql.Plan *)

Lemma plan_next_spec : forall p st,
  mu p st < fuel ->
  wp (plan_next remember_end flt fuel p st) (fun x => mu p (snd x) + opt1 (fst x) <= mu p st).
Proof.
  induction p as [sc|start count c IH]; intros st Hf; cbn [plan_next mu] in *.
  - apply scan_next_spec.
  - destruct st as [it idx ended|sk cur cst]; [cbn; discriminate|].
    apply wp_bind. eapply wp_mono; [|apply (limit_next_spec (plan_next remember_end flt fuel c) (mu c)); [exact IH|exact Hf]].
    intros [r [[sk' cur'] cst']] Hx. cbn [wp fst snd mu]. exact Hx.
Qed.

Lemma plan_batch_spec : forall p st,
  mu p st < fuel ->
  wp (plan_batch remember_end flt B fuel p st) (fun x => mu p (snd x) + List.length (fst x) <= mu p st).
Proof.
  induction p as [sc|start count c IH]; intros st Hf; cbn [plan_batch mu] in *.
  - apply scan_batch_spec. exact Hf.
  - destruct st as [it idx ended|sk cur cst]; [cbn; discriminate|].
    apply wp_bind. eapply wp_mono; [|apply (limit_batch_spec (plan_batch remember_end flt B fuel c) (mu c)); [exact IH|exact Hf]].
    intros [rows [[sk' cur'] cst']] Hx. cbn [wp fst snd mu]. exact Hx.
Qed.

Lemma scan_init_spec : forall sc st,
  wp (scan_init sc st) (fun st' => mu_scan sc st' <= bound_scan sc).
Proof.
  intros sc st. destruct st as [it idx ended|sk cur cst]; [|cbn; discriminate].
  destruct sc as [| |p|lo hi|keys]; cbn [scan_init].
  - cbn. lia.
  - apply wp_bind, wp_op_cursor. intros d Hd. apply wp_bind, wp_op_seek. cbn.
    pose proof (seek_from_length EmptyString d). lia.
  - apply wp_bind, wp_op_cursor. intros d Hd. apply wp_bind, wp_op_seek. cbn.
    pose proof (seek_from_length p d). lia.
  - apply wp_bind, wp_op_cursor. intros d Hd. destruct lo as [k|].
    + apply wp_bind, wp_op_seek. cbn. pose proof (seek_from_length k d). lia.
    + cbn. lia.
  - cbn. lia.
Qed.

Lemma plan_init_spec : forall p st,
  wp (plan_init p st) (fun st' => mu p st' <= bound_plan p).
Proof.
  induction p as [sc|start count c IH]; intros st; cbn [plan_init mu bound_plan].
  - apply scan_init_spec.
  - destruct st as [it idx ended|sk cur cst]; [cbn; discriminate|].
    apply wp_bind. eapply wp_mono; [|apply IH]. intros cst' Hx. cbn [wp mu]. exact Hx.
Qed.

(* ------------------------------------------------------------------ aggregate / order drains *)

Lemma add_group_length : forall all groups kv,
  List.length groups <= List.length (add_group gkey all groups kv) /\
  List.length (add_group gkey all groups kv) <= S (List.length groups).
Proof.
  intros all groups kv. unfold add_group.
  match goal with |- context [existsb ?f groups] => destruct (existsb f groups) end; [lia|].
  rewrite app_length. cbn. lia.
Qed.

Lemma fold_add_group_length : forall all rows groups,
  List.length groups <= List.length (fold_left (add_group gkey all) rows groups) /\
  List.length (fold_left (add_group gkey all) rows groups) <= List.length groups + List.length rows.
Proof.
  intros all rows. induction rows as [|kv rows IH]; intros groups; cbn [fold_left List.length]; [lia|].
  destruct (IH (add_group gkey all groups kv)) as [A C].
  destruct (add_group_length all groups kv) as [D F]. lia.
Qed.

Lemma aggr_prepare_spec : forall f c all cst groups,
  mu c cst < f -> f <= fuel ->
  wp (aggr_prepare remember_end flt gkey fuel f c all cst groups)
     (fun x => match x with (cst', groups') =>
        mu c cst' + (List.length groups' - List.length groups) <= mu c cst /\
        List.length groups <= List.length groups' end).
Proof.
  induction f as [|f IH]; intros c all cst groups Hf Hle; [lia|]. cbn [aggr_prepare].
  apply wp_bind. eapply wp_mono; [|apply plan_next_spec; lia].
  intros [r cst'] Hx. cbn [fst snd] in Hx. destruct r as [kv|]; cbn [opt1] in Hx.
  - eapply wp_mono; [|apply IH; lia]. intros [cst'' groups''] [G1 G2].
    destruct (add_group_length all groups kv) as [D F]. lia.
  - cbn. lia.
Qed.

Lemma aggr_prepare_batch_spec : forall f c all cst groups,
  mu c cst < f -> f <= fuel ->
  wp (aggr_prepare_batch remember_end flt gkey B fuel f c all cst groups)
     (fun x => match x with (cst', groups') =>
        mu c cst' + (List.length groups' - List.length groups) <= mu c cst /\
        List.length groups <= List.length groups' end).
Proof.
  induction f as [|f IH]; intros c all cst groups Hf Hle; [lia|]. cbn [aggr_prepare_batch].
  apply wp_bind. eapply wp_mono; [|apply plan_batch_spec; lia].
  intros [rows cst'] Hx. cbn [fst snd] in Hx. destruct rows as [|kv rows]; [cbn; lia|].
  eapply wp_mono; [|apply IH; cbn [List.length] in *; lia]. intros [cst'' groups''] [G1 G2].
  destruct (fold_add_group_length all (kv :: rows) groups) as [D F]. cbn [List.length] in *. lia.
Qed.

Lemma aggr_mem_next_spec : forall ng pos,
  wp (aggr_mem_next ng pos) (fun x => (ng - snd x) + opt1 (fst x) <= ng - pos).
Proof.
  intros ng pos. unfold aggr_mem_next. destruct (Nat.leb_spec ng pos); cbn; lia.
Qed.

Lemma aggr_mem_batch_spec : forall ng pos,
  wp (aggr_mem_batch B ng pos) (fun x => (ng - snd x) + List.length (fst x) <= ng - pos).
Proof.
  intros ng pos. unfold aggr_mem_batch, frows. destruct (Nat.leb_spec ng pos); cbn [wp fst snd].
  - cbn. lia.
  - rewrite repeat_length. lia.
Qed.

Section OrderFuel.
Variable St : Type.
Variable child_next : St -> rprog (option frow * St).
Variable child_batch : St -> rprog (list frow * St).
Variable muc : St -> nat.
Hypothesis Hnext : forall cs, muc cs < fuel ->
  wp (child_next cs) (fun x => muc (snd x) + opt1 (fst x) <= muc cs).
Hypothesis Hbatch : forall cs, muc cs < fuel ->
  wp (child_batch cs) (fun x => muc (snd x) + List.length (fst x) <= muc cs).

Lemma order_prepare_spec : forall f cs total,
  muc cs < f -> f <= fuel ->
  wp (order_prepare child_next f cs total)
     (fun x => match x with (cs', total') => muc cs' + (total' - total) <= muc cs /\ total <= total' end).
Proof.
  induction f as [|f IH]; intros cs total Hf Hle; [lia|]. cbn [order_prepare].
  apply wp_bind. eapply wp_mono; [|apply Hnext; lia].
  intros [r cs'] Hx. cbn [fst snd] in Hx. destruct r as [x|]; cbn [opt1] in Hx.
  - eapply wp_mono; [|apply IH; lia]. intros [cs'' total''] [G1 G2]. lia.
  - cbn. lia.
Qed.

Lemma order_prepare_batch_spec : forall f cs total,
  muc cs < f -> f <= fuel ->
  wp (order_prepare_batch child_batch f cs total)
     (fun x => match x with (cs', total') => muc cs' + (total' - total) <= muc cs /\ total <= total' end).
Proof.
  induction f as [|f IH]; intros cs total Hf Hle; [lia|]. cbn [order_prepare_batch].
  apply wp_bind. eapply wp_mono; [|apply Hbatch; lia].
  intros [rows cs'] Hx. cbn [fst snd] in Hx. destruct rows as [|x rows]; [cbn; lia|].
  eapply wp_mono; [|apply IH; cbn [List.length] in *; lia]. intros [cs'' total''] [G1 G2].
  cbn [List.length] in *. lia.
Qed.
End OrderFuel.

(* ------------------------------------------------------------------ kvql.FinalPlan *)

Lemma f_next_spec : forall fp st,
  muf fp st < fuel ->
  wp (f_next remember_end flt gkey fuel fp st) (fun x => muf fp (snd x) + opt1 (fst x) <= muf fp st).
Proof.
  induction fp as [c|c all start limit|c IH|start count c IH]; intros st Hf; cbn [f_next muf] in *.
  - destruct st as [cst| | |]; try (cbn; discriminate).
    apply wp_bind. eapply wp_mono; [|apply plan_next_spec; exact Hf].
    intros [r cst'] Hx. cbn [wp fst snd muf] in *. destruct r; cbn [opt1] in *; lia.
  - destruct st as [|cst prepared groups pos sk cur| |]; try (cbn; discriminate).
    apply wp_bind.
    eapply wp_mono with (Q := fun x => match x with (cst1, groups1) =>
        mu c cst1 + (List.length groups1 - List.length groups) <= mu c cst /\
        List.length groups <= List.length groups1 end).
    2:{ destruct prepared; [cbn; lia|]. apply aggr_prepare_spec; lia. }
    intros [cst1 groups1] [G1 G2].
    destruct limit as [count|].
    + apply wp_bind.
      eapply wp_mono; [|apply (limit_next_spec (aggr_mem_next (List.length groups1))
                                 (fun pos => List.length groups1 - pos))].
      * intros [r [[sk' cur'] pos']] Hx. cbn [wp fst snd muf]. lia.
      * intros cs _. apply aggr_mem_next_spec.
      * lia.
    + apply wp_bind. eapply wp_mono; [|apply aggr_mem_next_spec].
      intros [r pos'] Hx. cbn [wp fst snd muf] in *. lia.
  - destruct st as [| |cst total pos|]; try (cbn; discriminate).
    apply wp_bind.
    eapply wp_mono with (Q := fun x => match x with (cst1, total1) =>
        muf c cst1 + (total1 - total) <= muf c cst /\ total <= total1 end).
    2:{ destruct (total =? 0); [|cbn; lia].
        apply (order_prepare_spec (f_next remember_end flt gkey fuel c) (muf c)); [exact IH|lia|lia]. }
    intros [cst1 total1] [G1 G2].
    destruct (Nat.ltb_spec pos total1); cbn [wp fst snd muf opt1]; lia.
  - destruct st as [| | |sk cur cst]; try (cbn; discriminate).
    apply wp_bind. eapply wp_mono; [|apply (limit_next_spec (f_next remember_end flt gkey fuel c) (muf c)); [exact IH|exact Hf]].
    intros [r [[sk' cur'] cst']] Hx. cbn [wp fst snd muf]. exact Hx.
Qed.

Lemma f_batch_spec : forall fp st,
  muf fp st < fuel ->
  wp (f_batch remember_end flt gkey B fuel fp st) (fun x => muf fp (snd x) + List.length (fst x) <= muf fp st).
Proof.
  induction fp as [c|c all start limit|c IH|start count c IH]; intros st Hf; cbn [f_batch muf] in *.
  - destruct st as [cst| | |]; try (cbn; discriminate).
    apply wp_bind. eapply wp_mono; [|apply plan_batch_spec; exact Hf].
    intros [rows cst'] Hx. cbn [wp fst snd muf] in *. unfold frows. rewrite repeat_length. exact Hx.
  - destruct st as [|cst prepared groups pos sk cur| |]; try (cbn; discriminate).
    apply wp_bind.
    eapply wp_mono with (Q := fun x => match x with (cst1, groups1) =>
        mu c cst1 + (List.length groups1 - List.length groups) <= mu c cst /\
        List.length groups <= List.length groups1 end).
    2:{ destruct prepared; [cbn; lia|]. apply aggr_prepare_batch_spec; lia. }
    intros [cst1 groups1] [G1 G2].
    destruct limit as [count|].
    + apply wp_bind.
      eapply wp_mono; [|apply (limit_batch_spec (aggr_mem_batch B (List.length groups1))
                                 (fun pos => List.length groups1 - pos))].
      * intros [rows [[sk' cur'] pos']] Hx. cbn [wp fst snd muf]. lia.
      * intros cs _. apply aggr_mem_batch_spec.
      * lia.
    + apply wp_bind. eapply wp_mono; [|apply aggr_mem_batch_spec].
      intros [rows pos'] Hx. cbn [wp fst snd muf] in *. lia.
  - destruct st as [| |cst total pos|]; try (cbn; discriminate).
    apply wp_bind.
    eapply wp_mono with (Q := fun x => match x with (cst1, total1) =>
        muf c cst1 + (total1 - total) <= muf c cst /\ total <= total1 end).
    2:{ destruct (total =? 0); [|cbn; lia].
        apply (order_prepare_batch_spec (f_batch remember_end flt gkey B fuel c) (muf c)); [exact IH|lia|lia]. }
    intros [cst1 total1] [G1 G2].
    cbn [wp fst snd muf]. unfold frows. rewrite repeat_length. lia.
  - destruct st as [| | |sk cur cst]; try (cbn; discriminate).
    apply wp_bind. eapply wp_mono; [|apply (limit_batch_spec (f_batch remember_end flt gkey B fuel c) (muf c)); [exact IH|exact Hf]].
    intros [rows [[sk' cur'] cst']] Hx. cbn [wp fst snd muf]. exact Hx.
Qed.

Lemma f_init_spec : forall fp st,
  wp (f_init fp st) (fun st' => muf fp st' <= bound_fplan fp).
Proof.
  induction fp as [c|c all start limit|c IH|start count c IH]; intros st; cbn [f_init muf bound_fplan].
  - destruct st as [cst| | |]; try (cbn; discriminate).
    apply wp_bind. eapply wp_mono; [|apply plan_init_spec]. intros cst' Hx. cbn [wp muf]. exact Hx.
  - destruct st as [|cst prepared groups pos sk cur| |]; try (cbn; discriminate).
    apply wp_bind. eapply wp_mono; [|apply plan_init_spec]. intros cst' Hx. cbn beta in Hx. cbn [wp muf List.length]. lia.
  - destruct st as [| |cst total pos|]; try (cbn; discriminate).
    apply wp_bind. eapply wp_mono; [|apply IH]. intros cst' Hx. cbn beta in Hx. cbn [wp muf]. lia.
  - destruct st as [| | |sk cur cst]; try (cbn; discriminate).
    apply wp_bind. eapply wp_mono; [|apply IH]. intros cst' Hx. cbn [wp muf]. exact Hx.
Qed.

(* ------------------------------------------------------------------ the drain loop, SELECT *)

Lemma drain_spec : forall f m fp st sizes,
  muf fp st < f -> f <= fuel ->
  wp (drain remember_end flt gkey B fuel f m fp st sizes) (fun _ => True).
Proof.
  induction f as [|f IH]; intros m fp st sizes Hf Hle; [lia|]. cbn [drain].
  destruct m.
  - apply wp_bind. eapply wp_mono; [|apply f_next_spec; lia].
    intros [r st'] Hx. cbn [fst snd] in Hx. destruct r as [x|]; cbn [opt1] in Hx; [|exact I].
    apply IH; lia.
  - apply wp_bind. eapply wp_mono; [|apply f_batch_spec; lia].
    intros [rows st'] Hx. cbn [fst snd] in Hx. destruct rows as [|x rows]; [exact I|].
    cbn [List.length] in Hx. apply IH; lia.
Qed.

Lemma select_prog_spec : forall m fp,
  bound_fplan fp < fuel ->
  wp (select_prog remember_end flt gkey B fuel m fp) (fun _ => True).
Proof.
  intros m fp Hb. unfold select_prog, select_build.
  apply wp_bind. apply wp_bind. eapply wp_mono; [|apply f_init_spec].
  intros st1 _. eapply wp_mono; [|apply f_init_spec].
  intros st2 H2. cbn beta in H2. apply drain_spec; lia.
Qed.

(* ------------------------------------------------------------------ DELETE *)

Lemma delete_execute_spec : forall f c cst count,
  mu c cst < f -> f <= fuel ->
  wpw (delete_execute remember_end flt B fuel f c cst count) (fun _ => True).
Proof.
  induction f as [|f IH]; intros c cst count Hf Hle; [lia|]. cbn [delete_execute].
  apply wpw_bind. apply wpw_rd. eapply wp_mono; [|apply plan_batch_spec; lia].
  intros [rows cst'] Hx. cbn [fst snd] in Hx. destruct rows as [|kv rows]; [exact I|].
  cbn [bind op_batch_delete wpw]. intros d Hd. cbn [List.length] in Hx. apply IH; lia.
Qed.

Lemma delete_drain_spec : forall f c cst sizes,
  2 <= f -> mu c cst < fuel ->
  wpw (delete_drain remember_end flt B fuel f c false cst sizes) (fun _ => True).
Proof.
  intros f c cst sizes H2 Hm. destruct f as [|[|f]]; try lia.
  cbn [delete_drain]. unfold delete_poll at 1. cbn [negb].
  apply wpw_bind. apply wpw_bind.
  eapply wpw_mono; [|apply delete_execute_spec; lia].
  intros [n cst3] _. cbn [wpw]. unfold delete_poll. cbn [negb bind wpw]. exact I.
Qed.

Lemma delete_prog_spec : forall c,
  bound_plan c < fuel -> 2 <= fuel ->
  wpw (delete_prog remember_end flt B fuel c) (fun _ => True).
Proof.
  intros c Hb H2. unfold delete_prog, delete_init.
  apply wpw_bind. apply wpw_bind. apply wpw_rd. eapply wp_mono; [|apply plan_init_spec].
  intros cst1 _. cbn [wpw]. apply wpw_bind. apply wpw_bind. apply wpw_rd.
  eapply wp_mono; [|apply plan_init_spec].
  intros cst2 Hm. cbn beta in Hm. cbn [wpw]. apply delete_drain_spec; lia.
Qed.

(* ------------------------------------------------------------------ statements *)

Definition bound_stmt (s : ScanIO.stmt) : nat :=
  match s with
  | StRejected => 0
  | StSelect fp => bound_fplan fp
  | StDelete c => S (bound_plan c)
  end.

Lemma stmt_prog_spec : forall m s,
  bound_stmt s < fuel ->
  wpw (stmt_prog remember_end flt gkey B fuel m s) (fun _ => True).
Proof.
  intros m [|fp|c] Hb; cbn [stmt_prog bound_stmt] in *.
  - cbn. discriminate.
  - apply wpw_rd, select_prog_spec. exact Hb.
  - apply delete_prog_spec; lia.
Qed.

Lemma no_fuel_exhaustion_lemma : forall m s st,
  List.length (sdata st) <= N -> bound_stmt s < fuel ->
  fst (ScanIO.run_stmt remember_end flt gkey B fuel m s st) <> Err EFuel.
Proof.
  intros m s st Hs Hb. unfold ScanIO.run_stmt.
  pose proof (wpw_sound (stmt_prog remember_end flt gkey B fuel m s) (fun _ => True) st Hs
                (stmt_prog_spec m s Hb)) as H.
  destruct (fst (run exec_req (stmt_prog remember_end flt gkey B fuel m s) st)) as [a|e].
  - discriminate.
  - intros E. injection E as ->. apply H. reflexivity.
Qed.

End Fuel.

(* ------------------------------------------------------------------ the fuel the correspondence uses *)

Lemma bound_plan_le : forall N p, bound_plan N p <= N + plan_keys p.
Proof.
  intros N p. induction p as [sc|start count c IH]; cbn [bound_plan plan_keys]; [|exact IH].
  destruct sc; cbn [bound_scan]; lia.
Qed.

Lemma bound_fplan_le : forall N f, bound_fplan N f <= N + fplan_keys f.
Proof.
  intros N f. induction f as [c|c all start limit|c IH|start count c IH];
    cbn [bound_fplan fplan_keys]; try exact IH; apply bound_plan_le.
Qed.

Lemma stmt_fuel_enough : forall s d, bound_stmt (List.length d) s < stmt_fuel s d.
Proof.
  intros [|fp|c] d; unfold stmt_fuel; cbn [bound_stmt].
  - lia.
  - pose proof (bound_fplan_le (List.length d) fp). lia.
  - pose proof (bound_plan_le (List.length d) c). lia.
Qed.

Lemma no_fuel_exhaustion_stmt_fuel :
  forall (remember_end : bool) (flt : kvp -> bool) (gkey : kvp -> bytes) (B : nat) (m : mode)
         (s : ScanIO.stmt) (st : sstate),
  1 <= B ->
  fst (ScanIO.run_stmt remember_end flt gkey B (stmt_fuel s (sdata st)) m s st) <> Err EFuel.
Proof.
  intros remember_end flt gkey B m s st HB.
  apply (@no_fuel_exhaustion_lemma (List.length (sdata st)) remember_end flt gkey B
           (stmt_fuel s (sdata st)) HB m s st); [lia|apply stmt_fuel_enough].
Qed.
