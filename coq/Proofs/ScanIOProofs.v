(* Proofs/ScanIOProofs.v -- C13 over the storage-traffic twins of Model/ScanIO.v and the write
   twins of Model/Write.v:
     - every instruction appends exactly one log entry, fails iff it is the faulted call, and
       otherwise answers / acts as a function of the data alone ([exec_req_spec]);
     - [fault_surfaces_prog]: for EVERY program over the storage instructions and every fault
       index i, the run either never reaches call i and is the fault-free run, or returns the
       storage error with the log cut right after call i;
     - [read_only_prog]: EVERY program over the read instructions leaves the data unchanged
       and logs no mutating call;
   the statement-level theorems are instances. *)
From Coq Require Import List String Bool Arith Lia.
Import ListNotations.
From KV Require Import Base.Bytes Model.Storage Model.Write Model.ScanIO Proofs.StorageProofs
                       Proofs.WriteProofs.

Set Implicit Arguments.
Local Open Scope list_scope.
Local Open Scope nat_scope.

(* ------------------------------------------------------------------ one instruction *)

Definition rentry (R : Type) (q : rreq R) : scall :=
  match q with
  | QGet k => CGet k
  | QCursor => CCursor
  | QSeek _ k => CSeek k
  | QNext c => CNext (match crest c with [] => None | kv :: _ => Some (fst kv) end)
  end.

Definition entry (R : Type) (q : req R) : scall :=
  match q with
  | QRead q' => rentry q'
  | QBatchDelete ks => CBatchDelete ks
  end.

Definition ranswer (R : Type) (q : rreq R) (d : store) : R :=
  match q in rreq R return R with
  | QGet k => sget k d
  | QCursor => Cur d d
  | QSeek c k => Cur (csnap c) (seek_from k (csnap c))
  | QNext c => match crest c with
               | [] => (None, c)
               | kv :: rest => (Some kv, Cur (csnap c) rest)
               end
  end.

Definition answer (R : Type) (q : req R) (d : store) : R :=
  match q in req R return R with
  | QRead q' => ranswer q' d
  | QBatchDelete _ => tt
  end.

Definition effect (R : Type) (q : req R) (d : store) : store :=
  match q with
  | QRead _ => d
  | QBatchDelete ks => sdel_all ks d
  end.

Lemma exec_req_spec : forall (R : Type) (q : req R) (s : sstate),
  exec_req q s =
    if faulted s
    then (Err EStorage, SState (sdata s) (slog s ++ [entry q]) (sfault s))
    else (Ok (answer q (sdata s)), SState (effect q (sdata s)) (slog s ++ [entry q]) (sfault s)).
Proof.
  intros R q s. destruct q as [R q|ks]; cbn [exec_req].
  - destruct q as [k| |c k|c]; cbn [exec_rreq entry rentry answer ranswer effect].
    + unfold st_get, call. destruct (faulted s); reflexivity.
    + unfold st_cursor, call. destruct (faulted s); reflexivity.
    + unfold cur_seek, call. destruct (faulted s); reflexivity.
    + unfold cur_next. destruct (crest c) as [|kv rest]; unfold call; destruct (faulted s); reflexivity.
  - unfold st_batch_delete, call, set_data. cbn [entry answer effect sdata slog sfault].
    destruct (faulted s); reflexivity.
Qed.

(* ------------------------------------------------------------------ the log only grows *)

Lemma run_log_ext : forall (A : Type) (p : wprog A) (s : sstate),
  exists ext, slog (snd (run exec_req p s)) = slog s ++ ext.
Proof.
  induction p as [a|e|R q k IH]; intros s; cbn [run].
  - exists []. cbn. rewrite app_nil_r. reflexivity.
  - exists []. cbn. rewrite app_nil_r. reflexivity.
  - rewrite exec_req_spec. destruct (faulted s).
    + exists [entry q]. reflexivity.
    + destruct (IH (answer q (sdata s))
                   (SState (effect q (sdata s)) (slog s ++ [entry q]) (sfault s))) as [ext H].
      exists (entry q :: ext). rewrite H. cbn [slog]. rewrite <- app_assoc. reflexivity.
Qed.

(* ------------------------------------------------------------------ faults surface *)

Definition fault_outcome (A : Type) (i : nat) (free faulty : res A * sstate) : Prop :=
  (* call i is never reached: same result, same data, same log *)
  (List.length (slog (snd free)) <= i /\ fst faulty = fst free /\
   sdata (snd faulty) = sdata (snd free) /\ slog (snd faulty) = slog (snd free))
  \/
  (* call i is reached: the storage error is returned and call i is the last call *)
  (i < List.length (slog (snd free)) /\ fst faulty = Err EStorage /\
   slog (snd faulty) = firstn (S i) (slog (snd free)) /\ List.length (slog (snd faulty)) = S i).

Lemma faulted_some : forall d l i, faulted (SState d l (Some i)) = (List.length l =? i).
Proof. reflexivity. Qed.

Lemma fault_surfaces_prog : forall (A : Type) (p : wprog A) (d : store) (l : list scall) (i : nat),
  List.length l <= i ->
  fault_outcome i (run exec_req p (SState d l None)) (run exec_req p (SState d l (Some i))).
Proof.
  induction p as [a|e|R q k IH]; intros d l i Hl; cbn [run].
  - left. cbn. auto.
  - left. cbn. auto.
  - rewrite !exec_req_spec. cbn [sdata slog sfault].
    replace (faulted (SState d l None)) with false by reflexivity.
    rewrite faulted_some.
    destruct (Nat.eqb_spec (List.length l) i) as [E|N].
    + (* this is the faulted call *)
      right. cbn [fst snd slog].
      destruct (run_log_ext (k (answer q d)) (SState (effect q d) (l ++ [entry q]) None)) as [ext H].
      rewrite H. cbn [slog].
      assert (HL : List.length (l ++ [entry q]) = S i) by (rewrite app_length; cbn; lia).
      repeat split.
      * rewrite app_length. lia.
      * rewrite <- HL. rewrite firstn_app, firstn_all, Nat.sub_diag.
        cbn [firstn]. rewrite app_nil_r. reflexivity.
      * exact HL.
    + apply IH. rewrite app_length. cbn. lia.
Qed.

(* ------------------------------------------------------------------ programs over reads *)

Lemma read_only_app : forall l1 l2, read_only (l1 ++ l2) = read_only l1 && read_only l2.
Proof. intros. unfold read_only. apply forallb_app. Qed.

Lemma rentry_read : forall (R : Type) (q : rreq R), is_write (rentry q) = false.
Proof. intros R q. destruct q; reflexivity. Qed.

Lemma read_only_prog : forall (A : Type) (p : rprog A) (s : sstate),
  sdata (snd (run exec_req (rd p) s)) = sdata s /\
  exists ext, slog (snd (run exec_req (rd p) s)) = slog s ++ ext /\ read_only ext = true.
Proof.
  induction p as [a|e|R q k IH]; intros s; unfold rd in *; cbn [lift run].
  - split; [reflexivity|]. exists []. rewrite app_nil_r. auto.
  - split; [reflexivity|]. exists []. rewrite app_nil_r. auto.
  - rewrite exec_req_spec. cbn [entry answer effect]. destruct (faulted s).
    + cbn [snd sdata slog]. split; [reflexivity|]. exists [rentry q]. split; [reflexivity|].
      cbn. rewrite rentry_read. reflexivity.
    + destruct (IH (ranswer q (sdata s)) (SState (sdata s) (slog s ++ [rentry q]) (sfault s)))
        as [Hd [ext [Hl Hr]]].
      split; [exact Hd|]. exists (rentry q :: ext). split.
      * rewrite Hl. cbn [slog]. rewrite <- app_assoc. reflexivity.
      * cbn. rewrite rentry_read. exact Hr.
Qed.

(* ------------------------------------------------------------------ statements *)

Section Statements.
Variable remember_end : bool.
Variable flt : kvp -> bool.
Variable gkey : kvp -> bytes.
Variables (B fuel : nat).

Lemma stmt_fault_surfaces : forall (m : mode) (s : stmt) (st : store) (i : nat),
  fault_outcome i (run_stmt remember_end flt gkey B fuel m s (sinit st None))
                  (run_stmt remember_end flt gkey B fuel m s (sinit st (Some i))).
Proof.
  intros m s st i. unfold run_stmt, sinit. apply fault_surfaces_prog. cbn. lia.
Qed.

Lemma select_read_only_lemma : forall (m : mode) (fp : fplan) (s : sstate),
  let out := run_stmt remember_end flt gkey B fuel m (StSelect fp) s in
  sdata (snd out) = sdata s /\
  exists ext, slog (snd out) = slog s ++ ext /\ read_only ext = true.
Proof. intros m fp s. cbn zeta. unfold run_stmt. cbn [stmt_prog]. apply read_only_prog. Qed.

(* planning alone (BuildPlan of a SELECT) is read-only as well *)
Lemma select_build_read_only_lemma : forall (fp : fplan) (s : sstate),
  let out := run exec_req (rd (select_build fp)) s in
  sdata (snd out) = sdata s /\
  exists ext, slog (snd out) = slog s ++ ext /\ read_only ext = true.
Proof. intros fp s. cbn zeta. apply read_only_prog. Qed.

Lemma rejected_no_call_lemma : forall (m : mode) (s : sstate),
  run_stmt remember_end flt gkey B fuel m StRejected s = (Err ESyntax, s).
Proof. reflexivity. Qed.

End Statements.

(* ------------------------------------------------------------------ PUT / REMOVE under a fault *)

Section WriteFaults.
Variable E : Type.
Variable ev : E -> bytes -> bytes -> res bytes.

Definition wfault_outcome (i : nat) (free faulty : list pres * sstate) (st : store) : Prop :=
  (List.length (slog (snd free)) <= i /\ faulty = (fst free, SState (sdata (snd free)) (slog (snd free)) (Some i)))
  \/
  (i < List.length (slog (snd free)) /\
   (exists n rest, fst faulty = (Some n, Some EStorage) :: rest) /\
   slog (snd faulty) = firstn (S i) (slog (snd free)) /\ List.length (slog (snd faulty)) = S i /\
   sdata (snd faulty) = st).

Lemma wexec_fault_irrelevant_when_executed : forall (pl : wplan E) polls s,
  run_polls ev pl polls true s = (idle (List.length polls), true, s).
Proof. apply run_polls_executed. Qed.

Lemma write_fault_surfaces_lemma : forall (pl : wplan E) (p : poll) (polls : list poll) (st : store) (i : nat),
  wfault_outcome i (wexec ev pl (p :: polls) (sinit st None))
                   (wexec ev pl (p :: polls) (sinit st (Some i))) st.
Proof.
  intros pl p polls st i.
  rewrite (polls_idempotent ev pl p polls (sinit st None)).
  rewrite (polls_idempotent ev pl p polls (sinit st (Some i))).
  unfold wexec, wbuild, winit. cbn [run_polls].
  destruct pl as [prs|ks].
  - assert (Hp : forall s, wpoll ev (WPut prs) p false s =
                 (let '((n, e), s') := put_execute ev prs s in ((Some n, e), true, s'))).
    { intros s. destruct p; reflexivity. }
    rewrite !Hp. unfold put_execute.
    destruct (process_kvpairs ev prs) as [kvs|e].
    + destruct kvs as [|kv [|kv2 kvs]].
      * left. cbn. split; [lia|reflexivity].
      * unfold st_put, call, sinit, faulted. cbn [sfault slog sdata List.length set_data].
        destruct i as [|i]; cbn [Nat.eqb].
        -- right. cbn. repeat split; try lia; eauto.
        -- left. cbn. split; [lia|reflexivity].
      * unfold st_batch_put, call, sinit, faulted. cbn [sfault slog sdata List.length set_data].
        destruct i as [|i]; cbn [Nat.eqb].
        -- right. cbn. repeat split; try lia; eauto.
        -- left. cbn. split; [lia|reflexivity].
    + left. cbn. split; [lia|reflexivity].
  - assert (Hp : forall s, wpoll ev (WRemove ks) p false s =
                 (let '((n, e), s') := remove_execute ev ks s in ((Some n, e), true, s'))).
    { intros s. destruct p; reflexivity. }
    rewrite !Hp. unfold remove_execute.
    destruct (process_keys ev ks) as [keys|e].
    + destruct keys as [|k [|k2 keys]].
      * left. cbn. split; [lia|reflexivity].
      * unfold st_delete, call, sinit, faulted. cbn [sfault slog sdata List.length set_data].
        destruct i as [|i]; cbn [Nat.eqb].
        -- right. cbn. repeat split; try lia; eauto.
        -- left. cbn. split; [lia|reflexivity].
      * unfold st_batch_delete, call, sinit, faulted. cbn [sfault slog sdata List.length set_data].
        destruct i as [|i]; cbn [Nat.eqb].
        -- right. cbn. repeat split; try lia; eauto.
        -- left. cbn. split; [lia|reflexivity].
    + left. cbn. split; [lia|reflexivity].
Qed.

End WriteFaults.

(* ------------------------------------------------------------------ read your write, through
   the point-read access path (`select * where key = k` is planned as MultiGet [k]) *)

Section PointRead.
Variable remember_end : bool.
Variable flt : kvp -> bool.

Definition point_read (k : bytes) (s : sstate) : res (option kvp * pstate) * sstate :=
  run exec_req (rd (scan_next remember_end flt (SMget [k]) (PSScan None 0 false))) s.

Lemma point_read_spec : forall k s,
  sfault s = None ->
  fst (point_read k s) =
    Ok (match sget k (sdata s) with
        | Some v => if flt (k, v) then Some (k, v) else None
        | None => None
        end, PSScan None 1 false).
Proof.
  intros k [d l f] Hf. cbn [sfault] in Hf. subst f.
  unfold point_read, rd. cbn [scan_next skipn mget_next_loop op_get bind lift run].
  rewrite exec_req_spec. replace (faulted (SState d l None)) with false by reflexivity.
  cbn [answer ranswer sdata].
  destruct (sget k d) as [v|]; cbn [bind lift run]; [|reflexivity].
  destruct (flt (k, v)); reflexivity.
Qed.

Variable E : Type.
Variable ev : E -> bytes -> bytes -> res bytes.

Lemma select_observes_put_lemma : forall prs kvs p polls st k v,
  pairs_eval ev prs kvs -> final_binding kvs k v -> flt (k, v) = true ->
  fst (point_read k (snd (wexec ev (WPut prs) (p :: polls) (sinit st None))))
    = Ok (Some (k, v), PSScan None 1 false).
Proof.
  intros prs kvs p polls st k v Hp Hb Hf.
  pose proof (put_read_your_write_lemma p polls st Hp Hb) as Hg.
  rewrite (wexec_put_ok p polls (sinit st None) Hp eq_refl) in *. cbn [snd] in *.
  rewrite point_read_spec by reflexivity. rewrite Hg, Hf. reflexivity.
Qed.

Lemma select_observes_remove_lemma : forall ks keys p polls st k,
  keys_eval ev ks keys -> In k keys ->
  fst (point_read k (snd (wexec ev (WRemove ks) (p :: polls) (sinit st None))))
    = Ok (None, PSScan None 1 false).
Proof.
  intros ks keys p polls st k Hp Hin.
  pose proof (remove_read_your_write_lemma p polls st k Hp Hin) as Hg.
  rewrite (wexec_remove_ok p polls (sinit st None) Hp eq_refl) in *. cbn [snd] in *.
  rewrite point_read_spec by reflexivity. rewrite Hg. reflexivity.
Qed.

End PointRead.
