(* Proofs/ScanProjProofs.v -- plan layer of C03: a scan drained in batches returns chunks whose
   concatenation is the row-at-a-time sequence, ProjectionPlan in batch mode is the map of row
   mode, and the two compose into batch_row_agree for SELECT without ORDER BY / GROUP BY. *)
From Coq Require Import List String ZArith Bool Arith Lia.
Import ListNotations.
From KV Require Import Base.Bytes Model.Ast Model.Value Model.Eval Model.EvalVec Model.ScanProj
                       Proofs.EvalVecProofs.
Local Open Scope nat_scope.
Local Open Scope list_scope.

Lemma bind_ok' {A B} (r : res A) (f : A -> res B) b :
  bind r f = Ok b -> exists a, r = Ok a /\ f a = Ok b.
Proof. destruct r; cbn; intros H; try discriminate; eauto. Qed.

Section Abstract.
Variable P R : Type.
Variable frow : P -> res bool.
Variable fbatch : list P -> res (list bool).
Variable prow : P -> res R.
Variable pbatch : list P -> res (list R).
Variable req : R -> R -> Prop.      (* row-mode row, batch-mode row *)

(* what ties the two modes of the filter and of the projection together (the expression layer
   provides both for the evaluator twins) *)
Hypothesis Hf : forall c bs, fbatch c = Ok bs -> Forall2 (fun kv b => frow kv = Ok b) c bs.
Hypothesis Hp : forall c rs, pbatch c = Ok rs ->
                             Forall2 (fun kv r => exists r', prow kv = Ok r' /\ req r' r) c rs.

(* ---------------------------------------------------------------- row mode, as one recursion *)

Fixpoint filter_list (l : list P) : res (list P) :=
  match l with
  | [] => Ok []
  | kv :: l' => do ok <- frow kv; do out <- filter_list l'; Ok (if ok then kv :: out else out)
  end.

Fixpoint row_list (l : list P) : res (list R) :=
  match l with
  | [] => Ok []
  | kv :: l' =>
      do ok <- frow kv;
      if ok then (do row <- prow kv; do out <- row_list l'; Ok (row :: out)) else row_list l'
  end.

Lemma somes_app (a b : list (option P)) : somes (a ++ b) = somes a ++ somes b.
Proof. induction a as [|[x|] a IH]; cbn; congruence. Qed.

Lemma drain_row_fuel_spec : forall rest f,
  List.length rest <= f -> drain_row_fuel frow prow (S f) rest = row_list (somes rest).
Proof.
  induction rest as [|[kv|] rest IH]; intros f Hl.
  - reflexivity.
  - cbn [List.length] in Hl. cbn [somes row_list].
    cbn [drain_row_fuel]. unfold proj_next. cbn [scan_next].
    destruct (frow kv) as [ok| | |] eqn:Ek; cbn [bind]; try reflexivity.
    destruct ok.
    + cbn [bind]. destruct (prow kv); cbn [bind]; try reflexivity.
      destruct f as [|f']; [lia|]. rewrite IH by lia. reflexivity.
    + specialize (IH f ltac:(lia)). cbn [drain_row_fuel] in IH. unfold proj_next in IH. exact IH.
  - cbn [List.length] in Hl. cbn [somes].
    specialize (IH f ltac:(lia)). cbn [drain_row_fuel] in *. unfold proj_next in *. cbn [scan_next]. exact IH.
Qed.

Lemma drain_row_spec rest : drain_row frow prow rest = row_list (somes rest).
Proof. unfold drain_row. apply drain_row_fuel_spec. lia. Qed.

Lemma filter_list_app a b :
  filter_list (a ++ b) = (do x <- filter_list a; do y <- filter_list b; Ok (x ++ y)).
Proof.
  induction a as [|kv a IH]; cbn [app filter_list].
  - cbn [bind]. destruct (filter_list b); reflexivity.
  - destruct (frow kv); cbn [bind]; try reflexivity. rewrite IH.
    destruct (filter_list a); cbn [bind]; try reflexivity.
    destruct (filter_list b); cbn [bind]; try reflexivity. destruct a0; reflexivity.
Qed.

Lemma row_list_app : forall a b sel rows,
  filter_list a = Ok sel -> map_res prow sel = Ok rows ->
  row_list (a ++ b) = (do out <- row_list b; Ok (rows ++ out)).
Proof.
  induction a as [|kv a IH]; intros b sel rows Hs Hr; cbn [app filter_list row_list] in *.
  - inversion Hs; subst sel. cbn in Hr. inversion Hr; subst rows. cbn [app].
    destruct (row_list b); reflexivity.
  - apply bind_ok' in Hs. destruct Hs as (ok & Ek & Hs).
    apply bind_ok' in Hs. destruct Hs as (out & Eo & Hs). inversion Hs; subst sel.
    rewrite Ek. cbn [bind]. destruct ok.
    + cbn [map_res] in Hr. apply bind_ok' in Hr. destruct Hr as (row & Erow & Hr).
      apply bind_ok' in Hr. destruct Hr as (rows' & Erows & Hr). inversion Hr; subst rows.
      rewrite Erow. cbn [bind]. rewrite (IH b out rows' Eo Erows).
      destruct (row_list b); reflexivity.
    + apply (IH b out rows Eo Hr).
Qed.

(* ---------------------------------------------------------------- one Batch call of a scan *)

Lemma select_matches_spec : forall chunk ms,
  Forall2 (fun kv b => frow kv = Ok b) chunk ms ->
  forall sel, select_matches chunk ms = Ok sel -> filter_list chunk = Ok sel.
Proof.
  induction 1 as [|kv m chunk ms Hm H IH]; intros sel Hs; cbn in Hs.
  - inversion Hs. reflexivity.
  - apply bind_ok' in Hs. destruct Hs as (rest & Er & Hs). inversion Hs; subst sel.
    cbn [filter_list]. rewrite Hm. cbn [bind]. rewrite (IH _ Er). reflexivity.
Qed.

Lemma somes_nil_filter (l : list (option P)) : somes l = [] -> filter_list (somes l) = Ok [].
Proof. intros ->. reflexivity. Qed.

Lemma scan_loop_ok : forall fuel B rest ret out rest',
  1 <= B -> scan_batch_loop fbatch fuel B rest ret = Ok (out, rest') ->
  exists consumed sel,
    rest = consumed ++ rest' /\ out = ret ++ sel /\ filter_list (somes consumed) = Ok sel /\
    (rest' = [] \/ B <= List.length out).
Proof.
  induction fuel as [|f IH]; intros B rest ret out rest' HB H; [discriminate|].
  cbn [scan_batch_loop] in H.
  pose proof (firstn_skipn B rest) as Hfs.
  destruct (somes (firstn B rest)) as [|kv0 chunk'] eqn:Ech.
  - destruct (Nat.ltb (List.length rest) B) eqn:Eof.
    + inversion H; subst out rest'. apply Nat.ltb_lt in Eof.
      exists rest, []. repeat split.
      * rewrite skipn_all2 by lia. now rewrite app_nil_r.
      * now rewrite app_nil_r.
      * rewrite firstn_all2 in Ech by lia. rewrite Ech. reflexivity.
      * left. apply skipn_all2. lia.
    + destruct (IH _ _ _ _ _ HB H) as (consumed & sel & E1 & E2 & E3 & E4).
      exists (firstn B rest ++ consumed), sel. repeat split; auto.
      * rewrite <- app_assoc, <- E1. now rewrite Hfs.
      * rewrite somes_app, Ech. exact E3.
  - apply bind_ok' in H. destruct H as (ms & Ems & H).
    apply bind_ok' in H. destruct H as (sel1 & Esel & H).
    pose proof (select_matches_spec _ _ (Hf _ _ Ems) _ Esel) as Hfl.
    match type of H with (if ?c then _ else _) = _ => destruct c eqn:Efin end.
    + inversion H; subst out rest'. exists (firstn B rest), sel1. repeat split; auto.
      * now rewrite Ech.
      * apply orb_true_iff in Efin. destruct Efin as [Eof|Ecnt].
        -- left. apply Nat.ltb_lt in Eof. apply skipn_all2. lia.
        -- right. now apply Nat.leb_le.
    + destruct (IH _ _ _ _ _ HB H) as (consumed & sel & E1 & E2 & E3 & E4).
      exists (firstn B rest ++ consumed), (sel1 ++ sel). repeat split; auto.
      * rewrite <- app_assoc, <- E1. now rewrite Hfs.
      * rewrite E2. now rewrite app_assoc.
      * rewrite somes_app, filter_list_app, Ech, Hfl, E3. reflexivity.
Qed.

(* a scan's Batch call: what it returns is the row-mode filter of what it consumed, and an empty
   batch means the stream is exhausted *)
Lemma scan_batch_ok B rest out rest' :
  1 <= B -> scan_batch fbatch B rest = Ok (out, rest') ->
  exists consumed, rest = consumed ++ rest' /\ filter_list (somes consumed) = Ok out /\
                   (out = [] -> rest' = []).
Proof.
  intros HB H. unfold scan_batch in H.
  destruct (scan_loop_ok _ _ _ _ _ _ HB H) as (consumed & sel & E1 & E2 & E3 & E4).
  cbn [app] in E2. subst out. exists consumed. repeat split; auto.
  intros ->. destruct E4 as [E4|E4]; [exact E4 | cbn in E4; lia].
Qed.

(* ---------------------------------------------------------------- draining *)

Definition nonempty {A} (l : list A) : Prop := l <> [].

Lemma pbatch_rows sel rowsB :
  pbatch sel = Ok rowsB -> exists rows', map_res prow sel = Ok rows' /\ Forall2 req rows' rowsB.
Proof.
  intros H. apply Hp in H. induction H as [|kv r sel rowsB (r' & Er & Hr) H IH].
  - exists []. split; [reflexivity | constructor].
  - destruct IH as (rows' & Em & F). exists (r' :: rows'). split; [|constructor; auto].
    cbn [map_res]. rewrite Er, Em. reflexivity.
Qed.

Lemma drain_batch_fuel_ok : forall fuel B rest outs,
  1 <= B -> drain_batch_fuel fbatch pbatch fuel B rest = Ok outs ->
  exists rows', row_list (somes rest) = Ok rows' /\ Forall2 req rows' (List.concat outs) /\
                Forall nonempty outs.
Proof.
  induction fuel as [|f IH]; intros B rest outs HB H; [discriminate|].
  cbn [drain_batch_fuel] in H. unfold proj_batch in H.
  apply bind_ok' in H. destruct H as ((rowsB & rest1) & Epb & H).
  apply bind_ok' in Epb. destruct Epb as ((kvs & rest2) & Esb & Epb).
  destruct (scan_batch_ok _ _ _ _ HB Esb) as (consumed & E1 & E2 & E3).
  destruct kvs as [|kv kvs].
  - inversion Epb; subst rowsB rest1. inversion H; subst outs.
    rewrite (E3 eq_refl), app_nil_r in E1. subst consumed.
    exists []. repeat split; try constructor.
    rewrite <- (app_nil_r rest), somes_app.
    rewrite (row_list_app _ (somes []) [] [] E2 eq_refl). reflexivity.
  - apply bind_ok' in Epb. destruct Epb as (rows & Erows & Epb). inversion Epb; subst rowsB rest1.
    destruct (pbatch_rows _ _ Erows) as (rows' & Em & F).
    destruct rows as [|r0 rows].
    + inversion F; subst. cbn [map_res] in Em.
      apply bind_ok' in Em. destruct Em as (? & ? & Em).
      apply bind_ok' in Em. destruct Em as (? & ? & Em). discriminate Em.
    + apply bind_ok' in H. destruct H as (outs' & Eouts & H). inversion H; subst outs.
      destruct (IH _ _ _ HB Eouts) as (rows2 & Er2 & F2 & N2).
      exists (rows' ++ rows2). repeat split.
      * rewrite E1, somes_app. rewrite (row_list_app _ _ _ _ E2 Em), Er2. reflexivity.
      * cbn [List.concat]. apply Forall2_app; assumption.
      * constructor; [discriminate | exact N2].
Qed.

(* batch iteration over scan + projection completed => row-at-a-time iteration completes with
   the same rows in the same order; no batch before the end is empty *)
Theorem scan_proj_batch_row B rest outs :
  1 <= B -> drain_batch fbatch pbatch B rest = Ok outs ->
  exists rows', drain_row frow prow rest = Ok rows' /\ Forall2 req rows' (List.concat outs) /\
                Forall nonempty outs.
Proof.
  intros HB H. rewrite drain_row_spec. eapply drain_batch_fuel_ok; eauto.
Qed.

(* ---------------------------------------------------------------- the fuel is enough *)
(* With B >= 1 and a filter / projection that answer every chunk (one verdict / row per pair),
   the drains never run out of fuel: OutOfModel is not produced by the fuel bound. *)
Section Total.
Hypothesis Tf : forall c, exists bs, fbatch c = Ok bs /\ List.length bs = List.length c.
Hypothesis Tp : forall c, exists rs, pbatch c = Ok rs /\ List.length rs = List.length c.

Lemma select_matches_total : forall (chunk : list P) ms,
  List.length ms = List.length chunk -> exists sel, select_matches chunk ms = Ok sel.
Proof.
  induction chunk as [|kv chunk IH]; intros [|m ms] Hl; cbn in Hl; try discriminate.
  - exists []. reflexivity.
  - destruct (IH ms ltac:(lia)) as (sel & Es). cbn. rewrite Es. cbn. eauto.
Qed.

Lemma scan_loop_total : forall fuel B rest ret,
  1 <= B -> List.length rest < fuel ->
  exists out rest', scan_batch_loop fbatch fuel B rest ret = Ok (out, rest').
Proof.
  induction fuel as [|f IH]; intros B rest ret HB Hl; [lia|].
  cbn [scan_batch_loop].
  assert (Hsk : Nat.ltb (List.length rest) B = false -> List.length (skipn B rest) < f).
  { intros E. apply Nat.ltb_ge in E. rewrite skipn_length. lia. }
  destruct (somes (firstn B rest)) as [|kv0 chunk'] eqn:Ech.
  - destruct (Nat.ltb (List.length rest) B) eqn:Eof; [eauto|]. apply IH; auto.
  - destruct (Tf (kv0 :: chunk')) as (ms & Ems & Hlen). rewrite Ems. cbn [bind].
    destruct (select_matches_total _ _ Hlen) as (sel & Es). rewrite Es. cbn [bind].
    destruct (Nat.ltb (List.length rest) B) eqn:Eof; cbn [orb]; [eauto|].
    destruct (Nat.leb B (List.length (ret ++ sel))); [eauto|]. apply IH; auto.
Qed.

Lemma drain_batch_fuel_total : forall fuel B rest,
  1 <= B -> List.length rest < fuel ->
  exists outs, drain_batch_fuel fbatch pbatch fuel B rest = Ok outs.
Proof.
  induction fuel as [|f IH]; intros B rest HB Hl; [lia|].
  cbn [drain_batch_fuel]. unfold proj_batch.
  destruct (scan_loop_total (S (List.length rest)) B rest [] HB ltac:(lia)) as (out & rest' & Es).
  unfold scan_batch. rewrite Es. cbn [bind].
  destruct out as [|kv out].
  - cbn [bind]. eauto.
  - destruct (Tp (kv :: out)) as (rs & Ers & Hlen). rewrite Ers. cbn [bind].
    destruct rs as [|r rs]; [cbn in Hlen; discriminate|].
    assert (Hshort : List.length rest' < List.length rest).
    { fold (scan_batch fbatch B rest) in Es.
      destruct (scan_batch_ok _ _ _ _ HB Es) as (consumed & E1 & E2 & _).
      destruct consumed as [|c0 consumed]; [discriminate E2|].
      rewrite E1. cbn [List.length app]. rewrite app_length. lia. }
    destruct (IH B rest' HB ltac:(lia)) as (outs & Eo). rewrite Eo. cbn [bind]. eauto.
Qed.

Theorem drain_batch_total B rest :
  1 <= B -> exists outs, drain_batch fbatch pbatch B rest = Ok outs.
Proof. intros HB. apply drain_batch_fuel_total; [exact HB | lia]. Qed.

End Total.

End Abstract.
