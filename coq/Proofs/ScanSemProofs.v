(* Proofs/ScanSemProofs.v -- the functional meaning of the scan / limit twins of Model/ScanIO.v
   on a strictly sorted store, without storage fault, with the `done` flag (remember_end = true):

     - a specification calculus for programs over the storage instructions run on a given
       data ([rspec] for read programs, [wspec] for programs that may delete), sound for [run];
       an outcome is either a result satisfying the postcondition or the out-of-fuel error, and
       the latter is excluded separately by Proofs/ScanIOFuel.v;
     - list facts on strictly sorted stores: seek + take-while = filter for prefixes and
       ranges, point reads over sorted distinct keys = filter by membership;
     - [rem]: the rows a plan state still has to deliver; every Next / Batch call delivers a
       prefix of it (row: the head; batch: a non-empty prefix unless nothing is left);
     - scan_rows_*: draining a scan plan (row mode, batch mode, any B >= 1) returns exactly the
       pairs of the region that pass the filter, in store order; under LIMIT the slice;
     - reads_within_region_*: the keys the cursor returned during those drains lie in the
       region, except at most the last one; point reads issue only Get calls on listed keys;
       an empty plan issues no call. *)
From Coq Require Import List String Bool Arith Lia.
Import ListNotations.
From KV Require Import Base.Bytes Base.Ord Model.Storage Model.ScanIO Model.FilterOpt Model.ScanSem
                       Proofs.StorageProofs Proofs.ScanIOProofs Proofs.ScanIOFuel.

Set Implicit Arguments.
Local Open Scope list_scope.
Local Open Scope nat_scope.

(* ------------------------------------------------------------------ the calculus *)

(* a read program on data [d]: result and the log entries it appends *)
Fixpoint rspec (A : Type) (p : rprog A) (d : store) (Q : A -> list scall -> Prop) : Prop :=
  match p with
  | Ret a => Q a []
  | Fail e => e = EFuel
  | Op q k => rspec (k (ranswer q d)) d (fun a l => Q a (rentry q :: l))
  end.

Lemma rspec_mono : forall (A : Type) (p : rprog A) d (Q Q' : A -> list scall -> Prop),
  (forall a l, Q a l -> Q' a l) -> rspec p d Q -> rspec p d Q'.
Proof.
  induction p as [a|e|R q k IH]; intros d Q Q' HQ H; cbn [rspec] in *; auto.
  eapply IH; [|exact H]. cbn beta. intros a l. apply HQ.
Qed.

Lemma rspec_bind : forall (A C : Type) (p : rprog A) (f : A -> rprog C) d (Q : C -> list scall -> Prop),
  rspec p d (fun a l => rspec (f a) d (fun b l' => Q b (l ++ l'))) -> rspec (bind p f) d Q.
Proof.
  induction p as [a|e|R q k IH]; intros f d Q H; cbn [bind rspec] in *; auto.
Qed.

Lemma rspec_conj : forall (A : Type) (p : rprog A) d (Q1 Q2 : A -> list scall -> Prop),
  rspec p d Q1 -> rspec p d Q2 -> rspec p d (fun a l => Q1 a l /\ Q2 a l).
Proof.
  induction p as [a|e|R q k IH]; intros d Q1 Q2 H1 H2; cbn [rspec] in *; auto.
Qed.

(* a program that may delete: the data changes along the way *)
Fixpoint wspec (A : Type) (p : wprog A) (d : store) (Q : A -> store -> list scall -> Prop) : Prop :=
  match p with
  | Ret a => Q a d []
  | Fail e => e = EFuel
  | Op q k => wspec (k (answer q d)) (effect q d) (fun a d' l => Q a d' (entry q :: l))
  end.

Lemma wspec_mono : forall (A : Type) (p : wprog A) d (Q Q' : A -> store -> list scall -> Prop),
  (forall a d' l, Q a d' l -> Q' a d' l) -> wspec p d Q -> wspec p d Q'.
Proof.
  induction p as [a|e|R q k IH]; intros d Q Q' HQ H; cbn [wspec] in *; auto.
  eapply IH; [|exact H]. cbn beta. intros a d' l. apply HQ.
Qed.

Lemma wspec_bind : forall (A C : Type) (p : wprog A) (f : A -> wprog C) d (Q : C -> store -> list scall -> Prop),
  wspec p d (fun a d1 l => wspec (f a) d1 (fun b d2 l' => Q b d2 (l ++ l'))) -> wspec (bind p f) d Q.
Proof.
  induction p as [a|e|R q k IH]; intros f d Q H; cbn [bind wspec] in *; auto.
Qed.

Lemma wspec_rd : forall (A : Type) (p : rprog A) d (Q : A -> store -> list scall -> Prop),
  rspec p d (fun a l => Q a d l) -> wspec (rd p) d Q.
Proof.
  induction p as [a|e|R q k IH]; intros d Q H; unfold rd in *; cbn [lift rspec wspec] in *; auto.
Qed.

(* soundness for [run] from a fault-free state *)
Lemma wspec_sound : forall (A : Type) (p : wprog A) d (Q : A -> store -> list scall -> Prop) l0,
  wspec p d Q ->
  match run exec_req p (SState d l0 None) with
  | (Ok a, s') => exists ext, Q a (sdata s') ext /\ slog s' = l0 ++ ext /\ sfault s' = None
  | (Err e, _) => e = EFuel
  end.
Proof.
  induction p as [a|e|R q k IH]; intros d Q l0 H; cbn [run wspec] in *.
  - exists []. rewrite app_nil_r. auto.
  - exact H.
  - rewrite exec_req_spec. replace (faulted (SState d l0 None)) with false by reflexivity.
    cbn [sdata slog sfault].
    specialize (IH (answer q d) (effect q d) _ (l0 ++ [entry q]) H).
    destruct (run exec_req (k (answer q d)) (SState (effect q d) (l0 ++ [entry q]) None)) as [[a|e] s'].
    + destruct IH as [ext [HQ [Hl Hf]]]. exists (entry q :: ext). split; [exact HQ|]. split; [|exact Hf].
      rewrite Hl, <- app_assoc. reflexivity.
    + exact IH.
Qed.

(* with the fuel argument of Proofs/ScanIOFuel.v the outcome is a result *)
Lemma wspec_total : forall (N : nat) (A : Type) (p : wprog A) d (Q : A -> store -> list scall -> Prop) l0,
  wspec p d Q -> wpw N p (fun _ => True) -> List.length d <= N ->
  exists a s', run exec_req p (SState d l0 None) = (Ok a, s') /\
               exists ext, Q a (sdata s') ext /\ slog s' = l0 ++ ext /\ sfault s' = None.
Proof.
  intros N A p d Q l0 H W Hd.
  pose proof (wspec_sound p d Q l0 H) as S.
  pose proof (@wpw_sound N A p (fun _ => True) (SState d l0 None) Hd W) as F.
  destruct (run exec_req p (SState d l0 None)) as [[a|e] s']; cbn [fst] in F.
  - exists a, s'. split; [reflexivity|exact S].
  - subst e. exfalso. apply F. reflexivity.
Qed.

Lemma rspec_total : forall (N : nat) (A : Type) (p : rprog A) d (Q : A -> list scall -> Prop) l0,
  rspec p d Q -> wp N p (fun _ => True) -> List.length d <= N ->
  exists a ext, run_read p (SState d l0 None) = (Ok a, SState d (l0 ++ ext) None) /\ Q a ext.
Proof.
  intros N A p d Q l0 H W Hd. unfold run_read.
  destruct (@wspec_total N A (rd p) d (fun a d' l => Q a l /\ d' = d) l0) as [a [s' [E [ext [[HQ Hd'] [Hl Hf]]]]]].
  - apply wspec_rd. eapply rspec_mono; [|exact H]. cbn beta. auto.
  - apply wpw_rd. exact W.
  - exact Hd.
  - exists a, ext. split; [|exact HQ]. rewrite E. f_equal.
    destruct s' as [d' l' f']. cbn [sdata slog sfault] in *. subst. reflexivity.
Qed.

(* ------------------------------------------------------------------ lists *)

Section Lists.
Variable A : Type.

Fixpoint take_while (f : A -> bool) (l : list A) : list A :=
  match l with
  | [] => []
  | x :: l' => if f x then x :: take_while f l' else []
  end.

Fixpoint drop_while (f : A -> bool) (l : list A) : list A :=
  match l with
  | [] => []
  | x :: l' => if f x then drop_while f l' else l
  end.

Lemma filter_all_true : forall (f : A -> bool) l, (forall x, In x l -> f x = true) -> filter f l = l.
Proof.
  intros f l. induction l as [|x l IH]; intros H; cbn [filter]; [reflexivity|].
  rewrite (H x (or_introl eq_refl)). f_equal. apply IH. intros y Hy. apply H. right. exact Hy.
Qed.

Lemma filter_all_false : forall (f : A -> bool) l, (forall x, In x l -> f x = false) -> filter f l = [].
Proof.
  intros f l. induction l as [|x l IH]; intros H; cbn [filter]; [reflexivity|].
  rewrite (H x (or_introl eq_refl)). apply IH. intros y Hy. apply H. right. exact Hy.
Qed.

Lemma take_while_all : forall (f : A -> bool) l, (forall x, In x l -> f x = true) -> take_while f l = l.
Proof.
  intros f l. induction l as [|x l IH]; intros H; cbn [take_while]; [reflexivity|].
  rewrite (H x (or_introl eq_refl)). f_equal. apply IH. intros y Hy. apply H. right. exact Hy.
Qed.

Lemma filter_filter : forall (f g : A -> bool) l,
  filter f (filter g l) = filter (fun x => g x && f x) l.
Proof.
  intros f g l. induction l as [|x l IH]; cbn [filter]; [reflexivity|].
  destruct (g x); cbn [filter andb]; [destruct (f x)|]; rewrite IH; reflexivity.
Qed.

Lemma filter_comm : forall (f g : A -> bool) l, filter f (filter g l) = filter g (filter f l).
Proof.
  intros f g l. rewrite !filter_filter. apply filter_ext. intros x. apply andb_comm.
Qed.

Lemma firstn_app_le : forall n (l1 l2 : list A), n <= List.length l1 -> firstn n (l1 ++ l2) = firstn n l1.
Proof.
  intros n l1 l2 H. rewrite firstn_app. replace (n - List.length l1) with 0 by lia.
  cbn [firstn]. apply app_nil_r.
Qed.

Lemma skipn_app_le : forall n (l1 l2 : list A), n <= List.length l1 -> skipn n (l1 ++ l2) = skipn n l1 ++ l2.
Proof.
  intros n l1 l2 H. rewrite skipn_app. replace (n - List.length l1) with 0 by lia. reflexivity.
Qed.

Lemma skipn_app_ge : forall n (l1 l2 : list A), List.length l1 <= n -> skipn n (l1 ++ l2) = skipn (n - List.length l1) l2.
Proof.
  intros n l1 l2 H. rewrite skipn_app. rewrite (skipn_all2 l1) by lia. reflexivity.
Qed.

End Lists.

(* ------------------------------------------------------------------ strictly sorted stores *)

Lemma lt_of_compare : forall a b, bcompare a b = Lt -> bltb a b = true.
Proof. intros a b H. unfold bltb. rewrite H. reflexivity. Qed.

Lemma head_above_all : forall k d, head_above k d -> ssorted d ->
  forall kv, In kv d -> bltb k (fst kv) = true.
Proof.
  intros k d. revert k. induction d as [|[k' v'] d IH]; intros k H S kv Hin; [destruct Hin|].
  cbn [head_above ssorted] in *. destruct S as [H' S]. destruct Hin as [<-|Hin].
  - cbn [fst]. apply lt_of_compare. exact H.
  - apply IH; [|exact S|exact Hin]. eapply head_above_trans; eassumption.
Qed.

Lemma ssorted_cons_inv : forall k v d, ssorted ((k, v) :: d) ->
  ssorted d /\ forall kv, In kv d -> bltb k (fst kv) = true.
Proof.
  intros k v d [H S]. split; [exact S|]. apply head_above_all; assumption.
Qed.

Lemma ssorted_app_r : forall a b, ssorted (a ++ b) -> ssorted b.
Proof.
  induction a as [|[k v] a IH]; intros b S; [exact S|]. apply IH. exact (proj2 S).
Qed.

Lemma head_above_intro : forall k d, (forall kv, In kv d -> bltb k (fst kv) = true) -> head_above k d.
Proof.
  intros k [|[k' v'] d] H; cbn [head_above]; [exact I|].
  specialize (H (k', v') (or_introl eq_refl)). cbn [fst] in H. unfold bltb in H.
  destruct (bcompare k k'); congruence.
Qed.

Lemma ssorted_filter : forall (f : kvp -> bool) d, ssorted d -> ssorted (filter f d).
Proof.
  intros f d. induction d as [|[k v] d IH]; intros S; [exact I|].
  apply ssorted_cons_inv in S. destruct S as [S Hgt]. cbn [filter].
  destruct (f (k, v)); [|apply IH; exact S].
  cbn [ssorted]. split; [|apply IH; exact S].
  apply head_above_intro. intros kv Hin. apply filter_In in Hin. apply Hgt. exact (proj1 Hin).
Qed.

Lemma sget_filter : forall (f : bytes -> bool) k d,
  sget k (filter (fun kv => f (fst kv)) d) = if f k then sget k d else None.
Proof.
  intros f k d. induction d as [|[k' v'] d IH]; cbn [filter sget fst].
  - destruct (f k); reflexivity.
  - destruct (f k') eqn:E; cbn [sget].
    + destruct (String.eqb_spec k k') as [->|N]; [rewrite E; reflexivity|exact IH].
    + destruct (String.eqb_spec k k') as [->|N]; [rewrite E in *; rewrite IH; reflexivity|exact IH].
Qed.

Lemma sget_in : forall k v d, sget k d = Some v -> In (k, v) d.
Proof.
  intros k v d. induction d as [|[k' v'] d IH]; cbn [sget]; [discriminate|].
  destruct (String.eqb_spec k k') as [->|N]; intros H.
  - injection H as ->. left. reflexivity.
  - right. apply IH. exact H.
Qed.

Lemma in_sget : forall k v d, ssorted d -> In (k, v) d -> sget k d = Some v.
Proof.
  intros k v d. induction d as [|[k' v'] d IH]; intros S Hin; [destruct Hin|].
  apply ssorted_cons_inv in S. destruct S as [S Hgt]. cbn [sget]. destruct Hin as [E|Hin].
  - injection E as -> ->. rewrite String.eqb_refl. reflexivity.
  - destruct (String.eqb_spec k k') as [->|N]; [|apply IH; assumption].
    specialize (Hgt _ Hin). cbn [fst] in Hgt. exfalso. clear - Hgt. ord.
Qed.

(* seek positions the cursor at the first key >= s: on a sorted store that is a filter *)
Lemma seek_from_suffix : forall s d, exists pre, d = pre ++ seek_from s d.
Proof.
  intros s d. induction d as [|[k v] d [pre IH]]; cbn [seek_from]; [exists []; reflexivity|].
  destruct (bltb k s); [exists ((k, v) :: pre); cbn; f_equal; exact IH|exists []; reflexivity].
Qed.

Lemma ssorted_seek : forall s d, ssorted d -> ssorted (seek_from s d).
Proof.
  intros s d S. destruct (seek_from_suffix s d) as [pre E]. rewrite E in S. eapply ssorted_app_r. exact S.
Qed.

Lemma seek_from_filter : forall s d, ssorted d ->
  seek_from s d = filter (fun kv => bleb s (fst kv)) d.
Proof.
  intros s d. induction d as [|[k v] d IH]; intros S; [reflexivity|].
  pose proof (ssorted_cons_inv S) as [S' Hgt]. cbn [seek_from filter fst].
  destruct (bltb k s) eqn:E.
  - assert (bleb s k = false) as -> by (clear - E; ord). apply IH. exact S'.
  - assert (bleb s k = true) as -> by (clear - E; ord).
    f_equal. symmetry. apply filter_all_true. intros [k' v'] Hin. specialize (Hgt _ Hin).
    cbn [fst] in *. clear - E Hgt. ord.
Qed.

Lemma seek_from_empty : forall d, seek_from EmptyString d = d.
Proof. intros [|[k v] d]; [reflexivity|]. cbn [seek_from]. destruct k; reflexivity. Qed.

Lemma take_while_le_filter : forall e d, ssorted d ->
  take_while (fun kv : kvp => bleb (fst kv) e) d = filter (fun kv => bleb (fst kv) e) d.
Proof.
  intros e d. induction d as [|[k v] d IH]; intros S; [reflexivity|].
  pose proof (ssorted_cons_inv S) as [S' Hgt]. cbn [take_while filter fst].
  destruct (bleb k e) eqn:E; [f_equal; apply IH; exact S'|].
  symmetry. apply filter_all_false. intros [k' v'] Hin. specialize (Hgt _ Hin). cbn [fst] in *. clear - E Hgt. ord.
Qed.

(* keys carrying a prefix form one run of a sorted store, starting where seek lands *)
Lemma take_while_prefix_filter : forall p d, ssorted d ->
  (forall kv, In kv d -> bleb p (fst kv) = true) ->
  take_while (fun kv : kvp => has_prefix p (fst kv)) d = filter (fun kv => has_prefix p (fst kv)) d.
Proof.
  intros p d. induction d as [|[k v] d IH]; intros S Hge; [reflexivity|].
  pose proof (ssorted_cons_inv S) as [S' Hgt]. cbn [take_while filter fst].
  destruct (has_prefix p k) eqn:E.
  - f_equal. apply IH; [exact S'|]. intros kv Hin. apply Hge. right. exact Hin.
  - symmetry. apply filter_all_false. intros [k' v'] Hin. cbn [fst].
    destruct (has_prefix p k') eqn:E2; [|reflexivity]. exfalso.
    pose proof (Hge (k, v) (or_introl eq_refl)) as Hk. cbn [fst] in Hk.
    pose proof (has_prefix_interval _ _ _ E2 E Hk) as Hi.
    specialize (Hgt _ Hin). cbn [fst] in *. clear - Hi Hgt. ord.
Qed.

Lemma seek_prefix_filter : forall p d, ssorted d ->
  take_while (fun kv : kvp => has_prefix p (fst kv)) (seek_from p d)
  = filter (fun kv => has_prefix p (fst kv)) d.
Proof.
  intros p d S. rewrite take_while_prefix_filter.
  - rewrite (seek_from_filter p d S), filter_filter. apply filter_ext_in. intros kv _.
    destruct (has_prefix p (fst kv)) eqn:E; [|apply andb_false_r].
    rewrite (has_prefix_le _ _ E). reflexivity.
  - apply ssorted_seek. exact S.
  - intros kv Hin. rewrite (seek_from_filter p d S) in Hin. apply filter_In in Hin. exact (proj2 Hin).
Qed.

Lemma take_while_ext : forall (A : Type) (f g : A -> bool) l,
  (forall x, f x = g x) -> take_while f l = take_while g l.
Proof.
  intros A f g l H. induction l as [|x l IH]; cbn [take_while]; [reflexivity|].
  rewrite H, IH. reflexivity.
Qed.

Lemma take_drop_while : forall (A : Type) (f : A -> bool) l, l = take_while f l ++ drop_while f l.
Proof.
  intros A f l. induction l as [|x l IH]; cbn [take_while drop_while]; [reflexivity|].
  destruct (f x); cbn [app]; [f_equal; exact IH|reflexivity].
Qed.

Lemma take_while_forall : forall (A : Type) (f : A -> bool) l x, In x (take_while f l) -> f x = true.
Proof.
  intros A f l. induction l as [|y l IH]; intros x H; cbn [take_while] in H; [destruct H|].
  destruct (f y) eqn:E; [|destruct H]. destruct H as [<-|H]; [exact E|apply IH; exact H].
Qed.

Lemma ssorted_app_l : forall a b, ssorted (a ++ b) -> ssorted a.
Proof.
  induction a as [|[k v] a IH]; intros b S; [exact I|].
  cbn [app] in S. apply ssorted_cons_inv in S. destruct S as [S Hgt].
  cbn [ssorted]. split; [|eapply IH; exact S].
  apply head_above_intro. intros kv Hin. apply Hgt. apply in_or_app. left. exact Hin.
Qed.

Lemma ssorted_take_while : forall (f : kvp -> bool) d, ssorted d -> ssorted (take_while f d).
Proof.
  intros f d S. rewrite (take_drop_while f d) in S. eapply ssorted_app_l. exact S.
Qed.

Lemma ssorted_nodup : forall d, ssorted d -> NoDup (map fst d).
Proof.
  induction d as [|[k v] d IH]; intros S; [constructor|].
  apply ssorted_cons_inv in S. destruct S as [S Hgt]. cbn [map fst]. constructor; [|apply IH; exact S].
  intros Hin. apply in_map_iff in Hin. destruct Hin as [[k' v'] [E Hin]]. cbn [fst] in E. subst k'.
  specialize (Hgt _ Hin). cbn [fst] in Hgt. clear - Hgt. ord.
Qed.

(* ------------------------------------------------------------------ point reads *)

Definition mget_rows (ks : list bytes) (d : store) : list kvp :=
  flat_map (fun k => match sget k d with Some v => [(k, v)] | None => [] end) ks.

(* strictly increasing keys, as NewMultiGetPlan leaves them *)
Fixpoint ksorted (ks : list bytes) : Prop :=
  match ks with
  | [] => True
  | k :: ks' => (forall k', In k' ks' -> bltb k k' = true) /\ ksorted ks'
  end.

Lemma mget_rows_app : forall a b d, mget_rows (a ++ b) d = mget_rows a d ++ mget_rows b d.
Proof. intros. unfold mget_rows. apply flat_map_app. Qed.

Lemma mget_rows_cons : forall k ks d,
  mget_rows (k :: ks) d = match sget k d with Some v => [(k, v)] | None => [] end ++ mget_rows ks d.
Proof. reflexivity. Qed.

Lemma in_mget_rows : forall ks d kv, In kv (mget_rows ks d) -> In (fst kv) ks /\ sget (fst kv) d = Some (snd kv).
Proof.
  intros ks d kv H. unfold mget_rows in H. apply in_flat_map in H. destruct H as [k [Hk H]].
  destruct (sget k d) as [v|] eqn:E; [|destruct H]. destruct H as [<-|[]]. cbn [fst snd]. auto.
Qed.

Lemma ksorted_skipn : forall n ks, ksorted ks -> ksorted (skipn n ks).
Proof.
  induction n as [|n IH]; intros ks K; [exact K|]. destruct ks as [|k ks]; [exact I|].
  cbn [skipn]. apply IH. exact (proj2 K).
Qed.

Lemma ssorted_mget_rows : forall ks d, ksorted ks -> ssorted (mget_rows ks d).
Proof.
  induction ks as [|k ks IH]; intros d K; [exact I|]. destruct K as [Hk K].
  rewrite mget_rows_cons. destruct (sget k d) as [v|]; cbn [app]; [|apply IH; exact K].
  cbn [ssorted]. split; [|apply IH; exact K].
  apply head_above_intro. intros kv Hin. apply in_mget_rows in Hin. apply Hk. exact (proj1 Hin).
Qed.

Lemma sget_mget_rows : forall ks d k, sget k (mget_rows ks d) = if mem k ks then sget k d else None.
Proof.
  induction ks as [|k0 ks IH]; intros d k; [reflexivity|].
  rewrite mget_rows_cons. unfold mem in *. cbn [existsb].
  destruct (sget k0 d) as [v0|] eqn:E0; cbn [app sget].
  - destruct (String.eqb_spec k k0) as [->|N]; cbn [orb]; [symmetry; exact E0|apply IH].
  - rewrite IH. destruct (String.eqb_spec k k0) as [->|N]; cbn [orb]; [|reflexivity].
    rewrite E0. destruct (existsb (String.eqb k0) ks); reflexivity.
Qed.

(* reading sorted distinct keys one by one = filtering the sorted store by membership *)
Lemma mget_rows_filter : forall ks d, ssorted d -> ksorted ks ->
  mget_rows ks d = filter (fun kv => mem (fst kv) ks) d.
Proof.
  intros ks d S K. apply ssorted_ext.
  - apply ssorted_mget_rows. exact K.
  - apply ssorted_filter. exact S.
  - intros k. rewrite sget_mget_rows, (sget_filter (fun k => mem k ks)). reflexivity.
Qed.

Lemma mem_in : forall k ks, mem k ks = true <-> In k ks.
Proof.
  intros k ks. unfold mem. rewrite existsb_exists. split.
  - intros [x [Hin E]]. apply String.eqb_eq in E. subst. exact Hin.
  - intros H. exists k. split; [exact H|apply String.eqb_refl].
Qed.

Lemma sdel_filter : forall k d, sdel k d = filter (fun kv => negb (String.eqb k (fst kv))) d.
Proof.
  intros k d. induction d as [|[k' v'] d IH]; cbn [sdel filter fst]; [reflexivity|].
  destruct (String.eqb k k'); cbn [negb]; rewrite IH; reflexivity.
Qed.

Lemma sdel_all_filter : forall ks d, sdel_all ks d = filter (fun kv => negb (mem (fst kv) ks)) d.
Proof.
  unfold sdel_all. induction ks as [|k ks IH]; intros d; cbn [fold_left].
  - symmetry. apply filter_all_true. reflexivity.
  - rewrite IH, sdel_filter, filter_filter. apply filter_ext. intros [k' v']. cbn [fst].
    unfold mem. cbn [existsb]. rewrite (String.eqb_sym k' k).
    destruct (String.eqb k k'); reflexivity.
Qed.

Lemma sdel_all_app : forall a b d, sdel_all (a ++ b) d = sdel_all b (sdel_all a d).
Proof. intros. unfold sdel_all. apply fold_left_app. Qed.

Lemma mget_rows_sdel_all : forall ks del d,
  mget_rows ks (sdel_all del d) = filter (fun kv => negb (mem (fst kv) del)) (mget_rows ks d).
Proof.
  induction ks as [|k ks IH]; intros del d; [reflexivity|].
  rewrite !mget_rows_cons, filter_app, IH, sget_sdel_all. f_equal.
  fold (mem k del). destruct (mem k del) eqn:E.
  - destruct (sget k d) as [v|]; cbn [filter fst]; [rewrite E|]; reflexivity.
  - destruct (sget k d) as [v|]; cbn [filter fst]; [rewrite E|]; reflexivity.
Qed.

Lemma firstn_add : forall (A : Type) m1 m2 (l : list A),
  firstn (m1 + m2) l = firstn m1 l ++ firstn m2 (skipn m1 l).
Proof.
  intros A m1. induction m1 as [|m1 IH]; intros m2 l; [reflexivity|].
  destruct l as [|x l]; cbn [Nat.add firstn skipn app]; [rewrite firstn_nil; reflexivity|].
  f_equal. apply IH.
Qed.

Lemma skipn_add : forall (A : Type) i n (l : list A), skipn n (skipn i l) = skipn (i + n) l.
Proof.
  intros A i. induction i as [|i IH]; intros n l; [reflexivity|].
  destruct l as [|x l]; cbn [Nat.add skipn]; [apply skipn_nil|apply IH].
Qed.

Lemma skipn_nil_length : forall (A : Type) m (l : list A), skipn m l = [] -> List.length l <= m.
Proof.
  intros A m l H. pose proof (skipn_length m l) as L. rewrite H in L. cbn in L. lia.
Qed.

Lemma in_skipn : forall (A : Type) n (l : list A) x, In x (skipn n l) -> In x l.
Proof.
  intros A n l x H. rewrite <- (firstn_skipn n l). apply in_or_app. right. exact H.
Qed.

Lemma in_firstn : forall (A : Type) n (l : list A) x, In x (firstn n l) -> In x l.
Proof.
  intros A n l x H. rewrite <- (firstn_skipn n l). apply in_or_app. left. exact H.
Qed.

(* ------------------------------------------------------------------ the log *)

(* the keys the cursor returned *)
Definition next_keys (l : list scall) : list bytes :=
  flat_map (fun c => match c with CNext (Some k) => [k] | _ => [] end) l.

Definition is_next (c : scall) : bool := match c with CNext _ => true | _ => false end.
Definition is_get_of (keys : list bytes) (c : scall) : Prop := exists k, c = CGet k /\ In k keys.

Lemma next_keys_app : forall a b, next_keys (a ++ b) = next_keys a ++ next_keys b.
Proof. intros. unfold next_keys. apply flat_map_app. Qed.

Lemma next_keys_gets : forall keys l, Forall (is_get_of keys) l -> next_keys l = [].
Proof.
  intros keys l H. induction H as [|c l [k [-> _]] _ IH]; [reflexivity|]. cbn. exact IH.
Qed.

(* ------------------------------------------------------------------ scans *)

Section Sem.
Variable flt : kvp -> bool.
Variable B : nat.
Variable fuel : nat.
Hypothesis HB : 1 <= B.

(* the pair does not end the scan *)
Definition inreg (sc : scan) (kv : kvp) : bool := negb (scan_stop sc kv).
(* what a cursor positioned at [rest] still delivers *)
Definition live (sc : scan) (rest : store) : list kvp := filter flt (take_while (inreg sc) rest).
(* the pairs the cursor will still be asked for: the run inside the region and the pair that ends it *)
Definition to_read (sc : scan) (rest : store) : store :=
  take_while (inreg sc) rest ++ firstn 1 (drop_while (inreg sc) rest).

Lemma live_cons : forall sc kv rest,
  live sc (kv :: rest) = if inreg sc kv then (if flt kv then kv :: live sc rest else live sc rest) else [].
Proof.
  intros. unfold live. cbn [take_while]. destruct (inreg sc kv); cbn [filter]; [|reflexivity].
  destruct (flt kv); reflexivity.
Qed.

Lemma to_read_cons : forall sc kv rest,
  to_read sc (kv :: rest) = if inreg sc kv then kv :: to_read sc rest else [kv].
Proof.
  intros. unfold to_read. cbn [take_while drop_while]. destruct (inreg sc kv); reflexivity.
Qed.

Lemma cursor_next_loop_sem : forall sc snap rest d,
  rspec (cursor_next_loop flt sc snap rest) d (fun x l =>
    csnap (snd x) = snap /\ (exists pre, rest = pre ++ crest (snd x)) /\
    forallb is_next l = true /\
    match fst x with
    | Some kv => live sc rest = kv :: live sc (crest (snd x)) /\
                 map fst (to_read sc rest) = next_keys l ++ map fst (to_read sc (crest (snd x)))
    | None => live sc rest = [] /\ map fst (to_read sc rest) = next_keys l /\
              ((forall kv, scan_stop sc kv = false) -> crest (snd x) = [])
    end).
Proof.
  intros sc snap rest d. induction rest as [|kv rest IH].
  - cbn. repeat split; try reflexivity. exists []. reflexivity.
  - cbn [cursor_next_loop op_next bind rspec ranswer rentry crest csnap snd fst].
    rewrite live_cons, to_read_cons.
    destruct (scan_stop sc kv) eqn:Es.
    + assert (Ei : inreg sc kv = false) by (unfold inreg; rewrite Es; reflexivity). rewrite !Ei.
      cbn [rspec fst snd crest csnap]. split; [reflexivity|]. split; [exists [kv]; reflexivity|].
      split; [reflexivity|]. split; [reflexivity|]. split; [reflexivity|].
      intros H. rewrite H in Es. discriminate.
    + assert (Ei : inreg sc kv = true) by (unfold inreg; rewrite Es; reflexivity). rewrite !Ei.
      destruct (flt kv) eqn:Ef.
      * cbn [rspec fst snd crest csnap]. split; [reflexivity|]. split; [exists [kv]; reflexivity|].
        split; [reflexivity|]. split; reflexivity.
      * eapply rspec_mono; [|exact IH]. cbn beta. intros [r c'] l [H1 [[pre H2] [H3 H4]]].
        cbn [fst snd] in *. split; [exact H1|]. split; [exists (kv :: pre); rewrite H2; reflexivity|].
        split; [exact H3|]. destruct r as [kv'|].
        -- destruct H4 as [H4 H5]. split; [exact H4|]. cbn [map next_keys flat_map app]. f_equal. exact H5.
        -- destruct H4 as [H4 [H5 H6]]. split; [exact H4|]. split; [|exact H6].
           cbn [map next_keys flat_map app]. f_equal. exact H5.
Qed.

Lemma cursor_read_chunk_sem : forall sc n snap rest acc d,
  rspec (cursor_read_chunk sc n snap rest acc) d (fun x l =>
    match x with (chunk, c', fin) =>
      csnap c' = snap /\ (exists pre, rest = pre ++ crest c') /\ forallb is_next l = true /\
      exists got, chunk = acc ++ got /\
        take_while (inreg sc) rest = got ++ (if fin then [] else take_while (inreg sc) (crest c')) /\
        map fst (to_read sc rest) = next_keys l ++ (if fin then [] else map fst (to_read sc (crest c'))) /\
        (fin = false -> List.length got = n) /\
        (fin = true -> (forall kv, scan_stop sc kv = false) -> crest c' = [])
    end).
Proof.
  intros sc n. induction n as [|n IH]; intros snap rest acc d; cbn [cursor_read_chunk].
  - cbn [rspec]. split; [reflexivity|]. split; [exists []; reflexivity|]. split; [reflexivity|].
    exists []. rewrite app_nil_r. split; [reflexivity|]. split; [reflexivity|]. split; [reflexivity|].
    split; [reflexivity|discriminate].
  - destruct rest as [|kv rest].
    + cbn [op_next bind rspec ranswer rentry crest csnap snd fst].
      split; [reflexivity|]. split; [exists []; reflexivity|]. split; [reflexivity|].
      exists []. rewrite app_nil_r. split; [reflexivity|]. split; [reflexivity|]. split; [reflexivity|].
      split; [discriminate|reflexivity].
    + cbn [op_next bind rspec ranswer rentry crest csnap snd fst].
      rewrite to_read_cons. cbn [take_while].
      destruct (scan_stop sc kv) eqn:Es.
      * assert (Ei : inreg sc kv = false) by (unfold inreg; rewrite Es; reflexivity). rewrite !Ei.
        cbn [rspec crest csnap]. split; [reflexivity|]. split; [exists [kv]; reflexivity|].
        split; [reflexivity|].
        exists []. rewrite app_nil_r. split; [reflexivity|]. split; [reflexivity|]. split; [reflexivity|].
        split; [discriminate|]. intros _ H. rewrite H in Es. discriminate.
      * assert (Ei : inreg sc kv = true) by (unfold inreg; rewrite Es; reflexivity). rewrite !Ei.
        eapply rspec_mono; [|apply IH]. cbn beta.
        intros [[chunk c'] fin] l [H1 [[pre H2] [H3 [got [G1 [G2 [G3 [G4 G5]]]]]]]].
        split; [exact H1|]. split; [exists (kv :: pre); rewrite H2; reflexivity|]. split; [exact H3|].
        exists (kv :: got). split; [rewrite G1, <- app_assoc; reflexivity|].
        split; [cbn [app]; f_equal; exact G2|].
        split; [cbn [map next_keys flat_map app]; f_equal; exact G3|].
        split; [intros Hf; cbn [List.length]; f_equal; apply G4; exact Hf|exact G5].
Qed.

Lemma filter_if_nil : forall (b : bool) (l : list kvp),
  filter flt (if b then [] else l) = if b then [] else filter flt l.
Proof. intros [|] l; reflexivity. Qed.

Lemma cursor_batch_loop_sem : forall f sc c ret d,
  rspec (cursor_batch_loop flt B f sc c ret) d (fun x l =>
    match x with (rows, c', fin) =>
      csnap c' = csnap c /\ (exists pre, crest c = pre ++ crest c') /\ forallb is_next l = true /\
      exists got, rows = ret ++ got /\
        live sc (crest c) = got ++ (if fin then [] else live sc (crest c')) /\
        map fst (to_read sc (crest c)) = next_keys l ++ (if fin then [] else map fst (to_read sc (crest c'))) /\
        (fin = false -> B <= List.length rows) /\
        (fin = true -> (forall kv, scan_stop sc kv = false) -> crest c' = [])
    end).
Proof.
  induction f as [|f IH]; intros sc c ret d; cbn [cursor_batch_loop]; [reflexivity|].
  apply rspec_bind. eapply rspec_mono; [|apply cursor_read_chunk_sem]. cbn beta.
  intros [[chunk c'] fin] l [H1 [[pre H2] [H3 [got [G1 [G2 [G3 [G4 G5]]]]]]]].
  cbn [app] in G1. subst chunk.
  assert (Hlive : live sc (crest c) = filter flt got ++ (if fin then [] else live sc (crest c'))).
  { unfold live. rewrite G2, filter_app, filter_if_nil. reflexivity. }
  set (ret' := ret ++ filter flt got).
  destruct (match got with [] => fin | _ :: _ => fin || (B <=? List.length ret') end) eqn:Efin.
  - cbn [rspec]. rewrite app_nil_r. split; [exact H1|]. split; [exists pre; exact H2|]. split; [exact H3|].
    exists (filter flt got). split; [reflexivity|]. split; [exact Hlive|]. split; [exact G3|].
    split; [|exact G5]. intros Hf. subst fin. destruct got as [|g got]; [discriminate|].
    cbn [orb] in Efin. apply Nat.leb_le in Efin. exact Efin.
  - assert (Hfin : fin = false).
    { destruct got; [exact Efin|]. apply orb_false_iff in Efin. exact (proj1 Efin). }
    subst fin. eapply rspec_mono; [|apply IH]. cbn beta.
    intros [[rows c''] fin2] l2 [K1 [[pre2 K2] [K3 [got2 [L1 [L2 [L3 [L4 L5]]]]]]]].
    split; [rewrite K1; exact H1|]. split; [exists (pre ++ pre2); rewrite H2, K2, app_assoc; reflexivity|].
    split; [rewrite forallb_app, H3, K3; reflexivity|].
    exists (filter flt got ++ got2). split; [rewrite L1; unfold ret'; rewrite app_assoc; reflexivity|].
    split; [rewrite Hlive, L2, app_assoc; reflexivity|].
    split; [rewrite G3, L3, next_keys_app, app_assoc; reflexivity|].
    split; [exact L4|exact L5].
Qed.

(* ------------------------------------------------------------------ point reads *)

Lemma mget_next_loop_sem : forall keys idx d,
  rspec (mget_next_loop flt keys idx) d (fun x l =>
    Forall (is_get_of keys) l /\
    exists n, snd x = idx + n /\ n <= List.length keys /\
    match fst x with
    | Some kv => filter flt (mget_rows keys d) = kv :: filter flt (mget_rows (skipn n keys) d)
    | None => filter flt (mget_rows keys d) = [] /\ n = List.length keys
    end).
Proof.
  induction keys as [|k keys IH]; intros idx d; cbn [mget_next_loop].
  - cbn. split; [constructor|]. exists 0. repeat split; try reflexivity; lia.
  - cbn [op_get bind rspec ranswer rentry]. rewrite mget_rows_cons.
    assert (Hk : is_get_of (k :: keys) (CGet k)) by (exists k; split; [reflexivity|left; reflexivity]).
    assert (Hw : forall l, Forall (is_get_of keys) l -> Forall (is_get_of (k :: keys)) l).
    { intros l. apply Forall_impl. intros c [k' [-> Hin]]. exists k'. split; [reflexivity|right; exact Hin]. }
    destruct (sget k d) as [v|]; cbn [app].
    + cbn [filter]. destruct (flt (k, v)) eqn:Ef.
      * cbn [rspec fst snd]. split; [constructor; [exact Hk|constructor]|].
        exists 1. cbn [skipn List.length]. repeat split; try lia.
      * eapply rspec_mono; [|apply IH]. cbn beta. intros [r idx'] l [F [n [E1 [E2 E3]]]].
        cbn [fst snd] in *. split; [constructor; [exact Hk|apply Hw; exact F]|].
        exists (S n). cbn [skipn List.length]. repeat split; try lia.
        destruct r; [exact E3|]. destruct E3 as [E3 E4]. split; [exact E3|lia].
    + eapply rspec_mono; [|apply IH]. cbn beta. intros [r idx'] l [F [n [E1 [E2 E3]]]].
      cbn [fst snd] in *. split; [constructor; [exact Hk|apply Hw; exact F]|].
      exists (S n). cbn [skipn List.length]. repeat split; try lia.
      destruct r; [exact E3|]. destruct E3 as [E3 E4]. split; [exact E3|lia].
Qed.

Lemma mget_read_chunk_sem : forall n keys idx acc d,
  rspec (mget_read_chunk n keys idx acc) d (fun x l =>
    match x with (chunk, keys', idx', fin) =>
      Forall (is_get_of keys) l /\
      exists m, m <= List.length keys /\ keys' = skipn m keys /\ idx' = idx + m /\
        chunk = acc ++ mget_rows (firstn m keys) d /\
        (fin = true -> keys' = []) /\ (fin = false -> m = n)
    end).
Proof.
  induction n as [|n IH]; intros keys idx acc d; cbn [mget_read_chunk].
  - cbn. split; [constructor|]. exists 0. rewrite app_nil_r. repeat split; try reflexivity; try lia; try discriminate.
  - destruct keys as [|k keys].
    + cbn. split; [constructor|]. exists 0. rewrite app_nil_r. repeat split; try reflexivity; try lia; try discriminate.
    + cbn [op_get bind rspec ranswer rentry].
      assert (Hk : is_get_of (k :: keys) (CGet k)) by (exists k; split; [reflexivity|left; reflexivity]).
      assert (Hw : forall l, Forall (is_get_of keys) l -> Forall (is_get_of (k :: keys)) l).
      { intros l. apply Forall_impl. intros c [k' [-> Hin]]. exists k'. split; [reflexivity|right; exact Hin]. }
      destruct (sget k d) as [v|] eqn:Ev.
      * eapply rspec_mono; [|apply IH]. cbn beta.
        intros [[[chunk keys'] idx'] fin] l [F [m [M1 [M2 [M3 [M4 [M5 M6]]]]]]].
        split; [constructor; [exact Hk|apply Hw; exact F]|].
        exists (S m). cbn [List.length skipn firstn]. rewrite mget_rows_cons, Ev.
        repeat split; try lia; try assumption.
        -- rewrite M4, <- app_assoc. reflexivity.
        -- intros Hf. f_equal. apply M6. exact Hf.
      * eapply rspec_mono; [|apply IH]. cbn beta.
        intros [[[chunk keys'] idx'] fin] l [F [m [M1 [M2 [M3 [M4 [M5 M6]]]]]]].
        split; [constructor; [exact Hk|apply Hw; exact F]|].
        exists (S m). cbn [List.length skipn firstn]. rewrite mget_rows_cons, Ev.
        repeat split; try lia; try assumption.
        intros Hf. f_equal. apply M6. exact Hf.
Qed.

Lemma mget_batch_loop_sem : forall f keys idx ret d,
  rspec (mget_batch_loop flt B f keys idx ret) d (fun x l =>
    match x with (rows, idx') =>
      Forall (is_get_of keys) l /\
      exists m, m <= List.length keys /\ idx' = idx + m /\
        rows = ret ++ filter flt (mget_rows (firstn m keys) d) /\
        (m = List.length keys \/ B <= List.length rows)
    end).
Proof.
  induction f as [|f IH]; intros keys idx ret d; cbn [mget_batch_loop]; [reflexivity|].
  apply rspec_bind. eapply rspec_mono; [|apply mget_read_chunk_sem]. cbn beta.
  intros [[[chunk keys'] idx'] fin] l [F [m [M1 [M2 [M3 [M4 [M5 M6]]]]]]].
  cbn [app] in M4. subst chunk.
  destruct (fin || (B <=? List.length (ret ++ filter flt (mget_rows (firstn m keys) d)))) eqn:Efin.
  - cbn [rspec]. rewrite app_nil_r. split; [exact F|]. exists m. repeat split; try assumption.
    apply orb_true_iff in Efin. destruct Efin as [->|E].
    + left. specialize (M5 eq_refl). rewrite M2 in M5. apply skipn_nil_length in M5. lia.
    + right. apply Nat.leb_le in E. exact E.
  - eapply rspec_mono; [|apply IH]. cbn beta. intros [rows idx''] l2 [F2 [m2 [N1 [N2 [N3 N4]]]]].
    subst keys'. rewrite skipn_length in N1.
    split.
    { apply Forall_app. split; [exact F|]. eapply Forall_impl; [|exact F2].
      intros c [k [-> Hin]]. exists k. split; [reflexivity|]. eapply in_skipn. exact Hin. }
    exists (m + m2). split; [lia|]. split; [lia|]. split.
    + rewrite N3, firstn_add, mget_rows_app, filter_app, app_assoc. reflexivity.
    + destruct N4 as [N4|N4]; [left; rewrite skipn_length in N4; lia|right; exact N4].
Qed.

(* ------------------------------------------------------------------ scan states *)

Definition is_cursor_scan (sc : scan) : bool :=
  match sc with SEmpty | SMget _ => false | _ => true end.

Definition remembers (sc : scan) : bool := scan_remembers true sc.

(* the rows a scan state still has to deliver *)
Definition rem_scan (sc : scan) (st : pstate) (d : store) : list kvp :=
  match st with
  | PSScan it idx ended =>
      match sc with
      | SEmpty => []
      | SMget keys => filter flt (mget_rows (skipn idx keys) d)
      | _ => if remembers sc && ended then []
             else match it with Some c => live sc (crest c) | None => [] end
      end
  | _ => []
  end.

(* the keys its cursor will still return *)
Definition pend_scan (sc : scan) (st : pstate) : list bytes :=
  match st with
  | PSScan it idx ended =>
      match sc with
      | SEmpty | SMget _ => []
      | _ => if remembers sc && ended then []
             else match it with Some c => map fst (to_read sc (crest c)) | None => [] end
      end
  | _ => []
  end.

Definition wf_scan (sc : scan) (st : pstate) : Prop :=
  match st with
  | PSScan it idx ended =>
      match sc with
      | SEmpty => True
      | SMget keys => ksorted keys
      | _ => exists c, it = Some c /\ ssorted (crest c)
      end
  | _ => False
  end.

(* which calls a scan may issue after Init *)
Definition log_ok (sc : scan) (l : list scall) : Prop :=
  match sc with
  | SEmpty => l = []
  | SMget keys => Forall (is_get_of keys) l
  | _ => forallb is_next l = true
  end.

Lemma log_ok_nil : forall sc, log_ok sc [].
Proof. intros [| |p|lo hi|keys]; cbn; auto. Qed.

Lemma log_ok_app : forall sc a b, log_ok sc a -> log_ok sc b -> log_ok sc (a ++ b).
Proof.
  intros [| |p|lo hi|keys] a b Ha Hb; cbn [log_ok] in *;
    try (rewrite forallb_app, Ha, Hb; reflexivity).
  - subst. reflexivity.
  - apply Forall_app. auto.
Qed.

Lemma log_ok_next_keys_mget : forall keys l, log_ok (SMget keys) l -> next_keys l = [].
Proof. intros keys l H. eapply next_keys_gets. exact H. Qed.

Lemma stop_never : forall sc, remembers sc = false -> forall kv, scan_stop sc kv = false.
Proof. intros [| |p|lo hi|keys] H kv; try reflexivity; discriminate H. Qed.

(* the cursor scans share their Next / Batch code *)
Lemma scan_next_cursor : forall sc it idx ended, is_cursor_scan sc = true ->
  scan_next true flt sc (PSScan it idx ended) =
    if remembers sc && ended then Ret (None, PSScan it idx ended)
    else match it with
         | None => Fail EPanic
         | Some c =>
             bind (cursor_next_loop flt sc (csnap c) (crest c))
               (fun x => match x with (r, c') =>
                  Ret (r, PSScan (Some c') idx (match r with None => true | Some _ => false end)) end)
         end.
Proof. intros [| |p|lo hi|keys] it idx ended H; try discriminate H; reflexivity. Qed.

Lemma scan_batch_cursor : forall sc it idx ended, is_cursor_scan sc = true ->
  scan_batch true flt B fuel sc (PSScan it idx ended) =
    if remembers sc && ended then Ret ([], PSScan it idx ended)
    else match it with
         | None => Fail EPanic
         | Some c =>
             bind (cursor_batch_loop flt B fuel sc c [])
               (fun x => match x with (rows, c', fin) => Ret (rows, PSScan (Some c') idx fin) end)
         end.
Proof. intros [| |p|lo hi|keys] it idx ended H; try discriminate H; reflexivity. Qed.

Lemma rem_scan_cursor : forall sc it idx ended d, is_cursor_scan sc = true ->
  rem_scan sc (PSScan it idx ended) d =
    if remembers sc && ended then [] else match it with Some c => live sc (crest c) | None => [] end.
Proof. intros [| |p|lo hi|keys] it idx ended d H; try discriminate H; reflexivity. Qed.

Lemma pend_scan_cursor : forall sc it idx ended, is_cursor_scan sc = true ->
  pend_scan sc (PSScan it idx ended) =
    if remembers sc && ended then [] else match it with Some c => map fst (to_read sc (crest c)) | None => [] end.
Proof. intros [| |p|lo hi|keys] it idx ended H; try discriminate H; reflexivity. Qed.

Lemma wf_scan_cursor : forall sc it idx ended, is_cursor_scan sc = true ->
  wf_scan sc (PSScan it idx ended) = exists c, it = Some c /\ ssorted (crest c).
Proof. intros [| |p|lo hi|keys] it idx ended H; try discriminate H; reflexivity. Qed.

Lemma log_ok_cursor : forall sc l, is_cursor_scan sc = true -> log_ok sc l = (forallb is_next l = true).
Proof. intros [| |p|lo hi|keys] l H; try discriminate H; reflexivity. Qed.

(* Next: the head of what is left, or nothing is left *)
Lemma scan_next_sem : forall sc st d, wf_scan sc st ->
  rspec (scan_next true flt sc st) d (fun x l =>
    wf_scan sc (snd x) /\ log_ok sc l /\
    pend_scan sc st = next_keys l ++ pend_scan sc (snd x) /\
    match fst x with
    | Some kv => rem_scan sc st d = kv :: rem_scan sc (snd x) d
    | None => rem_scan sc st d = [] /\ rem_scan sc (snd x) d = []
    end).
Proof.
  intros sc st d W. destruct st as [it idx ended|sk cur cst]; [|destruct W].
  destruct (is_cursor_scan sc) eqn:Ec.
  - rewrite scan_next_cursor by exact Ec.
    rewrite (wf_scan_cursor _ _ _ _ Ec) in W. destruct W as [c [-> Sc]].
    destruct (remembers sc && ended) eqn:Er.
    + cbn [rspec fst snd]. rewrite (wf_scan_cursor _ _ _ _ Ec), (log_ok_cursor _ _ Ec),
        (pend_scan_cursor _ _ _ _ Ec), (rem_scan_cursor _ _ _ _ _ Ec), Er.
      repeat split; try reflexivity. exists c. auto.
    + apply rspec_bind. eapply rspec_mono; [|apply cursor_next_loop_sem]. cbn beta.
      intros [r c'] l [H1 [[pre H2] [H3 H4]]]. cbn [fst snd rspec] in *. rewrite app_nil_r.
      rewrite !(wf_scan_cursor _ _ _ _ Ec), (log_ok_cursor _ _ Ec),
        !(pend_scan_cursor _ _ _ _ Ec), !(rem_scan_cursor _ _ _ _ _ Ec), Er.
      split; [exists c'; split; [reflexivity|]; rewrite H2 in Sc; eapply ssorted_app_r; exact Sc|].
      split; [exact H3|]. destruct r as [kv|].
      * rewrite andb_false_r. destruct H4 as [H4 H5]. split; [exact H5|exact H4].
      * rewrite andb_true_r. destruct H4 as [H4 [H5 H6]].
        destruct (remembers sc) eqn:Em.
        -- rewrite app_nil_r. auto.
        -- rewrite (H6 (stop_never _ Em)). rewrite app_nil_r. auto.
  - destruct sc as [| |p|lo hi|keys]; try discriminate Ec.
    + cbn. repeat split; reflexivity.
    + cbn [scan_next wf_scan] in *. apply rspec_bind. eapply rspec_mono; [|apply mget_next_loop_sem]. cbn beta.
      intros [r idx'] l [F [n [E1 [E2 E3]]]]. cbn [fst snd rspec wf_scan log_ok pend_scan rem_scan] in *.
      rewrite app_nil_r. split; [exact W|]. split.
      { eapply Forall_impl; [|exact F]. intros c [k [-> Hin]]. exists k. split; [reflexivity|]. eapply in_skipn. exact Hin. }
      split; [rewrite (next_keys_gets F); reflexivity|].
      subst idx'. rewrite <- skipn_add.
      destruct r as [kv|]; [exact E3|]. destruct E3 as [E3 E4]. split; [exact E3|].
      rewrite E4, skipn_all. reflexivity.
Qed.

(* Batch: a prefix of what is left, empty only when nothing is left *)
Lemma scan_batch_sem : forall sc st d, wf_scan sc st ->
  rspec (scan_batch true flt B fuel sc st) d (fun x l =>
    wf_scan sc (snd x) /\ log_ok sc l /\
    pend_scan sc st = next_keys l ++ pend_scan sc (snd x) /\
    rem_scan sc st d = fst x ++ rem_scan sc (snd x) d /\
    (fst x = [] -> rem_scan sc (snd x) d = [])).
Proof.
  intros sc st d W. destruct st as [it idx ended|sk cur cst]; [|destruct W].
  destruct (is_cursor_scan sc) eqn:Ec.
  - rewrite scan_batch_cursor by exact Ec.
    rewrite (wf_scan_cursor _ _ _ _ Ec) in W. destruct W as [c [-> Sc]].
    destruct (remembers sc && ended) eqn:Er.
    + cbn [rspec fst snd]. rewrite (wf_scan_cursor _ _ _ _ Ec), (log_ok_cursor _ _ Ec),
        (pend_scan_cursor _ _ _ _ Ec), (rem_scan_cursor _ _ _ _ _ Ec), Er.
      repeat split; try reflexivity. exists c. auto.
    + apply rspec_bind. eapply rspec_mono; [|apply cursor_batch_loop_sem]. cbn beta.
      intros [[rows c'] fin] l [H1 [[pre H2] [H3 [got [G1 [G2 [G3 [G4 G5]]]]]]]].
      cbn [app] in G1. subst got. cbn [fst snd rspec]. rewrite app_nil_r.
      rewrite !(wf_scan_cursor _ _ _ _ Ec), (log_ok_cursor _ _ Ec),
        !(pend_scan_cursor _ _ _ _ Ec), !(rem_scan_cursor _ _ _ _ _ Ec), Er.
      split; [exists c'; split; [reflexivity|]; rewrite H2 in Sc; eapply ssorted_app_r; exact Sc|].
      split; [exact H3|].
      assert (Hrem : (if remembers sc && fin then [] else live sc (crest c')) = (if fin then [] else live sc (crest c'))).
      { destruct fin; [|rewrite andb_false_r; reflexivity]. rewrite andb_true_r.
        destruct (remembers sc) eqn:Em; [reflexivity|]. rewrite (G5 eq_refl (stop_never _ Em)). reflexivity. }
      assert (Hpend : (if remembers sc && fin then [] else map fst (to_read sc (crest c'))) = (if fin then [] else map fst (to_read sc (crest c')))).
      { destruct fin; [|rewrite andb_false_r; reflexivity]. rewrite andb_true_r.
        destruct (remembers sc) eqn:Em; [reflexivity|]. rewrite (G5 eq_refl (stop_never _ Em)). reflexivity. }
      rewrite Hrem, Hpend. split; [exact G3|]. split; [exact G2|].
      intros ->. destruct fin; [reflexivity|]. specialize (G4 eq_refl). cbn in G4. lia.
  - destruct sc as [| |p|lo hi|keys]; try discriminate Ec.
    + cbn. repeat split; reflexivity.
    + cbn [scan_batch wf_scan] in *. apply rspec_bind. eapply rspec_mono; [|apply mget_batch_loop_sem]. cbn beta.
      intros [rows idx'] l [F [m [M1 [M2 [M3 M4]]]]]. cbn [app] in M3.
      cbn [fst snd rspec wf_scan log_ok pend_scan rem_scan] in *.
      rewrite app_nil_r. split; [exact W|]. split.
      { eapply Forall_impl; [|exact F]. intros c [k [-> Hin]]. exists k. split; [reflexivity|]. eapply in_skipn. exact Hin. }
      split; [rewrite (next_keys_gets F); reflexivity|].
      subst idx' rows. rewrite <- skipn_add.
      split.
      * rewrite <- filter_app, <- mget_rows_app, firstn_skipn. reflexivity.
      * intros E. destruct M4 as [M4|M4].
        -- rewrite M4, skipn_all. reflexivity.
        -- rewrite E in M4. cbn in M4. lia.
Qed.

(* ------------------------------------------------------------------ the limit code over any child *)

Section LimitSem.
Variables (X St : Type).
Variable child_next : St -> rprog (option X * St).
Variable child_batch : St -> rprog (list X * St).
Variable d : store.
Variable wfc : St -> Prop.                       (* state invariant of the child *)
Variable Rc : St -> list X.                      (* what the child still delivers *)
Variable Ac : St -> list X.                      (* what the scan underneath still delivers *)
Variable step : St -> list scall -> St -> Prop.  (* what a run of child calls does to the log *)
Hypothesis step_refl : forall s, step s [] s.
Hypothesis step_trans : forall a l1 b l2 c, step a l1 b -> step b l2 c -> step a (l1 ++ l2) c.

Definition child_next_ok : Prop := forall cs, wfc cs ->
  rspec (child_next cs) d (fun x l =>
    wfc (snd x) /\ step cs l (snd x) /\
    (exists consumed, Ac cs = consumed ++ Ac (snd x) /\ forall y, fst x = Some y -> In y consumed) /\
    match fst x with
    | Some y => Rc cs = y :: Rc (snd x)
    | None => Rc cs = [] /\ Rc (snd x) = []
    end).

Definition child_batch_ok : Prop := forall cs, wfc cs ->
  rspec (child_batch cs) d (fun x l =>
    wfc (snd x) /\ step cs l (snd x) /\
    (exists consumed, Ac cs = consumed ++ Ac (snd x) /\ incl (fst x) consumed) /\
    Rc cs = fst x ++ Rc (snd x) /\ (fst x = [] -> Rc (snd x) = [])).

Variables (start count : nat).

(* what the limit node still delivers *)
Definition Rl (sk cur : nat) (cs : St) : list X := firstn (count - cur) (skipn (start - sk) (Rc cs)).

(* ---- row mode *)

Lemma limit_skip_rows_sem : child_next_ok -> forall f skips cs, wfc cs ->
  rspec (limit_skip_rows child_next f start skips cs) d (fun x l =>
    match x with (ok, sk', cs') =>
      wfc cs' /\ step cs l cs' /\ (exists consumed, Ac cs = consumed ++ Ac cs') /\
      if ok then start - sk' = 0 /\ skipn (start - skips) (Rc cs) = Rc cs'
      else skipn (start - skips) (Rc cs) = [] /\ Rc cs' = []
    end).
Proof.
  intros Hn. induction f as [|f IH]; intros skips cs W; cbn [limit_skip_rows].
  - destruct (Nat.ltb_spec skips start) as [L|L]; [reflexivity|]. cbn [rspec].
    split; [exact W|]. split; [apply step_refl|]. split; [exists []; reflexivity|].
    replace (start - skips) with 0 by lia. split; reflexivity.
  - destruct (Nat.ltb_spec skips start) as [L|L].
    + apply rspec_bind. eapply rspec_mono; [|apply Hn; exact W]. cbn beta.
      intros [r cs'] l [W' [S1 [[con [C1 C2]] HR]]]. cbn [fst snd] in *. destruct r as [y|].
      * eapply rspec_mono; [|apply IH; exact W']. cbn beta.
        intros [[ok sk'] cs''] l2 [W'' [S2 [[con2 C3] HR2]]].
        split; [exact W''|]. split; [eapply step_trans; eassumption|].
        split; [exists (con ++ con2); rewrite C1, C3, app_assoc; reflexivity|].
        replace (start - skips) with (S (start - S skips)) by lia. rewrite HR. cbn [skipn]. exact HR2.
      * cbn [rspec]. rewrite app_nil_r. destruct HR as [HR1 HR2].
        split; [exact W'|]. split; [exact S1|]. split; [exists con; exact C1|].
        rewrite HR1, skipn_nil. auto.
    + cbn [rspec]. split; [exact W|]. split; [apply step_refl|]. split; [exists []; reflexivity|].
      replace (start - skips) with 0 by lia. split; reflexivity.
Qed.

Lemma limit_next_sem : child_next_ok -> forall skips current cs, wfc cs ->
  rspec (limit_next fuel child_next start count skips current cs) d (fun x l =>
    match x with (r, (sk', cur', cs')) =>
      wfc cs' /\ step cs l cs' /\
      (exists consumed, Ac cs = consumed ++ Ac cs' /\ forall y, r = Some y -> In y consumed) /\
      match r with
      | Some y => Rl skips current cs = y :: Rl sk' cur' cs'
      | None => Rl skips current cs = [] /\ Rl sk' cur' cs' = []
      end
    end).
Proof.
  intros Hn skips current cs W. unfold limit_next, Rl.
  apply rspec_bind. eapply rspec_mono; [|apply limit_skip_rows_sem; [exact Hn|exact W]]. cbn beta.
  intros [[ok sk'] cs1] l [W1 [S1 [[con1 C1] HR]]]. destruct ok; cbn [negb].
  - destruct HR as [E0 HR]. rewrite HR.
    destruct (Nat.leb_spec count current) as [L|L].
    + cbn [rspec]. rewrite app_nil_r, E0. cbn [skipn]. split; [exact W1|]. split; [exact S1|].
      split; [exists con1; split; [exact C1|discriminate]|].
      replace (count - current) with 0 by lia. split; reflexivity.
    + apply rspec_bind. eapply rspec_mono; [|apply Hn; exact W1]. cbn beta.
      intros [r cs2] l2 [W2 [S2 [[con2 [C2 C3]] HR2]]]. cbn [fst snd] in *. destruct r as [y|]; cbn [rspec].
      * rewrite app_nil_r, E0. cbn [skipn]. split; [exact W2|]. split; [eapply step_trans; eassumption|].
        split.
        { exists (con1 ++ con2). split; [rewrite C1, C2, app_assoc; reflexivity|].
          intros y' E. apply in_or_app. right. apply C3. exact E. }
        rewrite HR2. replace (count - current) with (S (count - S current)) by lia. reflexivity.
      * rewrite app_nil_r. destruct HR2 as [HR2 HR3]. split; [exact W2|]. split; [eapply step_trans; eassumption|].
        split; [exists (con1 ++ con2); split; [rewrite C1, C2, app_assoc; reflexivity|discriminate]|].
        rewrite HR2, HR3, skipn_nil, !firstn_nil. auto.
  - cbn [rspec]. rewrite app_nil_r. destruct HR as [HR1 HR2].
    split; [exact W1|]. split; [exact S1|]. split; [exists con1; split; [exact C1|discriminate]|].
    rewrite HR1, HR2, skipn_nil, !firstn_nil. auto.
Qed.

(* ---- batch mode *)

Lemma limit_skip_batches_sem : child_batch_ok -> forall f skips cs, wfc cs ->
  rspec (limit_skip_batches child_batch f start skips cs) d (fun x l =>
    match x with (orows, sk', cs') =>
      wfc cs' /\ step cs l cs' /\
      (exists consumed, Ac cs = consumed ++ Ac cs' /\
                        match orows with Some rows => incl rows consumed | None => True end) /\
      match orows with
      | None => skipn (start - skips) (Rc cs) = [] /\ Rc cs' = []
      | Some rows => skipn (start - skips) (Rc cs) = rows ++ Rc cs' /\ start - sk' = 0
      end
    end).
Proof.
  intros Hb. induction f as [|f IH]; intros skips cs W; cbn [limit_skip_batches].
  - destruct (Nat.ltb_spec skips start) as [L|L]; [reflexivity|]. cbn [rspec].
    split; [exact W|]. split; [apply step_refl|].
    split; [exists []; split; [reflexivity|apply incl_nil_l]|].
    replace (start - skips) with 0 by lia. split; reflexivity.
  - destruct (Nat.ltb_spec skips start) as [L|L].
    + apply rspec_bind. eapply rspec_mono; [|apply Hb; exact W]. cbn beta.
      intros [rows cs'] l [W' [S1 [[con [C1 C2]] [HR HE]]]]. cbn [fst snd] in *.
      destruct (Nat.eqb_spec (List.length rows) 0) as [E0|E0].
      * cbn [rspec]. rewrite app_nil_r. destruct rows; [|discriminate E0]. specialize (HE eq_refl).
        split; [exact W'|]. split; [exact S1|]. split; [exists con; auto|].
        rewrite HR, HE. cbn [app]. rewrite skipn_nil. auto.
      * destruct (Nat.leb_spec (List.length rows) (start - skips)) as [L2|L2].
        -- eapply rspec_mono; [|apply IH; exact W']. cbn beta.
           intros [[orows sk'] cs''] l2 [W'' [S2 [[con2 [C3 C4]] HR2]]].
           split; [exact W''|]. split; [eapply step_trans; eassumption|].
           split.
           { exists (con ++ con2). split; [rewrite C1, C3, app_assoc; reflexivity|].
             destruct orows; [apply incl_appr; exact C4|exact I]. }
           rewrite HR, skipn_app_ge by exact L2.
           replace (start - skips - List.length rows) with (start - (skips + List.length rows)) by lia.
           exact HR2.
        -- cbn [rspec]. rewrite app_nil_r. split; [exact W'|]. split; [exact S1|].
           split.
           { exists con. split; [exact C1|]. intros y Hy. apply C2. eapply in_skipn. exact Hy. }
           split; [|lia]. rewrite HR. apply skipn_app_le. lia.
    + cbn [rspec]. split; [exact W|]. split; [apply step_refl|].
      split; [exists []; split; [reflexivity|apply incl_nil_l]|].
      replace (start - skips) with 0 by lia. split; reflexivity.
Qed.

Lemma firstn_length_eq : forall n (l : list X), n <= List.length l -> List.length (firstn n l) = n.
Proof. intros n l H. rewrite firstn_length. lia. Qed.

Lemma limit_fill_sem : child_batch_ok -> forall f current ret cs, wfc cs -> current < count ->
  rspec (limit_fill B child_batch f count current ret cs) d (fun x l =>
    match x with (ret', cur', cs') =>
      wfc cs' /\ step cs l cs' /\
      exists consumed more, Ac cs = consumed ++ Ac cs' /\ ret' = ret ++ more /\ incl more consumed /\
        firstn (count - current) (Rc cs) = more ++ firstn (count - cur') (Rc cs') /\
        (more = [] -> Rc cs' = [])
    end).
Proof.
  intros Hb. induction f as [|f IH]; intros current ret cs W Lc; cbn [limit_fill]; [reflexivity|].
  apply rspec_bind. eapply rspec_mono; [|apply Hb; exact W]. cbn beta.
  intros [rows cs'] l [W' [S1 [[con [C1 C2]] [HR HE]]]]. cbn [fst snd] in *.
  destruct rows as [|r0 rows].
  - cbn [rspec]. rewrite app_nil_r. specialize (HE eq_refl).
    split; [exact W'|]. split; [exact S1|]. exists con, []. rewrite app_nil_r.
    split; [exact C1|]. split; [reflexivity|]. split; [apply incl_nil_l|].
    rewrite HR, HE. cbn [app]. rewrite !firstn_nil. auto.
  - replace (Nat.max 1 (count - current)) with (count - current) by lia.
    set (rws := r0 :: rows) in *. set (n := count - current) in *.
    set (take := firstn n rws).
    assert (Ht : List.length take = Nat.min n (List.length rws)) by apply firstn_length.
    assert (Hpos : 1 <= List.length take) by (rewrite Ht; unfold rws, n; cbn [List.length]; lia).
    assert (Hinc : incl take con) by (intros y Hy; apply C2; eapply in_firstn; exact Hy).
    destruct (Nat.leb_spec count (current + List.length take)) as [L1|L1].
    + cbn [rspec]. rewrite app_nil_r. split; [exact W'|]. split; [exact S1|].
      exists con, take. split; [exact C1|]. split; [reflexivity|]. split; [exact Hinc|].
      split.
      * rewrite HR. replace (count - (current + List.length take)) with 0 by lia.
        cbn [firstn]. rewrite app_nil_r. apply firstn_app_le. unfold n in *. lia.
      * intros E. rewrite E in Hpos. cbn in Hpos. lia.
    + assert (Hall : take = rws) by (unfold take; apply firstn_all2; unfold n in *; lia).
      assert (HL : List.length take = List.length rws) by (rewrite Hall; reflexivity).
      destruct (Nat.leb_spec B (List.length (ret ++ take))) as [L2|L2].
      * cbn [rspec]. rewrite app_nil_r. split; [exact W'|]. split; [exact S1|].
        exists con, take. split; [exact C1|]. split; [reflexivity|]. split; [exact Hinc|].
        split.
        -- rewrite HR, firstn_app. change (firstn n rws) with take. f_equal. f_equal. unfold n. lia.
        -- intros E. rewrite E in Hpos. cbn in Hpos. lia.
      * eapply rspec_mono; [|apply IH; [exact W'|lia]]. cbn beta.
        intros [[ret' cur'] cs''] l2 [W'' [S2 [con2 [more2 [C3 [C4 [C5 [C6 C7]]]]]]]].
        split; [exact W''|]. split; [eapply step_trans; eassumption|].
        exists (con ++ con2), (take ++ more2).
        split; [rewrite C1, C3, app_assoc; reflexivity|].
        split; [rewrite C4, app_assoc; reflexivity|].
        split; [apply incl_app; [apply incl_appl; exact Hinc|apply incl_appr; exact C5]|].
        split.
        -- rewrite HR, firstn_app, <- app_assoc. change (firstn n rws) with take. f_equal.
           rewrite <- C6. f_equal. unfold n. lia.
        -- intros E. apply app_eq_nil in E. destruct E as [E _]. rewrite E in Hpos. cbn in Hpos. lia.
Qed.

Lemma limit_batch_sem : child_batch_ok -> forall skips current cs, wfc cs ->
  rspec (limit_batch B fuel child_batch start count skips current cs) d (fun x l =>
    match x with (rows, (sk', cur', cs')) =>
      wfc cs' /\ step cs l cs' /\
      (exists consumed, Ac cs = consumed ++ Ac cs' /\ incl rows consumed) /\
      Rl skips current cs = rows ++ Rl sk' cur' cs' /\ (rows = [] -> Rl sk' cur' cs' = [])
    end).
Proof.
  intros Hb skips current cs W. unfold limit_batch, Rl.
  apply rspec_bind. eapply rspec_mono; [|apply limit_skip_batches_sem; [exact Hb|exact W]]. cbn beta.
  intros [[orows sk'] cs1] l [W1 [S1 [[con1 [C1 C2]] HR]]]. destruct orows as [rows|].
  - destruct HR as [HR E0]. rewrite HR.
    set (n := count - current). set (take := firstn n rows).
    assert (Ht : List.length take = Nat.min n (List.length rows)) by apply firstn_length.
    assert (Hinc : incl take con1) by (intros y Hy; apply C2; eapply in_firstn; exact Hy).
    destruct (Nat.leb_spec count (current + List.length take)) as [L1|L1].
    + cbn [rspec]. rewrite app_nil_r, E0. cbn [skipn]. split; [exact W1|]. split; [exact S1|].
      split; [exists con1; auto|].
      replace (count - (current + List.length take)) with 0 by lia. cbn [firstn]. rewrite app_nil_r.
      split; [apply firstn_app_le; unfold n in *; lia|reflexivity].
    + assert (Hall : take = rows) by (unfold take; apply firstn_all2; unfold n in *; lia).
      assert (HL : List.length take = List.length rows) by (rewrite Hall; reflexivity).
      apply rspec_bind. eapply rspec_mono; [|apply limit_fill_sem; [exact Hb|exact W1|lia]]. cbn beta.
      intros [[ret cur''] cs2] l2 [W2 [S2 [con2 [more [C3 [C4 [C5 [C6 C7]]]]]]]].
      cbn [rspec]. rewrite app_nil_r, E0. cbn [skipn]. split; [exact W2|]. split; [eapply step_trans; eassumption|].
      split.
      { exists (con1 ++ con2). split; [rewrite C1, C3, app_assoc; reflexivity|].
        rewrite C4. apply incl_app; [apply incl_appl; exact Hinc|apply incl_appr; exact C5]. }
      split.
      * rewrite C4, firstn_app, <- app_assoc. change (firstn n rows) with take. f_equal.
        rewrite <- C6. f_equal. unfold n. lia.
      * intros E. rewrite C4 in E. apply app_eq_nil in E. destruct E as [_ E].
        rewrite (C7 E). apply firstn_nil.
  - cbn [rspec]. rewrite app_nil_r. destruct HR as [HR1 HR2].
    split; [exact W1|]. split; [exact S1|]. split; [exists con1; split; [exact C1|apply incl_nil_l]|].
    rewrite HR1, HR2, skipn_nil, !firstn_nil. auto.
Qed.

End LimitSem.

(* ------------------------------------------------------------------ kvql.Plan: scan, or limit over a plan *)

Fixpoint leaf (p : plan) : scan :=
  match p with
  | PScan sc => sc
  | PLimit _ _ c => leaf c
  end.

Fixpoint wfst (p : plan) (st : pstate) : Prop :=
  match p with
  | PScan sc => wf_scan sc st
  | PLimit _ _ c => match st with PSLimit _ _ cst => wfst c cst | _ => False end
  end.

(* what the scan at the bottom still delivers *)
Fixpoint Rall (p : plan) (st : pstate) (d : store) : list kvp :=
  match p with
  | PScan sc => rem_scan sc st d
  | PLimit _ _ c => match st with PSLimit _ _ cst => Rall c cst d | _ => [] end
  end.

(* what the plan still delivers *)
Fixpoint R (p : plan) (st : pstate) (d : store) : list kvp :=
  match p with
  | PScan sc => rem_scan sc st d
  | PLimit start count c =>
      match st with
      | PSLimit sk cur cst => firstn (count - cur) (skipn (start - sk) (R c cst d))
      | _ => []
      end
  end.

Fixpoint pend (p : plan) (st : pstate) : list bytes :=
  match p with
  | PScan sc => pend_scan sc st
  | PLimit _ _ c => match st with PSLimit _ _ cst => pend c cst | _ => [] end
  end.

(* the effect of a run of calls on the log: only calls the scan may issue, and the keys the
   cursor returned are the next ones it had to return *)
Definition lstep (p : plan) (a : pstate) (l : list scall) (b : pstate) : Prop :=
  log_ok (leaf p) l /\ pend p a = next_keys l ++ pend p b.

Lemma lstep_refl : forall p s, lstep p s [] s.
Proof. intros p s. split; [apply log_ok_nil|reflexivity]. Qed.

Lemma lstep_trans : forall p a l1 b l2 c, lstep p a l1 b -> lstep p b l2 c -> lstep p a (l1 ++ l2) c.
Proof.
  intros p a l1 b l2 c [L1 P1] [L2 P2]. split; [apply log_ok_app; assumption|].
  rewrite P1, P2, next_keys_app, app_assoc. reflexivity.
Qed.

Lemma plan_next_sem : forall p d st, wfst p st ->
  rspec (plan_next true flt fuel p st) d (fun x l =>
    wfst p (snd x) /\ lstep p st l (snd x) /\
    (exists consumed, Rall p st d = consumed ++ Rall p (snd x) d /\ forall y, fst x = Some y -> In y consumed) /\
    match fst x with
    | Some y => R p st d = y :: R p (snd x) d
    | None => R p st d = [] /\ R p (snd x) d = []
    end).
Proof.
  induction p as [sc|start count c IH]; intros d st W; cbn [plan_next wfst] in *.
  - eapply rspec_mono; [|apply scan_next_sem; exact W]. cbn beta.
    intros [r st'] l [W' [L [P HR]]]. cbn [fst snd wfst Rall R leaf pend] in *.
    split; [exact W'|]. split; [split; assumption|]. split; [|exact HR].
    destruct r as [y|].
    + exists [y]. split; [exact HR|]. intros y' E. injection E as <-. left. reflexivity.
    + exists []. destruct HR as [H1 H2]. rewrite H1, H2. split; [reflexivity|discriminate].
  - destruct st as [it idx ended|sk cur cst]; [destruct W|].
    apply rspec_bind.
    eapply rspec_mono; [|apply (@limit_next_sem kvp pstate (plan_next true flt fuel c) d (wfst c)
                                  (fun cs => R c cs d) (fun cs => Rall c cs d) (lstep c)
                                  (lstep_refl c) (@lstep_trans c) start count); [|exact W]].
    + cbn beta. intros [r [[sk' cur'] cst']] l [W' [S [C HR]]].
      cbn [rspec fst snd wfst Rall R leaf pend]. rewrite app_nil_r.
      split; [exact W'|]. split; [exact S|]. split; [exact C|exact HR].
    + intros cs Wc. apply IH. exact Wc.
Qed.

Lemma plan_batch_sem : forall p d st, wfst p st ->
  rspec (plan_batch true flt B fuel p st) d (fun x l =>
    wfst p (snd x) /\ lstep p st l (snd x) /\
    (exists consumed, Rall p st d = consumed ++ Rall p (snd x) d /\ incl (fst x) consumed) /\
    R p st d = fst x ++ R p (snd x) d /\ (fst x = [] -> R p (snd x) d = [])).
Proof.
  induction p as [sc|start count c IH]; intros d st W; cbn [plan_batch wfst] in *.
  - eapply rspec_mono; [|apply scan_batch_sem; exact W]. cbn beta.
    intros [rows st'] l [W' [L [P [HR HE]]]]. cbn [fst snd wfst Rall R leaf pend] in *.
    split; [exact W'|]. split; [split; assumption|]. split; [|split; assumption].
    exists rows. split; [exact HR|apply incl_refl].
  - destruct st as [it idx ended|sk cur cst]; [destruct W|].
    apply rspec_bind.
    eapply rspec_mono; [|apply (@limit_batch_sem kvp pstate (plan_batch true flt B fuel c) d (wfst c)
                                  (fun cs => R c cs d) (fun cs => Rall c cs d) (lstep c)
                                  (lstep_refl c) (@lstep_trans c) start count); [|exact W]].
    + cbn beta. intros [rows [[sk' cur'] cst']] l [W' [S [C [HR HE]]]].
      cbn [rspec fst snd wfst Rall R leaf pend]. rewrite app_nil_r.
      split; [exact W'|]. split; [exact S|]. split; [exact C|]. split; [exact HR|exact HE].
    + intros cs Wc. apply IH. exact Wc.
Qed.

(* ------------------------------------------------------------------ what is left has distinct keys, and
   does not change when keys that are not left are deleted (snapshot cursors; point reads of
   other keys) *)

Definition nodupk (l : list kvp) : Prop := NoDup (map fst l).

Lemma nodupk_rem_scan : forall sc st d, wf_scan sc st -> nodupk (rem_scan sc st d).
Proof.
  intros sc st d W. unfold nodupk. apply ssorted_nodup.
  destruct st as [it idx ended|sk cur cst]; [|exact I].
  destruct (is_cursor_scan sc) eqn:Ec.
  - rewrite (rem_scan_cursor _ _ _ _ _ Ec). rewrite (wf_scan_cursor _ _ _ _ Ec) in W.
    destruct W as [c [-> Sc]]. destruct (remembers sc && ended); [exact I|].
    unfold live. apply ssorted_filter, ssorted_take_while. exact Sc.
  - destruct sc as [| |p|lo hi|keys]; try discriminate Ec; [exact I|].
    cbn [rem_scan wf_scan] in *. apply ssorted_filter, ssorted_mget_rows, ksorted_skipn. exact W.
Qed.

Lemma nodupk_Rall : forall p st d, wfst p st -> nodupk (Rall p st d).
Proof.
  induction p as [sc|start count c IH]; intros st d W; cbn [Rall wfst] in *.
  - apply nodupk_rem_scan. exact W.
  - destruct st as [it idx ended|sk cur cst]; [destruct W|]. apply IH. exact W.
Qed.

Lemma rem_scan_frame : forall sc st d del, wf_scan sc st ->
  (forall k, In k del -> ~ In k (map fst (rem_scan sc st d))) ->
  rem_scan sc st (sdel_all del d) = rem_scan sc st d.
Proof.
  intros sc st d del W H. destruct st as [it idx ended|sk cur cst]; [|reflexivity].
  destruct sc as [| |p|lo hi|keys]; try reflexivity.
  cbn [rem_scan] in *. rewrite mget_rows_sdel_all, filter_comm.
  apply filter_all_true. intros [k v] Hin. cbn [fst].
  destruct (mem k del) eqn:E; [|reflexivity]. exfalso.
  apply mem_in in E. apply (H k E). apply in_map_iff. exists (k, v). auto.
Qed.

Lemma R_frame : forall p st d del, wfst p st ->
  (forall k, In k del -> ~ In k (map fst (Rall p st d))) ->
  R p st (sdel_all del d) = R p st d /\ Rall p st (sdel_all del d) = Rall p st d.
Proof.
  induction p as [sc|start count c IH]; intros st d del W H; cbn [R Rall wfst] in *.
  - split; apply rem_scan_frame; assumption.
  - destruct st as [it idx ended|sk cur cst]; [destruct W|].
    destruct (IH cst d del W H) as [E1 E2]. rewrite E1, E2. auto.
Qed.

(* ------------------------------------------------------------------ Init *)

(* the state has the plan's shape and point reads have not started *)
Fixpoint fresh (p : plan) (st : pstate) : Prop :=
  match p with
  | PScan sc =>
      match st with
      | PSScan _ idx _ => match sc with SMget keys => idx = 0 /\ ksorted keys | _ => True end
      | _ => False
      end
  | PLimit _ _ c => match st with PSLimit _ _ cst => fresh c cst | _ => False end
  end.

(* keys of point reads are sorted and distinct *)
Fixpoint keys_ok (p : plan) : Prop :=
  match p with
  | PScan (SMget keys) => ksorted keys
  | PScan _ => True
  | PLimit _ _ c => keys_ok c
  end.

Lemma fresh_pstate0 : forall p, keys_ok p -> fresh p (pstate0 p).
Proof.
  induction p as [sc|start count c IH]; intros K; cbn [fresh pstate0 keys_ok] in *; [|apply IH; exact K].
  destruct sc; auto.
Qed.

(* what SELECT * over the plan denotes on a store *)
Fixpoint Rsel (p : plan) (d : store) : list kvp :=
  match p with
  | PScan sc => filter flt (filter (fun kv => covers (region_of sc) (fst kv)) d)
  | PLimit start count c => firstn count (skipn start (Rsel c d))
  end.

Definition is_init_call (c : scall) : bool :=
  match c with CCursor | CSeek _ => true | _ => false end.

Lemma inreg_prefix : forall p kv, inreg (SPrefix p) kv = has_prefix p (fst kv).
Proof. intros p kv. unfold inreg. cbn [scan_stop]. apply negb_involutive. Qed.

Lemma inreg_range_some : forall lo e kv, inreg (SRange lo (Some e)) kv = bleb (fst kv) e.
Proof.
  intros lo e kv. unfold inreg, bleb. cbn [scan_stop]. destruct (bcompare (fst kv) e); reflexivity.
Qed.

Lemma inreg_true : forall sc kv, remembers sc = false -> inreg sc kv = true.
Proof. intros sc kv H. unfold inreg. rewrite (stop_never _ H). reflexivity. Qed.

(* the pairs of the region, in store order: what the cursor delivers after Init *)
Lemma init_take_while : forall sc d, ssorted d -> is_cursor_scan sc = true ->
  take_while (inreg sc)
    (match sc with
     | SPrefix p => seek_from p d
     | SRange (Some lo) _ => seek_from lo d
     | _ => d
     end)
  = filter (fun kv => covers (region_of sc) (fst kv)) d.
Proof.
  intros sc d S Ec. destruct sc as [| |p|lo hi|keys]; try discriminate Ec; cbn [region_of covers].
  - rewrite take_while_all by (intros; reflexivity).
    symmetry. apply filter_all_true. reflexivity.
  - rewrite (take_while_ext (inreg (SPrefix p)) (fun kv : kvp => has_prefix p (fst kv))) by apply inreg_prefix.
    apply seek_prefix_filter. exact S.
  - destruct hi as [e|].
    + rewrite (take_while_ext (inreg (SRange lo (Some e))) (fun kv : kvp => bleb (fst kv) e)) by apply inreg_range_some.
      destruct lo as [s|].
      * rewrite take_while_le_filter by (apply ssorted_seek; exact S).
        rewrite (seek_from_filter s d S), filter_filter. reflexivity.
      * rewrite take_while_le_filter by exact S. reflexivity.
    + rewrite take_while_all by (intros; reflexivity).
      destruct lo as [s|].
      * rewrite (seek_from_filter s d S). apply filter_ext. intros kv. rewrite andb_true_r. reflexivity.
      * symmetry. apply filter_all_true. reflexivity.
Qed.

Lemma scan_init_sem : forall sc st d, ssorted d -> fresh (PScan sc) st ->
  rspec (scan_init sc st) d (fun st' l =>
    wf_scan sc st' /\ fresh (PScan sc) st' /\ forallb is_init_call l = true /\
    (leaf (PScan sc) = SEmpty \/ (exists keys, sc = SMget keys) -> l = []) /\
    rem_scan sc st' d = Rsel (PScan sc) d /\
    (is_cursor_scan sc = true ->
       exists rest, pend_scan sc st' = map fst (to_read sc rest) /\
                    take_while (inreg sc) rest = filter (fun kv => covers (region_of sc) (fst kv)) d)).
Proof.
  intros sc st d S F. destruct st as [it idx ended|sk cur cst]; [|destruct F].
  cbn [fresh] in F. cbn [Rsel leaf].
  destruct sc as [| |p|lo hi|keys]; cbn [scan_init].
  - cbn [rspec wf_scan fresh rem_scan is_cursor_scan region_of covers].
    rewrite (@filter_all_false kvp _ d) by (intros; reflexivity).
    repeat split; try reflexivity; try discriminate.
  - cbn [op_cursor op_seek bind rspec ranswer rentry csnap crest].
    pose proof (init_take_while SFull d S eq_refl) as T. cbn beta iota in T.
    rewrite seek_from_empty.
    split; [exists (Cur d d); split; [reflexivity|exact S]|]. split; [exact I|]. split; [reflexivity|].
    split; [intros [E|[k E]]; discriminate E|].
    split; [cbn [rem_scan remembers scan_remembers andb crest]; unfold live; rewrite T; reflexivity|].
    intros _. exists d. split; [reflexivity|exact T].
  - cbn [op_cursor op_seek bind rspec ranswer rentry csnap crest].
    pose proof (init_take_while (SPrefix p) d S eq_refl) as T. cbn beta iota in T.
    split; [exists (Cur d (seek_from p d)); split; [reflexivity|apply ssorted_seek; exact S]|].
    split; [exact I|]. split; [reflexivity|].
    split; [intros [E|[k E]]; discriminate E|].
    split; [cbn [rem_scan remembers scan_remembers andb crest]; unfold live; rewrite T; reflexivity|].
    intros _. exists (seek_from p d). split; [reflexivity|exact T].
  - pose proof (init_take_while (SRange lo hi) d S eq_refl) as T. cbn beta iota in T.
    destruct lo as [s|]; cbn [op_cursor op_seek bind rspec ranswer rentry csnap crest].
    + split; [exists (Cur d (seek_from s d)); split; [reflexivity|apply ssorted_seek; exact S]|].
      split; [exact I|]. split; [reflexivity|].
      split; [intros [E|[k E]]; discriminate E|].
      split; [cbn [rem_scan remembers scan_remembers andb crest]; unfold live; rewrite T; reflexivity|].
      intros _. exists (seek_from s d). split; [reflexivity|exact T].
    + split; [exists (Cur d d); split; [reflexivity|exact S]|].
      split; [exact I|]. split; [reflexivity|].
      split; [intros [E|[k E]]; discriminate E|].
      split; [cbn [rem_scan remembers scan_remembers andb crest]; unfold live; rewrite T; reflexivity|].
      intros _. exists d. split; [reflexivity|exact T].
  - cbn [rspec wf_scan fresh rem_scan is_cursor_scan region_of covers]. destruct F as [-> K].
    split; [exact K|]. split; [auto|]. split; [reflexivity|]. split; [reflexivity|].
    split; [|discriminate]. cbn [skipn]. rewrite mget_rows_filter by assumption. reflexivity.
Qed.

Lemma plan_init_sem : forall p st d, ssorted d -> fresh p st ->
  rspec (plan_init p st) d (fun st' l =>
    wfst p st' /\ fresh p st' /\ forallb is_init_call l = true /\
    (is_cursor_scan (leaf p) = false -> l = []) /\
    R p st' d = Rsel p d /\ Rall p st' d = Rsel (PScan (leaf p)) d /\
    (is_cursor_scan (leaf p) = true ->
       exists rest, pend p st' = map fst (to_read (leaf p) rest) /\
                    take_while (inreg (leaf p)) rest
                    = filter (fun kv => covers (region_of (leaf p)) (fst kv)) d)).
Proof.
  induction p as [sc|start count c IH]; intros st d S F; cbn [plan_init].
  - eapply rspec_mono; [|apply scan_init_sem; assumption]. cbn beta.
    intros st' l [W [F' [I1 [I2 [HR HP]]]]]. cbn [wfst leaf R Rall pend].
    split; [exact W|]. split; [exact F'|]. split; [exact I1|]. split.
    { intros E. apply I2. cbn [leaf]. destruct sc; try discriminate E; [left; reflexivity|right; eexists; reflexivity]. }
    split; [exact HR|]. split; [exact HR|exact HP].
  - destruct st as [it idx ended|sk cur cst]; [destruct F|]. cbn [fresh] in F.
    apply rspec_bind. eapply rspec_mono; [|apply IH; assumption]. cbn beta.
    intros cst' l [W [F' [I1 [I2 [HR [HA HP]]]]]]. cbn [rspec wfst fresh leaf R Rall pend Rsel].
    rewrite app_nil_r, !Nat.sub_0_r, HR. auto 10.
Qed.

(* BuildPlan: Init by the builder, Init again by BuildPlan *)
Lemma plan_build_sem : forall p d, ssorted d -> keys_ok p ->
  rspec (plan_build p) d (fun st' l =>
    wfst p st' /\ forallb is_init_call l = true /\
    (is_cursor_scan (leaf p) = false -> l = []) /\
    R p st' d = Rsel p d /\ Rall p st' d = Rsel (PScan (leaf p)) d /\
    (is_cursor_scan (leaf p) = true ->
       exists rest, pend p st' = map fst (to_read (leaf p) rest) /\
                    take_while (inreg (leaf p)) rest
                    = filter (fun kv => covers (region_of (leaf p)) (fst kv)) d)).
Proof.
  intros p d S K. unfold plan_build. apply rspec_bind.
  eapply rspec_mono; [|apply plan_init_sem; [exact S|apply fresh_pstate0; exact K]]. cbn beta.
  intros st1 l1 [_ [F1 [I1 [J1 _]]]].
  eapply rspec_mono; [|apply plan_init_sem; [exact S|exact F1]]. cbn beta.
  intros st2 l2 [W [_ [I2 [J2 [HR [HA HP]]]]]].
  split; [exact W|]. split; [rewrite forallb_app, I1, I2; reflexivity|].
  split; [intros E; rewrite (J1 E), (J2 E); reflexivity|]. auto.
Qed.

(* ------------------------------------------------------------------ the caller's loops *)

Lemma rows_drain_sem : forall f p st acc d, wfst p st ->
  rspec (rows_drain true flt fuel f p st acc) d (fun rows l =>
    rows = acc ++ R p st d /\ exists st', lstep p st l st').
Proof.
  induction f as [|f IH]; intros p st acc d W; cbn [rows_drain]; [reflexivity|].
  apply rspec_bind. eapply rspec_mono; [|apply plan_next_sem; exact W]. cbn beta.
  intros [r st'] l [W' [S [_ HR]]]. cbn [fst snd] in *. destruct r as [kv|].
  - eapply rspec_mono; [|apply IH; exact W']. cbn beta. intros rows l2 [E [st'' S2]].
    split; [rewrite E, HR, <- app_assoc; reflexivity|]. exists st''. eapply lstep_trans; eassumption.
  - cbn [rspec]. rewrite app_nil_r. destruct HR as [HR _]. rewrite HR, app_nil_r.
    split; [reflexivity|]. exists st'. exact S.
Qed.

Definition nonempty (A : Type) (l : list A) : Prop := l <> [].

Lemma batches_drain_sem : forall f p st acc d, wfst p st ->
  rspec (batches_drain true flt B fuel f p st acc) d (fun res l =>
    (exists outs, res = acc ++ outs /\ List.concat outs = R p st d /\ Forall (@nonempty kvp) outs) /\
    exists st', lstep p st l st').
Proof.
  induction f as [|f IH]; intros p st acc d W; cbn [batches_drain]; [reflexivity|].
  apply rspec_bind. eapply rspec_mono; [|apply plan_batch_sem; exact W]. cbn beta.
  intros [rows st'] l [W' [S [_ [HR HE]]]]. cbn [fst snd] in *. destruct rows as [|r0 rows].
  - cbn [rspec]. rewrite app_nil_r. specialize (HE eq_refl). rewrite HR, HE.
    split; [exists []; rewrite app_nil_r; repeat split; constructor|]. exists st'. exact S.
  - eapply rspec_mono; [|apply IH; exact W']. cbn beta. intros res l2 [[outs [E1 [E2 E3]]] [st'' S2]].
    split.
    + exists ((r0 :: rows) :: outs). split; [rewrite E1, <- app_assoc; reflexivity|].
      split; [cbn [List.concat]; rewrite E2, HR; reflexivity|].
      constructor; [discriminate|exact E3].
    + exists st''. eapply lstep_trans; eassumption.
Qed.

(* ------------------------------------------------------------------ where the reads fall *)

(* the keys returned by the cursor lie in the region, except at most the last one *)
Definition reads_in (r : region) (l : list scall) : Prop :=
  exists inside tail, next_keys l = inside ++ tail /\
    Forall (fun k => covers r k = true) inside /\ List.length tail <= 1.

Definition is_cursor_call (c : scall) : bool :=
  match c with CCursor | CSeek _ | CNext _ => true | _ => false end.

(* what a drained scan may have done to the storage *)
Definition reads_ok (sc : scan) (l : list scall) : Prop :=
  match sc with
  | SEmpty => l = []
  | SMget keys => Forall (is_get_of keys) l
  | _ => forallb is_cursor_call l = true /\ reads_in (region_of sc) l
  end.

Lemma next_keys_init : forall l, forallb is_init_call l = true -> next_keys l = [].
Proof.
  induction l as [|c l IH]; intros H; [reflexivity|]. cbn [forallb] in H.
  apply andb_true_iff in H. destruct H as [H1 H2]. destruct c; try discriminate H1; cbn; apply IH; exact H2.
Qed.

Lemma cursor_call_weaken : forall (f : scall -> bool) l,
  (forall c, f c = true -> is_cursor_call c = true) -> forallb f l = true -> forallb is_cursor_call l = true.
Proof.
  intros f l H. induction l as [|c l IH]; intros E; [reflexivity|]. cbn [forallb] in *.
  apply andb_true_iff in E. destruct E as [E1 E2]. rewrite (H _ E1), (IH E2). reflexivity.
Qed.

Lemma prefix_reads_in : forall (r : region) (x y : list bytes) (ins : store) (tl : store),
  x ++ y = map fst ins ++ map fst tl ->
  (forall kv, In kv ins -> covers r (fst kv) = true) -> List.length tl <= 1 ->
  exists inside tail, x = inside ++ tail /\ Forall (fun k => covers r k = true) inside /\ List.length tail <= 1.
Proof.
  intros r x y ins tl E Hin Ht.
  assert (Ex : x = firstn (List.length x) (map fst ins ++ map fst tl)).
  { rewrite <- E, firstn_app, Nat.sub_diag, firstn_all. cbn [firstn]. rewrite app_nil_r. reflexivity. }
  rewrite firstn_app in Ex.
  exists (firstn (List.length x) (map fst ins)), (firstn (List.length x - List.length (map fst ins)) (map fst tl)).
  split; [exact Ex|]. split.
  - apply Forall_forall. intros k Hk. apply in_firstn in Hk. apply in_map_iff in Hk.
    destruct Hk as [kv [<- Hkv]]. apply Hin. exact Hkv.
  - rewrite firstn_length, !map_length. eapply Nat.le_trans; [apply Nat.le_min_r|exact Ht].
Qed.

Lemma drained_reads_ok : forall p d st0 l0 l1 st1,
  forallb is_init_call l0 = true -> (is_cursor_scan (leaf p) = false -> l0 = []) ->
  (is_cursor_scan (leaf p) = true ->
     exists rest, pend p st0 = map fst (to_read (leaf p) rest) /\
                  take_while (inreg (leaf p)) rest
                  = filter (fun kv => covers (region_of (leaf p)) (fst kv)) d) ->
  lstep p st0 l1 st1 -> reads_ok (leaf p) (l0 ++ l1).
Proof.
  intros p d st0 l0 l1 st1 I0 J0 HP [L P].
  destruct (is_cursor_scan (leaf p)) eqn:Ec.
  - destruct (HP eq_refl) as [rest [P0 T]]. clear HP J0.
    rewrite (log_ok_cursor _ _ Ec) in L.
    assert (Hshape : reads_ok (leaf p) (l0 ++ l1) =
                     (forallb is_cursor_call (l0 ++ l1) = true /\ reads_in (region_of (leaf p)) (l0 ++ l1))).
    { destruct (leaf p); try discriminate Ec; reflexivity. }
    rewrite Hshape. split.
    + rewrite forallb_app. apply andb_true_iff. split.
      * eapply cursor_call_weaken; [|exact I0]. intros [] E; try discriminate E; reflexivity.
      * eapply cursor_call_weaken; [|exact L]. intros [] E; try discriminate E; reflexivity.
    + unfold reads_in. rewrite next_keys_app, (next_keys_init _ I0). cbn [app].
      rewrite P0 in P. unfold to_read in P. rewrite map_app in P.
      eapply prefix_reads_in.
      * symmetry. exact P.
      * intros kv Hin. rewrite T in Hin. apply filter_In in Hin. exact (proj2 Hin).
      * rewrite firstn_length. lia.
  - rewrite (J0 eq_refl). cbn [app]. destruct (leaf p); try discriminate Ec; exact L.
Qed.

(* ------------------------------------------------------------------ SELECT * over a plan, from BuildPlan to the last poll *)

Lemma select_rows_sem : forall p d, ssorted d -> keys_ok p ->
  rspec (select_rows true flt fuel p) d (fun rows l => rows = Rsel p d /\ reads_ok (leaf p) l).
Proof.
  intros p d S K. unfold select_rows. apply rspec_bind.
  eapply rspec_mono; [|apply plan_build_sem; assumption]. cbn beta.
  intros st0 l0 [W [I0 [J0 [HR [_ HP]]]]].
  eapply rspec_mono; [|apply rows_drain_sem; exact W]. cbn beta.
  intros rows l1 [E [st1 S1]]. split; [rewrite E, HR; reflexivity|].
  eapply drained_reads_ok; eassumption.
Qed.

Lemma select_batches_sem : forall p d, ssorted d -> keys_ok p ->
  rspec (select_batches true flt B fuel p) d (fun outs l =>
    List.concat outs = Rsel p d /\ Forall (@nonempty kvp) outs /\ reads_ok (leaf p) l).
Proof.
  intros p d S K. unfold select_batches. apply rspec_bind.
  eapply rspec_mono; [|apply plan_build_sem; assumption]. cbn beta.
  intros st0 l0 [W [I0 [J0 [HR [_ HP]]]]].
  eapply rspec_mono; [|apply batches_drain_sem; exact W]. cbn beta.
  intros res l1 [[outs [E1 [E2 E3]]] [st1 S1]]. cbn [app] in E1. subst res.
  split; [rewrite E2, HR; reflexivity|]. split; [exact E3|].
  eapply drained_reads_ok; eassumption.
Qed.

End Sem.

(* ------------------------------------------------------------------ with enough fuel the outcome is a result *)

Lemma rows_drain_wp : forall N flt fuel f p st acc,
  mu p st < f -> f <= fuel -> wp N (rows_drain true flt fuel f p st acc) (fun _ => True).
Proof.
  intros N flt fuel. induction f as [|f IH]; intros p st acc Hf Hle; [lia|]. cbn [rows_drain].
  apply wp_bind. eapply wp_mono; [|apply (@plan_next_spec N true flt 1 fuel (le_n 1)); lia].
  intros [r st'] Hx. cbn [fst snd] in Hx. destruct r as [kv|]; cbn [opt1] in Hx; [|exact I].
  apply IH; lia.
Qed.

Lemma batches_drain_wp : forall N flt B fuel, 1 <= B -> forall f p st acc,
  mu p st < f -> f <= fuel -> wp N (batches_drain true flt B fuel f p st acc) (fun _ => True).
Proof.
  intros N flt B fuel HB. induction f as [|f IH]; intros p st acc Hf Hle; [lia|]. cbn [batches_drain].
  apply wp_bind. eapply wp_mono; [|apply (@plan_batch_spec N true flt B fuel HB); lia].
  intros [rows st'] Hx. cbn [fst snd] in Hx. destruct rows as [|r0 rows]; [exact I|].
  cbn [List.length] in Hx. apply IH; lia.
Qed.

Lemma plan_build_wp : forall N p, wp N (plan_build p) (fun st => mu p st <= bound_plan N p).
Proof.
  intros N p. unfold plan_build. apply wp_bind.
  eapply wp_mono; [|apply (@plan_init_spec N 1 (le_n 1))]. intros st1 _.
  apply (@plan_init_spec N 1 (le_n 1)).
Qed.

Lemma select_rows_wp : forall N flt fuel p,
  bound_plan N p < fuel -> wp N (select_rows true flt fuel p) (fun _ => True).
Proof.
  intros N flt fuel p Hb. unfold select_rows. apply wp_bind.
  eapply wp_mono; [|apply plan_build_wp]. intros st Hm. cbn beta in Hm. apply rows_drain_wp; lia.
Qed.

Lemma select_batches_wp : forall N flt B fuel p, 1 <= B ->
  bound_plan N p < fuel -> wp N (select_batches true flt B fuel p) (fun _ => True).
Proof.
  intros N flt B fuel p HB Hb. unfold select_batches. apply wp_bind.
  eapply wp_mono; [|apply plan_build_wp]. intros st Hm. cbn beta in Hm. apply batches_drain_wp; [exact HB|lia|lia].
Qed.

(* ------------------------------------------------------------------ the theorems *)

(* row mode: BuildPlan, then Next until nil *)
Theorem scan_rows_row_lemma : forall (flt : kvp -> bool) (fuel : nat) (p : plan) (d : store) (l0 : list scall),
  ssorted d -> keys_ok p -> List.length d + plan_keys p < fuel ->
  exists l, run_read (select_rows true flt fuel p) (SState d l0 None)
            = (Ok (Rsel flt p d), SState d (l0 ++ l) None)
            /\ reads_ok (leaf p) l.
Proof.
  intros flt fuel p d l0 S K Hf.
  destruct (@rspec_total (List.length d) _ (select_rows true flt fuel p) d
              (fun rows l => rows = Rsel flt p d /\ reads_ok (leaf p) l) l0) as [rows [l [E [-> HR]]]].
  - apply (@select_rows_sem flt 1 fuel (le_n 1)); assumption.
  - apply select_rows_wp. pose proof (bound_plan_le (List.length d) p). lia.
  - lia.
  - exists l. auto.
Qed.

(* batch mode, any batch size >= 1: BuildPlan, then Batch until the empty batch *)
Theorem scan_rows_batch_lemma : forall (flt : kvp -> bool) (B fuel : nat) (p : plan) (d : store) (l0 : list scall),
  1 <= B -> ssorted d -> keys_ok p -> List.length d + plan_keys p < fuel ->
  exists outs l, run_read (select_batches true flt B fuel p) (SState d l0 None)
                 = (Ok outs, SState d (l0 ++ l) None)
                 /\ List.concat outs = Rsel flt p d /\ Forall (@nonempty kvp) outs
                 /\ reads_ok (leaf p) l.
Proof.
  intros flt B fuel p d l0 HB S K Hf.
  destruct (@rspec_total (List.length d) _ (select_batches true flt B fuel p) d
              (fun outs l => List.concat outs = Rsel flt p d /\ Forall (@nonempty kvp) outs /\ reads_ok (leaf p) l) l0)
    as [outs [l [E HR]]].
  - apply select_batches_sem; assumption.
  - apply select_batches_wp; [exact HB|]. pose proof (bound_plan_le (List.length d) p). lia.
  - lia.
  - exists outs, l. auto.
Qed.

(* the two modes return the same rows *)
Theorem scan_rows_modes_agree_lemma : forall (flt : kvp -> bool) (B fuel : nat) (p : plan) (d : store),
  1 <= B -> ssorted d -> keys_ok p -> List.length d + plan_keys p < fuel ->
  exists rows outs,
    fst (run_read (select_rows true flt fuel p) (sinit d None)) = Ok rows /\
    fst (run_read (select_batches true flt B fuel p) (sinit d None)) = Ok outs /\
    List.concat outs = rows.
Proof.
  intros flt B fuel p d HB S K Hf.
  destruct (@scan_rows_row_lemma flt fuel p d [] S K Hf) as [l [E1 _]].
  destruct (@scan_rows_batch_lemma flt B fuel p d [] HB S K Hf) as [outs [l2 [E2 [E3 _]]]].
  exists (Rsel flt p d), outs. unfold sinit. rewrite E1, E2. auto.
Qed.

(* ------------------------------------------------------------------ NewMultiGetPlan's key list *)

Lemma insert_key_in : forall k ks x, In x (insert_key k ks) <-> x = k \/ In x ks.
Proof.
  intros k ks x. induction ks as [|k' ks IH]; cbn [insert_key].
  - cbn [In]. split; [intros [<-|[]]; auto|intros [->|[]]; auto].
  - destruct (bcompare k k') eqn:C.
    + apply bcompare_eq in C. subst k'. cbn [In]. split; [tauto|]. intros [->|H]; [left; reflexivity|exact H].
    + cbn [In]. split; [intros [<-|H]; auto|intros [->|H]; auto].
    + cbn [In]. rewrite IH. tauto.
Qed.

Lemma insert_key_sorted : forall k ks, ksorted ks -> ksorted (insert_key k ks).
Proof.
  intros k ks. induction ks as [|k' ks IH]; intros K; cbn [insert_key].
  - cbn. split; [intros x []|exact I].
  - destruct K as [Hk K]. destruct (bcompare k k') eqn:C.
    + cbn [ksorted]. auto.
    + cbn [ksorted]. split; [|split; assumption].
      apply lt_of_compare in C. intros x [<-|Hx]; [exact C|]. specialize (Hk _ Hx). clear - C Hk. ord.
    + cbn [ksorted]. split; [|apply IH; exact K].
      intros x Hx. apply insert_key_in in Hx. destruct Hx as [->|Hx]; [|apply Hk; exact Hx].
      apply lt_of_compare. apply bcompare_gt_lt. exact C.
Qed.

Lemma mget_keys_sorted : forall ks, ksorted (mget_keys ks).
Proof.
  induction ks as [|k ks IH]; [exact I|]. cbn [mget_keys fold_right]. apply insert_key_sorted. exact IH.
Qed.

Lemma mget_keys_in : forall ks x, In x (mget_keys ks) <-> In x ks.
Proof.
  induction ks as [|k ks IH]; intros x; [tauto|]. cbn [mget_keys fold_right].
  rewrite insert_key_in. fold (mget_keys ks). rewrite IH. cbn [In]. intuition.
Qed.

Lemma mget_keys_mem : forall ks x, mem x (mget_keys ks) = mem x ks.
Proof.
  intros ks x. destruct (mem x ks) eqn:E.
  - apply mem_in. apply mget_keys_in. apply mem_in. exact E.
  - destruct (mem x (mget_keys ks)) eqn:E2; [|reflexivity].
    apply (proj1 (mem_in _ _)) in E2. apply (proj1 (mget_keys_in _ _)) in E2.
    apply (proj2 (mem_in _ _)) in E2. congruence.
Qed.

(* the scan plan built for a region reads that region *)
Lemma covers_scan_of_region : forall r k, covers (region_of (scan_of_region r)) k = covers r k.
Proof. intros [|ks|p|lo hi|] k; try reflexivity. apply mget_keys_mem. Qed.

Lemma keys_ok_scan_of_region : forall r, keys_ok (PScan (scan_of_region r)).
Proof. intros [|ks|p|lo hi|]; try exact I. apply mget_keys_sorted. Qed.

(* ------------------------------------------------------------------ where the reads fall, both modes *)

Definition select_log (remember_end : bool) (flt : kvp -> bool) (B fuel : nat) (m : mode) (p : plan)
                      (s : sstate) : list scall :=
  match m with
  | RowMode => slog (snd (run_read (select_rows remember_end flt fuel p) s))
  | BatchMode => slog (snd (run_read (select_batches remember_end flt B fuel p) s))
  end.

Theorem reads_within_region_lemma :
  forall (flt : kvp -> bool) (B fuel : nat) (m : mode) (p : plan) (d : store) (l0 : list scall),
  1 <= B -> ssorted d -> keys_ok p -> List.length d + plan_keys p < fuel ->
  exists l, select_log true flt B fuel m p (SState d l0 None) = l0 ++ l /\ reads_ok (leaf p) l.
Proof.
  intros flt B fuel m p d l0 HB S K Hf. destruct m; cbn [select_log].
  - destruct (@scan_rows_row_lemma flt fuel p d l0 S K Hf) as [l [E R]]. rewrite E. exists l. auto.
  - destruct (@scan_rows_batch_lemma flt B fuel p d l0 HB S K Hf) as [outs [l [E [_ [_ R]]]]]. rewrite E. exists l. auto.
Qed.

(* without the `done` flag (the code before the fix of DESIGN §3 D23) a prefix scan that has
   reached its end reads on when it is polled again, as a limit node above it does: two keys
   beyond the prefix here *)
Lemma reads_within_region_needs_done_flag_lemma :
  exists (flt : kvp -> bool) (B fuel : nat) (p : plan) (d : store),
    1 <= B /\ ssorted d /\ keys_ok p /\ List.length d + plan_keys p < fuel /\
    ~ reads_ok (leaf p) (select_log false flt B fuel BatchMode p (sinit d None)).
Proof.
  exists (fun _ => true), 2, 10, (PLimit 0 5 (PScan (SPrefix "a"))), [("a","1"); ("b","2"); ("bc","3")]%string.
  split; [lia|]. split; [cbn; auto|]. split; [exact I|]. split; [cbn; lia|].
  intros [_ [inside [tail [E [F L]]]]]. vm_compute in E.
  destruct inside as [|i1 [|i2 inside]].
  - cbn [app] in E. subst tail. cbn in L. lia.
  - cbn [app] in E. injection E as _ E. subst tail. cbn in L. lia.
  - cbn [app] in E. injection E as _ E2 _. subst i2.
    inversion F as [|? ? _ F2]. inversion F2 as [|? ? Hb _]. vm_compute in Hb. discriminate.
Qed.
