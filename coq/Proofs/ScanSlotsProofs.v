(* Proofs/ScanSlotsProofs.v -- the slots of Model/PipelineS.v ARE what the storage-level scan twins
   of Model/ScanIO.v read, and the storage side of a SELECT given as text.

     1. [scan_slots sc d] against the scan node of Model/ScanIO.v run on [sinit d None]
          somes_scan_slots             the pairs among the slots = the pairs of the region, in
                                       store order
          slots_scan_rows_row/_batch   BuildPlan + Next until nil / Batch until the empty batch of
                                       the scan node with filter oracle [flt] returns
                                       [filter flt (somes (scan_slots sc d))], reading inside the region
                                       (scan_rows_row / scan_rows_batch of C11, reads_ok of C18)
          slots_unfiltered_*           ... with the filter that keeps everything: exactly the slots
          scan_node_filter_agree_*     the consumer of Model/ScanProj.v (the scan's read loop with
                                       the WHERE filter over the slots) keeps the same pairs as the
                                       ScanIO scan node with [flt], when the filter does not fail
          mget_chunk_consumes_slots    one pass of Batch's inner loop with budget n: a multi-get
                                       issues one Get per slot, in slot order (empty = key absent)
          cursor_chunk_consumes_slots  a cursor scan: one Next per slot, plus the one Next that
                                       returns the pair that ends the scan (or nil)
     2. the final-plan nodes issue no storage call of their own
          select_calls_are_scan_calls  for EVERY final plan (projection / aggregate / order /
                                       limit, any nesting) over a scan node: the calls of
                                       BuildPlan + drain are those of the scan node ([reads_ok])
     3. SELECT from the text (Model/PipelineIO.v text_stmt)
          reads_within_region_text     C18 for the text
          select_text_read_only        C13 for the text
          proj_stmt_counts,            the statement runner of ScanIO and select_stmt_text return
          text_rows_count_proj         the same number of rows (projection shape; the other shapes
                                       are not related: ScanIO counts rows under oracles for the
                                       filter and the GROUP BY key) *)
From Coq Require Import List String Bool Arith Lia ZArith.
Import ListNotations.
From KV Require Import Base.Bytes Base.Ord Model.Value Model.Storage Model.ScanIO Model.FilterOpt Model.ScanSem
                       Model.ScanProj Model.SelectPlans Model.Pipeline Model.PipelineS Model.PipelineIO
                       Proofs.StorageProofs Proofs.ScanIOProofs Proofs.ScanIOFuel Proofs.ScanSemProofs.
From KV Require Proofs.ScanProjProofs Proofs.PipelineSProofs.

Local Open Scope list_scope.
Local Open Scope nat_scope.

(* ================================================================ 1. the slots *)

Lemma somes_map_some : forall (P : Type) (l : list P), somes (map (@Some P) l) = l.
Proof. induction l as [|x l IH]; cbn [map somes]; congruence. Qed.

Lemma take_until_take_while : forall sc d, take_until (scan_stop sc) d = take_while (inreg sc) d.
Proof.
  intros sc. induction d as [|kv d IH]; [reflexivity|]. cbn [take_until take_while]. unfold inreg at 1.
  destruct (scan_stop sc kv); cbn [negb]; [reflexivity|]. rewrite IH. reflexivity.
Qed.

Lemma somes_mget_slots : forall ks d,
  somes (map (fun k => match sget k d with Some v => Some (k, v) | None => None end) ks) = mget_rows ks d.
Proof.
  induction ks as [|k ks IH]; intros d; [reflexivity|]. rewrite mget_rows_cons. cbn [map].
  destruct (sget k d); cbn [somes app]; rewrite IH; reflexivity.
Qed.

(* the pairs among the slots are the pairs of the region the scan node reads, in store order *)
Lemma somes_scan_slots : forall sc d, ssorted d -> keys_ok (PScan sc) ->
  somes (scan_slots sc d) = filter (fun kv => covers (region_of sc) (fst kv)) d.
Proof.
  intros sc d S K. destruct sc as [| |p|lo hi|ks]; cbn [scan_slots].
  - cbn [somes region_of covers]. symmetry. apply filter_all_false. reflexivity.
  - rewrite somes_map_some, seek_from_empty. cbn [region_of covers]. symmetry. apply filter_all_true. reflexivity.
  - rewrite somes_map_some, take_until_take_while. exact (init_take_while (SPrefix p) d S eq_refl).
  - rewrite somes_map_some, take_until_take_while.
    pose proof (init_take_while (SRange lo hi) d S eq_refl) as T. cbn beta iota in T.
    destruct lo; exact T.
  - rewrite somes_mget_slots. cbn [region_of covers]. apply mget_rows_filter; [exact S|exact K].
Qed.

(* BuildPlan (two Init calls) and Next until nil over the scan node of Model/ScanIO.v, from the
   fault-free state: the rows are the slots' pairs that pass the node's filter, in slot order;
   the reads are C18's *)
Theorem slots_scan_rows_row_lemma :
  forall (flt : kvp -> bool) (fuel : nat) (sc : scan) (d : store) (l0 : list scall),
  ssorted d -> keys_ok (PScan sc) -> List.length d + plan_keys (PScan sc) < fuel ->
  exists l, run_read (select_rows true flt fuel (PScan sc)) (SState d l0 None)
            = (Ok (filter flt (somes (scan_slots sc d))), SState d (l0 ++ l) None)
            /\ reads_ok sc l.
Proof.
  intros flt fuel sc d l0 S K Hf.
  destruct (@scan_rows_row_lemma flt fuel (PScan sc) d l0 S K Hf) as [l [E R]].
  exists l. split; [|exact R]. rewrite E. cbn [Rsel]. rewrite somes_scan_slots by assumption. reflexivity.
Qed.

(* ... and Batch until the empty batch, at every batch size: the batches are non-empty and
   concatenate to the same list *)
Theorem slots_scan_rows_batch_lemma :
  forall (flt : kvp -> bool) (B fuel : nat) (sc : scan) (d : store) (l0 : list scall),
  1 <= B -> ssorted d -> keys_ok (PScan sc) -> List.length d + plan_keys (PScan sc) < fuel ->
  exists outs l, run_read (select_batches true flt B fuel (PScan sc)) (SState d l0 None)
                 = (Ok outs, SState d (l0 ++ l) None)
                 /\ List.concat outs = filter flt (somes (scan_slots sc d))
                 /\ Forall (@ScanSemProofs.nonempty kvp) outs
                 /\ reads_ok sc l.
Proof.
  intros flt B fuel sc d l0 HB S K Hf.
  destruct (@scan_rows_batch_lemma flt B fuel (PScan sc) d l0 HB S K Hf) as [outs [l [E [C [N R]]]]].
  exists outs, l. split; [exact E|]. split; [|split; assumption].
  rewrite C. cbn [Rsel]. rewrite somes_scan_slots by assumption. reflexivity.
Qed.

(* the scan node of a region, as FilterOptimizer.Optimize builds it *)
Corollary slots_of_region_row_lemma :
  forall (flt : kvp -> bool) (fuel : nat) (r : region) (d : store),
  ssorted d -> List.length d + plan_keys (PScan (scan_of_region r)) < fuel ->
  exists l, run_read (select_rows true flt fuel (PScan (scan_of_region r))) (sinit d None)
            = (Ok (filter flt (somes (scan_slots (scan_of_region r) d))), SState d l None)
            /\ reads_ok (scan_of_region r) l.
Proof.
  intros flt fuel r d S Hf.
  exact (@slots_scan_rows_row_lemma flt fuel (scan_of_region r) d [] S (keys_ok_scan_of_region r) Hf).
Qed.

Corollary slots_of_region_batch_lemma :
  forall (flt : kvp -> bool) (B fuel : nat) (r : region) (d : store),
  1 <= B -> ssorted d -> List.length d + plan_keys (PScan (scan_of_region r)) < fuel ->
  exists outs l, run_read (select_batches true flt B fuel (PScan (scan_of_region r))) (sinit d None)
                 = (Ok outs, SState d l None)
                 /\ List.concat outs = filter flt (somes (scan_slots (scan_of_region r) d))
                 /\ Forall (@ScanSemProofs.nonempty kvp) outs
                 /\ reads_ok (scan_of_region r) l.
Proof.
  intros flt B fuel r d HB S Hf.
  exact (@slots_scan_rows_batch_lemma flt B fuel (scan_of_region r) d [] HB S (keys_ok_scan_of_region r) Hf).
Qed.

(* with the filter that keeps every pair the scan node yields exactly the slots' pairs *)
Lemma filter_true : forall (A : Type) (l : list A), filter (fun _ => true) l = l.
Proof. intros A l. apply filter_all_true. reflexivity. Qed.

Corollary slots_unfiltered_row_lemma :
  forall (fuel : nat) (r : region) (d : store),
  ssorted d -> List.length d + plan_keys (PScan (scan_of_region r)) < fuel ->
  exists l, run_read (select_rows true (fun _ => true) fuel (PScan (scan_of_region r))) (sinit d None)
            = (Ok (somes (scan_slots (scan_of_region r) d)), SState d l None)
            /\ reads_ok (scan_of_region r) l.
Proof.
  intros fuel r d S Hf. destruct (@slots_of_region_row_lemma (fun _ => true) fuel r d S Hf) as [l [E R]].
  exists l. rewrite filter_true in E. auto.
Qed.

Corollary slots_unfiltered_batch_lemma :
  forall (B fuel : nat) (r : region) (d : store),
  1 <= B -> ssorted d -> List.length d + plan_keys (PScan (scan_of_region r)) < fuel ->
  exists outs l, run_read (select_batches true (fun _ => true) B fuel (PScan (scan_of_region r))) (sinit d None)
                 = (Ok outs, SState d l None)
                 /\ List.concat outs = somes (scan_slots (scan_of_region r) d)
                 /\ Forall (@ScanSemProofs.nonempty kvp) outs
                 /\ reads_ok (scan_of_region r) l.
Proof.
  intros B fuel r d HB S Hf.
  destruct (@slots_of_region_batch_lemma (fun _ => true) B fuel r d HB S Hf) as [outs [l [E [C R]]]].
  exists outs, l. rewrite filter_true in C. auto.
Qed.

(* ================================================================ 2. the final-plan nodes issue no
   storage call of their own: the log of BuildPlan + drain of ANY final plan is a log of its scan
   node.  Log-only versions of the invariants of Proofs/ScanSemProofs.v (the state of the scan
   node stays well-formed, every run of calls is one the scan node may issue and the keys its
   cursor returns are the next ones it had to return: [lstep]), carried through the limit code,
   the aggregate's prepare loops, the order node's prepare loops and the caller's loop. *)

Fixpoint fchild (fp : fplan) : plan :=
  match fp with
  | FProj c => c
  | FAggr c _ _ _ => c
  | FOrder c => fchild c
  | FLimit _ _ c => fchild c
  end.

(* the scan node of a final plan *)
Definition fleaf (fp : fplan) : scan := leaf (fchild fp).

(* the state of the kvql.Plan under the final-plan nodes *)
Fixpoint fpst (fp : fplan) (st : fstate) : pstate :=
  match fp, st with
  | FProj _, FSProj cst => cst
  | FAggr _ _ _ _, FSAggr cst _ _ _ _ _ => cst
  | FOrder c, FSOrder cst _ _ => fpst c cst
  | FLimit _ _ c, FSLimit _ _ cst => fpst c cst
  | _, _ => PSScan None 0 false
  end.

Fixpoint fshape (fp : fplan) (st : fstate) : Prop :=
  match fp, st with
  | FProj _, FSProj _ => True
  | FAggr _ _ _ _, FSAggr _ _ _ _ _ _ => True
  | FOrder c, FSOrder cst _ _ => fshape c cst
  | FLimit _ _ c, FSLimit _ _ cst => fshape c cst
  | _, _ => False
  end.

Definition fwf (fp : fplan) (st : fstate) : Prop := fshape fp st /\ wfst (fchild fp) (fpst fp st).
Definition fstep (fp : fplan) (a : fstate) (l : list scall) (b : fstate) : Prop :=
  lstep (fchild fp) (fpst fp a) l (fpst fp b).

Lemma fstep_refl : forall fp s, fstep fp s [] s.
Proof. intros. apply lstep_refl. Qed.
Lemma fstep_trans : forall fp a l1 b l2 c, fstep fp a l1 b -> fstep fp b l2 c -> fstep fp a (l1 ++ l2) c.
Proof. intros fp a l1 b l2 c. apply lstep_trans. Qed.

Section LogOnly.
Variable d : store.

(* ---------------------------------------------------------------- the limit code and the prepare
   loops over any child: they issue the child's calls and nothing else *)
Section Generic.
Variables (X St : Type).
Variable child_next : St -> rprog (option X * St).
Variable child_batch : St -> rprog (list X * St).
Variables (B fuel : nat).
Variable wfc : St -> Prop.
Variable step : St -> list scall -> St -> Prop.
Hypothesis step_refl : forall s, step s [] s.
Hypothesis step_trans : forall a l1 b l2 c, step a l1 b -> step b l2 c -> step a (l1 ++ l2) c.

Definition next_log_ok : Prop := forall cs, wfc cs ->
  rspec (child_next cs) d (fun x l => wfc (snd x) /\ step cs l (snd x)).
Definition batch_log_ok : Prop := forall cs, wfc cs ->
  rspec (child_batch cs) d (fun x l => wfc (snd x) /\ step cs l (snd x)).

Lemma limit_skip_rows_log : next_log_ok -> forall f start skips cs, wfc cs ->
  rspec (limit_skip_rows child_next f start skips cs) d (fun x l => wfc (snd x) /\ step cs l (snd x)).
Proof.
  intros Hn. induction f as [|f IH]; intros start skips cs W; cbn [limit_skip_rows];
    destruct (skips <? start); try (cbn [rspec snd]; auto; fail).
  apply rspec_bind. eapply rspec_mono; [|apply Hn; exact W]. cbn beta.
  intros [r cs'] l [W' S']. cbn [fst snd] in *. destruct r as [x|].
  - eapply rspec_mono; [|apply IH; exact W']. cbn beta. intros y l2 [W2 S2]. split; [exact W2|].
    eapply step_trans; eassumption.
  - cbn [rspec snd]. rewrite app_nil_r. auto.
Qed.

Lemma limit_next_log : next_log_ok -> forall start count skips current cs, wfc cs ->
  rspec (limit_next fuel child_next start count skips current cs) d
        (fun x l => wfc (snd (snd x)) /\ step cs l (snd (snd x))).
Proof.
  intros Hn start count skips current cs W. unfold limit_next.
  apply rspec_bind. eapply rspec_mono; [|apply limit_skip_rows_log; [exact Hn|exact W]]. cbn beta.
  intros [[ok sk'] cs'] l [W' S']. cbn [fst snd] in *.
  destruct (negb ok); [cbn [rspec snd]; rewrite app_nil_r; auto|].
  destruct (count <=? current); [cbn [rspec snd]; rewrite app_nil_r; auto|].
  apply rspec_bind. eapply rspec_mono; [|apply Hn; exact W']. cbn beta.
  intros [r cs''] l2 [W2 S2]. cbn [fst snd] in *.
  destruct r; cbn [rspec snd]; rewrite app_nil_r; (split; [exact W2|eapply step_trans; eassumption]).
Qed.

Lemma limit_skip_batches_log : batch_log_ok -> forall f start skips cs, wfc cs ->
  rspec (limit_skip_batches child_batch f start skips cs) d (fun x l => wfc (snd x) /\ step cs l (snd x)).
Proof.
  intros Hb. induction f as [|f IH]; intros start skips cs W; cbn [limit_skip_batches];
    destruct (skips <? start); try (cbn [rspec snd]; auto; fail).
  apply rspec_bind. eapply rspec_mono; [|apply Hb; exact W]. cbn beta.
  intros [rows cs'] l [W' S']. cbn [fst snd] in *.
  destruct (List.length rows =? 0); [cbn [rspec snd]; rewrite app_nil_r; auto|].
  destruct (List.length rows <=? start - skips).
  - eapply rspec_mono; [|apply IH; exact W']. cbn beta. intros y l2 [W2 S2]. split; [exact W2|].
    eapply step_trans; eassumption.
  - cbn [rspec snd]. rewrite app_nil_r. auto.
Qed.

Lemma limit_fill_log : batch_log_ok -> forall f count current ret cs, wfc cs ->
  rspec (limit_fill B child_batch f count current ret cs) d (fun x l => wfc (snd x) /\ step cs l (snd x)).
Proof.
  intros Hb. induction f as [|f IH]; intros count current ret cs W; cbn [limit_fill]; [reflexivity|].
  apply rspec_bind. eapply rspec_mono; [|apply Hb; exact W]. cbn beta.
  intros [rows cs'] l [W' S']. cbn [fst snd] in *.
  destruct rows as [|r0 rows]; [cbn [rspec snd]; rewrite app_nil_r; auto|].
  match goal with |- rspec (if ?c then _ else _) _ _ => destruct c end;
    [cbn [rspec snd]; rewrite app_nil_r; auto|].
  match goal with |- rspec (if ?c then _ else _) _ _ => destruct c end;
    [cbn [rspec snd]; rewrite app_nil_r; auto|].
  eapply rspec_mono; [|apply IH; exact W']. cbn beta. intros y l2 [W2 S2]. split; [exact W2|].
  eapply step_trans; eassumption.
Qed.

Lemma limit_batch_log : batch_log_ok -> forall start count skips current cs, wfc cs ->
  rspec (limit_batch B fuel child_batch start count skips current cs) d
        (fun x l => wfc (snd (snd x)) /\ step cs l (snd (snd x))).
Proof.
  intros Hb start count skips current cs W. unfold limit_batch.
  apply rspec_bind. eapply rspec_mono; [|apply limit_skip_batches_log; [exact Hb|exact W]]. cbn beta.
  intros [[orows sk'] cs'] l [W' S']. cbn [fst snd] in *.
  destruct orows as [rows|]; [|cbn [rspec snd]; rewrite app_nil_r; auto].
  match goal with |- rspec (if ?c then _ else _) _ _ => destruct c end;
    [cbn [rspec snd]; rewrite app_nil_r; auto|].
  apply rspec_bind. eapply rspec_mono; [|apply limit_fill_log; [exact Hb|exact W']]. cbn beta.
  intros [[ret cur''] cs''] l2 [W2 S2]. cbn [fst snd rspec] in *. rewrite app_nil_r.
  split; [exact W2|eapply step_trans; eassumption].
Qed.

End Generic.
Arguments next_log_ok {X St} child_next wfc step.
Arguments batch_log_ok {X St} child_batch wfc step.

(* FinalOrderPlan.prepare / prepareBatch over any child *)
Section OrderLog.
Variable St : Type.
Variable child_next : St -> rprog (option frow * St).
Variable child_batch : St -> rprog (list frow * St).
Variable wfc : St -> Prop.
Variable step : St -> list scall -> St -> Prop.
Hypothesis step_trans : forall a l1 b l2 c, step a l1 b -> step b l2 c -> step a (l1 ++ l2) c.

Lemma order_prepare_log : next_log_ok child_next wfc step -> forall f cs total, wfc cs ->
  rspec (order_prepare child_next f cs total) d (fun x l => wfc (fst x) /\ step cs l (fst x)).
Proof.
  intros Hn. induction f as [|f IH]; intros cs total W; cbn [order_prepare]; [reflexivity|].
  apply rspec_bind. eapply rspec_mono; [|apply Hn; exact W]. cbn beta.
  intros [r cs'] l [W' S']. cbn [fst snd] in *. destruct r as [x|].
  - eapply rspec_mono; [|apply IH; exact W']. cbn beta. intros y l2 [W2 S2]. split; [exact W2|].
    eapply step_trans; eassumption.
  - cbn [rspec fst]. rewrite app_nil_r. auto.
Qed.

Lemma order_prepare_batch_log : batch_log_ok child_batch wfc step -> forall f cs total, wfc cs ->
  rspec (order_prepare_batch child_batch f cs total) d (fun x l => wfc (fst x) /\ step cs l (fst x)).
Proof.
  intros Hb. induction f as [|f IH]; intros cs total W; cbn [order_prepare_batch]; [reflexivity|].
  apply rspec_bind. eapply rspec_mono; [|apply Hb; exact W]. cbn beta.
  intros [rows cs'] l [W' S']. cbn [fst snd] in *. destruct rows as [|r0 rows].
  - cbn [rspec fst]. rewrite app_nil_r. auto.
  - eapply rspec_mono; [|apply IH; exact W']. cbn beta. intros y l2 [W2 S2]. split; [exact W2|].
    eapply step_trans; eassumption.
Qed.
End OrderLog.

Section Nodes.
Variable flt : kvp -> bool.
Variable gkey : kvp -> bytes.
Variables (B fuel : nat).
Hypothesis HB : 1 <= B.

(* AggregatePlan.prepare / prepareBatch: the calls of the child plan *)
Lemma aggr_prepare_log : forall f c all cst groups, wfst c cst ->
  rspec (aggr_prepare true flt gkey fuel f c all cst groups) d
        (fun x l => wfst c (fst x) /\ lstep c cst l (fst x)).
Proof.
  induction f as [|f IH]; intros c all cst groups W; cbn [aggr_prepare]; [reflexivity|].
  apply rspec_bind. eapply rspec_mono; [|apply (plan_next_sem flt fuel HB); exact W]. cbn beta.
  intros [r cst'] l [W' [S' _]]. cbn [fst snd] in *. destruct r as [kv|].
  - eapply rspec_mono; [|apply IH; exact W']. cbn beta. intros y l2 [W2 S2]. split; [exact W2|].
    eapply lstep_trans; eassumption.
  - cbn [rspec fst]. rewrite app_nil_r. auto.
Qed.

Lemma aggr_prepare_batch_log : forall f c all cst groups, wfst c cst ->
  rspec (aggr_prepare_batch true flt gkey B fuel f c all cst groups) d
        (fun x l => wfst c (fst x) /\ lstep c cst l (fst x)).
Proof.
  induction f as [|f IH]; intros c all cst groups W; cbn [aggr_prepare_batch]; [reflexivity|].
  apply rspec_bind. eapply rspec_mono; [|apply (plan_batch_sem flt fuel HB); exact W]. cbn beta.
  intros [rows cst'] l [W' [S' _]]. cbn [fst snd] in *. destruct rows as [|r0 rows].
  - cbn [rspec fst]. rewrite app_nil_r. auto.
  - eapply rspec_mono; [|apply IH; exact W']. cbn beta. intros y l2 [W2 S2]. split; [exact W2|].
    eapply lstep_trans; eassumption.
Qed.

(* serving the prepared group rows: no storage call *)
Definition mem_step (a : nat) (l : list scall) (b : nat) : Prop := l = [].

Lemma mem_step_trans : forall a l1 b l2 c, mem_step a l1 b -> mem_step b l2 c -> mem_step a (l1 ++ l2) c.
Proof. unfold mem_step. intros a l1 b l2 c -> ->. reflexivity. Qed.

Lemma aggr_mem_next_log : forall ng, next_log_ok (aggr_mem_next ng) (fun _ => True) mem_step.
Proof.
  intros ng pos _. unfold aggr_mem_next. destruct (ng <=? pos); cbn [rspec]; split; auto; reflexivity.
Qed.

Lemma aggr_mem_batch_log : forall ng, batch_log_ok (aggr_mem_batch B ng) (fun _ => True) mem_step.
Proof.
  intros ng pos _. unfold aggr_mem_batch. destruct (ng <=? pos); cbn [rspec]; split; auto; reflexivity.
Qed.

(* FinalPlan.Next *)
Lemma f_next_log : forall fp st, fwf fp st ->
  rspec (f_next true flt gkey fuel fp st) d (fun x l => fwf fp (snd x) /\ fstep fp st l (snd x)).
Proof.
  induction fp as [c|c all start limit|c IH|start count c IH]; intros st [Sh W];
    destruct st as [cst|cst prepared groups pos sk cur|cst total pos|sk cur cst];
    try (destruct Sh; fail); cbn [f_next fshape fchild fpst] in *.
  - apply rspec_bind. eapply rspec_mono; [|apply (plan_next_sem flt fuel HB); exact W]. cbn beta.
    intros [r cst'] l [W' [S' _]]. cbn [fst snd rspec] in *. rewrite app_nil_r.
    split; [split; [exact I|exact W']|exact S'].
  - apply rspec_bind.
    eapply rspec_mono with (Q := fun x l => wfst c (fst x) /\ lstep c cst l (fst x)).
    2:{ destruct prepared; [cbn [rspec fst]; split; [exact W|apply lstep_refl]|apply aggr_prepare_log; exact W]. }
    cbn beta. intros [cst1 groups1] l [W1 S1]. cbn [fst snd] in *.
    destruct limit as [count|].
    + apply rspec_bind.
      eapply rspec_mono; [|apply (@limit_next_log frow nat (aggr_mem_next (List.length groups1)) fuel
                                   (fun _ => True) mem_step (fun s => eq_refl) mem_step_trans
                                   (aggr_mem_next_log (List.length groups1)) start count sk cur pos I)].
      cbn beta. intros [r [[sk' cur'] pos']] l2 [_ E]. unfold mem_step in E. subst l2.
      cbn [rspec fst snd]. rewrite !app_nil_r. split; [split; [exact I|exact W1]|exact S1].
    + apply rspec_bind. eapply rspec_mono; [|apply (aggr_mem_next_log (List.length groups1) pos I)].
      cbn beta. intros [r pos'] l2 [_ E]. unfold mem_step in E. subst l2.
      cbn [rspec fst snd]. rewrite !app_nil_r. split; [split; [exact I|exact W1]|exact S1].
  - apply rspec_bind.
    eapply rspec_mono with (Q := fun x l => fwf c (fst x) /\ fstep c cst l (fst x)).
    2:{ destruct (total =? 0).
        - apply (@order_prepare_log fstate (f_next true flt gkey fuel c) (fwf c) (fstep c) (@fstep_trans c)).
          + intros cs Wc. apply IH. exact Wc.
          + split; assumption.
        - cbn [rspec fst]. split; [split; assumption|apply fstep_refl]. }
    cbn beta. intros [cst1 total1] l [[Sh1 W1] S1]. cbn [fst snd] in *.
    destruct (pos <? total1); cbn [rspec fst snd]; rewrite app_nil_r; (split; [split; assumption|exact S1]).
  - apply rspec_bind.
    eapply rspec_mono; [|apply (@limit_next_log frow fstate (f_next true flt gkey fuel c) fuel
                                 (fwf c) (fstep c) (@fstep_refl c) (@fstep_trans c))].
    + cbn beta. intros [r [[sk' cur'] cst']] l [[Sh1 W1] S1]. cbn [rspec fst snd] in *. rewrite app_nil_r.
      split; [split; assumption|exact S1].
    + intros cs Wc. apply IH. exact Wc.
    + split; assumption.
Qed.

(* FinalPlan.Batch *)
Lemma f_batch_log : forall fp st, fwf fp st ->
  rspec (f_batch true flt gkey B fuel fp st) d (fun x l => fwf fp (snd x) /\ fstep fp st l (snd x)).
Proof.
  induction fp as [c|c all start limit|c IH|start count c IH]; intros st [Sh W];
    destruct st as [cst|cst prepared groups pos sk cur|cst total pos|sk cur cst];
    try (destruct Sh; fail); cbn [f_batch fshape fchild fpst] in *.
  - apply rspec_bind. eapply rspec_mono; [|apply (plan_batch_sem flt fuel HB); exact W]. cbn beta.
    intros [rows cst'] l [W' [S' _]]. cbn [fst snd rspec] in *. rewrite app_nil_r.
    split; [split; [exact I|exact W']|exact S'].
  - apply rspec_bind.
    eapply rspec_mono with (Q := fun x l => wfst c (fst x) /\ lstep c cst l (fst x)).
    2:{ destruct prepared; [cbn [rspec fst]; split; [exact W|apply lstep_refl]|apply aggr_prepare_batch_log; exact W]. }
    cbn beta. intros [cst1 groups1] l [W1 S1]. cbn [fst snd] in *.
    destruct limit as [count|].
    + apply rspec_bind.
      eapply rspec_mono; [|apply (@limit_batch_log frow nat (aggr_mem_batch B (List.length groups1)) B fuel
                                   (fun _ => True) mem_step (fun s => eq_refl) mem_step_trans
                                   (aggr_mem_batch_log (List.length groups1)) start count sk cur pos I)].
      cbn beta. intros [rows [[sk' cur'] pos']] l2 [_ E]. unfold mem_step in E. subst l2.
      cbn [rspec fst snd]. rewrite !app_nil_r. split; [split; [exact I|exact W1]|exact S1].
    + apply rspec_bind. eapply rspec_mono; [|apply (aggr_mem_batch_log (List.length groups1) pos I)].
      cbn beta. intros [rows pos'] l2 [_ E]. unfold mem_step in E. subst l2.
      cbn [rspec fst snd]. rewrite !app_nil_r. split; [split; [exact I|exact W1]|exact S1].
  - apply rspec_bind.
    eapply rspec_mono with (Q := fun x l => fwf c (fst x) /\ fstep c cst l (fst x)).
    2:{ destruct (total =? 0).
        - apply (@order_prepare_batch_log fstate (f_batch true flt gkey B fuel c) (fwf c) (fstep c) (@fstep_trans c)).
          + intros cs Wc. apply IH. exact Wc.
          + split; assumption.
        - cbn [rspec fst]. split; [split; assumption|apply fstep_refl]. }
    cbn beta. intros [cst1 total1] l [[Sh1 W1] S1]. cbn [fst snd rspec] in *. rewrite app_nil_r.
    split; [split; assumption|exact S1].
  - apply rspec_bind.
    eapply rspec_mono; [|apply (@limit_batch_log frow fstate (f_batch true flt gkey B fuel c) B fuel
                                 (fwf c) (fstep c) (@fstep_refl c) (@fstep_trans c))].
    + cbn beta. intros [rows [[sk' cur'] cst']] l [[Sh1 W1] S1]. cbn [rspec fst snd] in *. rewrite app_nil_r.
      split; [split; assumption|exact S1].
    + intros cs Wc. apply IH. exact Wc.
    + split; assumption.
Qed.

(* the caller's loop *)
Lemma drain_log : forall f m fp st sizes, fwf fp st ->
  rspec (ScanIO.drain true flt gkey B fuel f m fp st sizes) d (fun _ l => exists st', fstep fp st l st').
Proof.
  induction f as [|f IH]; intros m fp st sizes W; cbn [ScanIO.drain]; [reflexivity|]. destruct m.
  - apply rspec_bind. eapply rspec_mono; [|apply f_next_log; exact W]. cbn beta.
    intros [r st'] l [W' S']. cbn [fst snd] in *. destruct r as [x|].
    + eapply rspec_mono; [|apply IH; exact W']. cbn beta. intros y l2 [st'' S2].
      exists st''. eapply fstep_trans; eassumption.
    + cbn [rspec]. rewrite app_nil_r. exists st'. exact S'.
  - apply rspec_bind. eapply rspec_mono; [|apply f_batch_log; exact W]. cbn beta.
    intros [rows st'] l [W' S']. cbn [fst snd] in *. destruct rows as [|r0 rows].
    + cbn [rspec]. rewrite app_nil_r. exists st'. exact S'.
    + eapply rspec_mono; [|apply IH; exact W']. cbn beta. intros y l2 [st'' S2].
      exists st''. eapply fstep_trans; eassumption.
Qed.

End Nodes.

(* FinalPlan.Init: whatever Init of the plan underneath does, and nothing else *)
Lemma f_init_lift : forall fp st (Q : pstate -> list scall -> Prop), fshape fp st ->
  rspec (plan_init (fchild fp) (fpst fp st)) d Q ->
  rspec (f_init fp st) d (fun st' l => fshape fp st' /\ Q (fpst fp st') l).
Proof.
  induction fp as [c|c all start limit|c IH|start count c IH]; intros st Q Sh H;
    destruct st as [cst|cst prepared groups pos sk cur|cst total pos|sk cur cst];
    try (destruct Sh; fail); cbn [f_init fshape fchild fpst] in *.
  - apply rspec_bind. eapply rspec_mono; [|exact H]. cbn beta. intros cst' l HQ.
    cbn [rspec fshape fpst]. rewrite app_nil_r. auto.
  - apply rspec_bind. eapply rspec_mono; [|exact H]. cbn beta. intros cst' l HQ.
    cbn [rspec fshape fpst]. rewrite app_nil_r. auto.
  - apply rspec_bind. eapply rspec_mono; [|apply IH; [exact Sh|exact H]]. cbn beta. intros cst' l [Sh' HQ].
    cbn [rspec fshape fpst]. rewrite app_nil_r. auto.
  - apply rspec_bind. eapply rspec_mono; [|apply IH; [exact Sh|exact H]]. cbn beta. intros cst' l [Sh' HQ].
    cbn [rspec fshape fpst]. rewrite app_nil_r. auto.
Qed.

Lemma fshape_fstate0 : forall fp, fshape fp (fstate0 fp).
Proof. induction fp; cbn [fshape fstate0]; auto. Qed.

Lemma fpst_fstate0 : forall fp, fpst fp (fstate0 fp) = pstate0 (fchild fp).
Proof. induction fp; cbn [fpst fstate0 fchild]; auto. Qed.

(* BuildPlan: buildSelectPlan Init()s the final plan, BuildPlan Init()s it again *)
Lemma select_build_log : forall fp, ssorted d -> keys_ok (fchild fp) ->
  rspec (select_build fp) d (fun st' l =>
    fwf fp st' /\ forallb is_init_call l = true /\
    (is_cursor_scan (fleaf fp) = false -> l = []) /\
    (is_cursor_scan (fleaf fp) = true ->
       exists rest, pend (fchild fp) (fpst fp st') = map fst (to_read (fleaf fp) rest) /\
                    take_while (inreg (fleaf fp)) rest
                    = filter (fun kv => covers (region_of (fleaf fp)) (fst kv)) d)).
Proof.
  intros fp S K. unfold select_build, fleaf. apply rspec_bind.
  eapply rspec_mono; [|apply f_init_lift; [apply fshape_fstate0|]].
  2:{ rewrite fpst_fstate0. apply (@plan_init_sem (fun _ => true)); [exact S|apply fresh_pstate0; exact K]. }
  cbn beta. intros st1 l1 [Sh1 [_ [F1 [I1 [J1 _]]]]].
  eapply rspec_mono; [|apply f_init_lift; [exact Sh1|apply (@plan_init_sem (fun _ => true)); [exact S|exact F1]]].
  cbn beta. intros st2 l2 [Sh2 [W [_ [I2 [J2 [_ [_ HP]]]]]]].
  split; [split; assumption|]. split; [rewrite forallb_app, I1, I2; reflexivity|].
  split; [intros E; rewrite (J1 E), (J2 E); reflexivity|exact HP].
Qed.

(* BuildPlan + drain of a final plan: every call is one of its scan node, inside the region *)
Lemma select_prog_log : forall flt gkey B fuel m fp, 1 <= B -> ssorted d -> keys_ok (fchild fp) ->
  rspec (select_prog true flt gkey B fuel m fp) d (fun _ l => reads_ok (fleaf fp) l).
Proof.
  intros flt gkey B fuel m fp HB S K. unfold select_prog. apply rspec_bind.
  eapply rspec_mono; [|apply select_build_log; assumption]. cbn beta.
  intros st0 l0 [W [I0 [J0 HP]]].
  eapply rspec_mono; [|apply (drain_log flt gkey B fuel HB); exact W]. cbn beta.
  intros sizes l1 [st1 S1]. unfold fleaf in *. eapply drained_reads_ok; eassumption.
Qed.

End LogOnly.

(* THE STORAGE CALLS OF A SELECT ARE THOSE OF ITS SCAN NODE.  For every final plan [fp] (any
   nesting of projection / aggregate with or without pushed-down limit / order / limit nodes over
   a kvql.Plan), every filter and grouping oracle, both modes, every batch size >= 1, every
   strictly sorted store: ScanIO.run_stmt -- BuildPlan (two Init calls) and the caller's loop --
   completes, leaves the data alone, and the calls it logs are [reads_ok] for the scan node:
   none for an EmptyResultPlan, Get calls on listed keys for a MultiGetPlan, Cursor / Seek / Next
   calls whose returned keys lie in the region except at most the last one otherwise. *)
Theorem select_calls_are_scan_calls_lemma :
  forall (flt : kvp -> bool) (gkey : kvp -> bytes) (B fuel : nat) (m : mode) (fp : fplan)
         (d : store) (l0 : list scall),
  1 <= B -> ssorted d -> keys_ok (fchild fp) -> List.length d + fplan_keys fp < fuel ->
  exists sizes l, ScanIO.run_stmt true flt gkey B fuel m (StSelect fp) (SState d l0 None)
                  = (Ok sizes, SState d (l0 ++ l) None)
                  /\ reads_ok (fleaf fp) l.
Proof.
  intros flt gkey B fuel m fp d l0 HB S K Hf.
  destruct (@rspec_total (List.length d) _ (select_prog true flt gkey B fuel m fp) d
              (fun _ l => reads_ok (fleaf fp) l) l0) as [sizes [l [E R]]].
  - apply select_prog_log; assumption.
  - apply select_prog_spec; [exact HB|]. pose proof (bound_fplan_le (List.length d) fp). lia.
  - lia.
  - exists sizes, l. split; [exact E|exact R].
Qed.

(* ================================================================ 3. SELECT from the text *)

(* where the reads of a region fall, said on the region itself *)
Definition reads_in_region (r : region) (l : list scall) : Prop :=
  match r with
  | REmpty => l = []
  | RMget ks => Forall (is_get_of ks) l
  | _ => forallb is_cursor_call l = true /\ reads_in r l
  end.

Lemma reads_ok_region : forall r l, reads_ok (scan_of_region r) l -> reads_in_region r l.
Proof.
  intros [|ks|p|lo hi|] l H; cbn [scan_of_region reads_ok reads_in_region region_of] in *; try exact H.
  eapply Forall_impl; [|exact H]. intros c [k [-> Hin]]. exists k. split; [reflexivity|].
  apply mget_keys_in. exact Hin.
Qed.

Lemma fchild_of_shape : forall sc all sh, fchild (fplan_of_shape sc all sh) = PScan sc.
Proof. intros sc all. induction sh; cbn [fplan_of_shape fchild]; auto. Qed.

Lemma fplan_keys_of_shape : forall sc all sh, fplan_keys (fplan_of_shape sc all sh) = plan_keys (PScan sc).
Proof. intros sc all. induction sh; cbn [fplan_of_shape fplan_keys]; auto. Qed.

Section Text.
Variable fo : fops.
Variable re : bytes -> bytes -> Value.res bool.
Variable fmt_v : F fo -> string.

Notation plan_stmt_text := (plan_stmt_text fo re fmt_v).
Notation text_stmt := (text_stmt fo re fmt_v).
Notation exec_of := (exec_of fo re fmt_v).

(* the region buildScanPlan infers for an accepted text: from the FOLDED, checked WHERE tree *)
Definition text_region (pl : splanned fo) : region := FilterOpt.optimize (exec_of (sp_where fo pl)).

Lemma text_scan : forall q pl, plan_stmt_text q = STOk pl -> sp_scan fo pl = scan_of_region (text_region pl).
Proof.
  intros q pl E. destruct (PipelineSProofs.plan_stmt_text_inv fo re fmt_v q pl E) as (_ & Ew & Es & _).
  unfold text_region. rewrite <- Ew. exact Es.
Qed.

Lemma text_fleaf : forall pl, fleaf (text_fplan fo pl) = sp_scan fo pl.
Proof. intros pl. unfold fleaf, text_fplan. rewrite fchild_of_shape. reflexivity. Qed.

(* C18 for the text.  An accepted SELECT text, run by ScanIO's statement runner on a strictly
   sorted store from the fault-free state, in either mode, at any batch size >= 1, under any
   filter and grouping oracle: the run completes, the data is unchanged, and the calls logged
   are those of the scan node of the region inferred from the folded WHERE tree -- no call for
   REmpty, Get calls on the listed keys for RMget, Cursor / Seek / Next calls whose returned keys
   lie in the region except at most the last one (the one end key) otherwise.  The projection,
   aggregate, order and limit nodes above the scan add no call. *)
Theorem reads_within_region_text_lemma :
  forall (flt : kvp -> bool) (gkey : kvp -> bytes) (B fuel : nat) (m : mode)
         (q : string) (pl : splanned fo) (d : store) (l0 : list scall),
  plan_stmt_text q = STOk pl ->
  1 <= B -> ssorted d -> List.length d + plan_keys (PScan (sp_scan fo pl)) < fuel ->
  text_stmt q = Some (StSelect (text_fplan fo pl)) /\
  exists sizes l, ScanIO.run_stmt true flt gkey B fuel m (StSelect (text_fplan fo pl)) (SState d l0 None)
                  = (Ok sizes, SState d (l0 ++ l) None)
                  /\ reads_ok (sp_scan fo pl) l
                  /\ reads_in_region (text_region pl) l.
Proof.
  intros flt gkey B fuel m q pl d l0 E HB S Hf.
  split; [unfold PipelineIO.text_stmt; rewrite E; reflexivity|].
  pose proof (text_scan q pl E) as Es.
  destruct (@select_calls_are_scan_calls_lemma flt gkey B fuel m (text_fplan fo pl) d l0 HB S)
    as [sizes [l [R1 R2]]].
  - unfold text_fplan. rewrite fchild_of_shape, Es. apply keys_ok_scan_of_region.
  - unfold text_fplan. rewrite fplan_keys_of_shape. exact Hf.
  - exists sizes, l. rewrite text_fleaf in R2. split; [exact R1|]. split; [exact R2|].
    apply reads_ok_region. rewrite <- Es. exact R2.
Qed.

(* C13 for the text.  Whatever statement a text in the model is (an accepted SELECT, or a text
   BuildPlan rejects), from ANY storage state (any data, any earlier log, any fault index), with
   or without the scans' done flag: the data is unchanged and every call logged is Get / Cursor
   / Seek / Next; a rejected text makes no call at all. *)
Theorem select_text_read_only_lemma :
  forall (remember_end : bool) (flt : kvp -> bool) (gkey : kvp -> bytes) (B fuel : nat) (m : mode)
         (q : string) (s : ScanIO.stmt) (st : sstate),
  text_stmt q = Some s ->
  let out := ScanIO.run_stmt remember_end flt gkey B fuel m s st in
  sdata (snd out) = sdata st /\
  exists ext, slog (snd out) = slog st ++ ext /\ read_only ext = true.
Proof.
  intros remember_end flt gkey B fuel m q s st E.
  assert (Hs : (exists fp, s = StSelect fp) \/ s = StRejected).
  { unfold PipelineIO.text_stmt in E. destruct (plan_stmt_text q); try discriminate; injection E as <-; eauto. }
  destruct Hs as [[fp ->]| ->].
  - apply select_read_only_lemma.
  - cbv zeta. rewrite rejected_no_call_lemma. cbn [snd]. split; [reflexivity|].
    exists []. rewrite app_nil_r. split; reflexivity.
Qed.

Theorem rejected_text_no_call_lemma :
  forall (remember_end : bool) (flt : kvp -> bool) (gkey : kvp -> bytes) (B fuel : nat) (m : mode)
         (q : string) (z : Z) (st : sstate),
  plan_stmt_text q = STReject z ->
  text_stmt q = Some StRejected /\
  ScanIO.run_stmt remember_end flt gkey B fuel m StRejected st = (Err ESyntax, st).
Proof.
  intros remember_end flt gkey B fuel m q z st E. split.
  - unfold PipelineIO.text_stmt. rewrite E. reflexivity.
  - apply rejected_no_call_lemma.
Qed.

End Text.

(* ================================================================ 1b. the read loop, slot by slot.
   Model/ScanProj.v cuts the slots into chunks: a pass of Batch's inner loop takes
   [firstn B slots], yields [somes] of them and reports the end iff fewer than B slots were left.
   The storage-level twins do exactly that: *)

(* MultiGetPlan.Batch, inner loop with budget n: one Get per slot, in slot order, the listed but
   absent keys (empty slots) included; the pairs appended are the non-empty slots *)
Lemma mget_chunk_consumes_slots_lemma : forall n keys idx acc d,
  rspec (mget_read_chunk n keys idx acc) d (fun x l =>
    x = (acc ++ somes (firstn n (scan_slots (SMget keys) d)), skipn n keys,
         idx + Nat.min n (List.length keys), List.length keys <? n)
    /\ l = map CGet (firstn n keys)).
Proof.
  induction n as [|n IH]; intros keys idx acc d; cbn [mget_read_chunk].
  - cbn [rspec firstn somes skipn Nat.min map]. rewrite app_nil_r, Nat.add_0_r. split; reflexivity.
  - destruct keys as [|k keys].
    + cbn [rspec firstn scan_slots map somes skipn Nat.min List.length]. rewrite app_nil_r, Nat.add_0_r.
      split; reflexivity.
    + cbn [op_get bind rspec ranswer rentry].
      destruct (sget k d) as [v|] eqn:Ev.
      * eapply rspec_mono; [|apply IH]. cbn beta. intros x l [-> ->].
        cbn [scan_slots map firstn somes skipn List.length Nat.min]. rewrite Ev. cbn [somes].
        split; [|reflexivity]. rewrite <- app_assoc. cbn [app].
        replace (S idx + Nat.min n (List.length keys)) with (idx + S (Nat.min n (List.length keys))) by lia.
        reflexivity.
      * eapply rspec_mono; [|apply IH]. cbn beta. intros x l [-> ->].
        cbn [scan_slots map firstn somes skipn List.length Nat.min]. rewrite Ev. cbn [somes].
        split; [|reflexivity].
        replace (S idx + Nat.min n (List.length keys)) with (idx + S (Nat.min n (List.length keys))) by lia.
        reflexivity.
Qed.

(* Full / Prefix / RangeScanPlan.Batch, inner loop with budget n over a cursor positioned at
   [rest]: the slots are [take_until (scan_stop sc) rest]; the pass appends the next n of them,
   one Next each, and when fewer than n are left one more Next, which returns the pair that ends
   the scan (or nil) *)
Lemma cursor_chunk_consumes_slots_lemma : forall sc n snap rest acc d,
  rspec (cursor_read_chunk sc n snap rest acc) d (fun x l =>
    let sl := take_until (scan_stop sc) rest in
    fst (fst x) = acc ++ firstn n sl /\
    snd x = (List.length sl <? n) /\
    csnap (snd (fst x)) = snap /\
    (snd x = false -> crest (snd (fst x)) = skipn n rest) /\
    next_keys l = map fst (firstn n sl) ++
                  (if List.length sl <? n then map fst (firstn 1 (skipn (List.length sl) rest)) else [])).
Proof.
  intros sc. induction n as [|n IH]; intros snap rest acc d; cbn [cursor_read_chunk].
  - cbv zeta. cbn [rspec fst snd firstn skipn csnap crest map app]. rewrite app_nil_r.
    repeat split; reflexivity.
  - destruct rest as [|kv rest].
    + cbv zeta. cbn [op_next bind rspec ranswer rentry crest csnap snd fst take_until firstn List.length skipn map app].
      rewrite app_nil_r. repeat split; try reflexivity; try discriminate.
    + cbn [op_next bind rspec ranswer rentry crest csnap snd fst take_until].
      destruct (scan_stop sc kv) eqn:Es.
      * cbv zeta. cbn [rspec fst snd firstn List.length skipn map app csnap crest]. rewrite app_nil_r.
        repeat split; try reflexivity; try discriminate.
      * eapply rspec_mono; [|apply IH]. cbv zeta. cbn beta.
        intros [[chunk c'] fin] l (H1 & H2 & H3 & H4 & H5). cbn [fst snd] in *.
        cbn [firstn List.length skipn map app].
        split; [rewrite H1, <- app_assoc; reflexivity|].
        split; [exact H2|]. split; [exact H3|]. split; [exact H4|].
        unfold next_keys in *. cbn [flat_map app]. rewrite H5. reflexivity.
Qed.

(* ================================================================ 1c. the consumer of the slots.
   Every shape of select_stmt_text runs the scan's read loop WITH the WHERE filter over the
   slots (Model/ScanProj.v scan_next / scan_batch_loop, inside drain_row / drain_batch and the
   lazy drains); the storage-level scan node carries the filter as the oracle [flt].  When the
   filter does not fail on the stored pairs the two keep the same pairs. *)
Section Consumer.
Variable frow : kvp -> Value.res bool.
Variable fbatch : list kvp -> Value.res (list bool).
Variable flt : kvp -> bool.

Lemma row_list_filter : forall l, (forall kv, In kv l -> frow kv = Value.Ok (flt kv)) ->
  ScanProjProofs.row_list kvp kvp frow (fun kv => Value.Ok kv) l = Value.Ok (filter flt l).
Proof.
  induction l as [|kv l IH]; intros H; [reflexivity|]. cbn [ScanProjProofs.row_list filter].
  rewrite (H kv (or_introl eq_refl)). cbn [Value.bind].
  rewrite IH by (intros kv' Hin; apply H; right; exact Hin).
  destruct (flt kv); reflexivity.
Qed.

Lemma in_somes_scan_slots : forall sc d kv, ssorted d -> keys_ok (PScan sc) ->
  In kv (somes (scan_slots sc d)) -> In kv d.
Proof.
  intros sc d kv S K H. rewrite somes_scan_slots in H by assumption. apply filter_In in H. exact (proj1 H).
Qed.

Theorem scan_node_filter_agree_row_lemma : forall (fuel : nat) (sc : scan) (d : store),
  ssorted d -> keys_ok (PScan sc) -> List.length d + plan_keys (PScan sc) < fuel ->
  (forall kv, In kv d -> frow kv = Value.Ok (flt kv)) ->
  exists rows l,
    run_read (select_rows true flt fuel (PScan sc)) (sinit d None) = (Ok rows, SState d l None) /\
    ScanProj.drain_row frow (fun kv => Value.Ok kv) (scan_slots sc d) = Value.Ok rows /\
    reads_ok sc l.
Proof.
  intros fuel sc d S K Hf Hfl.
  destruct (@slots_scan_rows_row_lemma flt fuel sc d [] S K Hf) as [l [E R]].
  exists (filter flt (somes (scan_slots sc d))), l. split; [exact E|]. split; [|exact R].
  rewrite ScanProjProofs.drain_row_spec. apply row_list_filter.
  intros kv Hin. apply Hfl. eapply in_somes_scan_slots; eassumption.
Qed.

Lemma Forall2_eq : forall (A : Type) (a b : list A), Forall2 eq a b -> a = b.
Proof. intros A a b H. induction H; congruence. Qed.

Theorem scan_node_filter_agree_batch_lemma : forall (B fuel : nat) (sc : scan) (d : store) outs',
  1 <= B -> ssorted d -> keys_ok (PScan sc) -> List.length d + plan_keys (PScan sc) < fuel ->
  (forall kv, In kv d -> frow kv = Value.Ok (flt kv)) ->
  (forall c bs, fbatch c = Value.Ok bs -> Forall2 (fun kv b => frow kv = Value.Ok b) c bs) ->
  ScanProj.drain_batch fbatch (fun c => Value.Ok c) B (scan_slots sc d) = Value.Ok outs' ->
  exists outs l,
    run_read (select_batches true flt B fuel (PScan sc)) (sinit d None) = (Ok outs, SState d l None) /\
    List.concat outs = List.concat outs' /\
    reads_ok sc l.
Proof.
  intros B fuel sc d outs' HB S K Hf Hfl Hfb Hd.
  destruct (@slots_scan_rows_batch_lemma flt B fuel sc d [] HB S K Hf) as [outs [l [E [C [_ R]]]]].
  exists outs, l. split; [exact E|]. split; [|exact R].
  destruct (ScanProjProofs.scan_proj_batch_row kvp kvp frow fbatch (fun kv => Value.Ok kv) (fun c => Value.Ok c) eq
              Hfb) with (B := B) (rest := scan_slots sc d) (outs := outs') as [rows' [Er [F2 _]]].
  - intros c rs Ec. injection Ec as <-. clear. induction c as [|x c IH]; constructor; [|exact IH].
    exists x. auto.
  - exact HB.
  - exact Hd.
  - apply Forall2_eq in F2. rewrite <- F2, C.
    rewrite ScanProjProofs.drain_row_spec, row_list_filter in Er.
    + injection Er as <-. reflexivity.
    + intros kv Hin. apply Hfl. eapply in_somes_scan_slots; eassumption.
Qed.

End Consumer.

(* ================================================================ 3b. the rows ScanIO's statement
   runner counts and the rows of select_stmt_text: the projection shape *)

Section Counts.
Variable d : store.
Variable flt : kvp -> bool.
Variable gkey : kvp -> bytes.
Variables (B fuel : nat).
Hypothesis HB : 1 <= B.

(* Next until nil over ProjectionPlan(plan): one row per pair the plan still delivers *)
Lemma drain_count_row : forall f c st sizes, wfst c st ->
  rspec (ScanIO.drain true flt gkey B fuel f RowMode (FProj c) (FSProj st) sizes) d
        (fun out _ => out = sizes ++ repeat 1 (List.length (R flt c st d))).
Proof.
  induction f as [|f IH]; intros c st sizes W; cbn [ScanIO.drain f_next]; [reflexivity|].
  apply rspec_bind. apply rspec_bind.
  eapply rspec_mono; [|apply (plan_next_sem flt fuel HB); exact W]. cbn beta.
  intros [r st'] l [W' [_ [_ HR]]]. cbn [fst snd rspec] in *. destruct r as [kv|].
  - eapply rspec_mono; [|apply IH; exact W']. cbn beta. intros out l2 ->.
    rewrite HR. cbn [List.length repeat]. rewrite <- app_assoc. reflexivity.
  - cbn [rspec]. destruct HR as [HR _]. rewrite HR. cbn [List.length repeat]. rewrite app_nil_r. reflexivity.
Qed.

(* Batch until the empty batch: the sizes add up to the same number, none is zero *)
Lemma drain_count_batch : forall f c st sizes, wfst c st ->
  rspec (ScanIO.drain true flt gkey B fuel f BatchMode (FProj c) (FSProj st) sizes) d
        (fun out _ => exists more, out = sizes ++ more /\ list_sum more = List.length (R flt c st d) /\
                                   Forall (fun n => 1 <= n) more).
Proof.
  induction f as [|f IH]; intros c st sizes W; cbn [ScanIO.drain f_batch]; [reflexivity|].
  apply rspec_bind. apply rspec_bind.
  eapply rspec_mono; [|apply (plan_batch_sem flt fuel HB); exact W]. cbn beta.
  intros [rows st'] l [W' [_ [_ [HR HE]]]]. cbn [fst snd rspec] in *. destruct rows as [|r0 rows].
  - cbn [List.length frows repeat rspec]. rewrite HR, (HE eq_refl). exists []. rewrite app_nil_r.
    repeat split; constructor.
  - cbn [List.length frows repeat]. eapply rspec_mono; [|apply IH; exact W']. cbn beta.
    intros out l2 [more [-> [Hs Hp]]]. exists (S (List.length (repeat tt (List.length rows))) :: more).
    split; [rewrite <- app_assoc; reflexivity|]. split.
    + change (S (List.length (repeat tt (List.length rows))) + list_sum more = List.length (R flt c st d)).
      rewrite Hs, HR, repeat_length, app_length. cbn [List.length]. lia.
    + constructor; [lia|exact Hp].
Qed.

Lemma select_build_rows : forall fp, ssorted d -> keys_ok (fchild fp) ->
  rspec (select_build fp) d (fun st' _ =>
    fwf fp st' /\ R flt (fchild fp) (fpst fp st') d = Rsel flt (fchild fp) d).
Proof.
  intros fp S K. unfold select_build. apply rspec_bind.
  eapply rspec_mono; [|apply f_init_lift; [apply fshape_fstate0|]].
  2:{ rewrite fpst_fstate0. apply (plan_init_sem flt); [exact S|apply fresh_pstate0; exact K]. }
  cbn beta. intros st1 l1 [Sh1 [_ [F1 _]]].
  eapply rspec_mono; [|apply f_init_lift; [exact Sh1|apply (plan_init_sem flt); [exact S|exact F1]]].
  cbn beta. intros st2 l2 [Sh2 [W [_ [_ [_ [HR _]]]]]]. split; [split; assumption|exact HR].
Qed.

End Counts.

(* ProjectionPlan over a scan node, run by ScanIO's statement runner: as many rows as slots'
   pairs pass the filter *)
Theorem proj_stmt_counts_lemma :
  forall (flt : kvp -> bool) (gkey : kvp -> bytes) (B fuel : nat) (sc : scan) (d : store),
  1 <= B -> ssorted d -> keys_ok (PScan sc) -> List.length d + plan_keys (PScan sc) < fuel ->
  let n := List.length (filter flt (somes (scan_slots sc d))) in
  fst (ScanIO.run_stmt true flt gkey B fuel RowMode (StSelect (FProj (PScan sc))) (sinit d None))
    = Ok (repeat 1 n) /\
  exists sizes, fst (ScanIO.run_stmt true flt gkey B fuel BatchMode (StSelect (FProj (PScan sc))) (sinit d None))
                = Ok sizes /\ list_sum sizes = n /\ Forall (fun k => 1 <= k) sizes.
Proof.
  intros flt gkey B fuel sc d HB S K Hf n.
  assert (HR : Rsel flt (PScan sc) d = filter flt (somes (scan_slots sc d))).
  { cbn [Rsel]. rewrite somes_scan_slots by assumption. reflexivity. }
  assert (Hw : forall m, wp (List.length d) (select_prog true flt gkey B fuel m (FProj (PScan sc))) (fun _ => True)).
  { intros m. apply select_prog_spec; [exact HB|].
    pose proof (bound_fplan_le (List.length d) (FProj (PScan sc))). cbn [fplan_keys] in *. lia. }
  split.
  - destruct (@rspec_total (List.length d) _ (select_prog true flt gkey B fuel RowMode (FProj (PScan sc))) d
                (fun out _ => out = repeat 1 n) []) as [out [l [E ->]]].
    + unfold select_prog. apply rspec_bind.
      eapply rspec_mono; [|apply (select_build_rows d flt (FProj (PScan sc)) S K)]. cbn beta.
      intros st0 l0 [[Sh W] HR0]. destruct st0 as [cst| | |]; try (destruct Sh; fail).
      cbn [fchild fpst] in *.
      eapply rspec_mono; [|apply (drain_count_row d flt gkey B fuel HB); exact W]. cbn beta.
      intros out l1 ->. cbn [app]. rewrite HR0, HR. reflexivity.
    + apply Hw.
    + lia.
    + unfold ScanIO.run_stmt, sinit. cbn [stmt_prog]. unfold run_read in E. rewrite E. reflexivity.
  - destruct (@rspec_total (List.length d) _ (select_prog true flt gkey B fuel BatchMode (FProj (PScan sc))) d
                (fun out _ => list_sum out = n /\ Forall (fun k => 1 <= k) out) []) as [out [l [E [H1 H2]]]].
    + unfold select_prog. apply rspec_bind.
      eapply rspec_mono; [|apply (select_build_rows d flt (FProj (PScan sc)) S K)]. cbn beta.
      intros st0 l0 [[Sh W] HR0]. destruct st0 as [cst| | |]; try (destruct Sh; fail).
      cbn [fchild fpst] in *.
      eapply rspec_mono; [|apply (drain_count_batch d flt gkey B fuel HB); exact W]. cbn beta.
      intros out l1 [more [-> [Hs Hp]]]. cbn [app]. rewrite Hs, HR0, HR. auto.
    + apply Hw.
    + lia.
    + exists out. unfold ScanIO.run_stmt, sinit. cbn [stmt_prog]. unfold run_read in E. rewrite E. auto.
Qed.

Section TextCounts.
Variable fo : fops.
Variable re : bytes -> bytes -> Value.res bool.
Variable fmt_v : F fo -> string.
Variable ag : aggops fo.
Variable pi pf : bytes -> option Z.

(* a row drain of scan + filter + projection that completes has evaluated the filter on every
   pair, and returns one row per pair that passed *)
Lemma row_list_length : forall (R : Type) (frow : kvp -> Value.res bool) (prow : kvp -> Value.res R) l rows,
  ScanProjProofs.row_list kvp R frow prow l = Value.Ok rows ->
  List.length rows =
  List.length (filter (fun kv => match frow kv with Value.Ok true => true | _ => false end) l).
Proof.
  intros R frow prow. induction l as [|kv l IH]; intros rows H; cbn [ScanProjProofs.row_list filter] in *.
  - injection H as <-. reflexivity.
  - destruct (frow kv) as [[|]| | |]; cbn [Value.bind] in H; try discriminate.
    + destruct (prow kv); cbn [Value.bind] in H; try discriminate.
      destruct (ScanProjProofs.row_list kvp R frow prow l) eqn:El; cbn [Value.bind] in H; try discriminate.
      injection H as <-. cbn [List.length]. f_equal. apply IH. reflexivity.
    + apply IH. exact H.
Qed.

(* SELECT from the text, projection shape (no aggregate, no ORDER BY kept, no LIMIT): if
   select_stmt_text completes in row mode with [rows], ScanIO's statement runner, with the
   text's WHERE filter as its oracle, returns that many rows one by one in row mode, and in
   batch mode non-empty batches of that total size *)
Theorem text_rows_count_proj_lemma :
  forall (gkey : kvp -> bytes) (B fuel : nat) (q : string) (pl : splanned fo) (d : store) (rows : list Order.row),
  plan_stmt_text fo re fmt_v q = STOk pl -> sp_shape fo pl = SProj ->
  select_stmt_text fo re fmt_v ag pi pf q d MRow = TOk rows ->
  1 <= B -> ssorted d -> List.length d + plan_keys (PScan (sp_scan fo pl)) < fuel ->
  let flt := Pipeline.filter_of fo re (q_where fo (sp_q fo pl)) in
  text_fplan fo pl = FProj (PScan (sp_scan fo pl)) /\
  fst (ScanIO.run_stmt true flt gkey B fuel RowMode (StSelect (text_fplan fo pl)) (sinit d None))
    = Ok (repeat 1 (List.length rows)) /\
  exists sizes, fst (ScanIO.run_stmt true flt gkey B fuel BatchMode (StSelect (text_fplan fo pl)) (sinit d None))
                = Ok sizes /\ list_sum sizes = List.length rows /\ Forall (fun k => 1 <= k) sizes.
Proof.
  intros gkey B fuel q pl d rows Ep Esh Hrun HB S Hf flt.
  assert (Efp : text_fplan fo pl = FProj (PScan (sp_scan fo pl))).
  { unfold text_fplan. rewrite Esh. reflexivity. }
  split; [exact Efp|]. rewrite Efp.
  apply PipelineSProofs.text_run in Hrun. destruct Hrun as (pl' & Ep' & Hrun).
  rewrite Ep in Ep'. injection Ep' as <-.
  rewrite Esh in Hrun. cbn [run_mode] in Hrun. unfold select_shape_row in Hrun. cbn [run_shape_row] in Hrun.
  unfold proj_rows in Hrun. rewrite ScanProjProofs.drain_row_spec in Hrun.
  apply row_list_length in Hrun.
  assert (K : keys_ok (PScan (sp_scan fo pl))).
  { rewrite (text_scan fo re fmt_v q pl Ep). apply keys_ok_scan_of_region. }
  destruct (@proj_stmt_counts_lemma flt gkey B fuel (sp_scan fo pl) d HB S K Hf) as [H1 H2].
  assert (En : List.length (filter flt (somes (scan_slots (sp_scan fo pl) d))) = List.length rows).
  { rewrite Hrun. reflexivity. }
  rewrite En in H1, H2. split; [exact H1|exact H2].
Qed.

End TextCounts.
