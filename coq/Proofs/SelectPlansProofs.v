(* Proofs/SelectPlansProofs.v -- C03 at statement level for ORDER BY and GROUP BY: the
   compositions of Model/SelectPlans.v.  Whenever the batch drain of the composed statement
   completes, the row drain completes with the same rows in the same order, for every batch
   size B >= 1.

   "The same rows": rows are [Order.row]; [nrow] identifies string and []byte of the same
   bytes (the only difference the two evaluators produce, Proofs/EvalVecProofs.v [vrel]) and
   nothing else.  With ORDER BY the result is the SAME SEQUENCE, not only the same multiset
   inside runs of ties: FinalOrderPlan is deterministic in the sequence of rows pushed
   (Model/Order.v's priority queue; container/heap likewise), both modes push the same
   sequence, and orderColumnsRow.Less does not distinguish string from []byte ([less_okey]).
   Equality of sequences implies the property's "same multiset inside ties" clause. *)
From Coq Require Import List String ZArith Bool Arith Lia.
Import ListNotations.
From KV Require Import Base.Bytes Model.Ast Model.Value Model.Eval Model.EvalVec Model.ScanProj
                       Model.LimitLazy Model.AggregateLazy Model.SelectPlans
                       Proofs.EvalVecProofs Proofs.ScanProjProofs Proofs.BatchRowProofs
                       Proofs.LimitLazyProofs Proofs.AggregateLazyProofs.
From KV Require Model.Limit Model.Order Model.Aggregate Spec.Group
                Proofs.LimitProofs Proofs.OrderProofs Proofs.AggregateProofs.
Local Open Scope nat_scope.
Local Open Scope list_scope.

Notation nonempty := LimitProofs.nonempty.

(* ================================================================ 0. lists *)

Lemma firstn_skipn_app_le {X} (a r : list X) s c :
  s + c <= List.length a -> firstn c (skipn s (a ++ r)) = firstn c (skipn s a).
Proof.
  intros H. rewrite skipn_app. rewrite firstn_app.
  replace (c - List.length (skipn s a)) with 0 by (rewrite skipn_length; lia).
  cbn [firstn]. now rewrite app_nil_r.
Qed.

Lemma map_eq_length {X Y} (f : X -> Y) l l' : map f l = map f l' -> List.length l = List.length l'.
Proof. intros H. apply (f_equal (@List.length Y)) in H. now rewrite !map_length in H. Qed.

Lemma of_pop_ok {A} (o : option A) a : of_pop o = Ok a -> o = Some a.
Proof. destruct o; cbn; intros H; inversion H; reflexivity. Qed.
Lemma of_exec_ok {A} (o : option A) a : of_exec o = Ok a -> o = Some a.
Proof. destruct o; cbn; intros H; inversion H; reflexivity. Qed.

(* ================================================================ 1. Less does not see string vs []byte *)

Definition okey (v : Order.value) : Order.value :=
  match v with Order.VStr b => Order.VBytes b | _ => v end.
Definition nrow (r : Order.row) : Order.row := map okey r.
Definition nrows (l : list Order.row) : list Order.row := map nrow l.

Lemma okey_idem v : okey (okey v) = okey v.
Proof. destruct v; reflexivity. Qed.

Section LessNorm.
Variable parse_int parse_float : bytes -> option Z.

Lemma compare_okey tp a b rev :
  Order.compare parse_int parse_float tp a b rev = Order.compare parse_int parse_float tp (okey a) (okey b) rev.
Proof. destruct tp, a, b; reflexivity. Qed.

Lemma col_okey r i : okey (Order.col r i) = Order.col (nrow r) i.
Proof.
  unfold Order.col, nrow.
  change (Order.VOther ""%string) with (okey (Order.VOther ""%string)) at 2.
  now rewrite map_nth.
Qed.

Lemma less_okey ords l r :
  Order.less parse_int parse_float ords l r = Order.less parse_int parse_float ords (nrow l) (nrow r).
Proof.
  induction ords as [|o ords IH]; cbn [Order.less]; [reflexivity|].
  rewrite compare_okey, !col_okey, IH. reflexivity.
Qed.

Lemma lessf_nrow ords a b :
  Order.lessf parse_int parse_float ords (nrow a) (nrow b) = Order.lessf parse_int parse_float ords a b.
Proof. unfold Order.lessf. symmetry. apply less_okey. Qed.

End LessNorm.

(* ================================================================ 2. the queue is parametric *)
Section PQMap.
Variable A : Type.
Variable lt : A -> A -> bool.
Variable f : A -> A.
Hypothesis Hf : forall a b, lt (f a) (f b) = lt a b.

Lemma pop_min_map : forall q m,
  Order.pop_min lt (f m) (map f q) = let '(m', r) := Order.pop_min lt m q in (f m', map f r).
Proof.
  induction q as [|y q IH]; intros m; cbn [map Order.pop_min]; [reflexivity|].
  rewrite Hf. destruct (lt y m).
  - rewrite IH. destruct (Order.pop_min lt y q). reflexivity.
  - rewrite IH. destruct (Order.pop_min lt m q). reflexivity.
Qed.

Lemma sel_sort_map : forall n q,
  map f (OrderProofs.sel_sort lt n q) = OrderProofs.sel_sort lt n (map f q).
Proof.
  induction n as [|n IH]; intros q; cbn [OrderProofs.sel_sort]; [reflexivity|].
  destruct q as [|x q]; cbn [map Order.pq_pop]; [reflexivity|].
  rewrite pop_min_map. destruct (Order.pop_min lt x q) as [m rest]. cbn [map]. now rewrite IH.
Qed.
End PQMap.

Lemma ssort_nrows pi pf ords l l' :
  nrows l = nrows l' ->
  nrows (OrderProofs.sel_sort (Order.lessf pi pf ords) (List.length l) l) =
  nrows (OrderProofs.sel_sort (Order.lessf pi pf ords) (List.length l') l').
Proof.
  intros H. unfold nrows.
  rewrite !(sel_sort_map _ _ nrow (lessf_nrow pi pf ords)).
  rewrite (map_eq_length _ _ _ H). unfold nrows in H. now rewrite H.
Qed.

(* ================================================================ 3. FinalLimitPlan, row mode, over any child *)
Section Serves.
Variable S A : Type.
Variable cnext : S -> res (option A * S).

(* from state s the child yields exactly the rows l, then nil, without an error *)
Fixpoint serves (s : S) (l : list A) : Prop :=
  match l with
  | [] => exists s', cnext s = Ok (None, s')
  | x :: l' => exists s', cnext s = Ok (Some x, s') /\ serves s' l'
  end.

Lemma lskip_serves : forall n s l, serves s l ->
  (n <= List.length l -> exists s', lskip cnext n s = Ok (n, false, s') /\ serves s' (skipn n l)) /\
  (List.length l < n -> exists s', lskip cnext n s = Ok (List.length l, true, s')).
Proof.
  induction n as [|n IH]; intros s l Hs.
  - split; [|lia]. intros _. exists s. split; [reflexivity | exact Hs].
  - destruct l as [|x l]; cbn [serves] in Hs.
    + destruct Hs as (s' & E). split; [cbn; lia|]. intros _. exists s'. cbn [lskip]. rewrite E. reflexivity.
    + destruct Hs as (s' & E & Hs'). destruct (IH s' l Hs') as (I1 & I2). split.
      * intros Hle. cbn [List.length] in Hle. destruct (I1 ltac:(lia)) as (s2 & E2 & H2).
        exists s2. cbn [lskip]. rewrite E. cbn [bind]. rewrite E2. cbn [bind skipn]. auto.
      * intros Hlt. cbn [List.length] in Hlt. destruct (I2 ltac:(lia)) as (s2 & E2).
        exists s2. cbn [lskip]. rewrite E. cbn [bind]. rewrite E2. reflexivity.
Qed.

Lemma ldrain_taking : forall fuel start count cur sk s l,
  serves s l -> start <= sk -> count - cur < fuel ->
  ldrain_row_fuel cnext fuel start count (Limit.LState sk cur) s = Ok (firstn (count - cur) l).
Proof.
  induction fuel as [|f IH]; intros start count cur sk s l Hs Hsk Hf; [lia|].
  cbn [ldrain_row_fuel]. unfold lnext. cbn [Limit.skips Limit.current].
  replace (start - sk) with 0 by lia. cbn [lskip bind].
  destruct (Nat.leb_spec count cur) as [Hc|Hc].
  - replace (count - cur) with 0 by lia. reflexivity.
  - destruct l as [|x l]; cbn [serves] in Hs.
    + destruct Hs as (s' & E). rewrite E. cbn [bind]. now rewrite firstn_nil.
    + destruct Hs as (s' & E & Hs'). rewrite E. cbn [bind Limit.skips].
      rewrite (IH start count (Datatypes.S cur) (sk + 0) s' l Hs' ltac:(lia) ltac:(lia)).
      cbn [bind]. replace (count - cur) with (Datatypes.S (count - Datatypes.S cur)) by lia. reflexivity.
Qed.

Lemma ldrain_row_serves start count s l :
  serves s l -> ldrain_row cnext start count s = Ok (firstn count (skipn start l)).
Proof.
  intros Hs. unfold ldrain_row. cbn [ldrain_row_fuel]. unfold lnext, Limit.linit.
  cbn [Limit.skips Limit.current]. rewrite Nat.sub_0_r.
  destruct (lskip_serves start s l Hs) as (I1 & I2).
  destruct (Nat.le_gt_cases start (List.length l)) as [Hle|Hgt].
  - destruct (I1 Hle) as (s1 & E1 & H1). rewrite E1. cbn [bind].
    destruct (Nat.leb_spec count 0) as [Hc|Hc].
    + replace count with 0 by lia. reflexivity.
    + destruct (skipn start l) as [|x l2]; cbn [serves] in H1.
      * destruct H1 as (s' & E). rewrite E. cbn [bind]. now rewrite firstn_nil.
      * destruct H1 as (s' & E & H2). rewrite E. cbn [bind Limit.skips].
        rewrite (ldrain_taking count start count 1 (0 + start) s' l2 H2 ltac:(lia) ltac:(lia)).
        cbn [bind]. destruct count as [|c]; [lia|]. replace (Datatypes.S c - 1) with c by lia. reflexivity.
  - destruct (I2 Hgt) as (s1 & E1). rewrite E1. cbn [bind].
    rewrite skipn_all2 by lia. now rewrite firstn_nil.
Qed.

End Serves.

(* ================================================================ 4. the order node over a drained child *)
Section OrderNodeProofs.
Variable C : Type.
Variable crows : C -> res (list Order.row).
Variable cbats : C -> res (list (list Order.row)).
Variable cdone : C.
Variable pi pf : bytes -> option Z.
Variable ords : list Order.ofield.

(* what the theorems need to know about the child:
   - batch drain completed => row drain completes with the same rows up to [nrow], and no batch
     of the child is empty;
   - drained once, the child yields nothing more. *)
Hypothesis Hsrc : forall c bs, cbats c = Ok bs ->
  Forall nonempty bs /\ exists rows, crows c = Ok rows /\ nrows rows = nrows (List.concat bs).
Hypothesis Hdone_r : crows cdone = Ok [].
Hypothesis Hdone_b : cbats cdone = Ok [].

Local Notation lessf := (Order.lessf pi pf ords).
Local Notation ssort := (OrderProofs.sel_sort lessf).
Local Notation sorted_of l := (ssort (List.length l) l).
Local Notation inv := OrderProofs.inv.
Local Notation onext := (onext C crows cdone pi pf ords).
Local Notation obatch := (obatch C cbats cdone pi pf ords).

(* ---------------------------------------------------------------- ORDER BY without LIMIT *)
Theorem ord_batch_row B c outs :
  ord_batch C cbats pi pf ords B c = Ok outs ->
  exists rows, ord_row C crows pi pf ords c = Ok rows /\ nrows rows = nrows (List.concat outs).
Proof.
  unfold ord_batch, ord_row. intros H.
  apply bind_ok' in H. destruct H as (bs & Eb & H). apply of_pop_ok in H.
  destruct (Hsrc c bs Eb) as (Hne & rows & Er & Hn).
  destruct (OrderProofs.drain_batch_eq pi pf ords B bs Hne) as (outs' & E1 & E2 & _).
  rewrite E1 in H. inversion H; subst outs'.
  exists (sorted_of rows). rewrite Er. cbn [bind]. rewrite OrderProofs.drain_row_eq. split; [reflexivity|].
  rewrite E2. now apply ssort_nrows.
Qed.

(* ---------------------------------------------------------------- the node as a pulled child *)

(* inv: length of the heap = rows not served yet *)
Lemma inv_total0 st : inv st -> Order.total st = 0 -> st = Order.oinit.
Proof.
  unfold OrderProofs.inv. destruct st as [p t q]; cbn [Order.pos Order.total Order.sorted].
  intros Hi Ht. rewrite Ht in *. destruct q; cbn [List.length] in Hi; [|lia].
  replace p with 0 by lia. reflexivity.
Qed.

Lemma batch_loop_total : forall fuel B st ret cnt ret' st',
  Order.batch_loop pi pf ords fuel B st ret cnt = Some (ret', st') -> Order.total st' = Order.total st.
Proof.
  induction fuel as [|f IH]; intros B st ret cnt ret' st' H; cbn [Order.batch_loop] in H.
  - inversion H; reflexivity.
  - destruct (Order.pos st <? Order.total st); [|inversion H; reflexivity].
    destruct (Order.pq_pop lessf (Order.sorted st)) as [[r q]|]; [|discriminate].
    destruct (B <=? Datatypes.S cnt).
    + inversion H; reflexivity.
    + apply IH in H. exact H.
Qed.

Lemma batch_total B st out st' ch :
  Order.total st <> 0 -> Order.batch pi pf ords B st [] = Some (out, st', ch) -> Order.total st' = Order.total st.
Proof.
  intros Ht H. unfold Order.batch in H.
  destruct (Order.total st =? 0) eqn:E; [apply Nat.eqb_eq in E; contradiction|].
  destruct (Order.batch_loop pi pf ords (Order.total st - Order.pos st) B st [] 0) as [[ret st2]|] eqn:El; [|discriminate].
  inversion H; subst. eapply batch_loop_total; eauto.
Qed.

(* [holds_b s L]: the order node in state s will hand out exactly L in batch mode *)
Definition holds_b (s : Order.ostate * C) (L : list Order.row) : Prop :=
  let '(st, c) := s in
  inv st /\
  if Order.total st =? 0
  then exists bs, cbats c = Ok bs /\ Forall nonempty bs /\ L = sorted_of (List.concat bs)
  else L = sorted_of (Order.sorted st).

Lemma sorted_of_nil_iff (q : list Order.row) : sorted_of q = [] <-> q = [].
Proof.
  split; intros H; [|subst; reflexivity].
  apply (f_equal (@List.length Order.row)) in H.
  rewrite OrderProofs.sel_sort_length in H by reflexivity. destruct q; [reflexivity | discriminate].
Qed.

Lemma obatch_holds B s L : holds_b s L ->
  exists taken s' L', obatch B s = Ok (taken, s') /\ L = taken ++ L' /\ holds_b s' L' /\
                      (L <> [] -> taken <> []).
Proof.
  destruct s as [st c]. cbn [holds_b]. intros (Hinv & H).
  unfold SelectPlans.obatch.
  destruct (Order.total st =? 0) eqn:Et.
  - apply Nat.eqb_eq in Et. pose proof (inv_total0 st Hinv Et) as ->.
    destruct H as (bs & Eb & Hne & ->). rewrite Eb. cbn [bind].
    rewrite (OrderProofs.batch_oinit pi pf ords B bs Hne).
    set (n := List.length (List.concat bs)).
    destruct (OrderProofs.batch_popping pi pf ords B (Order.OState 0 n (List.concat bs)))
      as (taken & st' & E1 & I' & E2 & E3 & E4).
    { unfold OrderProofs.inv; cbn; lia. }
    rewrite E1. cbn [Order.sorted] in *.
    exists taken, (st', cdone), (sorted_of (Order.sorted st')).
    split; [reflexivity|]. split; [exact E2|]. split.
    + cbn [holds_b]. split; [exact I'|].
      destruct (Order.total st' =? 0) eqn:Et'; [|reflexivity].
      apply Nat.eqb_eq in Et'. rewrite (inv_total0 st' I' Et'). cbn [Order.sorted Order.oinit].
      exists []. split; [exact Hdone_b|]. split; [constructor | reflexivity].
    + intros HL. apply E3. fold n.
      destruct (List.concat bs) eqn:Ec; [exfalso; apply HL; reflexivity | cbn; lia].
  - apply Nat.eqb_neq in Et. subst L.
    destruct (OrderProofs.batch_popping pi pf ords B st Hinv) as (taken & st' & E1 & I' & E2 & E3 & E4).
    rewrite E1.
    exists taken, (st', c), (sorted_of (Order.sorted st')).
    split; [reflexivity|]. split; [exact E2|]. split.
    + cbn [holds_b]. split; [exact I'|].
      rewrite (batch_total B st taken st' [] Et E1).
      destruct (Order.total st =? 0) eqn:Et2; [apply Nat.eqb_eq in Et2; contradiction | reflexivity].
    + intros HL. apply E3.
      destruct (Order.sorted st) eqn:Es; [exfalso; apply HL; reflexivity | cbn; lia].
Qed.

(* what the limit node pulls from the order node is a prefix of what the node holds; the whole
   of it if the empty batch was seen *)
Lemma pulled_holds B s pb e s' : pulled _ _ (obatch B) s pb e s' ->
  forall L, holds_b s L -> exists rest, L = List.concat pb ++ rest /\ (e = true -> rest = []).
Proof.
  induction 1 as [s | s b s1 pb e s2 Eb Hb Hp IH | s s1 Eb]; intros L HL.
  - exists L. split; [reflexivity | discriminate].
  - destruct (obatch_holds B s L HL) as (taken & s' & L' & E & -> & HL' & _).
    rewrite E in Eb. inversion Eb; subst taken s'.
    destruct (IH L' HL') as (rest & -> & He).
    exists rest. cbn [List.concat]. rewrite app_assoc. auto.
  - destruct (obatch_holds B s L HL) as (taken & s' & L' & E & -> & HL' & Hn).
    rewrite E in Eb. inversion Eb; subst taken s'. cbn [app] in *.
    exists L'. split; [reflexivity|]. intros _.
    destruct L' as [|x L']; [reflexivity|]. exfalso. apply Hn; [discriminate | reflexivity].
Qed.

(* an exhausted order node keeps returning the empty batch and no longer changes *)
Lemma batch_loop_shape : forall fuel B st ret cnt ret' st',
  Order.batch_loop pi pf ords fuel B st ret cnt = Some (ret', st') ->
  exists taken, ret' = ret ++ taken /\ (taken = [] -> st' = st).
Proof.
  induction fuel as [|f IH]; intros B st ret cnt ret' st' H; cbn [Order.batch_loop] in H.
  - inversion H; subst. exists []. now rewrite app_nil_r.
  - destruct (Order.pos st <? Order.total st).
    + destruct (Order.pq_pop lessf (Order.sorted st)) as [[r q]|]; [|discriminate].
      destruct (B <=? Datatypes.S cnt).
      * inversion H; subst. exists [r]. split; [reflexivity | discriminate].
      * apply IH in H. destruct H as (taken & -> & _). exists (r :: taken).
        rewrite <- app_assoc. split; [reflexivity | discriminate].
    + inversion H; subst. exists []. now rewrite app_nil_r.
Qed.

Lemma batch_nil_fix B st ch st' ch' :
  Order.batch pi pf ords B st ch = Some ([], st', ch') ->
  Order.batch pi pf ords B st' [] = Some ([], st', []).
Proof.
  unfold Order.batch. intros H.
  destruct (if Order.total st =? 0 then Order.prepare_batch st ch else (st, ch)) as [st1 ch1] eqn:Ep.
  destruct (Order.batch_loop pi pf ords (Order.total st1 - Order.pos st1) B st1 [] 0) as [[ret st2]|] eqn:El; [|discriminate].
  inversion H; subst ret st2 ch1.
  destruct (batch_loop_shape _ _ _ _ _ _ _ El) as (taken & Et & Hs).
  cbn [app] in Et. subst taken. specialize (Hs eq_refl). subst st'.
  assert (Hp : (if Order.total st1 =? 0 then Order.prepare_batch st1 [] else (st1, [])) = (st1, [])).
  { destruct (Order.total st1 =? 0); reflexivity. }
  rewrite Hp, El. reflexivity.
Qed.

Lemma obatch_exhausted B : forall s s1, obatch B s = Ok ([], s1) -> obatch B s1 = Ok ([], s1).
Proof.
  intros [st c] [st1 c1] H. unfold SelectPlans.obatch in *.
  destruct (Order.total st =? 0) eqn:Et.
  - apply bind_ok' in H. destruct H as (bs & Eb & H).
    destruct (Order.batch pi pf ords B st bs) as [[[out st'] ch']|] eqn:E; [|discriminate].
    inversion H; subst out st' c1.
    pose proof (batch_nil_fix _ _ _ _ _ E) as E'.
    destruct (Order.total st1 =? 0).
    + rewrite Hdone_b. cbn [bind]. rewrite E'. reflexivity.
    + rewrite E'. reflexivity.
  - destruct (Order.batch pi pf ords B st []) as [[[out st'] ch']|] eqn:E; [|discriminate].
    inversion H; subst out st' c1.
    pose proof (batch_nil_fix _ _ _ _ _ E) as E'.
    assert (Ht1 : Order.total st1 =? 0 = false).
    { apply Nat.eqb_neq in Et. apply Nat.eqb_neq. rewrite (batch_total B st [] st1 ch' Et E). exact Et. }
    rewrite Ht1, E'. reflexivity.
Qed.

(* row mode *)
Definition holds_r (s : Order.ostate * C) (L : list Order.row) : Prop :=
  let '(st, c) := s in
  inv st /\
  if Order.total st =? 0
  then exists rows, crows c = Ok rows /\ L = sorted_of rows
  else L = sorted_of (Order.sorted st).

Lemma next_popping st : inv st ->
  Order.next pi pf ords st [] =
  match Order.sorted st with
  | [] => (Order.NEnd, st, [])
  | x :: q => let '(m, rest) := Order.pop_min lessf x q in
              (Order.NRow m, Order.OState (Datatypes.S (Order.pos st)) (Order.total st) rest, [])
  end.
Proof.
  intros Hinv. unfold Order.next.
  assert (Hp : (if Order.total st =? 0 then Order.prepare st [] else (st, [])) = (st, [])).
  { destruct (Order.total st =? 0); reflexivity. }
  rewrite Hp. unfold OrderProofs.inv in Hinv.
  destruct st as [p t q]; cbn [Order.pos Order.total Order.sorted] in *.
  destruct q as [|x q]; cbn [List.length] in Hinv.
  - destruct (Nat.ltb_spec p t); [lia | reflexivity].
  - destruct (Nat.ltb_spec p t); [|lia]. cbn [Order.pq_pop].
    destruct (Order.pop_min lessf x q). reflexivity.
Qed.

Lemma onext_holds s L : holds_r s L ->
  match L with
  | [] => exists s', onext s = Ok (None, s')
  | x :: L' => exists s', onext s = Ok (Some x, s') /\ holds_r s' L'
  end.
Proof.
  destruct s as [st c]. cbn [holds_r]. intros (Hinv & H). unfold SelectPlans.onext.
  (* the state after the first call, in both cases: st0 with the heap filled *)
  assert (Hstep : forall st0 c0, inv st0 -> L = sorted_of (Order.sorted st0) ->
            (Order.total st0 = 0 -> crows c0 = Ok []) ->
            match L with
            | [] => exists s', match Order.next pi pf ords st0 [] with
                               | (Order.NRow r, st', _) => Ok (Some r, (st', c0))
                               | (Order.NEnd, st', _) => Ok (None, (st', c0))
                               | (Order.NPanic, _, _) => Panic
                               end = Ok (None, s')
            | x :: L' => exists s', match Order.next pi pf ords st0 [] with
                               | (Order.NRow r, st', _) => Ok (Some r, (st', c0))
                               | (Order.NEnd, st', _) => Ok (None, (st', c0))
                               | (Order.NPanic, _, _) => Panic
                               end = Ok (Some x, s') /\ holds_r s' L'
            end).
  { intros st0 c0 Hi0 HL Hc0. rewrite (next_popping st0 Hi0).
    destruct (Order.sorted st0) as [|x q] eqn:Es.
    - subst L. cbn. eexists; reflexivity.
    - subst L. cbn [List.length OrderProofs.sel_sort Order.pq_pop].
      destruct (Order.pop_min lessf x q) as [m rest] eqn:Ep.
      pose proof (OrderProofs.pop_min_length _ _ _ _ _ _ Ep) as Hl.
      eexists. split; [reflexivity|]. cbn [holds_r].
      assert (Hi' : inv (Order.OState (Datatypes.S (Order.pos st0)) (Order.total st0) rest)).
      { unfold OrderProofs.inv in *. cbn [Order.pos Order.total Order.sorted]. rewrite Es in Hi0. cbn [List.length] in Hi0. lia. }
      split; [exact Hi'|]. cbn [Order.total Order.sorted].
      destruct (Order.total st0 =? 0) eqn:Et0.
      + apply Nat.eqb_eq in Et0. unfold OrderProofs.inv in Hi0. rewrite Es in Hi0. cbn [List.length] in Hi0. lia.
      + rewrite Hl. reflexivity. }
  destruct (Order.total st =? 0) eqn:Et.
  - apply Nat.eqb_eq in Et. pose proof (inv_total0 st Hinv Et) as ->.
    destruct H as (rows & Er & ->). rewrite Er. cbn [bind].
    rewrite (OrderProofs.next_oinit pi pf ords rows).
    apply (Hstep (Order.OState 0 (List.length rows) rows) cdone).
    + unfold OrderProofs.inv; cbn; lia.
    + reflexivity.
    + intros _. exact Hdone_r.
  - subst L. apply (Hstep st c Hinv eq_refl).
    intros H0. apply Nat.eqb_neq in Et. contradiction.
Qed.

Lemma holds_r_total0 st c L : holds_r (st, c) L -> Order.total st = 0 -> crows c = Ok [] -> L = [].
Proof.
  cbn [holds_r]. intros (Hi & H) Ht Hc. rewrite (proj2 (Nat.eqb_eq _ _) Ht) in H.
  destruct H as (rows & Er & ->). rewrite Hc in Er. inversion Er; subst. reflexivity.
Qed.

Lemma holds_serves : forall L s, holds_r s L -> serves _ _ onext s L.
Proof.
  induction L as [|x L IH]; intros s H; pose proof (onext_holds s _ H) as Hn; cbn [serves].
  - exact Hn.
  - destruct Hn as (s' & E & H'). exists s'. split; [exact E | apply IH; exact H'].
Qed.

(* ---------------------------------------------------------------- ORDER BY ... LIMIT *)
Theorem ord_limit_batch_row fuel B start count c louts :
  ord_limit_batch C cbats cdone pi pf ords fuel B start count c = Ok louts ->
  exists lrows, ord_limit_row C crows cdone pi pf ords start count c = Ok lrows /\
                nrows lrows = nrows (List.concat louts).
Proof.
  unfold ord_limit_batch, ord_limit_row. intros H.
  (* what was pulled from the order node *)
  assert (Hpull : exists pb e s', pulled _ _ (obatch B) (Order.oinit, c) pb e s' /\
            List.concat louts = firstn count (skipn start (List.concat pb)) /\
            (e = true \/ start + count <= List.length (List.concat pb))).
  { destruct count as [|count].
    - destruct (drain_stop_zero _ _ (obatch B) ([] : Order.row) _ _ _ _ _ H)
        as (-> & pb & e & s' & Hp & Hd).
      exists pb, e, s'. split; [exact Hp|]. split; [reflexivity|].
      destruct Hd; [now left | right; lia].
    - apply (drain_stop_pos _ _ (obatch B) (obatch_exhausted B) ([] : Order.row) fuel B start); [lia | exact H]. }
  destruct Hpull as (pb & e & s' & Hp & Hc & Hd).
  (* either nothing was pulled (LIMIT 0, 0), or the child was drained *)
  assert (Hcase : (pb = [] /\ e = false) \/ exists bs, cbats c = Ok bs).
  { inversion Hp as [s0 | s0 b s1 pb' e' s2 Eb _ _ | s0 s1 Eb]; subst.
    - left. auto.
    - right. unfold SelectPlans.obatch in Eb. cbn [Order.total Order.oinit Nat.eqb] in Eb.
      apply bind_ok' in Eb. destruct Eb as (bs & Eb & _). eauto.
    - right. unfold SelectPlans.obatch in Eb. cbn [Order.total Order.oinit Nat.eqb] in Eb.
      apply bind_ok' in Eb. destruct Eb as (bs & Eb & _). eauto. }
  destruct Hcase as [(-> & ->)|(bs & Eb)].
  - (* no Batch call reached the order node: start = 0 and count = 0 *)
    destruct Hd as [Hd|Hd]; [discriminate|]. cbn [List.concat List.length] in Hd.
    assert (start = 0) by lia. assert (count = 0) by lia. subst start count.
    exists []. split; [reflexivity|]. rewrite Hc. reflexivity.
  - destruct (Hsrc c bs Eb) as (Hne & rows & Er & Hn).
    (* batch side *)
    assert (HB : holds_b (Order.oinit, c) (sorted_of (List.concat bs))).
    { cbn [holds_b Order.total Order.oinit Nat.eqb]. split; [unfold OrderProofs.inv; reflexivity|].
      exists bs. auto. }
    destruct (pulled_holds B _ _ _ _ Hp _ HB) as (rest & EL & He).
    assert (Hslice : List.concat louts = firstn count (skipn start (sorted_of (List.concat bs)))).
    { rewrite Hc, EL. destruct Hd as [->|Hd].
      - rewrite (He eq_refl), app_nil_r. reflexivity.
      - symmetry. now apply firstn_skipn_app_le. }
    (* row side *)
    assert (HR : holds_r (Order.oinit, c) (sorted_of rows)).
    { cbn [holds_r Order.total Order.oinit Nat.eqb]. split; [unfold OrderProofs.inv; reflexivity|].
      exists rows. auto. }
    exists (firstn count (skipn start (sorted_of rows))). split.
    + apply ldrain_row_serves. apply holds_serves. exact HR.
    + rewrite Hslice. unfold nrows. rewrite <- !firstn_map, <- !skipn_map. f_equal. f_equal.
      now apply ssort_nrows.
Qed.

End OrderNodeProofs.

(* ================================================================ 5. AggregatePlan over the scan *)

Lemma Forall2_map_eq {X Y} (f : X -> Y) l l' :
  Forall2 (fun a b => f a = f b) l l' -> map f l = map f l'.
Proof. induction 1; cbn; congruence. Qed.

Section AggProofs.
Variable P : Type.
Variable frow : P -> res bool.
Variable fbatch : list P -> res (list bool).
Variable F : Type.
Variable fadd fsub fmul fdiv : F -> F -> F.
Variable fltb : F -> F -> bool.
Variable fis0 : F -> bool.
Variable of_Z : Z -> F.
Variable to_Z : F -> Z.
Variable fmt_f : F -> bytes.
Variable bits_f : F -> bytes.
Variable json_f : F -> option bytes.
Variable parse_f : bytes -> option F.
Variable json_s : bytes -> bytes.
Variable T : Type.
Variable t0 : T.
Variable obs_row : Group.plan F -> T -> P -> res (Group.pobs F * T).
Variable obs_batch : Group.plan F -> T -> list P -> res (list (Group.pobs F) * T).

Local Notation gvalue := (Group.value F).
Local Notation pobs := (Group.pobs F).
Local Notation m_run_row := (Aggregate.run_row fadd fsub fmul fdiv fltb fis0 of_Z to_Z fmt_f bits_f json_f parse_f json_s true true).
Local Notation m_run_batch := (Aggregate.run_batch fadd fsub fmul fdiv fltb fis0 of_Z to_Z fmt_f bits_f json_f parse_f json_s true true).
Local Notation m_prepare := (Aggregate.prepare fadd fltb of_Z to_Z fmt_f bits_f parse_f true true).
Local Notation m_key := (Aggregate.getAggrKey fmt_f bits_f true).
Local Notation m_step := (Aggregate.aggr_step fadd fltb of_Z to_Z fmt_f parse_f true).

(* string and []byte of the same bytes: the only difference between the GROUP BY values batch
   mode (ExecuteBatch) and row mode (Execute) hand to the aggregate code *)
Definition gnorm (v : gvalue) : gvalue :=
  match v with Group.VStr s => Group.VBytes s | _ => v end.

(* row-mode observation o', batch-mode observation o of the same pair *)
Definition pobs_sim (o' o : pobs) : Prop :=
  Group.p_k o' = Group.p_k o /\ Group.p_a o' = Group.p_a o /\
  map gnorm (Group.p_g o') = map gnorm (Group.p_g o).

Lemma keybytes_gnorm (v : gvalue) :
  Aggregate.aggrKeyBytes fmt_f bits_f v = Aggregate.aggrKeyBytes fmt_f bits_f (gnorm v).
Proof. destruct v; reflexivity. Qed.

Lemma key_fold_gnorm : forall (l : list gvalue) acc,
  fold_left (fun gkey v => Aggregate.appendAggrKeyPart true gkey (Aggregate.aggrKeyBytes fmt_f bits_f v)) l acc =
  fold_left (fun gkey v => Aggregate.appendAggrKeyPart true gkey (Aggregate.aggrKeyBytes fmt_f bits_f v)) (map gnorm l) acc.
Proof.
  induction l as [|v l IH]; intros acc; cbn [map fold_left]; [reflexivity|].
  rewrite <- keybytes_gnorm. apply IH.
Qed.

Lemma key_sim (p : Group.plan F) (o' o : pobs) :
  map gnorm (Group.p_g o') = map gnorm (Group.p_g o) -> m_key p o' = m_key p o.
Proof.
  intros H. unfold Aggregate.getAggrKey. destruct (Group.pl_all p); [reflexivity|].
  rewrite key_fold_gnorm, H, <- key_fold_gnorm. reflexivity.
Qed.

Lemma update_calls_sim : forall calls sts (o' o : pobs), Group.p_a o' = Group.p_a o ->
  Aggregate.update_calls fadd fltb of_Z to_Z fmt_f parse_f true calls sts o' =
  Aggregate.update_calls fadd fltb of_Z to_Z fmt_f parse_f true calls sts o.
Proof.
  induction calls as [|c calls IH]; intros sts o' o H; destruct sts as [|st sts]; cbn [Aggregate.update_calls];
    try reflexivity.
  rewrite H, (IH sts o' o H). reflexivity.
Qed.

Lemma step_sim (p : Group.plan F) rows k (o' o : pobs) :
  Group.p_k o' = Group.p_k o -> Group.p_a o' = Group.p_a o -> m_step p rows k o' = m_step p rows k o.
Proof.
  intros Hk Ha. unfold Aggregate.aggr_step.
  assert (Hu : forall row, Aggregate.updateRowAggrFunc fadd fltb of_Z to_Z fmt_f parse_f true row o' =
                           Aggregate.updateRowAggrFunc fadd fltb of_Z to_Z fmt_f parse_f true row o).
  { intros row. unfold Aggregate.updateRowAggrFunc. apply map_ext. intros [v|e calls sts]; [reflexivity|].
    now rewrite (update_calls_sim calls sts o' o Ha). }
  assert (Hc : Aggregate.createAggrRow of_Z fmt_f p o' = Aggregate.createAggrRow of_Z fmt_f p o).
  { unfold Aggregate.createAggrRow. now rewrite Hk. }
  destruct (Aggregate.lookup k rows); now rewrite ?Hu, ?Hc.
Qed.

Lemma prepare_sim (p : Group.plan F) : forall obs' obs, Forall2 pobs_sim obs' obs ->
  m_prepare p obs' = m_prepare p obs.
Proof.
  unfold Aggregate.prepare. generalize (@nil (bytes * list (Aggregate.col F))).
  intros acc obs' obs H. revert acc. induction H as [|o' o obs' obs (Hk & Ha & Hg) _ IH]; intros acc;
    cbn [fold_left]; [reflexivity|].
  rewrite (key_sim p o' o Hg), (step_sim p acc _ o' o Hk Ha). apply IH.
Qed.

Lemma run_row_sim (p : Group.plan F) obs' obs : Forall2 pobs_sim obs' obs -> m_run_row p obs' = m_run_row p obs.
Proof. intros H. unfold Aggregate.run_row. now rewrite (prepare_sim p obs' obs H). Qed.

(* ---------------------------------------------------------------- the lazy observation, any evaluators *)
Section LazyObsProofs.
Variable eval_g : P -> res (list gvalue).
Variable batch_g : list P -> res (list (list gvalue)).
Variable eval_k : P -> res (list gvalue).
Variable eval_a : (nat -> bool) -> P -> res (list gvalue).
(* batchGetAggrKeys yields, per pair, the GROUP BY values getAggrKey yields, up to string / []byte *)
Hypothesis Hg : forall c gss, batch_g c = Ok gss ->
  Forall2 (fun kv g => exists g', eval_g kv = Ok g' /\ map gnorm g' = map gnorm g) c gss.

Local Notation l_tail := (lobs_tail fmt_f bits_f eval_k eval_a).
Local Notation l_row := (lobs_row fmt_f bits_f eval_g eval_k eval_a).
Local Notation l_zip := (lobs_zip fmt_f bits_f eval_k eval_a).
Local Notation l_batch := (lobs_batch fmt_f bits_f batch_g eval_k eval_a).

Lemma lkey_gnorm (p : Group.plan F) g' g :
  map gnorm g' = map gnorm g -> lkey fmt_f bits_f p g' = lkey fmt_f bits_f p g.
Proof. intros H. unfold lkey. apply key_sim. exact H. Qed.

Lemma lobs_tail_sim (p : Group.plan F) t kv g' g o t' :
  map gnorm g' = map gnorm g -> l_tail p t kv g = Ok (o, t') ->
  exists o', l_tail p t kv g' = Ok (o', t') /\ pobs_sim o' o.
Proof.
  intros Hn H. unfold lobs_tail in *. rewrite (lkey_gnorm p g' g Hn).
  destruct (seen_mem (lkey fmt_f bits_f p g) t).
  - apply bind_ok' in H. destruct H as (a & Ea & H). inversion H; subst o t'.
    rewrite Ea. cbn [bind]. eexists. split; [reflexivity|].
    unfold pobs_sim. cbn [Group.p_g Group.p_k Group.p_a]. auto.
  - apply bind_ok' in H. destruct H as (k & Ek & H).
    apply bind_ok' in H. destruct H as (a & Ea & H). inversion H; subst o t'.
    rewrite Ek. cbn [bind]. rewrite Ea. cbn [bind]. eexists. split; [reflexivity|].
    unfold pobs_sim. cbn [Group.p_g Group.p_k Group.p_a]. auto.
Qed.

Lemma lobs_zip_sim (p : Group.plan F) : forall c gss,
  Forall2 (fun kv g => exists g', (if Group.pl_all p then Ok [] else eval_g kv) = Ok g' /\
                                  map gnorm g' = map gnorm g) c gss ->
  forall t os t', l_zip p t c gss = Ok (os, t') ->
  exists os', smap_res (l_row p) t c = Ok (os', t') /\ Forall2 pobs_sim os' os.
Proof.
  induction 1 as [|kv g c gss (g' & Eg & Hn) _ IH]; intros t os t' H; cbn [lobs_zip] in H.
  - inversion H; subst os t'. exists []. split; [reflexivity | constructor].
  - apply bind_ok' in H. destruct H as ([o t1] & Et & H). cbn [fst snd] in H.
    apply bind_ok' in H. destruct H as ([os1 t2] & Ez & H). cbn [fst snd] in H.
    inversion H; subst os t'.
    destruct (lobs_tail_sim p t kv g' g o t1 Hn Et) as (o' & Et' & Ho).
    destruct (IH _ _ _ Ez) as (os' & Es & Fo).
    exists (o' :: os'). split; [|constructor; assumption].
    cbn [smap_res]. unfold lobs_row at 1. rewrite Eg. cbn [bind]. rewrite Et'. cbn [bind fst snd].
    rewrite Es. reflexivity.
Qed.

(* one iteration of prepareBatch succeeded => the iterations of prepare on the pairs of the chunk
   succeed, from the same keys seen to the same keys seen, with the same observations up to
   string / []byte in the GROUP BY values *)
Theorem lobs_batch_ok (p : Group.plan F) t c os t' : l_batch p t c = Ok (os, t') ->
  exists os', smap_res (l_row p) t c = Ok (os', t') /\ Forall2 pobs_sim os' os.
Proof.
  intros H. unfold lobs_batch in H. apply bind_ok' in H. destruct H as (gss & Eg & H).
  apply (lobs_zip_sim p c gss); [|exact H].
  destruct (Group.pl_all p).
  - inversion Eg; subst gss. clear. induction c as [|kv c IH]; cbn [map]; constructor; [|exact IH].
    exists []. split; reflexivity.
  - exact (Hg c gss Eg).
Qed.

End LazyObsProofs.

(* the glue hypotheses: FilterBatch is pointwise Filter, and what prepareBatch evaluates on a
   chunk is what prepare evaluates on its pairs one after the other (same keys seen before and
   after), up to string / []byte in the GROUP BY values *)
Hypothesis Hf : forall c bs, fbatch c = Ok bs -> Forall2 (fun kv b => frow kv = Ok b) c bs.
Hypothesis Hobs : forall p t c os t', obs_batch p t c = Ok (os, t') ->
  exists os', smap_res (obs_row p) t c = Ok (os', t') /\ Forall2 pobs_sim os' os.

Local Notation agg_row := (agg_row P frow F fadd fsub fmul fdiv fltb fis0 of_Z to_Z fmt_f bits_f json_f parse_f json_s T t0 obs_row).
Local Notation agg_batch := (agg_batch P fbatch F fadd fsub fmul fdiv fltb fis0 of_Z to_Z fmt_f bits_f json_f parse_f json_s T t0 obs_batch).

(* GROUP BY / aggregates, with or without the LIMIT pushed into the AggregatePlan: the rows
   are EQUAL (Model/Aggregate.v's values, no identification needed) *)
Theorem agg_batch_row B (p : Group.plan F) sl rows :
  1 <= B -> agg_batch B p sl = Ok rows -> agg_row p sl = Ok rows.
Proof.
  intros HB H. unfold SelectPlans.agg_batch, SelectPlans.agg_row in *.
  apply bind_ok' in H. destruct H as (chunks & Ed & H).
  destruct (sdrain_batch_row P pobs T frow fbatch (obs_row p) (obs_batch p) pobs_sim Hf (Hobs p) B t0 sl chunks HB Ed)
    as (obs' & Er & Fo).
  rewrite Er. cbn [bind].
  apply (lrun_batch_row F fadd fsub fmul fdiv fltb fis0 of_Z to_Z fmt_f bits_f json_f parse_f json_s p B chunks rows HB) in H.
  unfold lrun_row in *. now rewrite (prepare_sim p obs' _ Fo).
Qed.

End AggProofs.

(* ================================================================ 6. whole statements *)
Section StatementProofs.
Variable P : Type.
Variable frow : P -> res bool.
Variable fbatch : list P -> res (list bool).
Variable prow : P -> res Order.row.
Variable pbatch : list P -> res (list Order.row).
Variable F : Type.
Variable fadd fsub fmul fdiv : F -> F -> F.
Variable fltb : F -> F -> bool.
Variable fis0 : F -> bool.
Variable of_Z : Z -> F.
Variable to_Z : F -> Z.
Variable fmt_f : F -> bytes.
Variable bits_f : F -> bytes.
Variable json_f : F -> option bytes.
Variable parse_f : bytes -> option F.
Variable json_s : bytes -> bytes.
Variable T : Type.
Variable t0 : T.
Variable obs_row : Group.plan F -> T -> P -> res (Group.pobs F * T).
Variable obs_batch : Group.plan F -> T -> list P -> res (list (Group.pobs F) * T).
Variable aconv : list (Group.value F) -> Order.row.
Variable pi pf : bytes -> option Z.

(* the glue hypotheses (all three are theorems for the evaluator twins, section 7):
   FilterBatch is pointwise Filter; the batch projection is pointwise the row projection up to
   string / []byte; what the AggregatePlan evaluates on a chunk in batch mode is what it evaluates
   on the chunk's pairs one after the other in row mode (from the same keys of aggrMap to the same
   keys), up to string / []byte in the GROUP BY values *)
Hypothesis Hf : forall c bs, fbatch c = Ok bs -> Forall2 (fun kv b => frow kv = Ok b) c bs.
Hypothesis Hp : forall c rs, pbatch c = Ok rs ->
  Forall2 (fun kv r => exists r', prow kv = Ok r' /\ nrow r' = nrow r) c rs.
Hypothesis Hobs : forall p t c os t', obs_batch p t c = Ok (os, t') ->
  exists os', smap_res (obs_row p) t c = Ok (os', t') /\ Forall2 (pobs_sim F) os' os.
Variable B : nat.
Hypothesis HB : 1 <= B.

Local Notation slots := (list (option P)).
Local Notation req := (fun r' r : Order.row => nrow r' = nrow r).
Local Notation proj_rows := (proj_rows P frow prow).
Local Notation proj_bats := (proj_bats P fbatch pbatch).
Local Notation agg_row := (agg_row P frow F fadd fsub fmul fdiv fltb fis0 of_Z to_Z fmt_f bits_f json_f parse_f json_s T t0 obs_row).
Local Notation agg_batch := (agg_batch P fbatch F fadd fsub fmul fdiv fltb fis0 of_Z to_Z fmt_f bits_f json_f parse_f json_s T t0 obs_batch).
Local Notation agg_rows := (agg_rows P frow F fadd fsub fmul fdiv fltb fis0 of_Z to_Z fmt_f bits_f json_f parse_f json_s T t0 obs_row aconv).
Local Notation agg_bats := (agg_bats P fbatch F fadd fsub fmul fdiv fltb fis0 of_Z to_Z fmt_f bits_f json_f parse_f json_s T t0 obs_batch aconv).
Local Notation run_shape_row := (run_shape_row P frow prow F fadd fsub fmul fdiv fltb fis0 of_Z to_Z fmt_f bits_f json_f parse_f json_s T t0 obs_row aconv pi pf).
Local Notation run_shape_batch := (run_shape_batch P fbatch pbatch F fadd fsub fmul fdiv fltb fis0 of_Z to_Z fmt_f bits_f json_f parse_f json_s T t0 obs_batch aconv pi pf).

(* ---------------------------------------------------------------- the two children of an order node *)
Lemma proj_src : forall (c : slots) bs, proj_bats B c = Ok bs ->
  Forall nonempty bs /\ exists rows, proj_rows c = Ok rows /\ nrows rows = nrows (List.concat bs).
Proof.
  intros c bs H. unfold SelectPlans.proj_bats, SelectPlans.proj_rows in *.
  destruct (scan_proj_batch_row P Order.row frow fbatch prow pbatch req Hf Hp B c bs HB H) as (rows & Er & Fr & Hne).
  split; [exact Hne|]. exists rows. split; [exact Er|]. unfold nrows. now apply Forall2_map_eq.
Qed.

Lemma proj_done_r : proj_rows [] = Ok [].
Proof. reflexivity. Qed.

Lemma drain_batch_nil {R} (pb : list P -> res (list R)) : drain_batch fbatch pb B [] = Ok [].
Proof.
  unfold drain_batch. cbn [List.length drain_batch_fuel]. unfold proj_batch.
  rewrite (scan_batch_nil P fbatch B HB). reflexivity.
Qed.

Lemma proj_done_b : proj_bats B [] = Ok [].
Proof. apply drain_batch_nil. Qed.

Lemma agg_src (p : Group.plan F) : forall (c : slots) bs, agg_bats B p c = Ok bs ->
  Forall nonempty bs /\ exists rows, agg_rows p c = Ok rows /\ nrows rows = nrows (List.concat bs).
Proof.
  intros c bs H. unfold SelectPlans.agg_bats, SelectPlans.agg_rows in *.
  apply bind_ok' in H. destruct H as (rows & Eb & H). inversion H; subst bs.
  destruct (AggregateProofs.chunks_of_spec (map aconv rows) HB) as (Hc & Hn).
  split; [exact Hn|]. exists (map aconv rows).
  rewrite (agg_batch_row P frow fbatch F fadd fsub fmul fdiv fltb fis0 of_Z to_Z fmt_f bits_f json_f parse_f json_s
             T t0 obs_row obs_batch Hf Hobs B p c rows HB Eb).
  split; [reflexivity|]. now rewrite Hc.
Qed.

Lemma agg_done_r all fields : agg_rows (Group.Plan all fields 0 None) [] = Ok [].
Proof. reflexivity. Qed.

Lemma agg_done_b all fields : agg_bats B (Group.Plan all fields 0 None) [] = Ok [].
Proof.
  unfold SelectPlans.agg_bats, SelectPlans.agg_batch, sdrain_batch. cbn [List.length sdrain_batch_fuel].
  pose proof (scan_batch_nil P fbatch B HB) as E. unfold slot in E. rewrite E. reflexivity.
Qed.

(* ---------------------------------------------------------------- LIMIT over the projection *)
Lemma proj_limit_batch_row start count (sl : slots) louts :
  ldrain_batch_fuel (proj_batch fbatch pbatch B) (limit_fuel P sl) B start count Limit.linit sl = Ok louts ->
  exists lrows, ldrain_row (proj_next frow prow) start count sl = Ok lrows /\
                nrows lrows = nrows (List.concat louts).
Proof.
  intros H.
  pose proof (child_exhausted P Order.row frow fbatch prow pbatch req Hf Hp B HB) as Hex.
  assert (Hmain : exists pb e s',
             pulled _ _ (proj_batch fbatch pbatch B) sl pb e s' /\
             List.concat louts = firstn count (skipn start (List.concat pb)) /\
             (e = true \/ start + count <= List.length (List.concat pb))).
  { destruct count as [|count].
    - destruct (drain_stop_zero _ _ _ ([] : Order.row) _ _ _ _ _ H) as (-> & pb & e & s' & Hpl & Hd).
      exists pb, e, s'. repeat split; auto. rewrite Nat.add_0_r. exact Hd.
    - apply (drain_stop_pos _ _ _ Hex ([] : Order.row) (limit_fuel P sl) B start); [lia | exact H]. }
  destruct Hmain as (pb & e & s' & Hpl & Ec & Hd).
  destruct (pulled_rows P Order.row frow fbatch prow pbatch req Hf Hp B HB _ _ _ _ Hpl)
    as (consumed & rows_c & Es & Hr & Fr & He).
  pose proof (Forall2_len' _ _ _ Fr) as Hl.
  exists (firstn count (skipn start rows_c)). split.
  - rewrite Es. apply ldrain_row_of_prefix; [exact Hr|].
    destruct Hd as [->|Hd]; [left; now apply He | right; lia].
  - rewrite Ec. unfold nrows. rewrite <- !firstn_map, <- !skipn_map. f_equal. f_equal.
    now apply Forall2_map_eq.
Qed.

(* ---------------------------------------------------------------- every plan buildFinalPlan builds *)
Theorem shape_batch_row (s : stmt F) (sh : shape) (sl : slots) outs :
  run_shape_batch B s sh sl = Ok outs ->
  exists rows, run_shape_row s sh sl = Ok rows /\ nrows rows = nrows outs.
Proof.
  intros H.
  destruct sh as [| st l | os ch | st n ch].
  - (* ProjectionPlan *)
    cbn [SelectPlans.run_shape_batch SelectPlans.run_shape_row] in *.
    apply bind_ok' in H. destruct H as (bs & Eb & H). inversion H; subst outs.
    destruct (proj_src sl bs Eb) as (_ & rows & Er & Hn). eauto.
  - (* AggregatePlan, LIMIT pushed down or absent *)
    cbn [SelectPlans.run_shape_batch SelectPlans.run_shape_row] in *.
    apply bind_ok' in H. destruct H as (bs & Eb & H). inversion H; subst outs.
    destruct (agg_src _ sl bs Eb) as (_ & rows & Er & Hn). eauto.
  - (* FinalOrderPlan on top *)
    destruct ch as [| st l | |]; try discriminate H.
    + cbn [SelectPlans.run_shape_batch SelectPlans.run_shape_row] in *. unfold with_ords in *.
      destruct (Order.init_orders os (s_names F s) (s_types F s)) as [ords|]; [|discriminate].
      apply bind_ok' in H. destruct H as (bs & Eb & H). inversion H; subst outs.
      exact (ord_batch_row slots proj_rows (proj_bats B) pi pf ords proj_src B sl bs Eb).
    + destruct st as [|st]; [|discriminate H]. destruct l as [l|]; [discriminate H|].
      cbn [SelectPlans.run_shape_batch SelectPlans.run_shape_row] in *. unfold with_ords in *.
      destruct (Order.init_orders os (s_names F s) (s_types F s)) as [ords|]; [|discriminate].
      apply bind_ok' in H. destruct H as (bs & Eb & H). inversion H; subst outs.
      exact (ord_batch_row slots (agg_rows _) (agg_bats B _) pi pf ords (agg_src _) B sl bs Eb).
  - (* FinalLimitPlan on top *)
    destruct ch as [| st' l | os ch |]; try discriminate H.
    + cbn [SelectPlans.run_shape_batch SelectPlans.run_shape_row] in *.
      apply bind_ok' in H. destruct H as (bs & Eb & H). inversion H; subst outs.
      exact (proj_limit_batch_row st n sl bs Eb).
    + destruct ch as [| st' l | |]; try discriminate H.
      * cbn [SelectPlans.run_shape_batch SelectPlans.run_shape_row] in *. unfold with_ords in *.
        destruct (Order.init_orders os (s_names F s) (s_types F s)) as [ords|]; [|discriminate].
        apply bind_ok' in H. destruct H as (bs & Eb & H). inversion H; subst outs.
        exact (ord_limit_batch_row slots proj_rows (proj_bats B) [] pi pf ords proj_src proj_done_r proj_done_b
                 _ B st n sl bs Eb).
      * destruct st' as [|st']; [|discriminate H]. destruct l as [l|]; [discriminate H|].
        cbn [SelectPlans.run_shape_batch SelectPlans.run_shape_row] in *. unfold with_ords in *.
        destruct (Order.init_orders os (s_names F s) (s_types F s)) as [ords|]; [|discriminate].
        apply bind_ok' in H. destruct H as (bs & Eb & H). inversion H; subst outs.
        unfold stmt_plan in *.
        destruct (s_aggr F s) as [[all fields]|].
        -- exact (ord_limit_batch_row slots (agg_rows _) (agg_bats B _) [] pi pf ords (agg_src _)
                    (agg_done_r all fields) (agg_done_b all fields) _ B st n sl bs Eb).
        -- exact (ord_limit_batch_row slots (agg_rows _) (agg_bats B _) [] pi pf ords (agg_src _)
                    (agg_done_r true []) (agg_done_b true []) _ B st n sl bs Eb).
Qed.

(* the statement-level theorem: every SELECT statement (any WHERE clause, projection or
   aggregates, with or without ORDER BY, with or without LIMIT), every store, every B >= 1 *)
Theorem stmt_batch_row (s : stmt F) (sl : slots) outs :
  run_batch P fbatch pbatch F fadd fsub fmul fdiv fltb fis0 of_Z to_Z fmt_f bits_f json_f parse_f json_s
            T t0 obs_batch aconv pi pf B s sl = Ok outs ->
  exists rows,
    run_row P frow prow F fadd fsub fmul fdiv fltb fis0 of_Z to_Z fmt_f bits_f json_f parse_f json_s
            T t0 obs_row aconv pi pf s sl = Ok rows /\
    nrows rows = nrows outs.
Proof. unfold run_batch, run_row. apply shape_batch_row. Qed.

End StatementProofs.

(* ================================================================ 7. the glue hypotheses hold for the evaluator twins *)
Section ConcreteProofs.
Variable fo : fops.
Variable re_match : bytes -> bytes -> res bool.
Local Notation value := (value fo).
Local Notation gvalue := (Group.value (F fo)).

Variable ag : aggops fo.
Local Notation fbits := (a_fbits fo ag).

(* the rendering respects the relation between a batch value and the row value of the same
   pair ([vrel]: equal, or []byte where row mode has the string of the same bytes); on these it
   leaves exactly the difference [okey] removes.  No law about the float operations is needed. *)
Lemma conv_val_vrel (b r : value) : vrel fo b r -> okey (conv_val fo fbits b) = okey (conv_val fo fbits r).
Proof. intros [->|(s & -> & ->)]; reflexivity. Qed.

Lemma conv_row_vrel (r' r : list value) :
  Forall2 (fun x y => vrel fo y x) r' r -> nrow (conv_row fo fbits r') = nrow (conv_row fo fbits r).
Proof.
  unfold nrow, conv_row. induction 1 as [|x y r' r Hxy _ IH]; cbn [map]; [reflexivity|].
  now rewrite <- (conv_val_vrel y x Hxy), IH.
Qed.

(* conversely, on the scalar columns (everything the compare* functions look at) the
   rendering loses nothing: equal renderings up to string / []byte are equal contents (for a
   float column: provided equal bit patterns are equal float identities) *)
Definition scalar (v : value) : Prop :=
  match v with VBytes _ | VStr _ | VInt _ | VFlt _ | VBool _ => True | _ => False end.
Lemma conv_val_scalar_inj (x y : value) : scalar x -> scalar y ->
  (forall f f', fbits f = fbits f' -> f_bits fo f = f_bits fo f') ->
  okey (conv_val fo fbits x) = okey (conv_val fo fbits y) -> canon_of fo x = canon_of fo y.
Proof.
  destruct x, y; cbn [scalar canon_of conv_val okey]; intros Hx Hy Hb H; try contradiction; try discriminate H;
    injection H as H; subst; try rewrite (Hb _ _ H); reflexivity.
Qed.

(* processProjectionBatch is pointwise processProjection, in the finer relation (the statement
   of Proofs/BatchRowProofs.v project_row_ok / sel_pbatch_ok before it is weakened to content) *)
Lemma project_row_ok_vrel kv : forall fields row,
  Forall (fun f => is_list_lit f = false) fields ->
  Forall2 (fun f b => agree fo re_match f kv b) fields row ->
  exists row', project_row fo re_match fields kv = Ok row' /\ Forall2 (fun x y => vrel fo y x) row' row.
Proof.
  induction fields as [|f fields IH]; intros row Hok Fa; inversion Fa; subst.
  - exists []. split; [reflexivity | constructor].
  - inversion Hok; subst.
    destruct H1 as (r & Er & Vr).
    destruct (IH _ H4 H3) as (row' & Ep & Sc).
    exists (r :: row'). split.
    + cbn [project_row]. rewrite Er. cbn [bind].
      assert (Hk : vkind fo r <> 2).
      { intros Hk. apply (proj2 (eval_kind fo re_match _ _ _ _ Er)) in Hk. congruence. }
      rewrite Ep. destruct r; try reflexivity. exfalso; apply Hk; reflexivity.
    + constructor; [exact Vr | exact Sc].
Qed.

Lemma sel_pbatch_ok_vrel fields : fields_ok fields ->
  forall c rs, sel_pbatch fo re_match fields c = Ok rs ->
  Forall2 (fun kv r => exists r', sel_prow fo re_match fields kv = Ok r' /\ Forall2 (fun x y => vrel fo y x) r' r) c rs.
Proof.
  intros Hok c rs H. destruct fields as [fs|]; cbn [sel_pbatch sel_prow] in *.
  - unfold project_batch in H. apply bind_ok' in H. destruct H as (cols & Ec & H).
    pose proof (transpose_ok fo re_match _ _ _ _ (project_cols_ok fo re_match _ _ _ Ec) H) as Fr.
    eapply Forall2_imp; [|exact Fr]. intros kv row Fa. now apply project_row_ok_vrel.
  - unfold star_batch in H. inversion H; subst rs. apply Forall2_map_r.
    intros kv. exists [VBytes (fst kv); VBytes (snd kv)]. split; [reflexivity|].
    repeat constructor; apply vrel_refl.
Qed.

Lemma c_pbatch_ok fields : fields_ok fields ->
  forall c rs, c_pbatch fo re_match ag fields c = Ok rs ->
  Forall2 (fun kv r => exists r', c_prow fo re_match ag fields kv = Ok r' /\ nrow r' = nrow r) c rs.
Proof.
  intros Hok c rs H. unfold c_pbatch in H. apply bind_ok' in H. destruct H as (rs0 & E & H).
  inversion H; subst rs. clear H.
  pose proof (sel_pbatch_ok_vrel fields Hok c rs0 E) as Fr. clear E.
  induction Fr as [|kv r0 c rs0 (r' & Er & Sc) _ IH]; cbn [map]; constructor; [|exact IH].
  exists (conv_row fo fbits r'). unfold c_prow. rewrite Er. cbn [bind]. split; [reflexivity|].
  now apply conv_row_vrel.
Qed.

(* ---- the observations of the AggregatePlan *)
Lemma gval_vrel (b r : value) (gb : gvalue) : vrel fo b r -> gval fo b = Ok gb ->
  exists gr, gval fo r = Ok gr /\ gnorm (F fo) gr = gnorm (F fo) gb.
Proof.
  intros [->|(s & -> & ->)] H.
  - exists gb. auto.
  - cbn [gval] in *. inversion H; subst gb. exists (Group.VStr s). split; reflexivity.
Qed.

Lemma evals_agree kv : forall gs grow g,
  Forall2 (fun f b => agree fo re_match f kv b) gs grow -> gvals fo grow = Ok g ->
  exists g', evals_row fo re_match gs kv = Ok g' /\ map (gnorm (F fo)) g' = map (gnorm (F fo)) g.
Proof.
  induction gs as [|f gs IH]; intros grow g Fa Hg; inversion Fa as [|? b ? grow' Hab Fa']; subst.
  - cbn [gvals] in Hg. inversion Hg; subst. exists []. split; reflexivity.
  - cbn [gvals] in Hg. apply bind_ok' in Hg. destruct Hg as (gb & Eb & Hg).
    apply bind_ok' in Hg. destruct Hg as (g0 & E0 & Hg). inversion Hg; subst g.
    destruct Hab as (r & Er & Vr).
    destruct (gval_vrel b r gb Vr Eb) as (gr & Egr & Hn).
    destruct (IH grow' g0 Fa' E0) as (g' & Eg' & Hn').
    exists (gr :: g'). cbn [evals_row]. rewrite Er. cbn [bind]. rewrite Egr. cbn [bind]. rewrite Eg'. cbn [bind].
    split; [reflexivity|]. cbn [map]. now rewrite Hn, Hn'.
Qed.

Lemma c_obs_batch_ok gs ks args :
  forall c os, c_obs_batch fo re_match gs ks args c = Ok os ->
  Forall2 (fun kv o => exists o', c_obs_row fo re_match gs ks args kv = Ok o' /\ pobs_sim (F fo) o' o) c os.
Proof.
  intros c os H. unfold c_obs_batch in H. apply bind_ok' in H. destruct H as (grows & Eg & H).
  unfold project_batch in Eg. apply bind_ok' in Eg. destruct Eg as (cols & Ec & Et).
  pose proof (transpose_ok fo re_match _ _ _ _ (project_cols_ok fo re_match _ _ _ Ec) Et) as Fr.
  clear Ec Et cols. revert os H.
  induction Fr as [|kv grow c grows Fa _ IH]; intros os H; cbn [obs_zip] in H.
  - inversion H; constructor.
  - apply bind_ok' in H. destruct H as (g & Eg & H).
    apply bind_ok' in H. destruct H as (k & Ek & H).
    apply bind_ok' in H. destruct H as (a & Ea & H).
    apply bind_ok' in H. destruct H as (rest & Er & H). inversion H; subst os.
    constructor; [|apply IH; exact Er].
    destruct (evals_agree kv gs grow g Fa Eg) as (g' & Eg' & Hn).
    exists (Group.PObs g' k a). unfold c_obs_row. rewrite Eg', Ek, Ea. cbn [bind].
    split; [reflexivity|]. unfold pobs_sim. cbn [Group.p_g Group.p_k Group.p_a]. auto.
Qed.

(* the lazy observation: batchGetAggrKeys (ExecuteBatch on the chunk) yields per pair what
   getAggrKey (Execute) yields, up to string / []byte *)
Lemma c_batch_g_ok gs : forall c gss, c_batch_g fo re_match gs c = Ok gss ->
  Forall2 (fun kv g => exists g', evals_row fo re_match gs kv = Ok g' /\
                                  map (gnorm (F fo)) g' = map (gnorm (F fo)) g) c gss.
Proof.
  intros c gss H. unfold c_batch_g in H. apply bind_ok' in H. destruct H as (grows & Eg & H).
  unfold project_batch in Eg. apply bind_ok' in Eg. destruct Eg as (cols & Ec & Et).
  pose proof (transpose_ok fo re_match _ _ _ _ (project_cols_ok fo re_match _ _ _ Ec) Et) as Fr.
  clear Ec Et cols. revert gss H.
  induction Fr as [|kv grow c grows Fa _ IH]; intros gss H; cbn [gvals_all] in H.
  - inversion H; constructor.
  - apply bind_ok' in H. destruct H as (g & Eg & H).
    apply bind_ok' in H. destruct H as (gs' & Egs & H). inversion H; subst gss.
    constructor; [|apply IH; exact Egs].
    exact (evals_agree kv gs grow g Fa Eg).
Qed.

Lemma c_lobs_batch_ok gs ks args (p : Group.plan (F fo)) t c os t' :
  c_lobs_batch fo re_match ag gs ks args p t c = Ok (os, t') ->
  exists os', smap_res (c_lobs_row fo re_match ag gs ks args p) t c = Ok (os', t') /\
              Forall2 (pobs_sim (F fo)) os' os.
Proof.
  unfold c_lobs_batch, c_lobs_row. intros H.
  exact (lobs_batch_ok kvpair (F fo) (f_fmt fo) (a_bits fo ag) (evals_row fo re_match gs) (c_batch_g fo re_match gs)
           (evals_row fo re_match ks) (fun need => evals_need fo re_match need 0 args) (c_batch_g_ok gs) p t c os t' H).
Qed.

(* ---- the lazy observation against the eager one: where the eager observation of a pair
   succeeds, the lazy one succeeds with the blanked observation *)
Lemma evals_need_mask need : forall args i kv a,
  evals_row fo re_match args kv = Ok a ->
  evals_need fo re_match need i args kv = Ok (mask_from (F fo) need i a).
Proof.
  induction args as [|e args IH]; intros i kv a H; cbn [evals_row evals_need] in *.
  - inversion H. reflexivity.
  - apply bind_ok' in H. destruct H as (v & Ev & H).
    apply bind_ok' in H. destruct H as (g & Eg & H).
    apply bind_ok' in H. destruct H as (gs' & Egs & H). inversion H; subst a.
    cbn [mask_from]. rewrite (IH _ _ _ Egs). destruct (need i).
    + rewrite Ev. cbn [bind]. rewrite Eg. reflexivity.
    + reflexivity.
Qed.

Lemma c_lobs_row_blank gs ks args (p : Group.plan (F fo)) t kv o :
  c_obs_row fo re_match gs ks args kv = Ok o ->
  c_lobs_row fo re_match ag gs ks args p t kv = Ok (blank (F fo) (f_fmt fo) (a_bits fo ag) p t o).
Proof.
  unfold c_obs_row. intros H.
  apply bind_ok' in H. destruct H as (g & Eg & H).
  apply bind_ok' in H. destruct H as (k & Ek & H).
  apply bind_ok' in H. destruct H as (a & Ea & H). inversion H; subst o.
  unfold c_lobs_row, lobs_row, lobs_tail, blank. cbn [Group.p_g Group.p_k Group.p_a].
  rewrite Eg, Ek, (evals_need_mask _ _ 0 _ _ Ea).
  destruct (Group.pl_all p); cbn [bind];
    match goal with |- context [seen_mem ?key t] => destruct (seen_mem key t) end; reflexivity.
Qed.

Local Notation c_tail ks args := (lobs_tail (f_fmt fo) (a_bits fo ag) (evals_row fo re_match ks)
                                              (fun need => evals_need fo re_match need 0 args)).
Local Notation c_blank := (blank (F fo) (f_fmt fo) (a_bits fo ag)).

Lemma lobs_tail_blank ks args (p : Group.plan (F fo)) t kv g k a :
  evals_row fo re_match ks kv = Ok k -> evals_row fo re_match args kv = Ok a ->
  c_tail ks args p t kv (if Group.pl_all p then [] else g) = Ok (c_blank p t (Group.PObs g k a)).
Proof.
  intros Ek Ea. unfold lobs_tail, blank. cbn [Group.p_g Group.p_k Group.p_a].
  rewrite Ek, (evals_need_mask _ _ 0 _ _ Ea).
  match goal with |- context [seen_mem ?key t] => destruct (seen_mem key t) end; reflexivity.
Qed.

(* batch mode: the eager observation of a chunk, made lazy *)
Lemma obs_zip_lazy ks args (p : Group.plan (F fo)) : forall ch grows t os,
  List.length grows = List.length ch ->
  obs_zip fo re_match ks args ch grows = Ok os ->
  exists gss, gvals_all fo grows = Ok gss /\
    lobs_zip (f_fmt fo) (a_bits fo ag) (evals_row fo re_match ks) (fun need => evals_need fo re_match need 0 args)
             p t ch (map (fun g => if Group.pl_all p then [] else g) gss) =
    Ok (thread _ _ _ (c_blank p) t os, tstate _ _ _ (c_blank p) t os).
Proof.
  induction ch as [|kv ch IH]; intros grows t os Hl H.
  - destruct grows; [|discriminate Hl]. cbn in H. inversion H; subst os. exists []. split; reflexivity.
  - destruct grows as [|grow grows]; [discriminate Hl|]. cbn [obs_zip] in H.
    apply bind_ok' in H. destruct H as (g & Eg & H).
    apply bind_ok' in H. destruct H as (k & Ek & H).
    apply bind_ok' in H. destruct H as (a & Ea & H).
    apply bind_ok' in H. destruct H as (rest & Er & H). inversion H; subst os.
    destruct (IH grows (snd (c_blank p t (Group.PObs g k a))) rest ltac:(cbn in Hl; lia) Er) as (gss & Egs & Ez).
    exists (g :: gss). split.
    + cbn [gvals_all]. rewrite Eg. cbn [bind]. rewrite Egs. reflexivity.
    + cbn [map lobs_zip]. rewrite (lobs_tail_blank ks args p t kv g k a Ek Ea). cbn [bind].
      rewrite Ez. reflexivity.
Qed.

Lemma all_nil_map {X Y} (ch : list X) (gss : list (list Y)) : List.length gss = List.length ch ->
  map (fun _ : X => @nil Y) ch = map (fun _ : list Y => @nil Y) gss.
Proof.
  revert gss. induction ch as [|x ch IH]; intros [|g gss] H; cbn in *; try discriminate; [reflexivity|].
  f_equal. apply IH. lia.
Qed.

Lemma gvals_all_length : forall grows gss, gvals_all fo grows = Ok gss -> List.length gss = List.length grows.
Proof.
  induction grows as [|g grows IH]; intros gss H; cbn [gvals_all] in H.
  - inversion H. reflexivity.
  - apply bind_ok' in H. destruct H as (x & _ & H). apply bind_ok' in H. destruct H as (xs & Exs & H).
    inversion H; subst. cbn. f_equal. now apply IH.
Qed.

Lemma c_lobs_batch_blank gs ks args (p : Group.plan (F fo)) t ch os :
  c_obs_batch fo re_match gs ks args ch = Ok os ->
  c_lobs_batch fo re_match ag gs ks args p t ch =
  Ok (thread _ _ _ (c_blank p) t os, tstate _ _ _ (c_blank p) t os).
Proof.
  unfold c_obs_batch. intros H. apply bind_ok' in H. destruct H as (grows & Eg & H).
  assert (Hl : List.length grows = List.length ch).
  { unfold project_batch in Eg. apply bind_ok' in Eg. destruct Eg as (cols & Ec & Et).
    pose proof (transpose_ok fo re_match _ _ _ _ (project_cols_ok fo re_match _ _ _ Ec) Et) as Fr.
    clear - Fr. induction Fr; cbn; [reflexivity | now f_equal]. }
  destruct (obs_zip_lazy ks args p ch grows t os Hl H) as (gss & Egs & Ez).
  unfold c_lobs_batch, lobs_batch, c_batch_g.
  destruct (Group.pl_all p) eqn:Ea.
  - cbn [bind]. rewrite (all_nil_map ch gss) by (rewrite (gvals_all_length _ _ Egs); exact Hl). exact Ez.
  - rewrite Eg. cbn [bind]. rewrite Egs. cbn [bind]. rewrite map_id in Ez. exact Ez.
Qed.

Lemma thread_blank (p : Group.plan (F fo)) : forall l t,
  thread _ _ _ (blank (F fo) (f_fmt fo) (a_bits fo ag) p) t l = blank_all (F fo) (f_fmt fo) (a_bits fo ag) p t l.
Proof. induction l as [|o l IH]; intros t; cbn [thread blank_all]; [reflexivity | now rewrite IH]. Qed.

(* ---------------------------------------------------------------- the theorems for checked statements *)
Variable pi pf : bytes -> option Z.

(* every final plan buildFinalPlan can build (and only those evaluate to a result), every WHERE
   clause, field list, GROUP BY list and aggregate argument of the full expression language,
   every stream of slots, every batch size B >= 1 *)
Theorem select_shape_batch_row (B : nat) (q : cstmt fo) (sh : shape) (sl : list (option kvpair)) outs :
  1 <= B -> fields_ok (q_fields fo q) ->
  select_shape_batch fo re_match ag pi pf B q sh sl = Ok outs ->
  exists rows, select_shape_row fo re_match ag pi pf q sh sl = Ok rows /\ nrows rows = nrows outs.
Proof.
  intros HB Hok H. unfold select_shape_batch, select_shape_row in *.
  eapply shape_batch_row; eauto.
  - intros c bs Hc. exact (filter_batch_ok fo re_match _ c bs Hc).
  - apply c_pbatch_ok. exact Hok.
  - intros p t c os t'. apply c_lobs_batch_ok.
Qed.

Theorem select_stmt_batch_row (B : nat) (q : cstmt fo) (sl : list (option kvpair)) outs :
  1 <= B -> fields_ok (q_fields fo q) ->
  select_stmt_batch fo re_match ag pi pf B q sl = Ok outs ->
  exists rows, select_stmt_row fo re_match ag pi pf q sl = Ok rows /\ nrows rows = nrows outs.
Proof. unfold select_stmt_batch, select_stmt_row. apply select_shape_batch_row. Qed.

(* SELECT ... WHERE ... ORDER BY ... *)
Corollary select_ordered_batch_row B q os sl outs :
  1 <= B -> fields_ok (q_fields fo q) ->
  select_shape_batch fo re_match ag pi pf B q (SOrder os SProj) sl = Ok outs ->
  exists rows, select_shape_row fo re_match ag pi pf q (SOrder os SProj) sl = Ok rows /\ nrows rows = nrows outs.
Proof. apply select_shape_batch_row. Qed.

(* SELECT ... WHERE ... ORDER BY ... LIMIT start, count *)
Corollary select_ordered_limit_batch_row B q os start count sl outs :
  1 <= B -> fields_ok (q_fields fo q) ->
  select_shape_batch fo re_match ag pi pf B q (SLimit start count (SOrder os SProj)) sl = Ok outs ->
  exists rows, select_shape_row fo re_match ag pi pf q (SLimit start count (SOrder os SProj)) sl = Ok rows /\
               nrows rows = nrows outs.
Proof. apply select_shape_batch_row. Qed.

(* aggregates / GROUP BY, with or without the pushed-down LIMIT: the rows are equal *)
Theorem select_agg_batch_row B q (p : Group.plan (F fo)) sl rows :
  1 <= B ->
  select_agg_batch fo re_match ag B q p sl = Ok rows -> select_agg_row fo re_match ag q p sl = Ok rows.
Proof.
  intros HB H. unfold select_agg_batch, select_agg_row in *.
  eapply agg_batch_row; eauto.
  - intros c bs Hc. exact (filter_batch_ok fo re_match _ c bs Hc).
  - intros p' t c os t'. apply c_lobs_batch_ok.
Qed.

(* the lazy composition refines the eager one (row mode): wherever the eager composition -- all
   three groups of expressions evaluated on every pair, every group completed -- answers with
   rows, the composition with Go's evaluation discipline answers with the same rows *)
Theorem select_agg_row_refines q (p : Group.plan (F fo)) sl rows :
  select_agg_row_eager fo re_match ag q p sl = Ok rows -> select_agg_row fo re_match ag q p sl = Ok rows.
Proof.
  unfold select_agg_row_eager, select_agg_row, SelectPlans.agg_row. intros H.
  apply bind_ok' in H. destruct H as (obs & Ed & H). apply of_exec_ok in H.
  rewrite (sdrain_row_of_drain _ _ _ _ _ _ _ _
             (fun t kv o => c_lobs_row_blank (q_group fo q) (q_keys fo q) (q_args fo q) p t kv o) [] sl obs Ed).
  cbn [bind]. rewrite thread_blank. unfold lrun_row. rewrite prepare_blank.
  apply (lrun_row_refines (F fo)). exact H.
Qed.

(* ... and in batch mode, every B >= 1 *)
Theorem select_agg_batch_refines B q (p : Group.plan (F fo)) sl rows : 1 <= B ->
  select_agg_batch_eager fo re_match ag B q p sl = Ok rows -> select_agg_batch fo re_match ag B q p sl = Ok rows.
Proof.
  unfold select_agg_batch_eager, select_agg_batch, SelectPlans.agg_batch. intros HB H.
  apply bind_ok' in H. destruct H as (chunks & Ed & H). apply of_exec_ok in H.
  (* an eager observation of a non-empty chunk is not empty *)
  assert (Hne : forall c, c_obs_batch fo re_match (q_group fo q) (q_keys fo q) (q_args fo q) c = Ok [] -> c = []).
  { intros c Hc. unfold c_obs_batch in Hc. apply bind_ok' in Hc. destruct Hc as (grows & Eg & Hc).
    destruct c as [|kv c]; [reflexivity|]. exfalso.
    destruct grows as [|grow grows]; cbn [obs_zip] in Hc; [discriminate|].
    apply bind_ok' in Hc. destruct Hc as (? & _ & Hc). apply bind_ok' in Hc. destruct Hc as (? & _ & Hc).
    apply bind_ok' in Hc. destruct Hc as (? & _ & Hc). apply bind_ok' in Hc. destruct Hc as (? & _ & Hc).
    discriminate Hc. }
  rewrite (sdrain_batch_of_drain _ _ _ _ _ _ _ _
             (fun t c rs => c_lobs_batch_blank (q_group fo q) (q_keys fo q) (q_args fo q) p t c rs)
             Hne B [] sl chunks Ed).
  cbn [bind]. unfold lrun_batch.
  rewrite AggregateProofs.prepare_batch_row, threadc_concat, thread_blank, prepare_blank.
  rewrite <- AggregateProofs.prepare_batch_row.
  apply (lrun_batch_refines (F fo)); assumption.
Qed.

(* ... GROUP BY ... ORDER BY ... ([q_fields] plays no role in this plan; [None] will do) *)
Corollary select_agg_ordered_batch_row B q os sl outs :
  1 <= B -> fields_ok (q_fields fo q) ->
  select_shape_batch fo re_match ag pi pf B q (SOrder os (SAgg 0 None)) sl = Ok outs ->
  exists rows, select_shape_row fo re_match ag pi pf q (SOrder os (SAgg 0 None)) sl = Ok rows /\
               nrows rows = nrows outs.
Proof. apply select_shape_batch_row. Qed.

(* ... GROUP BY ... ORDER BY ... LIMIT start, count *)
Corollary select_agg_ordered_limit_batch_row B q os start count sl outs :
  1 <= B -> fields_ok (q_fields fo q) ->
  select_shape_batch fo re_match ag pi pf B q (SLimit start count (SOrder os (SAgg 0 None))) sl = Ok outs ->
  exists rows, select_shape_row fo re_match ag pi pf q (SLimit start count (SOrder os (SAgg 0 None))) sl = Ok rows /\
               nrows rows = nrows outs.
Proof. apply select_shape_batch_row. Qed.

End ConcreteProofs.
