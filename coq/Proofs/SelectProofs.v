(* Proofs/SelectProofs.v -- SELECT statements, field definitions that use other fields (defined
   before or after them) included: build_check (resolveFieldNames + Parse's checks + call
   validation) against Spec/Typing.v [select_typed]. *)
From Coq Require Import List String ZArith Bool Arith Lia.
Import ListNotations.
From KV Require Import Base.Bytes Base.Num Model.Ast Model.Value Model.Eval Model.Checker
                       Spec.Typing Proofs.CheckerProofs.
Open Scope string_scope.
Set Warnings "-unused-intro-pattern".

(* the names an expression uses (function names are not names) *)
Fixpoint names_of (e : expr) : list string :=
  match e with
  | EBin _ _ l r => names_of l ++ names_of r
  | ENot _ r => names_of r
  | ECall _ _ args => flat_map names_of args
  | EName _ s => [s]
  | ERef _ s _ => [s]
  | EList _ items => flat_map names_of items
  | EAccess _ l _ => names_of l
  | _ => []
  end.

(* field definitions that use no field names *)
Definition fields_plain (fields : list (string * expr)) : Prop :=
  Forall (fun nf => names_of (snd nf) = []) fields.

(* The references between fields are acyclic -- what SelectStmt.checkFieldCycles establishes
   before anything is resolved: the fields can be ranked so that a definition only uses field
   names of smaller rank (the rank of a field = the length of the longest chain of references
   leaving it; a chain never visits a field twice, so ranks stay below the number of fields).
   A name defined twice means its first definition, as everywhere. *)
Definition fields_ranked (fields : list (string * expr)) : Prop :=
  exists rank : string -> nat,
    (forall s d, get_named fields s = Some d -> rank s < List.length fields) /\
    (forall s d s', get_named fields s = Some d -> In s' (names_of d) ->
                    get_named fields s' <> None -> rank s' < rank s).

(* No field definition is a bare field name: `zq1 as zq0` is never resolved by the Go code (the
   field stands for the text "zq1", C05's subject), whereas the typing rules read a name that AS
   defines as its definition. *)
Definition fields_no_bare (fields : list (string * expr)) : Prop :=
  Forall (fun nf => match snd nf with EName _ s => get_named fields s = None | _ => True end) fields.

Section Sel.
Variable fo : fops.
Notation check := (check fo true).

(* ---------------------------------------------------------------- infer depends on the
   environment only through the names the expression uses *)
Section Agree.
Variable m : mode.

Section OneEnv.
Variable E : env.

Fixpoint infer_list_g (l : list expr) : option (list sty) :=
  match l with
  | [] => Some []
  | a :: l' => match infer fo E m a, infer_list_g l' with
               | Some t, Some ts => Some (t :: ts)
               | _, _ => None
               end
  end.

Lemma infer_call_g : forall p n args,
  infer fo E m (ECall p n args) =
  match fname n with
  | None => None
  | Some nm =>
      match infer_list_g args with
      | None => None
      | Some ts =>
          match scalar_sig nm with
          | Some (nargs, more, ret) =>
              if count_ok nargs more (List.length args) && params_ok nm ts then Some ret else None
          | None => aggr_sig nm
          end
      end
  end.
Proof. reflexivity. Qed.

Lemma infer_elist_g : forall p items,
  infer fo E m (EList p items) =
  match infer_list_g items with
  | Some (t :: ts) => if forallb (sty_eqb t) ts then Some SList else None
  | _ => None
  end.
Proof. reflexivity. Qed.

Lemma infer_in_list_g : forall p l q x rest,
  infer fo E m (EBin p OIn l (EList q (x :: rest))) =
  match infer fo E m l with
  | Some tl =>
      if strnum tl then
        match infer_list_g (x :: rest) with
        | Some ts => if forallb (sty_eqb tl) ts then Some SBool else None
        | None => None
        end
      else None
  | None => None
  end.
Proof. reflexivity. Qed.

Lemma infer_in_call_g : forall p l q n args,
  infer fo E m (EBin p OIn l (ECall q n args)) =
  match infer fo E m l with
  | Some tl => if strnum tl then
                 match infer fo E m (ECall q n args) with Some SList => Some SBool | _ => None end
               else None
  | None => None
  end.
Proof. reflexivity. Qed.

Lemma infer_in_name_g : forall p l q s,
  infer fo E m (EBin p OIn l (EName q s)) =
  match infer fo E m l with
  | Some tl => if strnum tl then
                 match infer fo E m (EName q s) with Some SList => Some SBool | _ => None end
               else None
  | None => None
  end.
Proof. reflexivity. Qed.

Lemma infer_between_g : forall p l q lo hi,
  infer fo E m (EBin p OBetween l (EList q [lo; hi])) =
  match infer fo E m l with
  | Some tl =>
      if strnum tl then
        match infer fo E m lo, infer fo E m hi with
        | Some a, Some b => if sty_eqb a tl && sty_eqb b tl then Some SBool else None
        | _, _ => None
        end
      else None
  | None => None
  end.
Proof. reflexivity. Qed.

(* typing implies that no comparison has the same keyword on both sides *)
Definition nsf_at (e : expr) : Prop := forall t, infer fo E m e = Some t -> no_same_field e = true.

Lemma nsf_list : forall items, Forall nsf_at items ->
  forall ts, infer_list_g items = Some ts -> forallb no_same_field items = true.
Proof.
  induction 1 as [|x l Hx _ IH]; intros ts Hi; [reflexivity|].
  cbn [infer_list_g] in Hi. destruct (infer fo E m x) as [t|] eqn:Ix; [|discriminate].
  destruct (infer_list_g l) as [tr|] eqn:Il; [|discriminate].
  cbn [forallb]. rewrite (Hx _ Ix), (IH _ eq_refl). reflexivity.
Qed.

Lemma infer_no_same_field : forall e, nsf_at e.
Proof.
  intros e0.
  enough (Hq : nsf_at e0 /\ match e0 with EList _ items => Forall nsf_at items | _ => True end) by apply Hq.
  induction e0 using expr_induction.
  - split; [|exact I]. destruct IHe0_1 as [IHl _]. destruct IHe0_2 as [IHr IHrx]. intros t Hi.
    cbn [no_same_field].
    destruct o;
      try (cbn [infer] in Hi; cbn [is_compare_op andb] in *;
           try (destruct (same_field e0_1 e0_2); [discriminate Hi|]);
           destruct (infer fo E m e0_1) as [tl|] eqn:Il; [|discriminate Hi];
           destruct (infer fo E m e0_2) as [tr|] eqn:Ir; [|discriminate Hi];
           rewrite (IHl _ Il), (IHr _ Ir); reflexivity).
    + (* IN *)
      cbn [is_compare_op andb negb].
      destruct e0_2; try (cbn [infer] in Hi; destruct (infer fo E m e0_1) as [tl|]; [destruct (strnum tl)|]; discriminate Hi).
      * rewrite infer_in_call_g in Hi. destruct (infer fo E m e0_1) as [tl|] eqn:Il; [|discriminate].
        destruct (strnum tl); [|discriminate].
        destruct (infer fo E m (ECall pos e0_2 args)) as [tr|] eqn:Ir; [|discriminate].
        rewrite (IHl _ Il), (IHr _ Ir). reflexivity.
      * rewrite infer_in_name_g in Hi. destruct (infer fo E m e0_1) as [tl|] eqn:Il; [|discriminate].
        rewrite (IHl _ Il). reflexivity.
      * destruct l as [|x rest]; [cbn [infer] in Hi; destruct (infer fo E m e0_1) as [tl|]; [destruct (strnum tl)|]; discriminate Hi|].
        rewrite infer_in_list_g in Hi. destruct (infer fo E m e0_1) as [tl|] eqn:Il; [|discriminate].
        destruct (strnum tl); [|discriminate].
        destruct (infer_list_g (x :: rest)) as [ts|] eqn:Ils; [|discriminate].
        rewrite (IHl _ Il). cbn [no_same_field andb]. exact (nsf_list _ IHrx _ Ils).
    + (* BETWEEN *)
      cbn [is_compare_op andb negb].
      destruct e0_2; try (cbn [infer] in Hi; destruct (infer fo E m e0_1) as [tl|]; [destruct (strnum tl)|]; discriminate Hi).
      destruct l as [|lo [|hi [|]]]; try (cbn [infer] in Hi; destruct (infer fo E m e0_1) as [tl|]; [destruct (strnum tl)|]; discriminate Hi).
      rewrite infer_between_g in Hi. destruct (infer fo E m e0_1) as [tl|] eqn:Il; [|discriminate].
      destruct (strnum tl); [|discriminate].
      destruct (infer fo E m lo) as [ta|] eqn:Ilo; [|discriminate].
      destruct (infer fo E m hi) as [tb|] eqn:Ihi; [|discriminate].
      inversion IHrx as [|? ? Hlo Hr']; subst. inversion Hr' as [|? ? Hhi _]; subst.
      rewrite (IHl _ Il). cbn [no_same_field forallb andb]. rewrite (Hlo _ Ilo), (Hhi _ Ihi). reflexivity.
  - split; [|exact I]. intros t _. reflexivity.
  - split; [|exact I]. intros t _. reflexivity.
  - split; [|exact I]. destruct IHe0 as [IHr _]. intros t Hi. cbn [infer] in Hi. cbn [no_same_field].
    destruct (infer fo E m e0) as [tr|] eqn:Ir; [|discriminate]. exact (IHr _ Ir).
  - split; [|exact I]. intros t Hi.
    assert (HS : Forall nsf_at args) by (eapply Forall_impl; [|exact H]; intros x [Hx _]; exact Hx).
    rewrite infer_call_g in Hi. destruct (fname e0); [|discriminate].
    destruct (infer_list_g args) as [ts|] eqn:Ils; [|discriminate].
    cbn [no_same_field]. exact (nsf_list _ HS _ Ils).
  - split; [|exact I]. intros t _. reflexivity.
  - split; [|exact I]. intros t Hi. discriminate Hi.
  - split; [|exact I]. intros t _. reflexivity.
  - split; [|exact I]. intros t _. reflexivity.
  - split; [|exact I]. intros t _. reflexivity.
  - assert (HS : Forall nsf_at l) by (eapply Forall_impl; [|exact H]; intros x [Hx _]; exact Hx).
    split; [|exact HS]. intros t Hi. rewrite infer_elist_g in Hi.
    destruct (infer_list_g l) as [ts|] eqn:Ils; [|discriminate].
    cbn [no_same_field]. exact (nsf_list _ HS _ Ils).
  - split; [|exact I]. destruct IHe0_1 as [IHl _]. intros t Hi. cbn [infer] in Hi. cbn [no_same_field].
    destruct (infer fo E m e0_1) as [tl|] eqn:Il; [|discriminate]. exact (IHl _ Il).
Qed.

End OneEnv.

Variables E1 E2 : env.

Definition agree_at (e : expr) : Prop :=
  (forall s, In s (names_of e) -> E1 s = E2 s) -> infer fo E1 m e = infer fo E2 m e.

Lemma agree_list : forall items, Forall agree_at items ->
  (forall s, In s (flat_map names_of items) -> E1 s = E2 s) ->
  infer_list_g E1 items = infer_list_g E2 items.
Proof.
  induction 1 as [|x l Hx _ IH]; intros Hn; [reflexivity|].
  cbn [infer_list_g]. rewrite Hx, IH; [reflexivity | |];
    intros s Hs; apply Hn; cbn [flat_map]; apply in_or_app; auto.
Qed.

Lemma infer_agree : forall e, agree_at e.
Proof.
  intros e0.
  enough (Hq : agree_at e0 /\ match e0 with EList _ items => Forall agree_at items | _ => True end) by apply Hq.
  induction e0 using expr_induction.
  - (* EBin *)
    split; [|exact I]. destruct IHe0_1 as [IHl _]. destruct IHe0_2 as [IHr IHrx]. intros Hn.
    assert (Hnl : forall s, In s (names_of e0_1) -> E1 s = E2 s)
      by (intros s Hs; apply Hn; cbn [names_of]; apply in_or_app; auto).
    assert (Hnr : forall s, In s (names_of e0_2) -> E1 s = E2 s)
      by (intros s Hs; apply Hn; cbn [names_of]; apply in_or_app; auto).
    specialize (IHl Hnl).
    destruct o; try (cbn [infer]; rewrite IHl, (IHr Hnr); reflexivity).
    + (* IN *)
      destruct e0_2; try (cbn [infer]; rewrite IHl; reflexivity).
      * rewrite !infer_in_call_g, IHl, (IHr Hnr). reflexivity.
      * rewrite !infer_in_name_g, IHl, (IHr Hnr). reflexivity.
      * destruct l as [|x rest]; [cbn [infer]; rewrite IHl; reflexivity|].
        rewrite !infer_in_list_g, IHl. cbn [names_of] in Hnr. rewrite (agree_list _ IHrx Hnr). reflexivity.
    + (* BETWEEN *)
      destruct e0_2; try (cbn [infer]; rewrite IHl; reflexivity).
      destruct l as [|lo [|hi [|]]]; try (cbn [infer]; rewrite IHl; reflexivity).
      rewrite !infer_between_g, IHl.
      inversion IHrx as [|? ? Hlo Hr']; subst. inversion Hr' as [|? ? Hhi _]; subst.
      cbn [names_of flat_map] in Hnr.
      rewrite Hlo, Hhi; [reflexivity | |];
        intros s Hs; apply Hnr; apply in_or_app; [right; apply in_or_app; left | left]; exact Hs.
  - split; [|exact I]. intros _. reflexivity.
  - split; [|exact I]. intros _. reflexivity.
  - (* ENot *)
    split; [|exact I]. destruct IHe0 as [IHr _]. intros Hn. cbn [infer]. rewrite (IHr Hn). reflexivity.
  - (* ECall *)
    split; [|exact I]. intros Hn.
    assert (HS : Forall agree_at args) by (eapply Forall_impl; [|exact H]; intros x [Hx _]; exact Hx).
    rewrite !infer_call_g. cbn [names_of] in Hn. rewrite (agree_list _ HS Hn). reflexivity.
  - (* EName *)
    split; [|exact I]. intros Hn. cbn [infer]. rewrite (Hn s); [reflexivity | left; reflexivity].
  - split; [|exact I]. intros _. reflexivity.
  - split; [|exact I]. intros _. reflexivity.
  - split; [|exact I]. intros _. reflexivity.
  - split; [|exact I]. intros _. reflexivity.
  - (* EList *)
    assert (HS : Forall agree_at l) by (eapply Forall_impl; [|exact H]; intros x [Hx _]; exact Hx).
    split; [|exact HS]. intros Hn. rewrite !infer_elist_g. cbn [names_of] in Hn.
    rewrite (agree_list _ HS Hn). reflexivity.
  - (* EAccess *)
    split; [|exact I]. destruct IHe0_1 as [IHl _]. intros Hn. cbn [names_of] in Hn.
    cbn [infer]. rewrite (IHl Hn). reflexivity.
Qed.

End Agree.

(* ---------------------------------------------------------------- Check returns the tree
   resolveFieldNames builds *)
Lemma check_list_resolve : forall ctx l,
  Forall (fun e => forall e1, check ctx e = Ok e1 -> e1 = resolve (c_names ctx) e) l ->
  forall l2, check_list fo ctx l = Ok l2 ->
  l2 = map (fun a => rewrite_name (c_names ctx) (resolve (c_names ctx) a)) l.
Proof.
  induction 1 as [|x l Hx _ IH]; intros l2 H0; cbn [check_list] in H0.
  - inversion H0; reflexivity.
  - inv_bind H0 as x1 Hx1 H0. inv_bind H0 as r2 Hr2 H0. inversion H0; subst l2.
    cbn [map]. rewrite (Hx _ Hx1), (IH _ Hr2). reflexivity.
Qed.

Lemma check_resolve : forall ctx e e1, check ctx e = Ok e1 -> e1 = resolve (c_names ctx) e.
Proof.
  intros ctx e0. induction e0 using expr_induction; intros ec Hc.
  - rewrite check_bin_eq in Hc. inv_bind Hc as l1 Hl1 Hc. inv_bind Hc as r1 Hr1 Hc. inv_bind Hc as u Hu Hc.
    inversion Hc; subst ec. cbn [resolve]. rewrite (IHe0_1 _ Hl1), (IHe0_2 _ Hr1). reflexivity.
  - cbn [Checker.check] in Hc. destruct f.
    + destruct (c_nokey ctx); inversion Hc; reflexivity.
    + destruct (c_novalue ctx); inversion Hc; reflexivity.
  - inversion Hc; reflexivity.
  - cbn [Checker.check] in Hc. inv_bind Hc as r2 Hr2 Hc. inv_bind Hr2 as r1 Hr1 Hr2.
    inversion Hr2; subst r2. destruct (ty_eqb _ TBool); inversion Hc; subst ec.
    cbn [resolve]. rewrite (IHe0 _ Hr1). reflexivity.
  - destruct e0; try (cbn [Checker.check] in Hc; discriminate Hc).
    rewrite check_call_eq in Hc. inv_bind Hc as a2 Ha2 Hc. inversion Hc; subst ec.
    cbn [resolve]. rewrite (check_list_resolve _ _ H _ Ha2). reflexivity.
  - inversion Hc; reflexivity.
  - inversion Hc; reflexivity.
  - inversion Hc; reflexivity.
  - inversion Hc; reflexivity.
  - inversion Hc; reflexivity.
  - destruct l as [|x items]; [cbn in Hc; discriminate|].
    rewrite check_list_eq in Hc. inv_bind Hc as i2 Hi2 Hc. destruct i2 as [|y rest2]; [discriminate|].
    destruct (first_mistyped (rtype y) rest2); inversion Hc; subst ec.
    cbn [resolve]. rewrite (check_list_resolve _ _ H _ Hi2). reflexivity.
  - cbn [Checker.check] in Hc. inv_bind Hc as l2 Hl2 Hc. inv_bind Hl2 as l1 Hl1 Hl2.
    inversion Hl2; subst l2. inv_bind Hc as f2 Hf2 Hc. inv_bind Hc as u Hu Hc. inversion Hc; subst ec.
    cbn [resolve]. rewrite (IHe0_1 _ Hl1), (IHe0_2 _ Hf2). reflexivity.
Qed.

(* a name-free tree is left as it is *)
Lemma rw_plain : forall names e, names_of e = [] -> rewrite_name names e = e.
Proof. intros names e H. destruct e; try reflexivity. discriminate H. Qed.

(* ---------------------------------------------------------------- the type of a resolved
   tree depends on the field table only through the types of the names the tree uses *)
Definition tenv (names : list (string * expr)) (s : string) : option ty :=
  option_map rtype (get_named names s).

Lemma env_of_tenv : forall names s, env_of names s = option_map sty_of (tenv names s).
Proof. intros names s. unfold env_of, tenv. destruct (get_named names s); reflexivity. Qed.

Lemma rtype_rw_name : forall N1 N2 p s, tenv N1 s = tenv N2 s ->
  rtype (rewrite_name N1 (EName p s)) = rtype (rewrite_name N2 (EName p s)).
Proof.
  intros N1 N2 p s H. unfold tenv in H. cbn [rewrite_name].
  destruct (get_named N1 s) as [d1|], (get_named N2 s) as [d2|]; cbn [option_map] in H;
    try discriminate H; [inversion H; assumption | reflexivity].
Qed.

Lemma rtype_resolve_agree : forall N1 N2 e,
  (forall s, In s (names_of e) -> tenv N1 s = tenv N2 s) ->
  rtype (rewrite_name N1 (resolve N1 e)) = rtype (rewrite_name N2 (resolve N2 e)) /\
  rtype (resolve N1 e) = rtype (resolve N2 e).
Proof.
  intros N1 N2 e. induction e; intros Hn; cbn [resolve rewrite_name]; try (split; reflexivity).
  - (* EBin *)
    assert (Hl : rtype (rewrite_name N1 (resolve N1 e1)) = rtype (rewrite_name N2 (resolve N2 e1))).
    { apply IHe1. intros s Hs. apply Hn. cbn [names_of]. apply in_or_app. left. exact Hs. }
    cbn [rtype]. rewrite Hl. split; reflexivity.
  - (* EName *)
    split; [|reflexivity]. apply rtype_rw_name. apply Hn. left. reflexivity.
Qed.

Lemma field_named_get : forall fields s, field_named fields s = get_named fields s.
Proof. induction fields as [|[n d] l IH]; intros s; [reflexivity|]. cbn. rewrite IH. reflexivity. Qed.

Lemma get_named_in : forall fields s d, get_named fields s = Some d -> exists n, In (n, d) fields.
Proof.
  induction fields as [|[n d0] l IH]; intros s d H; [discriminate|]. cbn in H.
  destruct (String.eqb n s).
  - inversion H; subst. exists n. left. reflexivity.
  - destruct (IH _ _ H) as [n' Hn']. exists n'. right. exact Hn'.
Qed.

(* ---------------------------------------------------------------- the linked field table *)
Lemma get_named_map : forall (g : expr -> expr) l s,
  get_named (map (fun nf => (fst nf, g (snd nf))) l) s = option_map g (get_named l s).
Proof.
  intros g l s. induction l as [|[n d] l IH]; [reflexivity|]. cbn [map get_named fst snd].
  destruct (String.eqb n s); [reflexivity|exact IH].
Qed.

Lemma get_named_link_S : forall raw k s,
  get_named (link_n (S k) raw) s = option_map (resolve (link_n k raw)) (get_named raw s).
Proof. intros. cbn [link_n]. apply get_named_map. Qed.

Lemma get_named_link_none : forall raw k s, get_named raw s = None -> get_named (link_n k raw) s = None.
Proof. intros raw k s H. destruct k; [exact H|]. rewrite get_named_link_S, H. reflexivity. Qed.

Lemma tenv_link_S : forall raw k s d, get_named raw s = Some d ->
  tenv (link_n (S k) raw) s = Some (rtype (resolve (link_n k raw) d)).
Proof. intros raw k s d H. unfold tenv. rewrite get_named_link_S, H. reflexivity. Qed.

Lemma tenv_link_none : forall raw k s, get_named raw s = None -> tenv (link_n k raw) s = None.
Proof. intros raw k s H. unfold tenv. rewrite (get_named_link_none _ _ _ H). reflexivity. Qed.

Section Ranked.
Variable raw : list (string * expr).
Variable rank : string -> nat.
Hypothesis Hbound : forall s d, get_named raw s = Some d -> rank s < List.length raw.
Hypothesis Hrank : forall s d s', get_named raw s = Some d -> In s' (names_of d) ->
                                  get_named raw s' <> None -> rank s' < rank s.

Definition below (k : nat) (s : string) : Prop := forall d, get_named raw s = Some d -> rank s < k.

Lemma below_names : forall k s d s', get_named raw s = Some d -> rank s < S k ->
  In s' (names_of d) -> below k s'.
Proof.
  intros k s d s' Hs Hk Hin d' Hs'.
  assert (Hne : get_named raw s' <> None) by (rewrite Hs'; discriminate).
  pose proof (Hrank _ _ _ Hs Hin Hne). lia.
Qed.

Lemma below_all : forall s, below (List.length raw) s.
Proof. intros s d Hs. exact (Hbound _ _ Hs). Qed.

(* the types of the linked table are final from the rank of a field on *)
Lemma tenv_stable : forall k s, below k s -> tenv (link_n k raw) s = tenv (link_n (S k) raw) s.
Proof.
  induction k as [|k IH]; intros s Hb.
  - destruct (get_named raw s) as [d|] eqn:Hs.
    + specialize (Hb _ Hs). lia.
    + rewrite !tenv_link_none by exact Hs. reflexivity.
  - destruct (get_named raw s) as [d|] eqn:Hs.
    + rewrite (tenv_link_S _ k _ _ Hs), (tenv_link_S _ (S k) _ _ Hs). f_equal.
      apply rtype_resolve_agree. intros s' Hin. apply IH.
      exact (below_names k s d s' Hs (Hb _ Hs) Hin).
    + rewrite !tenv_link_none by exact Hs. reflexivity.
Qed.

Lemma tenv_link_final : forall s d, get_named raw s = Some d ->
  tenv (link raw) s = Some (rtype (resolve (link raw) d)).
Proof.
  intros s d Hs. unfold link. rewrite (tenv_stable _ s (below_all s)). exact (tenv_link_S _ _ _ _ Hs).
Qed.

(* ---- the environment of the typing rules: what it is, from the rank of a name on *)
Lemma select_env_none : forall k s, get_named raw s = None -> select_env_n fo raw k s = None.
Proof.
  intros k s H. destruct k; [reflexivity|]. cbn [select_env_n]. rewrite field_named_get, H. reflexivity.
Qed.

Lemma spec_stable : forall k s, below k s -> select_env_n fo raw k s = select_env_n fo raw (S k) s.
Proof.
  induction k as [|k IH]; intros s Hb.
  - destruct (get_named raw s) as [d|] eqn:Hs.
    + specialize (Hb _ Hs). lia.
    + rewrite !select_env_none by exact Hs. reflexivity.
  - destruct (get_named raw s) as [d|] eqn:Hs.
    + cbn [select_env_n]. rewrite field_named_get, Hs.
      rewrite (infer_agree all_allowed (select_env_n fo raw k) (select_env_n fo raw (S k)) d); [reflexivity|].
      intros s' Hin. apply IH. exact (below_names k s d s' Hs (Hb _ Hs) Hin).
    + rewrite !select_env_none by exact Hs. reflexivity.
Qed.

Lemma spec_stable_plus : forall m k s, below k s -> select_env_n fo raw k s = select_env_n fo raw (m + k) s.
Proof.
  induction m as [|m IH]; intros k s Hb; [reflexivity|].
  rewrite (IH _ _ Hb). cbn [plus]. apply spec_stable. intros d Hs. specialize (Hb _ Hs). lia.
Qed.

(* a fixed point of the rules IS the environment *)
Lemma spec_fix_unique : forall F : env,
  (forall s, get_named raw s = None -> F s = None) ->
  (forall s d, get_named raw s = Some d -> exists t, infer fo F all_allowed d = Some t /\ F s = Some t) ->
  forall k s, below k s -> select_env_n fo raw k s = F s.
Proof.
  intros F Hnone Hfix. induction k as [|k IH]; intros s Hb.
  - destruct (get_named raw s) as [d|] eqn:Hs.
    + specialize (Hb _ Hs). lia.
    + rewrite (Hnone _ Hs). reflexivity.
  - destruct (get_named raw s) as [d|] eqn:Hs.
    + cbn [select_env_n]. rewrite field_named_get, Hs.
      rewrite (infer_agree all_allowed (select_env_n fo raw k) F d).
      * destruct (Hfix _ _ Hs) as [t [Hi Hf]]. rewrite Hi, Hf. reflexivity.
      * intros s' Hin. apply IH. exact (below_names k s d s' Hs (Hb _ Hs) Hin).
    + rewrite (select_env_none _ _ Hs), (Hnone _ Hs). reflexivity.
Qed.

End Ranked.

(* resolving a field that is not a bare field name gives a tree the callers' name resolution
   leaves alone *)
Lemma rw_resolve_field : forall raw N d,
  (forall s, get_named raw s = None -> get_named N s = None) ->
  match d with EName _ s => get_named raw s = None | _ => True end ->
  rewrite_name N (resolve N d) = resolve N d.
Proof.
  intros raw N d HN Hd. destruct d; try reflexivity.
  cbn [resolve rewrite_name]. rewrite (HN _ Hd). reflexivity.
Qed.

Lemma no_bare_in : forall fields n d, fields_no_bare fields -> In (n, d) fields ->
  match d with EName _ s => get_named fields s = None | _ => True end.
Proof. intros fields n d H Hin. unfold fields_no_bare in H. rewrite Forall_forall in H. exact (H _ Hin). Qed.

(* ---------------------------------------------------------------- ValidateFields *)
Definition field_rel (all : list (string * expr)) (nf nf2 : string * expr) : Prop :=
  fst nf2 = fst nf /\ check (Cctx all false false) (snd nf) = Ok (snd nf2) /\ aggr_field (snd nf2) = Ok tt.

Lemma validate_fields_spec : forall all todo r,
  validate_fields fo true all todo = Ok r <-> Forall2 (field_rel all) todo r.
Proof.
  intros all. induction todo as [|[n f] todo IH]; intros r; cbn [validate_fields].
  - split; [intros H; inversion H; constructor | intros H; inversion H; reflexivity].
  - split.
    + intros H. inv_bind H as f2 Hf2 H. inv_bind H as u Hu H. destruct u. inv_bind H as r' Hr' H.
      inversion H; subst r. constructor; [repeat split; assumption | apply IH; exact Hr'].
    + intros H. inversion H as [|? nf2 ? r' [Hn [Hc Ha]] Hrest]; subst. cbn [fst snd] in Hn, Hc.
      rewrite Hc. cbn [bind]. rewrite Ha. cbn [bind].
      replace (validate_fields fo true all todo) with (Ok r') by (symmetry; apply IH; exact Hrest).
      cbn [bind]. destruct nf2 as [n2 f2]. cbn [fst snd] in *. subst n2. reflexivity.
Qed.

Lemma Forall2_in_l : forall {A B} (R : A -> B -> Prop) l l2 a,
  Forall2 R l l2 -> In a l -> exists b, In b l2 /\ R a b.
Proof.
  induction 1 as [|x y l l2 Hxy _ IH]; intros Hin; [contradiction|].
  destruct Hin as [->|Hin]; [exists y; split; [left; reflexivity|exact Hxy]|].
  destruct (IH Hin) as [b [Hb Hr]]. exists b. split; [right; exact Hb|exact Hr].
Qed.

Lemma Forall2_weaken : forall {A B} (R R' : A -> B -> Prop) l l2,
  (forall a b, R a b -> R' a b) -> Forall2 R l l2 -> Forall2 R' l l2.
Proof. intros A B R R' l l2 H. induction 1; constructor; auto. Qed.

Lemma Forall2_right : forall {A B} (R : A -> B -> Prop) (Q : B -> Prop) l l2,
  Forall2 (fun a b => R a b /\ Q b) l l2 -> Forall Q l2.
Proof. intros A B R Q l l2. induction 1 as [|a b l l2 [_ Hq] _ IH]; constructor; assumption. Qed.

Lemma Forall2_total_l : forall {A B} (R : A -> B -> Prop) l,
  (forall a, In a l -> exists b, R a b) -> exists l2, Forall2 R l l2.
Proof.
  induction l as [|a l IH]; intros H; [exists []; constructor|].
  destruct (H a (or_introl eq_refl)) as [b Hb].
  destruct (IH (fun x Hx => H x (or_intror Hx))) as [l2 Hl2]. exists (b :: l2). constructor; assumption.
Qed.

(* nested aggregates: the placement judgement implies the checker's test *)
Lemma scalar_not_aggr : forall nm x, func_info nm = Some x -> aggr_rtype nm = None.
Proof.
  intros nm x H. unfold func_info in H. unfold aggr_rtype.
  repeat (match type of H with context [String.eqb nm ?s] =>
            let E := fresh "E" in
            destruct (String.eqb nm s) eqn:E;
            [apply String.eqb_eq in E; subst nm; reflexivity | clear E] end).
  discriminate H.
Qed.

Lemma placed_false_aggr_arg : forall a, calls_placed false a = true -> aggr_arg a = Ok tt.
Proof.
  induction a; intros H; try reflexivity.
  - rewrite calls_placed_bin in H. apply andb_true_iff in H. destruct H as [Hl Hr].
    cbn [aggr_arg]. rewrite (IHa1 Hl). cbn [bind]. exact (IHa2 Hr).
  - cbn [aggr_arg is_aggr_call]. cbn [calls_placed] in H. rewrite fname_call_name in H.
    destruct (call_name a) as [nm|]; [|reflexivity].
    rewrite scalar_sig_func_info, aggr_sig_aggr_rtype in H.
    destruct (func_info nm) as [x|] eqn:Efi.
    + rewrite (scalar_not_aggr _ _ Efi). reflexivity.
    + destruct (aggr_rtype nm); [discriminate H | reflexivity].
Qed.

Lemma placed_false_aggr_args : forall args, forallb (calls_placed false) args = true -> aggr_args args = Ok tt.
Proof.
  induction args as [|a l IH]; intros H; [reflexivity|].
  cbn [forallb] in H. apply andb_true_iff in H. destruct H as [Ha Hl].
  cbn [aggr_args]. rewrite (placed_false_aggr_arg _ Ha). cbn [bind]. exact (IH Hl).
Qed.

Lemma placed_true_aggr_field : forall e, calls_placed true e = true -> aggr_field e = Ok tt.
Proof.
  induction e; intros H; try reflexivity.
  - rewrite calls_placed_bin in H. apply andb_true_iff in H. destruct H as [Hl Hr].
    cbn [aggr_field]. rewrite (IHe1 Hl). cbn [bind]. exact (IHe2 Hr).
  - cbn [aggr_field]. destruct (is_aggr_call (ECall pos e args)) eqn:Ea; [|reflexivity].
    cbn [is_aggr_call] in Ea. cbn [calls_placed] in H. rewrite fname_call_name in H.
    destruct (call_name e); [|discriminate Ea].
    apply andb_true_iff in H. destruct H as [_ H]. exact (placed_false_aggr_args _ H).
Qed.

(* resolving field names does not change the nested-aggregate test: it looks at binary
   operators and calls only, and a name and a reference both pass *)
Lemma aggr_arg_rw : forall N a, aggr_arg (rewrite_name N a) = aggr_arg a.
Proof. intros N a. destruct a; try reflexivity. cbn [rewrite_name]. destruct (get_named N s); reflexivity. Qed.

Lemma aggr_arg_resolve : forall N a, aggr_arg (resolve N a) = aggr_arg a.
Proof.
  intros N a. induction a; try reflexivity.
  cbn [resolve aggr_arg]. rewrite !aggr_arg_rw, IHa1, IHa2. reflexivity.
Qed.

Lemma aggr_args_resolve : forall N args,
  aggr_args (map (fun a => rewrite_name N (resolve N a)) args) = aggr_args args.
Proof.
  intros N args. induction args as [|a l IH]; [reflexivity|].
  cbn [map aggr_args]. rewrite aggr_arg_rw, aggr_arg_resolve, IH. reflexivity.
Qed.

Lemma aggr_field_rw : forall N e, aggr_field (rewrite_name N e) = aggr_field e.
Proof. intros N e. destruct e; try reflexivity. cbn [rewrite_name]. destruct (get_named N s); reflexivity. Qed.

Lemma aggr_field_resolve : forall N e, aggr_field (resolve N e) = aggr_field e.
Proof.
  intros N e. induction e; try reflexivity.
  - cbn [resolve aggr_field]. rewrite !aggr_field_rw, IHe1, IHe2. reflexivity.
  - cbn [resolve aggr_field]. change (is_aggr_call (ECall pos e (map (fun a => rewrite_name N (resolve N a)) args)))
      with (is_aggr_call (ECall pos e args)). rewrite aggr_args_resolve. reflexivity.
Qed.

(* ---------------------------------------------------------------- the statement *)
Lemma calls_fields_ok : forall l, calls_fields l = Ok tt <-> Forall (fun nf => check_calls true (snd nf) = Ok tt) l.
Proof.
  induction l as [|[n f] l IH]; cbn [calls_fields].
  - split; [constructor | reflexivity].
  - split.
    + intros H. inv_bind H as u Hu H. destruct u. constructor; [exact Hu | apply IH; exact H].
    + intros H. inversion H as [|? ? Hf Hl]; subst. cbn [snd] in Hf. rewrite Hf. cbn [bind]. apply IH. exact Hl.
Qed.

Lemma check_order_ok : forall names order,
  check_order names order = Ok tt <->
  Forall (fun it => exists f, get_named names (snd it) = Some f /\ is_scalar_ty (rtype f) = true) order.
Proof.
  intros names. induction order as [|it l IH]; cbn [check_order].
  - split; [constructor | reflexivity].
  - unfold find_order_field. split.
    + intros H. inv_bind H as u Hu H. constructor; [|apply IH; exact H].
      destruct (get_named names (snd it)) as [f|]; [|discriminate Hu].
      destruct (is_scalar_ty (rtype f)) eqn:Es; [eauto | discriminate Hu].
    + intros H. inversion H as [|? ? [f [Hg Hs]] Hl]; subst. rewrite Hg, Hs. cbn [bind]. apply IH. exact Hl.
Qed.

(* what the checker establishes for every field: checked against the linked table, it has the
   type of its checked tree under the environment the table denotes *)
Definition field_typed (all : list (string * expr)) (d : expr) : Prop :=
  exists t, infer fo (env_of all) all_allowed d = Some t /\
            sty_of (rtype (resolve all d)) = t.

(* the linked table denotes the environment of the typing rules, provided every (first)
   definition is typed under the table *)
Lemma env_equal : forall fields,
  fields_ranked fields -> fields_no_bare fields ->
  (forall s d, get_named fields s = Some d -> field_typed (link fields) d) ->
  forall s, select_env fo fields s = env_of (link fields) s.
Proof.
  intros fields [rank [Hbound Hrank]] Hnb Ht s. unfold select_env.
  apply (spec_fix_unique fields rank Hrank (env_of (link fields))).
  - intros s0 Hs0. unfold env_of, link. rewrite (get_named_link_none _ _ _ Hs0). reflexivity.
  - intros s0 d Hs0. destruct (Ht _ _ Hs0) as [t [Hi Hty]]. exists t. split; [exact Hi|].
    rewrite env_of_tenv, (tenv_link_final fields rank Hbound Hrank _ _ Hs0). cbn [option_map]. rewrite Hty. reflexivity.
  - exact (below_all fields rank Hbound s).
Qed.

Lemma link_none : forall fields s, get_named fields s = None -> get_named (link fields) s = None.
Proof. intros. unfold link. apply get_named_link_none. assumption. Qed.

Theorem select_sound : forall fields w order s2,
  build_check fo true (SSelect fields w order) = Ok s2 ->
  fields_ranked fields -> fields_no_bare fields ->
  stmt_no_refs (SSelect fields w order) = true ->
  stmt_params_static s2 = true ->
  select_typed fo fields w order = true.
Proof.
  intros fields w order s2 H Hrk Hnb Hnr Hps.
  unfold build_check in H. inv_bind H as s1 Hs1 H. inv_bind H as u Hc H. inversion H; subst s2. clear H. destruct u.
  cbn [check_stmt] in Hs1. unfold check_select in Hs1. cbv zeta in Hs1.
  inv_bind Hs1 as u Hord Hs1. destruct u. inv_bind Hs1 as w1 Hw1 Hs1. inv_bind Hs1 as u Hb Hs1. destruct u.
  inv_bind Hs1 as f2 Hf2 Hs1. inversion Hs1; subst s1. clear Hs1.
  apply validate_fields_spec in Hf2.
  cbn [check_stmt_calls] in Hc. inv_bind Hc as u Hcw Hcf. destruct u. apply calls_fields_ok in Hcf.
  cbn [stmt_params_static] in Hps. apply andb_true_iff in Hps. destruct Hps as [Hpsf Hpsw].
  cbn [stmt_no_refs] in Hnr. apply andb_true_iff in Hnr. destruct Hnr as [Hnrf Hnrw].
  apply where_bool_ok in Hb. apply check_order_ok in Hord.
  set (all := link fields) in *.
  (* every field is typed under the linked table *)
  assert (Hft : forall nf, In nf fields ->
            field_typed all (snd nf) /\ calls_placed true (snd nf) = true).
  { intros nf Hin. destruct (Forall2_in_l _ _ _ _ Hf2 Hin) as [nf2 [Hin2 [Hn [Hck Hag]]]].
    rewrite forallb_forall in Hpsf, Hnrf. rewrite Forall_forall in Hcf.
    pose proof (check_resolve _ _ _ Hck) as Hres. cbn [c_names] in Hres.
    assert (Hrw : rewrite_name all (snd nf2) = snd nf2).
    { rewrite Hres. apply (rw_resolve_field fields); [apply link_none|].
      destruct nf as [n d]. exact (no_bare_in _ _ _ Hnb Hin). }
    pose proof (sound_expr fo (Cctx all false false) (snd nf) (Hnrf _ Hin) (snd nf2) true Hck) as Hs.
    cbn [c_names] in Hs. rewrite Hrw in Hs.
    destruct (Hs (Hcf _ Hin2) (Hpsf _ Hin2)) as [Hi Hpl].
    split; [|exact Hpl]. exists (sty_of (rtype (snd nf2))). split; [exact Hi|]. rewrite Hres. reflexivity. }
  assert (Henv : forall s, select_env fo fields s = env_of all s).
  { apply env_equal; try assumption. intros s d Hs. destruct (get_named_in _ _ _ Hs) as [n Hin].
    exact (proj1 (Hft _ Hin)). }
  (* the WHERE clause *)
  pose proof (sound_expr fo (Cctx all false false) w Hnrw w1 false Hw1 Hcw Hpsw) as [Hiw Hpw].
  cbn [c_names] in Hiw. rewrite Hb in Hiw.
  unfold select_typed. repeat (apply andb_true_iff; split).
  - apply forallb_forall. intros it Hin. rewrite Forall_forall in Hord.
    destruct (Hord _ Hin) as [f [Hg Hs]]. rewrite Henv. unfold env_of. rewrite Hg, scalar_sty_of. exact Hs.
  - unfold is_type. rewrite (infer_agree all_allowed _ (env_of all) w) by (intros; apply Henv).
    change all_allowed with (mode_of (Cctx all false false)). rewrite Hiw. reflexivity.
  - exact Hpw.
  - apply forallb_forall. intros nf Hin. destruct (Hft _ Hin) as [[t [Hi _]] Hpl].
    unfold any_type. rewrite (infer_agree all_allowed _ (env_of all) (snd nf)) by (intros; apply Henv).
    rewrite Hi, Hpl. reflexivity.
Qed.

(* ---- completeness: the environment of the rules is the one the linked table denotes, by
   rounds (a well-typed definition is resolved to a tree of its type) *)
Lemma env_rounds : forall fields rank,
  (forall s d, get_named fields s = Some d -> rank s < List.length fields) ->
  (forall s d s', get_named fields s = Some d -> In s' (names_of d) ->
                  get_named fields s' <> None -> rank s' < rank s) ->
  fields_no_bare fields ->
  (forall s d, get_named fields s = Some d ->
     exists t, infer fo (select_env fo fields) all_allowed d = Some t /\ calls_placed true d = true) ->
  forall k s, k <= List.length fields -> below fields rank k s ->
  env_of (link_n k fields) s = select_env_n fo fields k s.
Proof.
  intros fields rank Hbound Hrank Hnb Hty. induction k as [|k IH]; intros s Hk Hb.
  - destruct (get_named fields s) as [d|] eqn:Hs; [specialize (Hb _ Hs); lia|].
    unfold env_of. cbn [link_n select_env_n]. rewrite Hs. reflexivity.
  - destruct (get_named fields s) as [d|] eqn:Hs.
    2:{ rewrite (select_env_none _ _ _ Hs). unfold env_of. rewrite (get_named_link_none _ _ _ Hs). reflexivity. }
    destruct (Hty _ _ Hs) as [t [Hi Hpl]].
    assert (Hbn : forall s', In s' (names_of d) -> below fields rank k s')
      by (intros s' Hin; exact (below_names fields rank Hrank k s d s' Hs (Hb _ Hs) Hin)).
    (* the definition has the same type in round k *)
    assert (Hik : infer fo (select_env_n fo fields k) all_allowed d = Some t).
    { rewrite <- Hi. apply infer_agree. intros s' Hin. unfold select_env.
      replace (List.length fields) with ((List.length fields - k) + k) by lia.
      apply (spec_stable_plus fields rank Hrank). exact (Hbn _ Hin). }
    assert (Hil : infer fo (env_of (link_n k fields)) all_allowed d = Some t).
    { rewrite <- Hik. apply infer_agree. intros s' Hin. apply IH; [lia|exact (Hbn _ Hin)]. }
    change all_allowed with (mode_of (Cctx (link_n k fields) false false)) in Hil.
    destruct (complete_expr fo (Cctx (link_n k fields) false false) d t true Hil Hpl
                (infer_no_same_field _ _ d t Hil)) as [d1 [Hd1 [_ [Htd _]]]].
    pose proof (check_resolve _ _ _ Hd1) as Hres. cbn [c_names] in Hres, Htd.
    destruct (get_named_in _ _ _ Hs) as [n Hin].
    rewrite Hres, (rw_resolve_field fields) in Htd;
      [|intros s0 Hs0; apply get_named_link_none; exact Hs0|exact (no_bare_in _ _ _ Hnb Hin)].
    cbn [select_env_n]. rewrite field_named_get, Hs, Hik.
    rewrite env_of_tenv, (tenv_link_S _ _ _ _ Hs). cbn [option_map]. rewrite Htd. reflexivity.
Qed.

Theorem select_complete : forall fields w order,
  select_typed fo fields w order = true ->
  fields_ranked fields -> fields_no_bare fields ->
  stmt_no_same_field (SSelect fields w order) = true ->
  exists s2, build_check fo true (SSelect fields w order) = Ok s2.
Proof.
  intros fields w order H [rank [Hbound Hrank]] Hnb Hsf.
  unfold select_typed in H. apply andb_true_iff in H. destruct H as [H Hfl].
  apply andb_true_iff in H. destruct H as [H Hpw]. apply andb_true_iff in H. destruct H as [Hord Htw].
  cbn [stmt_no_same_field] in Hsf. apply andb_true_iff in Hsf. destruct Hsf as [Hsff Hsfw].
  rewrite forallb_forall in Hfl, Hsff.
  set (all := link fields).
  assert (Hty : forall nf, In nf fields ->
            exists t, infer fo (select_env fo fields) all_allowed (snd nf) = Some t /\ calls_placed true (snd nf) = true).
  { intros nf Hin. specialize (Hfl _ Hin). apply andb_true_iff in Hfl. destruct Hfl as [Hany Hpl].
    unfold any_type in Hany. destruct (infer fo (select_env fo fields) all_allowed (snd nf)) as [t|]; [|discriminate].
    exists t. split; [reflexivity|exact Hpl]. }
  assert (Henv : forall s, select_env fo fields s = env_of all s).
  { intros s. symmetry. unfold all, link, select_env.
    apply (env_rounds fields rank Hbound Hrank Hnb); [|lia|exact (below_all fields rank Hbound s)].
    intros s0 d Hs0. destruct (get_named_in _ _ _ Hs0) as [n Hin]. exact (Hty _ Hin). }
  (* every field is accepted *)
  assert (Hfields : forall nf, In nf fields ->
            exists nf2, field_rel all nf nf2 /\ check_calls true (snd nf2) = Ok tt).
  { intros nf Hin. destruct (Hty _ Hin) as [t [Hi Hpl]].
    rewrite (infer_agree all_allowed _ (env_of all) (snd nf)) in Hi by (intros; apply Henv).
    change all_allowed with (mode_of (Cctx all false false)) in Hi.
    destruct (complete_expr fo (Cctx all false false) (snd nf) t true Hi Hpl (Hsff _ Hin))
      as [d1 [Hd1 [Hcd _]]].
    pose proof (check_resolve _ _ _ Hd1) as Hres. cbn [c_names] in Hres, Hcd.
    destruct nf as [n d]. cbn [snd] in *.
    rewrite Hres, (rw_resolve_field fields) in Hcd; [|apply link_none|exact (no_bare_in _ _ _ Hnb Hin)].
    exists (n, d1). split; [|rewrite Hres; exact Hcd].
    repeat split; cbn [fst snd]; [exact Hd1|].
    rewrite Hres, aggr_field_resolve. exact (placed_true_aggr_field _ Hpl). }
  destruct (Forall2_total_l (fun nf nf2 => field_rel all nf nf2 /\ check_calls true (snd nf2) = Ok tt) fields Hfields)
    as [f2 Hf2].
  (* WHERE *)
  unfold is_type in Htw.
  destruct (infer fo (select_env fo fields) all_allowed w) as [tw|] eqn:Hiw; [|discriminate].
  apply sty_eqb_eq in Htw. subst tw.
  rewrite (infer_agree all_allowed _ (env_of all) w) in Hiw by (intros; apply Henv).
  change all_allowed with (mode_of (Cctx all false false)) in Hiw.
  destruct (complete_expr fo (Cctx all false false) w SBool false Hiw Hpw Hsfw) as [w1 [Hw1 [Hcw [Htw _]]]].
  cbn [c_names] in Hcw, Htw. change SBool with (sty_of TBool) in Htw. apply sty_of_inj in Htw.
  (* ORDER BY *)
  assert (Ho : check_order all order = Ok tt).
  { apply check_order_ok. apply Forall_forall. intros it Hin. rewrite forallb_forall in Hord.
    specialize (Hord _ Hin). rewrite Henv in Hord. unfold env_of in Hord.
    destruct (get_named all (snd it)) as [f|]; [|discriminate].
    exists f. split; [reflexivity|]. rewrite <- scalar_sty_of. exact Hord. }
  exists (SSelect f2 (rewrite_name all w1) order).
  unfold build_check. cbn [check_stmt]. unfold check_select. fold all. cbv zeta. rewrite Ho. cbn [bind]. rewrite Hw1. cbn [bind].
  replace (where_bool (rewrite_name all w1)) with (@Ok unit tt) by (symmetry; apply where_bool_ok; exact Htw).
  cbn [bind].
  replace (validate_fields fo true all fields) with (Ok f2).
  2:{ symmetry. apply validate_fields_spec. eapply Forall2_weaken; [|exact Hf2]. intros a b [Hr _]. exact Hr. }
  cbn [bind check_stmt_calls]. rewrite Hcw. cbn [bind].
  replace (calls_fields f2) with (@Ok unit tt); [reflexivity|].
  symmetry. apply calls_fields_ok.
  exact (Forall2_right (field_rel all) (fun nf2 => check_calls true (snd nf2) = Ok tt) _ _ Hf2).
Qed.

(* ---------------------------------------------------------------- all statement forms *)
(* acyclic references, no field that is only a field name *)
Definition stmt_fields_ok (s : stmt) : Prop :=
  match s with SSelect f _ _ => fields_ranked f /\ fields_no_bare f | _ => True end.

Theorem build_check_sound : forall s s2,
  build_check fo true s = Ok s2 -> stmt_no_refs s = true -> stmt_params_static s2 = true ->
  stmt_fields_ok s -> stmt_typed fo s = true.
Proof.
  intros s s2 H Hn Hps Hp. destruct s; cbn [stmt_typed].
  - destruct Hp as [Hr Hb]. exact (select_sound _ _ _ _ H Hr Hb Hn Hps).
  - exact (put_sound fo _ _ H Hn Hps).
  - exact (remove_sound fo _ _ H Hn Hps).
  - exact (delete_sound fo _ _ H Hn Hps).
Qed.

Theorem build_check_complete : forall s,
  stmt_typed fo s = true -> stmt_no_same_field s = true -> stmt_fields_ok s ->
  exists s2, build_check fo true s = Ok s2.
Proof.
  intros s H Hs Hp. destruct s; cbn [stmt_typed] in H.
  - destruct Hp as [Hr Hb]. exact (select_complete _ _ _ H Hr Hb Hs).
  - exact (put_complete fo _ H Hs).
  - exact (remove_complete fo _ H Hs).
  - exact (delete_complete fo _ H Hs).
Qed.

(* the special case of field definitions that use no field names (the premise of the
   theorems before fields could refer to fields) *)
Definition stmt_fields_plain (s : stmt) : Prop :=
  match s with SSelect f _ _ => fields_plain f | _ => True end.

Lemma plain_fields_ok : forall fields, fields_plain fields -> fields_ranked fields /\ fields_no_bare fields.
Proof.
  intros fields Hp. unfold fields_plain in Hp. split.
  - exists (fun _ => 0). split.
    + intros s d Hs. destruct fields; [discriminate Hs|cbn [List.length]; lia].
    + intros s d s' Hs Hin _. destruct (get_named_in _ _ _ Hs) as [n Hn].
      rewrite Forall_forall in Hp. specialize (Hp _ Hn). cbn [snd] in Hp. rewrite Hp in Hin. contradiction.
  - unfold fields_no_bare. eapply Forall_impl; [|exact Hp]. intros [n d] Hd. cbn [snd] in *.
    destruct d; try exact I. discriminate Hd.
Qed.

Lemma stmt_plain_ok : forall s, stmt_fields_plain s -> stmt_fields_ok s.
Proof. intros [f w o| | |] H; try exact I. exact (plain_fields_ok f H). Qed.

(* ---------------------------------------------------------------- a computable witness of
   [fields_ranked]: the candidate ranking "longest chain of references leaving the field",
   computed in as many rounds as there are fields, and the two conditions tested on it *)
Definition is_field (fields : list (string * expr)) (s : string) : bool :=
  match get_named fields s with Some _ => true | None => false end.

Fixpoint depth_n (fields : list (string * expr)) (k : nat) (s : string) : nat :=
  match k with
  | 0 => 0
  | S k' =>
      match get_named fields s with
      | None => 0
      | Some d =>
          fold_right (fun s' m => if is_field fields s' then Nat.max (S (depth_n fields k' s')) m else m)
                     0 (names_of d)
      end
  end.

Definition ranked_b (fields : list (string * expr)) : bool :=
  let n := List.length fields in
  let rank := depth_n fields n in
  forallb (fun nf =>
             match get_named fields (fst nf) with
             | None => true
             | Some d =>
                 Nat.ltb (rank (fst nf)) n &&
                 forallb (fun s' => negb (is_field fields s') || Nat.ltb (rank s') (rank (fst nf))) (names_of d)
             end) fields.

Definition no_bare_b (fields : list (string * expr)) : bool :=
  forallb (fun nf => match snd nf with EName _ s => negb (is_field fields s) | _ => true end) fields.

Lemma get_named_name_in : forall fields s d, get_named fields s = Some d -> exists d', In (s, d') fields.
Proof.
  induction fields as [|[n d0] l IH]; intros s d H; [discriminate|]. cbn [get_named] in H.
  destruct (String.eqb n s) eqn:E.
  - apply String.eqb_eq in E. subst n. exists d0. left. reflexivity.
  - destruct (IH _ _ H) as [d' Hd']. exists d'. right. exact Hd'.
Qed.

Lemma ranked_b_sound : forall fields, ranked_b fields = true -> fields_ranked fields.
Proof.
  intros fields H. unfold ranked_b in H. cbv zeta in H. rewrite forallb_forall in H.
  exists (depth_n fields (List.length fields)).
  assert (Hs : forall s d, get_named fields s = Some d ->
            Nat.ltb (depth_n fields (List.length fields) s) (List.length fields) &&
            forallb (fun s' => negb (is_field fields s') ||
                               Nat.ltb (depth_n fields (List.length fields) s') (depth_n fields (List.length fields) s))
                    (names_of d) = true).
  { intros s d Hg. destruct (get_named_name_in _ _ _ Hg) as [d' Hin]. specialize (H _ Hin). cbn [fst] in H.
    rewrite Hg in H. exact H. }
  split.
  - intros s d Hg. specialize (Hs _ _ Hg). apply andb_true_iff in Hs. apply Nat.ltb_lt. exact (proj1 Hs).
  - intros s d s' Hg Hin Hne. specialize (Hs _ _ Hg). apply andb_true_iff in Hs. destruct Hs as [_ Hs].
    rewrite forallb_forall in Hs. specialize (Hs _ Hin). apply orb_true_iff in Hs. destruct Hs as [Hs|Hs].
    + unfold is_field in Hs. destruct (get_named fields s'); [discriminate Hs|contradiction].
    + apply Nat.ltb_lt. exact Hs.
Qed.

Lemma no_bare_b_sound : forall fields, no_bare_b fields = true -> fields_no_bare fields.
Proof.
  intros fields H. unfold no_bare_b in H. rewrite forallb_forall in H. apply Forall_forall. intros nf Hin.
  specialize (H _ Hin). destruct (snd nf); try exact I. unfold is_field in H.
  destruct (get_named fields s); [discriminate H|reflexivity].
Qed.

(* ---------------------------------------------------------------- completeness without the
   side premise: typing itself excludes same-keyword comparisons *)
Theorem complete_expr_typed : forall ctx e t a,
  infer fo (env_of (c_names ctx)) (mode_of ctx) e = Some t -> calls_placed a e = true ->
  exists e1, check ctx e = Ok e1 /\
             check_calls a (rewrite_name (c_names ctx) e1) = Ok tt /\
             sty_of (rtype (rewrite_name (c_names ctx) e1)) = t /\
             params_static (rewrite_name (c_names ctx) e1) = true.
Proof.
  intros ctx e t a Hi Hp.
  exact (complete_expr fo ctx e t a Hi Hp (infer_no_same_field _ _ e t Hi)).
Qed.

Lemma is_type_nsf : forall E m e t, is_type fo E m e t = true -> no_same_field e = true.
Proof.
  intros E m e t H. unfold is_type in H. destruct (infer fo E m e) as [t'|] eqn:Hi; [|discriminate].
  exact (infer_no_same_field _ _ e t' Hi).
Qed.
Lemma any_type_nsf : forall E m e, any_type fo E m e = true -> no_same_field e = true.
Proof.
  intros E m e H. unfold any_type in H. destruct (infer fo E m e) as [t'|] eqn:Hi; [|discriminate].
  exact (infer_no_same_field _ _ e t' Hi).
Qed.
Lemma is_strnum_nsf : forall E m e, is_strnum fo E m e = true -> no_same_field e = true.
Proof.
  intros E m e H. unfold is_strnum in H. destruct (infer fo E m e) as [t'|] eqn:Hi; [|discriminate].
  exact (infer_no_same_field _ _ e t' Hi).
Qed.

Lemma stmt_typed_nsf : forall s, stmt_typed fo s = true -> stmt_no_same_field s = true.
Proof.
  intros s H. destruct s; cbn [stmt_typed stmt_no_same_field] in *.
  - unfold select_typed in H. apply andb_true_iff in H. destruct H as [H Hf].
    apply andb_true_iff in H. destruct H as [H _]. apply andb_true_iff in H. destruct H as [_ Hw].
    apply andb_true_iff. split; [|exact (is_type_nsf _ _ _ _ Hw)].
    apply forallb_forall. intros nf Hin. rewrite forallb_forall in Hf. specialize (Hf _ Hin).
    apply andb_true_iff in Hf. exact (any_type_nsf _ _ _ (proj1 Hf)).
  - unfold put_typed in H. apply forallb_forall. intros kv Hin. rewrite forallb_forall in H.
    specialize (H _ Hin). apply andb_true_iff in H. destruct H as [H _].
    apply andb_true_iff in H. destruct H as [H Hv]. apply andb_true_iff in H. destruct H as [Hk _].
    rewrite (is_strnum_nsf _ _ _ Hk), (is_strnum_nsf _ _ _ Hv). reflexivity.
  - unfold remove_typed in H. apply forallb_forall. intros k Hin. rewrite forallb_forall in H.
    specialize (H _ Hin). apply andb_true_iff in H. exact (is_strnum_nsf _ _ _ (proj1 H)).
  - unfold delete_typed in H. apply andb_true_iff in H. exact (is_type_nsf _ _ _ _ (proj1 H)).
Qed.

Theorem build_check_complete_typed : forall s,
  stmt_typed fo s = true -> stmt_fields_ok s -> exists s2, build_check fo true s = Ok s2.
Proof. intros s H Hp. exact (build_check_complete s H (stmt_typed_nsf s H) Hp). Qed.

End Sel.
