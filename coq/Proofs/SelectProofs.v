(* Proofs/SelectProofs.v -- SELECT statements whose field definitions do not themselves use
   field names: build_check (Parse + call validation) against Spec/Typing.v [select_typed]. *)
From Coq Require Import List String ZArith Bool Arith Lia.
Import ListNotations.
From KV Require Import Base.Bytes Base.Num Model.Ast Model.Value Model.Eval Model.Checker
                       Spec.Typing Proofs.CheckerProofs.
Open Scope string_scope.
Set Warnings "-unused-intro-pattern".

(* the names an expression uses (function names are not names) *)
Fixpoint names_of (e : expr) : list string :=
  match e with
  | EBin _ _ l r => names_of l ++ names_of r
  | ENot _ r => names_of r
  | ECall _ _ args => flat_map names_of args
  | EName _ s => [s]
  | ERef _ s _ => [s]
  | EList _ items => flat_map names_of items
  | EAccess _ l _ => names_of l
  | _ => []
  end.

(* field definitions that use no field names *)
Definition fields_plain (fields : list (string * expr)) : Prop :=
  Forall (fun nf => names_of (snd nf) = []) fields.

Section Sel.
Variable fo : fops.
Notation check := (check fo true).

(* ---------------------------------------------------------------- infer depends on the
   environment only through the names the expression uses *)
Section Agree.
Variable m : mode.

Section OneEnv.
Variable E : env.

Fixpoint infer_list_g (l : list expr) : option (list sty) :=
  match l with
  | [] => Some []
  | a :: l' => match infer fo E m a, infer_list_g l' with
               | Some t, Some ts => Some (t :: ts)
               | _, _ => None
               end
  end.

Lemma infer_call_g : forall p n args,
  infer fo E m (ECall p n args) =
  match fname n with
  | None => None
  | Some nm =>
      match infer_list_g args with
      | None => None
      | Some ts =>
          match scalar_sig nm with
          | Some (nargs, more, ret) =>
              if count_ok nargs more (List.length args) && params_ok nm ts then Some ret else None
          | None => aggr_sig nm
          end
      end
  end.
Proof. reflexivity. Qed.

Lemma infer_elist_g : forall p items,
  infer fo E m (EList p items) =
  match infer_list_g items with
  | Some (t :: ts) => if forallb (sty_eqb t) ts then Some SList else None
  | _ => None
  end.
Proof. reflexivity. Qed.

Lemma infer_in_list_g : forall p l q x rest,
  infer fo E m (EBin p OIn l (EList q (x :: rest))) =
  match infer fo E m l with
  | Some tl =>
      if strnum tl then
        match infer_list_g (x :: rest) with
        | Some ts => if forallb (sty_eqb tl) ts then Some SBool else None
        | None => None
        end
      else None
  | None => None
  end.
Proof. reflexivity. Qed.

Lemma infer_in_call_g : forall p l q n args,
  infer fo E m (EBin p OIn l (ECall q n args)) =
  match infer fo E m l with
  | Some tl => if strnum tl then
                 match infer fo E m (ECall q n args) with Some SList => Some SBool | _ => None end
               else None
  | None => None
  end.
Proof. reflexivity. Qed.

Lemma infer_in_name_g : forall p l q s,
  infer fo E m (EBin p OIn l (EName q s)) =
  match infer fo E m l with
  | Some tl => if strnum tl then
                 match infer fo E m (EName q s) with Some SList => Some SBool | _ => None end
               else None
  | None => None
  end.
Proof. reflexivity. Qed.

Lemma infer_between_g : forall p l q lo hi,
  infer fo E m (EBin p OBetween l (EList q [lo; hi])) =
  match infer fo E m l with
  | Some tl =>
      if strnum tl then
        match infer fo E m lo, infer fo E m hi with
        | Some a, Some b => if sty_eqb a tl && sty_eqb b tl then Some SBool else None
        | _, _ => None
        end
      else None
  | None => None
  end.
Proof. reflexivity. Qed.

(* typing implies that no comparison has the same keyword on both sides *)
Definition nsf_at (e : expr) : Prop := forall t, infer fo E m e = Some t -> no_same_field e = true.

Lemma nsf_list : forall items, Forall nsf_at items ->
  forall ts, infer_list_g items = Some ts -> forallb no_same_field items = true.
Proof.
  induction 1 as [|x l Hx _ IH]; intros ts Hi; [reflexivity|].
  cbn [infer_list_g] in Hi. destruct (infer fo E m x) as [t|] eqn:Ix; [|discriminate].
  destruct (infer_list_g l) as [tr|] eqn:Il; [|discriminate].
  cbn [forallb]. rewrite (Hx _ Ix), (IH _ eq_refl). reflexivity.
Qed.

Lemma infer_no_same_field : forall e, nsf_at e.
Proof.
  intros e0.
  enough (Hq : nsf_at e0 /\ match e0 with EList _ items => Forall nsf_at items | _ => True end) by apply Hq.
  induction e0 using expr_induction.
  - split; [|exact I]. destruct IHe0_1 as [IHl _]. destruct IHe0_2 as [IHr IHrx]. intros t Hi.
    cbn [no_same_field].
    destruct o;
      try (cbn [infer] in Hi; cbn [is_compare_op andb] in *;
           try (destruct (same_field e0_1 e0_2); [discriminate Hi|]);
           destruct (infer fo E m e0_1) as [tl|] eqn:Il; [|discriminate Hi];
           destruct (infer fo E m e0_2) as [tr|] eqn:Ir; [|discriminate Hi];
           rewrite (IHl _ Il), (IHr _ Ir); reflexivity).
    + (* IN *)
      cbn [is_compare_op andb negb].
      destruct e0_2; try (cbn [infer] in Hi; destruct (infer fo E m e0_1) as [tl|]; [destruct (strnum tl)|]; discriminate Hi).
      * rewrite infer_in_call_g in Hi. destruct (infer fo E m e0_1) as [tl|] eqn:Il; [|discriminate].
        destruct (strnum tl); [|discriminate].
        destruct (infer fo E m (ECall pos e0_2 args)) as [tr|] eqn:Ir; [|discriminate].
        rewrite (IHl _ Il), (IHr _ Ir). reflexivity.
      * rewrite infer_in_name_g in Hi. destruct (infer fo E m e0_1) as [tl|] eqn:Il; [|discriminate].
        rewrite (IHl _ Il). reflexivity.
      * destruct l as [|x rest]; [cbn [infer] in Hi; destruct (infer fo E m e0_1) as [tl|]; [destruct (strnum tl)|]; discriminate Hi|].
        rewrite infer_in_list_g in Hi. destruct (infer fo E m e0_1) as [tl|] eqn:Il; [|discriminate].
        destruct (strnum tl); [|discriminate].
        destruct (infer_list_g (x :: rest)) as [ts|] eqn:Ils; [|discriminate].
        rewrite (IHl _ Il). cbn [no_same_field andb]. exact (nsf_list _ IHrx _ Ils).
    + (* BETWEEN *)
      cbn [is_compare_op andb negb].
      destruct e0_2; try (cbn [infer] in Hi; destruct (infer fo E m e0_1) as [tl|]; [destruct (strnum tl)|]; discriminate Hi).
      destruct l as [|lo [|hi [|]]]; try (cbn [infer] in Hi; destruct (infer fo E m e0_1) as [tl|]; [destruct (strnum tl)|]; discriminate Hi).
      rewrite infer_between_g in Hi. destruct (infer fo E m e0_1) as [tl|] eqn:Il; [|discriminate].
      destruct (strnum tl); [|discriminate].
      destruct (infer fo E m lo) as [ta|] eqn:Ilo; [|discriminate].
      destruct (infer fo E m hi) as [tb|] eqn:Ihi; [|discriminate].
      inversion IHrx as [|? ? Hlo Hr']; subst. inversion Hr' as [|? ? Hhi _]; subst.
      rewrite (IHl _ Il). cbn [no_same_field forallb andb]. rewrite (Hlo _ Ilo), (Hhi _ Ihi). reflexivity.
  - split; [|exact I]. intros t _. reflexivity.
  - split; [|exact I]. intros t _. reflexivity.
  - split; [|exact I]. destruct IHe0 as [IHr _]. intros t Hi. cbn [infer] in Hi. cbn [no_same_field].
    destruct (infer fo E m e0) as [tr|] eqn:Ir; [|discriminate]. exact (IHr _ Ir).
  - split; [|exact I]. intros t Hi.
    assert (HS : Forall nsf_at args) by (eapply Forall_impl; [|exact H]; intros x [Hx _]; exact Hx).
    rewrite infer_call_g in Hi. destruct (fname e0); [|discriminate].
    destruct (infer_list_g args) as [ts|] eqn:Ils; [|discriminate].
    cbn [no_same_field]. exact (nsf_list _ HS _ Ils).
  - split; [|exact I]. intros t _. reflexivity.
  - split; [|exact I]. intros t Hi. discriminate Hi.
  - split; [|exact I]. intros t _. reflexivity.
  - split; [|exact I]. intros t _. reflexivity.
  - split; [|exact I]. intros t _. reflexivity.
  - assert (HS : Forall nsf_at l) by (eapply Forall_impl; [|exact H]; intros x [Hx _]; exact Hx).
    split; [|exact HS]. intros t Hi. rewrite infer_elist_g in Hi.
    destruct (infer_list_g l) as [ts|] eqn:Ils; [|discriminate].
    cbn [no_same_field]. exact (nsf_list _ HS _ Ils).
  - split; [|exact I]. destruct IHe0_1 as [IHl _]. intros t Hi. cbn [infer] in Hi. cbn [no_same_field].
    destruct (infer fo E m e0_1) as [tl|] eqn:Il; [|discriminate]. exact (IHl _ Il).
Qed.

End OneEnv.

Variables E1 E2 : env.

Definition agree_at (e : expr) : Prop :=
  (forall s, In s (names_of e) -> E1 s = E2 s) -> infer fo E1 m e = infer fo E2 m e.

Lemma agree_list : forall items, Forall agree_at items ->
  (forall s, In s (flat_map names_of items) -> E1 s = E2 s) ->
  infer_list_g E1 items = infer_list_g E2 items.
Proof.
  induction 1 as [|x l Hx _ IH]; intros Hn; [reflexivity|].
  cbn [infer_list_g]. rewrite Hx, IH; [reflexivity | |];
    intros s Hs; apply Hn; cbn [flat_map]; apply in_or_app; auto.
Qed.

Lemma infer_agree : forall e, agree_at e.
Proof.
  intros e0.
  enough (Hq : agree_at e0 /\ match e0 with EList _ items => Forall agree_at items | _ => True end) by apply Hq.
  induction e0 using expr_induction.
  - (* EBin *)
    split; [|exact I]. destruct IHe0_1 as [IHl _]. destruct IHe0_2 as [IHr IHrx]. intros Hn.
    assert (Hnl : forall s, In s (names_of e0_1) -> E1 s = E2 s)
      by (intros s Hs; apply Hn; cbn [names_of]; apply in_or_app; auto).
    assert (Hnr : forall s, In s (names_of e0_2) -> E1 s = E2 s)
      by (intros s Hs; apply Hn; cbn [names_of]; apply in_or_app; auto).
    specialize (IHl Hnl).
    destruct o; try (cbn [infer]; rewrite IHl, (IHr Hnr); reflexivity).
    + (* IN *)
      destruct e0_2; try (cbn [infer]; rewrite IHl; reflexivity).
      * rewrite !infer_in_call_g, IHl, (IHr Hnr). reflexivity.
      * rewrite !infer_in_name_g, IHl, (IHr Hnr). reflexivity.
      * destruct l as [|x rest]; [cbn [infer]; rewrite IHl; reflexivity|].
        rewrite !infer_in_list_g, IHl. cbn [names_of] in Hnr. rewrite (agree_list _ IHrx Hnr). reflexivity.
    + (* BETWEEN *)
      destruct e0_2; try (cbn [infer]; rewrite IHl; reflexivity).
      destruct l as [|lo [|hi [|]]]; try (cbn [infer]; rewrite IHl; reflexivity).
      rewrite !infer_between_g, IHl.
      inversion IHrx as [|? ? Hlo Hr']; subst. inversion Hr' as [|? ? Hhi _]; subst.
      cbn [names_of flat_map] in Hnr.
      rewrite Hlo, Hhi; [reflexivity | |];
        intros s Hs; apply Hnr; apply in_or_app; [right; apply in_or_app; left | left]; exact Hs.
  - split; [|exact I]. intros _. reflexivity.
  - split; [|exact I]. intros _. reflexivity.
  - (* ENot *)
    split; [|exact I]. destruct IHe0 as [IHr _]. intros Hn. cbn [infer]. rewrite (IHr Hn). reflexivity.
  - (* ECall *)
    split; [|exact I]. intros Hn.
    assert (HS : Forall agree_at args) by (eapply Forall_impl; [|exact H]; intros x [Hx _]; exact Hx).
    rewrite !infer_call_g. cbn [names_of] in Hn. rewrite (agree_list _ HS Hn). reflexivity.
  - (* EName *)
    split; [|exact I]. intros Hn. cbn [infer]. rewrite (Hn s); [reflexivity | left; reflexivity].
  - split; [|exact I]. intros _. reflexivity.
  - split; [|exact I]. intros _. reflexivity.
  - split; [|exact I]. intros _. reflexivity.
  - split; [|exact I]. intros _. reflexivity.
  - (* EList *)
    assert (HS : Forall agree_at l) by (eapply Forall_impl; [|exact H]; intros x [Hx _]; exact Hx).
    split; [|exact HS]. intros Hn. rewrite !infer_elist_g. cbn [names_of] in Hn.
    rewrite (agree_list _ HS Hn). reflexivity.
  - (* EAccess *)
    split; [|exact I]. destruct IHe0_1 as [IHl _]. intros Hn. cbn [names_of] in Hn.
    cbn [infer]. rewrite (IHl Hn). reflexivity.
Qed.

End Agree.

(* ---------------------------------------------------------------- Check leaves a name-free
   tree unchanged, whatever the CheckCtx *)
Lemma rw_plain : forall names e, names_of e = [] -> rewrite_name names e = e.
Proof. intros names e H. destruct e; try reflexivity. discriminate H. Qed.

Lemma app_nil_both : forall {A} (a b : list A), (a ++ b)%list = [] -> a = [] /\ b = [].
Proof. intros A a b H. destruct a; [auto | discriminate H]. Qed.

Lemma check_list_plain : forall ctx l,
  Forall (fun e => names_of e = [] -> forall e1, check ctx e = Ok e1 -> e1 = e) l ->
  flat_map names_of l = [] ->
  forall l2, check_list fo ctx l = Ok l2 -> l2 = l.
Proof.
  induction 1 as [|x l Hx _ IH]; intros Hn l2 H0; cbn [check_list] in H0.
  - inversion H0; reflexivity.
  - cbn [flat_map] in Hn. apply app_nil_both in Hn. destruct Hn as [Hnx Hnl].
    inv_bind H0 as x1 Hx1 H0. inv_bind H0 as r2 Hr2 H0. inversion H0; subst l2.
    rewrite (Hx Hnx _ Hx1), (IH Hnl _ Hr2), (rw_plain _ _ Hnx). reflexivity.
Qed.

Lemma check_plain_id : forall ctx e, names_of e = [] -> forall e1, check ctx e = Ok e1 -> e1 = e.
Proof.
  intros ctx e0. induction e0 using expr_induction; intros Hn ec Hc.
  - cbn [names_of] in Hn. apply app_nil_both in Hn. destruct Hn as [Hnl Hnr].
    rewrite check_bin_eq in Hc. inv_bind Hc as l1 Hl1 Hc. inv_bind Hc as r1 Hr1 Hc. inv_bind Hc as u Hu Hc.
    inversion Hc; subst ec. rewrite (IHe0_1 Hnl _ Hl1), (IHe0_2 Hnr _ Hr1), !rw_plain by assumption. reflexivity.
  - cbn [Checker.check] in Hc. destruct f.
    + destruct (c_nokey ctx); inversion Hc; reflexivity.
    + destruct (c_novalue ctx); inversion Hc; reflexivity.
  - inversion Hc; reflexivity.
  - cbn [names_of] in Hn. cbn [Checker.check] in Hc. inv_bind Hc as r2 Hr2 Hc. inv_bind Hr2 as r1 Hr1 Hr2.
    inversion Hr2; subst r2. destruct (ty_eqb _ TBool); inversion Hc; subst ec.
    rewrite (IHe0 Hn _ Hr1), rw_plain by assumption. reflexivity.
  - destruct e0; try (cbn [Checker.check] in Hc; discriminate Hc).
    rewrite check_call_eq in Hc. inv_bind Hc as a2 Ha2 Hc. inversion Hc; subst ec.
    cbn [names_of] in Hn. rewrite (check_list_plain _ _ H Hn _ Ha2). reflexivity.
  - discriminate Hn.
  - discriminate Hn.
  - inversion Hc; reflexivity.
  - inversion Hc; reflexivity.
  - inversion Hc; reflexivity.
  - destruct l as [|x items]; [cbn in Hc; discriminate|].
    rewrite check_list_eq in Hc. inv_bind Hc as i2 Hi2 Hc. destruct i2 as [|y rest2]; [discriminate|].
    destruct (first_mistyped (rtype y) rest2); inversion Hc; subst ec.
    cbn [names_of] in Hn. rewrite (check_list_plain _ _ H Hn _ Hi2). reflexivity.
  - cbn [names_of] in Hn. cbn [Checker.check] in Hc. inv_bind Hc as l2 Hl2 Hc. inv_bind Hl2 as l1 Hl1 Hl2.
    inversion Hl2; subst l2. inv_bind Hc as f2 Hf2 Hc. inv_bind Hc as u Hu Hc. destruct u. inversion Hc; subst ec.
    pose proof (check_literal_back fo _ _ _ Hf2) as Hlit. pose proof (shape_literal _ _ Hu) as Hshl.
    assert (Hfeq : e0_2 = f2) by (destruct f2; try contradiction; exact Hlit). subst f2.
    rewrite (IHe0_1 Hn _ Hl1), rw_plain by assumption. reflexivity.
Qed.

(* ---------------------------------------------------------------- ValidateFields on plain fields *)
Lemma field_named_get : forall fields s, field_named fields s = get_named fields s.
Proof. induction fields as [|[n d] l IH]; intros s; [reflexivity|]. cbn. rewrite IH. reflexivity. Qed.

Lemma get_named_in : forall fields s d, get_named fields s = Some d -> exists n, In (n, d) fields.
Proof.
  induction fields as [|[n d0] l IH]; intros s d H; [discriminate|]. cbn in H.
  destruct (String.eqb n s).
  - inversion H; subst. exists n. left. reflexivity.
  - destruct (IH _ _ H) as [n' Hn']. exists n'. right. exact Hn'.
Qed.

(* per field: Check under the statement's CheckCtx leaves it unchanged and succeeds, the
   nested-aggregate test passes *)
Definition field_ok (all : list (string * expr)) (nf : string * expr) : Prop :=
  check (Cctx all false false) (snd nf) = Ok (snd nf) /\ aggr_field (snd nf) = Ok tt.

(* re-pointing references changes nothing in a tree that holds none *)
Lemma relink_plain : forall n d e, names_of e = [] -> relink n d e = e.
Proof.
  intros n d e. induction e using expr_induction; intros Hn; cbn [names_of] in Hn; cbn [relink];
    try reflexivity; try discriminate.
  - apply app_eq_nil in Hn. destruct Hn as [H1 H2]. rewrite IHe1, IHe2 by assumption. reflexivity.
  - rewrite IHe by assumption. reflexivity.
  - f_equal. induction H as [|a l Ha Hl IH]; [reflexivity|]. cbn [flat_map] in Hn.
    apply app_eq_nil in Hn. destruct Hn as [H1 H2]. cbn [map]. rewrite Ha, IH by assumption. reflexivity.
  - f_equal. induction H as [|a l Ha Hl IH]; [reflexivity|]. cbn [flat_map] in Hn.
    apply app_eq_nil in Hn. destruct Hn as [H1 H2]. cbn [map]. rewrite Ha, IH by assumption. reflexivity.
  - rewrite IHe1 by assumption. reflexivity.
Qed.

Lemma relink_fields_plain : forall n d fs, fields_plain fs -> relink_fields n d fs = fs.
Proof.
  intros n d fs H. induction H as [|[m f] l Hf Hl IH]; [reflexivity|]. cbn [relink_fields map fst snd] in *.
  rewrite (relink_plain _ _ _ Hf). unfold relink_fields in IH. rewrite IH. reflexivity.
Qed.

Lemma relinked_done_plain : forall n d (done : list (string * expr)), fields_plain done ->
  (if has_name n done then done else relink_fields n d done) = done.
Proof. intros n d done H. destruct (has_name n done); [reflexivity|apply relink_fields_plain; exact H]. Qed.

Lemma validate_fields_plain : forall todo done r,
  fields_plain done ->
  fields_plain todo ->
  validate_fields fo true done todo = Ok r ->
  r = (done ++ todo)%list /\ Forall (field_ok (done ++ todo)%list) todo.
Proof.
  induction todo as [|[n f] todo IH]; intros done r Hd Hp H; cbn [validate_fields] in H.
  - inversion H; subst. rewrite app_nil_r. split; [reflexivity | constructor].
  - inversion Hp as [|? ? Hf Hp']; subst. cbn [snd] in Hf.
    inv_bind H as f2 Hf2 H. inv_bind H as u Hu H. destruct u.
    pose proof (check_plain_id _ _ Hf _ Hf2) as Hid. subst f2.
    rewrite (relinked_done_plain _ _ _ Hd) in H.
    assert (Hd' : fields_plain (done ++ [(n, f)])%list).
    { apply Forall_app. split; [exact Hd|]. constructor; [exact Hf|constructor]. }
    destruct (IH _ _ Hd' Hp' H) as [Hr Hrest].
    rewrite <- app_assoc in Hr, Hrest. cbn [app] in Hr, Hrest.
    split; [exact Hr|]. constructor; [split; assumption | exact Hrest].
Qed.

Lemma validate_fields_intro : forall todo done,
  fields_plain done ->
  fields_plain todo ->
  Forall (field_ok (done ++ todo)%list) todo ->
  validate_fields fo true done todo = Ok (done ++ todo)%list.
Proof.
  induction todo as [|[n f] todo IH]; intros done Hd Hp H; cbn [validate_fields].
  - rewrite app_nil_r. reflexivity.
  - inversion H as [|? ? [Hc Ha] Hrest]; subst. cbn [snd] in Hc, Ha.
    inversion Hp as [|? ? Hf Hp']; subst. cbn [snd] in Hf.
    rewrite Hc. cbn [bind]. rewrite Ha. cbn [bind].
    rewrite (relinked_done_plain _ _ _ Hd).
    assert (Hd' : fields_plain (done ++ [(n, f)])%list).
    { apply Forall_app. split; [exact Hd|]. constructor; [exact Hf|constructor]. }
    rewrite IH; [rewrite <- app_assoc; reflexivity | exact Hd' | exact Hp' | rewrite <- app_assoc; exact Hrest].
Qed.

(* nested aggregates: the placement judgement implies the checker's test *)
Lemma scalar_not_aggr : forall nm x, func_info nm = Some x -> aggr_rtype nm = None.
Proof.
  intros nm x H. unfold func_info in H. unfold aggr_rtype.
  repeat (match type of H with context [String.eqb nm ?s] =>
            let E := fresh "E" in
            destruct (String.eqb nm s) eqn:E;
            [apply String.eqb_eq in E; subst nm; reflexivity | clear E] end).
  discriminate H.
Qed.

Lemma placed_false_aggr_arg : forall a, calls_placed false a = true -> aggr_arg a = Ok tt.
Proof.
  induction a; intros H; try reflexivity.
  - rewrite calls_placed_bin in H. apply andb_true_iff in H. destruct H as [Hl Hr].
    cbn [aggr_arg]. rewrite (IHa1 Hl). cbn [bind]. exact (IHa2 Hr).
  - cbn [aggr_arg is_aggr_call]. cbn [calls_placed] in H. rewrite fname_call_name in H.
    destruct (call_name a) as [nm|]; [|reflexivity].
    rewrite scalar_sig_func_info, aggr_sig_aggr_rtype in H.
    destruct (func_info nm) as [x|] eqn:Efi.
    + rewrite (scalar_not_aggr _ _ Efi). reflexivity.
    + destruct (aggr_rtype nm); [discriminate H | reflexivity].
Qed.

Lemma placed_false_aggr_args : forall args, forallb (calls_placed false) args = true -> aggr_args args = Ok tt.
Proof.
  induction args as [|a l IH]; intros H; [reflexivity|].
  cbn [forallb] in H. apply andb_true_iff in H. destruct H as [Ha Hl].
  cbn [aggr_args]. rewrite (placed_false_aggr_arg _ Ha). cbn [bind]. exact (IH Hl).
Qed.

Lemma placed_true_aggr_field : forall e, calls_placed true e = true -> aggr_field e = Ok tt.
Proof.
  induction e; intros H; try reflexivity.
  - rewrite calls_placed_bin in H. apply andb_true_iff in H. destruct H as [Hl Hr].
    cbn [aggr_field]. rewrite (IHe1 Hl). cbn [bind]. exact (IHe2 Hr).
  - cbn [aggr_field]. destruct (is_aggr_call (ECall pos e args)) eqn:Ea; [|reflexivity].
    cbn [is_aggr_call] in Ea. cbn [calls_placed] in H. rewrite fname_call_name in H.
    destruct (call_name e); [|discriminate Ea].
    apply andb_true_iff in H. destruct H as [_ H]. exact (placed_false_aggr_args _ H).
Qed.

(* ---------------------------------------------------------------- the statement *)
Lemma calls_fields_ok : forall l, calls_fields l = Ok tt <-> Forall (fun nf => check_calls true (snd nf) = Ok tt) l.
Proof.
  induction l as [|[n f] l IH]; cbn [calls_fields].
  - split; [constructor | reflexivity].
  - split.
    + intros H. inv_bind H as u Hu H. destruct u. constructor; [exact Hu | apply IH; exact H].
    + intros H. inversion H as [|? ? Hf Hl]; subst. cbn [snd] in Hf. rewrite Hf. cbn [bind]. apply IH. exact Hl.
Qed.

Lemma check_order_ok : forall names order,
  check_order names order = Ok tt <->
  Forall (fun it => exists f, get_named names (snd it) = Some f /\ is_scalar_ty (rtype f) = true) order.
Proof.
  intros names. induction order as [|it l IH]; cbn [check_order].
  - split; [constructor | reflexivity].
  - unfold find_order_field. split.
    + intros H. inv_bind H as u Hu H. constructor; [|apply IH; exact H].
      destruct (get_named names (snd it)) as [f|]; [|discriminate Hu].
      destruct (is_scalar_ty (rtype f)) eqn:Es; [eauto | discriminate Hu].
    + intros H. inversion H as [|? ? [f [Hg Hs]] Hl]; subst. rewrite Hg, Hs. cbn [bind]. apply IH. exact Hl.
Qed.

(* what the checker establishes for every field of a plain SELECT *)
Definition field_typed (fields : list (string * expr)) (nf : string * expr) : Prop :=
  infer fo (env_of fields) all_allowed (snd nf) = Some (sty_of (rtype (snd nf))) /\
  calls_placed true (snd nf) = true.

Lemma env_equal : forall fields, fields_plain fields ->
  Forall (field_typed fields) fields ->
  forall s, select_env fo fields s = env_of fields s.
Proof.
  intros fields Hp Ht s. unfold select_env, env_of. rewrite field_named_get.
  destruct (get_named fields s) as [d|] eqn:Hg; [|reflexivity].
  destruct (get_named_in _ _ _ Hg) as [n Hin].
  unfold fields_plain in Hp. rewrite Forall_forall in Hp, Ht. specialize (Hp _ Hin). specialize (Ht _ Hin). cbn [snd] in Hp, Ht.
  destruct Ht as [Hi _].
  rewrite (infer_agree all_allowed no_env (env_of fields) d) by (intros s0 Hs0; rewrite Hp in Hs0; contradiction).
  cbn [snd] in Hi. rewrite Hi. reflexivity.
Qed.

Theorem select_sound : forall fields w order s2,
  build_check fo true (SSelect fields w order) = Ok s2 ->
  fields_plain fields -> stmt_no_refs (SSelect fields w order) = true ->
  stmt_params_static s2 = true ->
  select_typed fo fields w order = true.
Proof.
  intros fields w order s2 H Hp Hnr Hps.
  unfold build_check in H. inv_bind H as s1 Hs1 H. inv_bind H as u Hc H. inversion H; subst s2. clear H. destruct u.
  cbn [check_stmt] in Hs1. unfold check_select in Hs1.
  inv_bind Hs1 as u Hord Hs1. destruct u. inv_bind Hs1 as w1 Hw1 Hs1. inv_bind Hs1 as u Hb Hs1. destruct u.
  inv_bind Hs1 as f2 Hf2 Hs1. inversion Hs1; subst s1. clear Hs1.
  destruct (validate_fields_plain _ _ _ (Forall_nil _) Hp Hf2) as [Hf2e Hfok]. cbn [app] in Hf2e, Hfok. subst f2.
  cbn [check_stmt_calls] in Hc. inv_bind Hc as u Hcw Hcf. destruct u. apply calls_fields_ok in Hcf.
  cbn [stmt_params_static] in Hps. apply andb_true_iff in Hps. destruct Hps as [Hpsf Hpsw].
  cbn [stmt_no_refs] in Hnr. apply andb_true_iff in Hnr. destruct Hnr as [Hnrf Hnrw].
  apply where_bool_ok in Hb. apply check_order_ok in Hord.
  (* every field is typed *)
  assert (Hft : Forall (field_typed fields) fields).
  { unfold fields_plain in Hp. rewrite Forall_forall in *. intros nf Hin. destruct (Hfok _ Hin) as [Hck _].
    rewrite forallb_forall in Hpsf, Hnrf.
    pose proof (sound_expr fo (Cctx fields false false) (snd nf) (Hnrf _ Hin) (snd nf) true Hck) as Hs.
    cbn [c_names] in Hs. rewrite (rw_plain _ _ (Hp _ Hin)) in Hs.
    exact (Hs (Hcf _ Hin) (Hpsf _ Hin)). }
  pose proof (env_equal fields Hp Hft) as Henv.
  (* the WHERE clause *)
  pose proof (sound_expr fo (Cctx fields false false) w Hnrw w1 false Hw1 Hcw Hpsw) as [Hiw Hpw].
  cbn [c_names] in Hiw. rewrite Hb in Hiw.
  unfold select_typed. repeat (apply andb_true_iff; split).
  - apply forallb_forall. intros it Hin. rewrite Forall_forall in Hord.
    destruct (Hord _ Hin) as [f [Hg Hs]]. rewrite Henv. unfold env_of. rewrite Hg, scalar_sty_of. exact Hs.
  - unfold is_type. rewrite (infer_agree all_allowed _ (env_of fields) w) by (intros; apply Henv).
    change all_allowed with (mode_of (Cctx fields false false)). rewrite Hiw. reflexivity.
  - exact Hpw.
  - apply forallb_forall. intros nf Hin. rewrite Forall_forall in Hft. destruct (Hft _ Hin) as [Hi Hpl].
    unfold any_type. rewrite (infer_agree all_allowed _ (env_of fields) (snd nf)) by (intros; apply Henv).
    rewrite Hi, Hpl. reflexivity.
Qed.

Theorem select_complete : forall fields w order,
  select_typed fo fields w order = true ->
  fields_plain fields -> stmt_no_same_field (SSelect fields w order) = true ->
  exists s2, build_check fo true (SSelect fields w order) = Ok s2.
Proof.
  intros fields w order H Hp Hsf.
  unfold select_typed in H. apply andb_true_iff in H. destruct H as [H Hfl].
  apply andb_true_iff in H. destruct H as [H Hpw]. apply andb_true_iff in H. destruct H as [Hord Htw].
  cbn [stmt_no_same_field] in Hsf. apply andb_true_iff in Hsf. destruct Hsf as [Hsff Hsfw].
  rewrite forallb_forall in Hfl, Hsff.
  (* every field is accepted unchanged and typed *)
  assert (Hfields : forall nf, In nf fields ->
            field_ok fields nf /\ check_calls true (snd nf) = Ok tt /\ field_typed fields nf).
  { intros nf Hin. specialize (Hfl _ Hin). apply andb_true_iff in Hfl. destruct Hfl as [Hany Hpl].
    unfold any_type in Hany.
    destruct (infer fo (select_env fo fields) all_allowed (snd nf)) as [t|] eqn:Hi; [|discriminate].
    pose proof Hp as Hp'. unfold fields_plain in Hp'. rewrite Forall_forall in Hp'. pose proof (Hp' _ Hin) as Hpn.
    rewrite (infer_agree all_allowed _ (env_of fields) (snd nf)) in Hi
      by (intros s0 Hs0; rewrite Hpn in Hs0; contradiction).
    destruct (complete_expr fo (Cctx fields false false) (snd nf) t true Hi Hpl (Hsff _ Hin))
      as [d1 [Hd1 [Hcd [Htd _]]]].
    pose proof (check_plain_id _ _ Hpn _ Hd1) as Hid. subst d1.
    cbn [c_names] in Hcd, Htd. rewrite (rw_plain _ _ Hpn) in Hcd, Htd.
    repeat split; try assumption.
    - exact (placed_true_aggr_field _ Hpl).
    - rewrite Hi, Htd. reflexivity. }
  assert (Hft : Forall (field_typed fields) fields)
    by (apply Forall_forall; intros nf Hin; apply (Hfields nf Hin)).
  pose proof (env_equal fields Hp Hft) as Henv.
  (* WHERE *)
  unfold is_type in Htw.
  destruct (infer fo (select_env fo fields) all_allowed w) as [tw|] eqn:Hiw; [|discriminate].
  apply sty_eqb_eq in Htw. subst tw.
  rewrite (infer_agree all_allowed _ (env_of fields) w) in Hiw by (intros; apply Henv).
  destruct (complete_expr fo (Cctx fields false false) w SBool false Hiw Hpw Hsfw) as [w1 [Hw1 [Hcw [Htw _]]]].
  cbn [c_names] in Hcw, Htw. change SBool with (sty_of TBool) in Htw. apply sty_of_inj in Htw.
  (* ORDER BY *)
  assert (Ho : check_order fields order = Ok tt).
  { apply check_order_ok. apply Forall_forall. intros it Hin. rewrite forallb_forall in Hord.
    specialize (Hord _ Hin). rewrite Henv in Hord. unfold env_of in Hord.
    destruct (get_named fields (snd it)) as [f|]; [|discriminate].
    exists f. split; [reflexivity|]. rewrite <- scalar_sty_of. exact Hord. }
  exists (SSelect fields (rewrite_name fields w1) order).
  unfold build_check. cbn [check_stmt]. unfold check_select. rewrite Ho. cbn [bind]. rewrite Hw1. cbn [bind].
  replace (where_bool (rewrite_name fields w1)) with (@Ok unit tt) by (symmetry; apply where_bool_ok; exact Htw).
  cbn [bind].
  rewrite (validate_fields_intro fields [] (Forall_nil _))
    by (first [assumption | apply Forall_forall; intros nf Hin; apply (Hfields nf Hin)]).
  cbn [bind app check_stmt_calls]. rewrite Hcw. cbn [bind].
  replace (calls_fields fields) with (@Ok unit tt); [reflexivity|].
  symmetry. apply calls_fields_ok. apply Forall_forall. intros nf Hin. apply (Hfields nf Hin).
Qed.

(* ---------------------------------------------------------------- all statement forms *)
Definition stmt_fields_plain (s : stmt) : Prop :=
  match s with SSelect f _ _ => fields_plain f | _ => True end.

Theorem build_check_sound : forall s s2,
  build_check fo true s = Ok s2 -> stmt_no_refs s = true -> stmt_params_static s2 = true ->
  stmt_fields_plain s -> stmt_typed fo s = true.
Proof.
  intros s s2 H Hn Hps Hp. destruct s; cbn [stmt_typed].
  - exact (select_sound _ _ _ _ H Hp Hn Hps).
  - exact (put_sound fo _ _ H Hn Hps).
  - exact (remove_sound fo _ _ H Hn Hps).
  - exact (delete_sound fo _ _ H Hn Hps).
Qed.

Theorem build_check_complete : forall s,
  stmt_typed fo s = true -> stmt_no_same_field s = true -> stmt_fields_plain s ->
  exists s2, build_check fo true s = Ok s2.
Proof.
  intros s H Hs Hp. destruct s; cbn [stmt_typed] in H.
  - exact (select_complete _ _ _ H Hp Hs).
  - exact (put_complete fo _ H Hs).
  - exact (remove_complete fo _ H Hs).
  - exact (delete_complete fo _ H Hs).
Qed.

(* ---------------------------------------------------------------- completeness without the
   side premise: typing itself excludes same-keyword comparisons *)
Theorem complete_expr_typed : forall ctx e t a,
  infer fo (env_of (c_names ctx)) (mode_of ctx) e = Some t -> calls_placed a e = true ->
  exists e1, check ctx e = Ok e1 /\
             check_calls a (rewrite_name (c_names ctx) e1) = Ok tt /\
             sty_of (rtype (rewrite_name (c_names ctx) e1)) = t /\
             params_static (rewrite_name (c_names ctx) e1) = true.
Proof.
  intros ctx e t a Hi Hp.
  exact (complete_expr fo ctx e t a Hi Hp (infer_no_same_field _ _ e t Hi)).
Qed.

Lemma is_type_nsf : forall E m e t, is_type fo E m e t = true -> no_same_field e = true.
Proof.
  intros E m e t H. unfold is_type in H. destruct (infer fo E m e) as [t'|] eqn:Hi; [|discriminate].
  exact (infer_no_same_field _ _ e t' Hi).
Qed.
Lemma any_type_nsf : forall E m e, any_type fo E m e = true -> no_same_field e = true.
Proof.
  intros E m e H. unfold any_type in H. destruct (infer fo E m e) as [t'|] eqn:Hi; [|discriminate].
  exact (infer_no_same_field _ _ e t' Hi).
Qed.
Lemma is_strnum_nsf : forall E m e, is_strnum fo E m e = true -> no_same_field e = true.
Proof.
  intros E m e H. unfold is_strnum in H. destruct (infer fo E m e) as [t'|] eqn:Hi; [|discriminate].
  exact (infer_no_same_field _ _ e t' Hi).
Qed.

Lemma stmt_typed_nsf : forall s, stmt_typed fo s = true -> stmt_no_same_field s = true.
Proof.
  intros s H. destruct s; cbn [stmt_typed stmt_no_same_field] in *.
  - unfold select_typed in H. apply andb_true_iff in H. destruct H as [H Hf].
    apply andb_true_iff in H. destruct H as [H _]. apply andb_true_iff in H. destruct H as [_ Hw].
    apply andb_true_iff. split; [|exact (is_type_nsf _ _ _ _ Hw)].
    apply forallb_forall. intros nf Hin. rewrite forallb_forall in Hf. specialize (Hf _ Hin).
    apply andb_true_iff in Hf. exact (any_type_nsf _ _ _ (proj1 Hf)).
  - unfold put_typed in H. apply forallb_forall. intros kv Hin. rewrite forallb_forall in H.
    specialize (H _ Hin). apply andb_true_iff in H. destruct H as [H _].
    apply andb_true_iff in H. destruct H as [H Hv]. apply andb_true_iff in H. destruct H as [Hk _].
    rewrite (is_strnum_nsf _ _ _ Hk), (is_strnum_nsf _ _ _ Hv). reflexivity.
  - unfold remove_typed in H. apply forallb_forall. intros k Hin. rewrite forallb_forall in H.
    specialize (H _ Hin). apply andb_true_iff in H. exact (is_strnum_nsf _ _ _ (proj1 H)).
  - unfold delete_typed in H. apply andb_true_iff in H. exact (is_type_nsf _ _ _ _ (proj1 H)).
Qed.

Theorem build_check_complete_typed : forall s,
  stmt_typed fo s = true -> stmt_fields_plain s -> exists s2, build_check fo true s = Ok s2.
Proof. intros s H Hp. exact (build_check_complete s H (stmt_typed_nsf s H) Hp). Qed.

End Sel.
