(* Proofs/SelectStarProofs.v -- `select * where P` end to end (C01): region inference (C02),
   the scan plans' cursor logic (ScanSem), the evaluator twin (Eval) and the reference
   semantics (Sem) composed. *)
From Coq Require Import List String Bool Arith Lia.
Import ListNotations.
From KV Require Import Base.Bytes Model.Ast Model.Value Model.Eval Model.FilterOpt
                       Model.Storage Model.ScanIO Model.ScanSem Model.Limit
                       Spec.Sem Spec.KeySem Proofs.SemProofs Proofs.FilterOptProofs
                       Proofs.LinkProofs Proofs.LimitProofs Proofs.StorageProofs Proofs.ScanSemProofs.

Section SelectStar.
Variable fo : fops.
Variable re_match : bytes -> bytes -> Value.res bool.
Variable re_spec : bytes -> bytes -> option bool.
Hypothesis re_agree : forall p t b, re_spec p t = Some b -> re_match p t = Value.Ok b.

(* FilterExec.Filter as the scans use it: a pair passes iff the WHERE clause evaluates to true *)
Definition flt_of (e : expr) (kv : kvp) : bool :=
  match filter_row fo re_match (fst kv) (snd kv) e with Value.Ok true => true | _ => false end.

(* P is evaluable on a pair: the reference semantics gives it a truth value *)
Definition evaluable (e : expr) (kv : kvp) : Prop :=
  exists b, sem fo re_spec (fst kv) (snd kv) e = Some (SBool b).

Lemma flt_of_selects e kv : evaluable e kv -> flt_of e kv = selects fo re_spec e kv.
Proof.
  intros [b Hb]. unfold flt_of, selects.
  rewrite (filter_refines_sem fo re_match re_spec re_agree _ _ _ _ Hb), Hb. destruct b; reflexivity.
Qed.

Lemma filter_agree {A} (f g : A -> bool) (l : list A) :
  (forall x, In x l -> f x = g x) -> filter f l = filter g l.
Proof.
  induction l as [|x l IH]; intros H; [reflexivity|]. cbn.
  rewrite (H x (or_introl eq_refl)). rewrite IH; [reflexivity|]. intros y Hy. apply H. now right.
Qed.

(* the plan built for `select * where e`: the scan chosen for the inferred region *)
Definition select_plan (e : expr) : plan := PScan (scan_of_region (optimize e)).

Lemma rsel_select_plan e d :
  (forall kv, In kv d -> evaluable e kv) ->
  Rsel (flt_of e) (select_plan e) d = filter (selects fo re_spec e) d.
Proof.
  intros Hev. unfold select_plan. cbn [Rsel].
  rewrite (filter_agree (fun kv => covers (region_of (scan_of_region (optimize e))) (fst kv))
                        (fun kv => covers (optimize e) (fst kv))) by (intros; apply covers_scan_of_region).
  rewrite (filter_agree (flt_of e) (selects fo re_spec e)).
  - apply narrowed_select_exact.
  - intros kv Hin. apply flt_of_selects. apply Hev. apply filter_In in Hin. tauto.
Qed.

(* SELECT * row-at-a-time *)
Theorem select_star_exact_row_lemma e d fuel l0 :
  ssorted d -> (forall kv, In kv d -> evaluable e kv) ->
  List.length d + plan_keys (select_plan e) < fuel ->
  exists l, run_read (select_rows true (flt_of e) fuel (select_plan e)) (SState d l0 None)
            = (Storage.Ok (filter (selects fo re_spec e) d), SState d (l0 ++ l) None).
Proof.
  intros Hs Hev Hf.
  destruct (@scan_rows_row_lemma (flt_of e) fuel (select_plan e) d l0 Hs
              (keys_ok_scan_of_region (optimize e)) Hf) as (l & Hrun & _).
  exists l. rewrite Hrun. now rewrite rsel_select_plan.
Qed.

(* SELECT * in batches, every batch size >= 1 *)
Theorem select_star_exact_batch_lemma e d B fuel l0 :
  1 <= B -> ssorted d -> (forall kv, In kv d -> evaluable e kv) ->
  List.length d + plan_keys (select_plan e) < fuel ->
  exists outs l, run_read (select_batches true (flt_of e) B fuel (select_plan e)) (SState d l0 None)
                 = (Storage.Ok outs, SState d (l0 ++ l) None)
                 /\ List.concat outs = filter (selects fo re_spec e) d
                 /\ Forall (@nonempty kvp) outs.
Proof.
  intros HB Hs Hev Hf.
  destruct (@scan_rows_batch_lemma (flt_of e) B fuel (select_plan e) d l0 HB Hs
              (keys_ok_scan_of_region (optimize e)) Hf) as (outs & l & Hrun & Hc & Hne & _).
  exists outs, l. split; [exact Hrun|]. split; [|exact Hne]. now rewrite Hc, rsel_select_plan.
Qed.

End SelectStar.
