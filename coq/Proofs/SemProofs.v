(* Proofs/SemProofs.v -- the evaluator twin refines the reference semantics of the documented
   core language: whenever Spec/Sem.sem evaluates an expression on a pair, Model/Eval.eval
   returns the same value (text as bytes, numbers by kind and value, Booleans). *)
From Coq Require Import List String Ascii ZArith Bool Arith Lia.
Import ListNotations.
From KV Require Import Base.Bytes Base.Num Model.Ast Model.Value Model.Eval Spec.Sem Proofs.AstInd.
Local Open Scope string_scope.

Lemma wrap64_id z : in64 z = true -> wrap64 z = z.
Proof.
  unfold in64, min64, max64, wrap64. intros H. apply andb_true_iff in H. destruct H as [H1 H2].
  apply Z.leb_le in H1, H2. rewrite Z.mod_small by lia. lia.
Qed.

Section Refine.
Variable fo : fops.
Variable re_match : bytes -> bytes -> res bool.
Variable re_spec : bytes -> bytes -> option bool.
(* both oracles stand for regexp.Compile + Match *)
Hypothesis re_agree : forall p t b, re_spec p t = Some b -> re_match p t = Ok b.
Variables k v : bytes.

Notation value := (value fo).
Notation sval := (sval fo).
Notation sem := (sem fo re_spec k v).
Notation eval := (eval fo re_match k v).

(* same content *)
Definition rel (x : value) (s : sval) : Prop :=
  match s, x with
  | SText b, VBytes b' | SText b, VStr b' => b = b'
  | SInt z, VInt z' => z = z'
  | SFlt f, VFlt f' => f = f'
  | SBool b, VBool b' => b = b'
  | _, _ => False
  end.

Definition styp (s : sval) : ty :=
  match s with SText _ => TStr | SInt _ | SFlt _ => TNumber | SBool _ => TBool end.

Lemma rel_canon x s : rel x s ->
  canon_of fo x = match s with
                  | SText b => CText b | SInt z => CInt z
                  | SFlt f => CFlt (f_bits fo f) | SBool b => CBool b
                  end.
Proof. destruct s, x; cbn; intros H; try contradiction; subst; reflexivity. Qed.

Ltac relinv :=
  repeat match goal with
         | H : rel ?x ?s |- _ =>
             try (is_var s; destruct s); destruct x; cbn in H; try contradiction; subst
         end.

Lemma lt_refines a b x vl vr t :
  rel vl a -> rel vr b -> t = styp a -> s_lt fo a b = Some x ->
  (match t with TStr => string_compare fo vl vr CLt | _ => number_compare fo vl vr CLt end) = Ok x.
Proof.
  intros R1 R2 -> H. destruct a, b; cbn in H; try discriminate; relinv; cbn; congruence.
Qed.

Lemma le_refines a b x vl vr t :
  rel vl a -> rel vr b -> t = styp a -> s_le fo a b = Some x ->
  (match t with TStr => string_compare fo vl vr CLte | _ => number_compare fo vl vr CLte end) = Ok x.
Proof.
  intros R1 R2 -> H. destruct a, b; cbn in H; try discriminate; relinv; cbn; congruence.
Qed.

Lemma gt_refines a b x vl vr t :
  rel vl a -> rel vr b -> t = styp a -> s_lt fo b a = Some x ->
  (match t with TStr => string_compare fo vl vr CGt | _ => number_compare fo vl vr CGt end) = Ok x.
Proof.
  intros R1 R2 -> H. destruct a, b; cbn in H; try discriminate; relinv; cbn;
    rewrite ?Z.gtb_ltb; congruence.
Qed.

Lemma ge_refines a b x vl vr t :
  rel vl a -> rel vr b -> t = styp a -> s_le fo b a = Some x ->
  (match t with TStr => string_compare fo vl vr CGte | _ => number_compare fo vl vr CGte end) = Ok x.
Proof.
  intros R1 R2 -> H. destruct a, b; cbn in H; try discriminate; relinv; cbn;
    rewrite ?Z.geb_leb; congruence.
Qed.

Lemma eq_refines a b x vl vr p :
  rel vl a -> rel vr b -> s_eq fo a b = Some x -> equal_values fo vl vr p = Ok x.
Proof.
  intros R1 R2 H. destruct a, b; cbn in H; try discriminate; relinv; cbn; congruence.
Qed.

Lemma int64_some z s : int64 fo z = Some s -> s = SInt z /\ in64 z = true.
Proof. unfold int64. destruct (in64 z); intros H; [injection H as <-; auto | discriminate]. Qed.

Lemma arith_refines o a b s vl vr rp :
  rel vl a -> rel vr b -> s_arith fo o a b = Some s ->
  (o = OAdd \/ o = OSub \/ o = OMul \/ o = ODiv) ->
  exists x, math_op fo vl vr o rp = Ok x /\ rel x s /\ styp s = TNumber.
Proof.
  intros R1 R2 H Ho.
  destruct a, b; cbn in H; try discriminate; relinv;
    destruct Ho as [ -> | [ -> | [ -> | -> ] ] ]; cbn in H |- *;
    repeat match type of H with
           | (if ?c then _ else _) = Some _ => destruct c eqn:?; try discriminate
           end;
    try (apply int64_some in H; destruct H as [-> Hin];
         eexists; split; [reflexivity|]; split; [|reflexivity]; cbn;
         unfold add64, sub64, mul64, div64; now rewrite wrap64_id);
    try (injection H as <-; eexists; split; [reflexivity|]; split; reflexivity).
Qed.

Definition refines (e : expr) : Prop :=
  forall s, sem e = Some s -> exists x, eval e = Ok x /\ rel x s /\ rtype e = styp s.

Ltac use IH E :=
  let x := fresh "x" in let Hev := fresh "Hev" in let Hrel := fresh "Hrel" in let Hty := fresh "Hty" in
  first [ destruct (IH _ eq_refl) as (x & Hev & Hrel & Hty) | destruct (IH _ E) as (x & Hev & Hrel & Hty) ].

Ltac dsem H :=
  match type of H with
  | context [match sem ?e with _ => _ end] =>
      let E := fresh "E" in destruct (sem e) eqn:E; try discriminate H
  end.

Ltac fin_val := eexists; split; [reflexivity|]; split; [cbn; reflexivity | reflexivity].

(* the two operands of a binary operator *)
Lemma both_ok l r xl xr (f : value -> value -> res value) :
  eval l = Ok xl -> eval r = Ok xr ->
  (do lv <- eval l; do rv <- eval r; f lv rv) = f xl xr.
Proof. intros -> ->. reflexivity. Qed.

(* the IN loop of Spec/Sem.sem, named *)
Fixpoint in_go (semf : expr -> option sval) (a : sval) (items : list expr) : option sval :=
  match items with
  | [] => Some (SBool false)
  | it :: items' =>
      match semf it with
      | Some b =>
          match (match a with SText _ => s_eq fo a b | _ => s_num_eq fo a b end) with
          | Some true => Some (SBool true)
          | Some false => in_go semf a items'
          | None => None
          end
      | None => None
      end
  end.

Lemma in_refines (a : sval) (xl : value) (number : bool) (items : list expr) :
  rel xl a -> number = (match a with SText _ => false | _ => true end) ->
  Forall refines items ->
  forall s, in_go sem a items = Some s ->
  exists b, s = SBool b /\ in_list fo xl number items (map eval items) = Ok b.
Proof.
  intros R Hn HF. induction HF as [|it items Hit HF IH]; intros s H.
  - cbn in H. injection H as <-. exists false. split; reflexivity.
  - cbn [in_go] in H. destruct (sem it) as [b|] eqn:Eit; [|discriminate].
    destruct (Hit _ Eit) as (xb & Hev & Hrel & Hty).
    cbn [map in_list]. rewrite Hev. cbn [bind].
    assert (Hcmp : forall c, (match a with SText _ => s_eq fo a b | _ => s_num_eq fo a b end) = Some c ->
              rtype it = (if number then TNumber else TStr) /\
              (if number then number_compare fo xl xb CEq else string_compare fo xl xb CEq) = Ok c).
    { intros c Hc. subst number. destruct a, b; cbn in Hc; try discriminate; relinv; cbn in *;
        (split; [assumption|]); congruence. }
    destruct (match a with SText _ => s_eq fo a b | _ => s_num_eq fo a b end) as [[|]|] eqn:Eq;
      try discriminate.
    + injection H as <-. destruct (Hcmp true eq_refl) as [Ht Hc]. rewrite Ht.
      exists true. split; [reflexivity|]. destruct number; cbn; rewrite Hc; reflexivity.
    + destruct (IH _ H) as (bb & -> & Hin). destruct (Hcmp false eq_refl) as [Ht Hc]. rewrite Ht.
      exists bb. split; [reflexivity|]. destruct number; cbn; rewrite Hc; exact Hin.
Qed.

Lemma sem_in_unfold p (l : expr) p2 items :
  sem (EBin p OIn l (EList p2 items)) =
  match sem l with Some a => in_go sem a items | None => None end.
Proof.
  cbn [Sem.sem]. destruct (sem l) as [a|]; [|reflexivity].
  induction items as [|it items IH]; [reflexivity|].
  cbn [in_go]. destruct (sem it) as [b|]; [|reflexivity].
  destruct (match a with SText _ => s_eq fo a b | _ => s_num_eq fo a b end) as [[|]|]; auto.
Qed.

Lemma styp_text_number a : (match styp a with TStr => false | _ => true end)
                         = (match a with SText _ => false | _ => true end).
Proof. destruct a; reflexivity. Qed.

Lemma cmp_number_text (number : bool) a :
  number = (match a with SText _ => false | _ => true end) ->
  forall xl xr c,
  (if number then number_compare fo xl xr c else string_compare fo xl xr c) =
  (match styp a with TStr => string_compare fo xl xr c | _ => number_compare fo xl xr c end).
Proof. intros -> xl xr c. destruct a; reflexivity. Qed.

Lemma le_kinds x a c : s_le fo x a = Some c ->
  styp x = (if match a with SText _ => false | _ => true end then TNumber else TStr) /\
  (match x with SText _ => false | _ => true end) = (match a with SText _ => false | _ => true end).
Proof. destruct x, a; cbn; intros H; try discriminate; split; reflexivity. Qed.

Lemma le_kinds2 x a c : s_le fo x a = Some c -> styp a = styp x.
Proof. destruct x, a; cbn; intros H; try discriminate; reflexivity. Qed.

Lemma lt_kinds x y c : s_lt fo x y = Some c -> styp y = styp x.
Proof. destruct x, y; cbn; intros H; try discriminate; reflexivity. Qed.

Lemma to_string_refines x a t : rel x a -> s_str fo a = Some t -> to_string fo x = t.
Proof.
  intros R H. destruct a; relinv; cbn in *;
    repeat match goal with bb : bool |- _ => destruct bb end; cbn in *; congruence.
Qed.

Ltac dmatch :=
  repeat match goal with
         | H : context [match ?c with _ => _ end] |- _ => destruct c eqn:?; try discriminate H
         end.

Lemma to_int_refines x a z : rel x a -> s_int fo a = Some z -> to_int fo x = Ok z.
Proof.
  intros R H. destruct a; relinv; cbn in *; try discriminate; dmatch; try congruence;
    try (rewrite H; reflexivity).
Qed.

Lemma to_float_refines x a f : rel x a -> s_float fo a = Some f -> to_float fo x = Ok f.
Proof.
  intros R H. destruct a; relinv; cbn in *; try discriminate; dmatch; try congruence.
Qed.

Ltac fcase H f :=
  match type of H with
  | (if String.eqb f ?lit then _ else _) = Some _ =>
      let Ef := fresh "Ef" in
      destruct (String.eqb f lit) eqn:Ef; [apply String.eqb_eq in Ef; subst f | ]
  end.

Definition sub_refines (e : expr) : Prop :=
  match e with EList _ items => Forall refines items | _ => True end.

Theorem eval_refines_sem_strong : forall e, refines e /\ sub_refines e.
Proof.
  apply expr_ind2.
  - (* EBin *)
    intros p o l r [IHl IHl'] [IHr IHr']. split; [|exact I]. unfold refines in IHl, IHr |- *.
    intros s H.
    destruct o.
    + (* & *) cbn [Sem.sem] in H. dsem H. use IHl E. destruct s0 as [| | |[|]]; try discriminate.
      * dsem H. use IHr E0. destruct s0; try discriminate. injection H as <-. relinv.
        cbn [Eval.eval]. rewrite Hev, Hev0. fin_val.
      * injection H as <-. relinv. cbn [Eval.eval]. rewrite Hev. fin_val.
    + (* | *) cbn [Sem.sem] in H. dsem H. use IHl E. destruct s0 as [| | |[|]]; try discriminate.
      * injection H as <-. relinv. cbn [Eval.eval]. rewrite Hev. fin_val.
      * dsem H. use IHr E0. destruct s0; try discriminate. injection H as <-. relinv.
        cbn [Eval.eval]. rewrite Hev, Hev0. fin_val.
    + (* ONot as a binary operator *) cbn [Sem.sem] in H. discriminate.
    + (* = *) cbn [Sem.sem] in H. dsem H. dsem H. use IHl E. use IHr E0.
      destruct (s_eq fo s0 s1) as [b|] eqn:Eq; [|discriminate]. injection H as <-.
      cbn [Eval.eval]. rewrite (both_ok _ _ _ _ _ Hev Hev0).
      rewrite (eq_refines _ _ _ _ _ p Hrel Hrel0 Eq). fin_val.
    + (* != *) cbn [Sem.sem] in H. dsem H. dsem H. use IHl E. use IHr E0.
      destruct (s_eq fo s0 s1) as [b|] eqn:Eq; [|discriminate]. injection H as <-.
      cbn [Eval.eval]. rewrite (both_ok _ _ _ _ _ Hev Hev0).
      rewrite (eq_refines _ _ _ _ _ p Hrel Hrel0 Eq). fin_val.
    + (* ^= *) cbn [Sem.sem] in H. dsem H. destruct s0; try discriminate. dsem H.
      destruct s0; try discriminate. injection H as <-. use IHl E. use IHr E0.
      cbn [Eval.eval]. rewrite (both_ok _ _ _ _ _ Hev Hev0). relinv; fin_val.
    + (* ~= *) cbn [Sem.sem] in H. dsem H. destruct s0; try discriminate. dsem H.
      destruct s0; try discriminate. use IHl E. use IHr E0.
      destruct (re_spec b0 b) as [m|] eqn:Er; [|discriminate]. injection H as <-.
      cbn [Eval.eval]. rewrite (both_ok _ _ _ _ _ Hev Hev0).
      relinv; cbn; rewrite (re_agree _ _ _ Er); fin_val.
    + (* + *) cbn [Sem.sem] in H. dsem H. use IHl E.
      destruct s0.
      * dsem H. use IHr E0. destruct (s_str fo s0) as [t|] eqn:Es; [|discriminate]. injection H as <-.
        cbn [Eval.eval]. rewrite Hty. cbn [styp]. rewrite (both_ok _ _ _ _ _ Hev Hev0).
        assert (to_string fo x0 = t) by (destruct s0; relinv; cbn in *; repeat match goal with bb : bool |- _ => destruct bb end; cbn in *; congruence).
        subst t. relinv; (eexists; split; [reflexivity|]; split; [cbn; reflexivity|]; cbn [rtype]; rewrite Hty; reflexivity).
      * dsem H. use IHr E0.
        destruct (arith_refines OAdd _ _ _ _ _ (epos r) Hrel Hrel0 H ltac:(auto)) as (y & Hm & Hr & Ht).
        cbn [Eval.eval]. rewrite Hty. cbn [styp]. rewrite (both_ok _ _ _ _ _ Hev Hev0), Hm.
        eexists; split; [reflexivity|]; split; [assumption|]. cbn [rtype]. rewrite Hty. cbn. now rewrite Ht.
      * dsem H. use IHr E0.
        destruct (arith_refines OAdd _ _ _ _ _ (epos r) Hrel Hrel0 H ltac:(auto)) as (y & Hm & Hr & Ht).
        cbn [Eval.eval]. rewrite Hty. cbn [styp]. rewrite (both_ok _ _ _ _ _ Hev Hev0), Hm.
        eexists; split; [reflexivity|]; split; [assumption|]. cbn [rtype]. rewrite Hty. cbn. now rewrite Ht.
      * dsem H; destruct s0; cbn in H; discriminate.
    + (* - *) cbn [Sem.sem] in H. dsem H. dsem H. use IHl E. use IHr E0.
      destruct (arith_refines OSub _ _ _ _ _ (epos r) Hrel Hrel0 H ltac:(auto)) as (y & Hm & Hr & Ht).
      cbn [Eval.eval]. rewrite (both_ok _ _ _ _ _ Hev Hev0), Hm.
      eexists; split; [reflexivity|]; split; [assumption|]. cbn. now rewrite Ht.
    + (* * *) cbn [Sem.sem] in H. dsem H. dsem H. use IHl E. use IHr E0.
      destruct (arith_refines OMul _ _ _ _ _ (epos r) Hrel Hrel0 H ltac:(auto)) as (y & Hm & Hr & Ht).
      cbn [Eval.eval]. rewrite (both_ok _ _ _ _ _ Hev Hev0), Hm.
      eexists; split; [reflexivity|]; split; [assumption|]. cbn. now rewrite Ht.
    + (* / *) cbn [Sem.sem] in H. dsem H. dsem H. use IHl E. use IHr E0.
      destruct (arith_refines ODiv _ _ _ _ _ (epos r) Hrel Hrel0 H ltac:(auto 6)) as (y & Hm & Hr & Ht).
      cbn [Eval.eval]. rewrite (both_ok _ _ _ _ _ Hev Hev0), Hm.
      eexists; split; [reflexivity|]; split; [assumption|]. cbn. now rewrite Ht.
    + (* > *) cbn [Sem.sem] in H. dsem H. dsem H. use IHl E. use IHr E0.
      destruct (s_lt fo s1 s0) as [b|] eqn:Ec; [|discriminate]. injection H as <-.
      cbn [Eval.eval]. rewrite (both_ok _ _ _ _ _ Hev Hev0).
      rewrite (gt_refines _ _ _ _ _ _ Hrel Hrel0 Hty Ec). fin_val.
    + (* >= *) cbn [Sem.sem] in H. dsem H. dsem H. use IHl E. use IHr E0.
      destruct (s_le fo s1 s0) as [b|] eqn:Ec; [|discriminate]. injection H as <-.
      cbn [Eval.eval]. rewrite (both_ok _ _ _ _ _ Hev Hev0).
      rewrite (ge_refines _ _ _ _ _ _ Hrel Hrel0 Hty Ec). fin_val.
    + (* < *) cbn [Sem.sem] in H. dsem H. dsem H. use IHl E. use IHr E0.
      destruct (s_lt fo s0 s1) as [b|] eqn:Ec; [|discriminate]. injection H as <-.
      cbn [Eval.eval]. rewrite (both_ok _ _ _ _ _ Hev Hev0).
      rewrite (lt_refines _ _ _ _ _ _ Hrel Hrel0 Hty Ec). fin_val.
    + (* <= *) cbn [Sem.sem] in H. dsem H. dsem H. use IHl E. use IHr E0.
      destruct (s_le fo s0 s1) as [b|] eqn:Ec; [|discriminate]. injection H as <-.
      cbn [Eval.eval]. rewrite (both_ok _ _ _ _ _ Hev Hev0).
      rewrite (le_refines _ _ _ _ _ _ Hrel Hrel0 Hty Ec). fin_val.
    + (* in *)
      destruct r; try (cbn [Sem.sem] in H; destruct (sem l); discriminate).
      rewrite sem_in_unfold in H. dsem H. use IHl E.
      destruct (in_refines s0 x (match rtype l with TStr => false | _ => true end) l0 Hrel
                  ltac:(rewrite Hty; apply styp_text_number) IHr' _ H) as (b & -> & Hin).
      cbn [Eval.eval]. rewrite Hev. cbn [bind]. rewrite Hin. fin_val.
    + (* between *)
      destruct r; try (cbn [Sem.sem] in H; destruct (sem l); discriminate).
      destruct l0 as [|lo [|hi [|? ?]]]; try (cbn [Sem.sem] in H; destruct (sem l); discriminate).
      cbn [Sem.sem] in H. dsem H. use IHl E.
      inversion IHr' as [|? ? Hlo IHr'']; subst. inversion IHr'' as [|? ? Hhi _]; subst.
      unfold refines in Hlo, Hhi.
      destruct (sem lo) as [xs|] eqn:Elo; [|discriminate]. destruct (sem hi) as [ys|] eqn:Ehi; [|discriminate].
      destruct (Hlo _ eq_refl) as (xlo & Hevlo & Hrello & Htylo).
      destruct (Hhi _ eq_refl) as (xhi & Hevhi & Hrelhi & Htyhi).
      destruct (s_lt fo xs ys) as [[|]|] eqn:Elt; try discriminate.
      destruct (s_le fo xs s0) as [[|]|] eqn:Ele; try discriminate.
      * destruct (s_le fo s0 ys) as [c|] eqn:Ele2; [|discriminate]. injection H as <-.
        destruct (le_kinds _ _ _ Ele) as [K1 K2].
        pose proof (lt_kinds _ _ _ Elt) as K3.
        cbn [Eval.eval]. rewrite Hev. cbn [bind]. rewrite Hty, styp_text_number.
        rewrite Htylo, Htyhi, K3, K1.
        assert (T : forall b : bool, ty_eqb (if b then TNumber else TStr) (if b then TNumber else TStr) = true)
          by (intros []; reflexivity).
        rewrite T. cbn [negb]. rewrite Hevlo, Hevhi. cbn [bind].
        pose proof (le_kinds2 _ _ _ Ele) as K.
        rewrite !(cmp_number_text _ s0 eq_refl). rewrite K.
        rewrite (lt_refines _ _ _ _ _ _ Hrello Hrelhi eq_refl Elt). cbn [bind negb].
        rewrite (le_refines _ _ _ _ _ _ Hrello Hrel eq_refl Ele). cbn [bind negb].
        rewrite (le_refines _ _ _ _ _ _ Hrel Hrelhi (eq_sym K) Ele2). fin_val.
      * injection H as <-.
        destruct (le_kinds _ _ _ Ele) as [K1 K2].
        pose proof (lt_kinds _ _ _ Elt) as K3.
        cbn [Eval.eval]. rewrite Hev. cbn [bind]. rewrite Hty, styp_text_number.
        rewrite Htylo, Htyhi, K3, K1.
        assert (T : forall b : bool, ty_eqb (if b then TNumber else TStr) (if b then TNumber else TStr) = true)
          by (intros []; reflexivity).
        rewrite T. cbn [negb]. rewrite Hevlo, Hevhi. cbn [bind].
        pose proof (le_kinds2 _ _ _ Ele) as K.
        rewrite !(cmp_number_text _ s0 eq_refl). rewrite K.
        rewrite (lt_refines _ _ _ _ _ _ Hrello Hrelhi eq_refl Elt). cbn [bind negb].
        rewrite (le_refines _ _ _ _ _ _ Hrello Hrel eq_refl Ele). fin_val.
    + (* and *) cbn [Sem.sem] in H. dsem H. use IHl E. destruct s0 as [| | |[|]]; try discriminate.
      * dsem H. use IHr E0. destruct s0; try discriminate. injection H as <-. relinv.
        cbn [Eval.eval]. rewrite Hev, Hev0. fin_val.
      * injection H as <-. relinv. cbn [Eval.eval]. rewrite Hev. fin_val.
    + (* or *) cbn [Sem.sem] in H. dsem H. use IHl E. destruct s0 as [| | |[|]]; try discriminate.
      * injection H as <-. relinv. cbn [Eval.eval]. rewrite Hev. fin_val.
      * dsem H. use IHr E0. destruct s0; try discriminate. injection H as <-. relinv.
        cbn [Eval.eval]. rewrite Hev, Hev0. fin_val.
  - intros p f. split; [|exact I]. intros s H. destruct f; cbn in H; injection H as <-; fin_val.
  - intros p t. split; [|exact I]. intros s H. cbn in H; injection H as <-; fin_val.
  - (* ! *) intros p r [IHr _]. split; [|exact I]. unfold refines in IHr |- *. intros s H.
    cbn [Sem.sem] in H. dsem H. destruct s0; try discriminate.
    injection H as <-. use IHr E. relinv. cbn [Eval.eval]. rewrite Hev. fin_val.
  - (* call *) intros p n args _ IHargs. split; [|exact I]. intros s H.
    destruct n; try discriminate. cbn [Sem.sem] in H.
    destruct (ascii_lower s0) as [f|] eqn:Ef0; [|discriminate].
    destruct args as [|a [|b [|c [|? ?]]]]; try discriminate.
    + (* one argument *)
      inversion IHargs as [|? ? [Ha _] _]; subst. unfold refines in Ha. dsem H. use Ha E.
      cbn [Eval.eval call_name rtype]. rewrite Ef0.
      fcase H f.
      { destruct (s_int fo s1) as [z|] eqn:Ez; [|discriminate]. injection H as <-.
        cbn. rewrite Hev. cbn. rewrite (to_int_refines _ _ _ Hrel Ez). fin_val. }
      fcase H f.
      { destruct (s_float fo s1) as [z|] eqn:Ez; [|discriminate]. injection H as <-.
        cbn. rewrite Hev. cbn. rewrite (to_float_refines _ _ _ Hrel Ez). fin_val. }
      fcase H f.
      { destruct (s_str fo s1) as [z|] eqn:Ez; [|discriminate]. injection H as <-.
        cbn. rewrite Hev. cbn. rewrite (to_string_refines _ _ _ Hrel Ez). fin_val. }
      fcase H f.
      { injection H as <-. cbn. rewrite Hev. cbn. destruct s1; relinv; fin_val. }
      fcase H f.
      { cbn. rewrite Hev. cbn. destruct s1; relinv; cbn in H |- *;
          try (injection H as <-; fin_val);
          match goal with |- context [f_parse fo ?bb] => destruct (f_parse fo bb) eqn:Ep end;
          try discriminate; injection H as <-; fin_val. }
      fcase H f.
      { destruct (s_str fo s1) as [z|] eqn:Ez; [|discriminate].
        destruct (ascii_upper z) as [u|] eqn:Eu; [|discriminate]. injection H as <-.
        cbn. rewrite Hev. cbn. rewrite (to_string_refines _ _ _ Hrel Ez), Eu. fin_val. }
      fcase H f.
      { destruct (s_str fo s1) as [z|] eqn:Ez; [|discriminate].
        destruct (ascii_lower z) as [u|] eqn:Eu; [|discriminate]. injection H as <-.
        cbn. rewrite Hev. cbn. rewrite (to_string_refines _ _ _ Hrel Ez), Eu. fin_val. }
      fcase H f.
      { destruct (s_str fo s1) as [z|] eqn:Ez; [|discriminate]. injection H as <-.
        cbn. rewrite Hev. cbn. rewrite (to_string_refines _ _ _ Hrel Ez). fin_val. }
      discriminate.
    + (* three arguments: substr *)
      inversion IHargs as [|? ? [Ha _] IH2]; subst. inversion IH2 as [|? ? [Hb _] IH3]; subst.
      inversion IH3 as [|? ? [Hc _] _]; subst. unfold refines in Ha, Hb, Hc.
      fcase H f; [|discriminate].
      destruct (sem a) as [sa|] eqn:Ea; [|discriminate].
      destruct (sem b) as [[| st | |]|] eqn:Eb; try discriminate.
      destruct (sem c) as [[| en | |]|] eqn:Ec; try discriminate.
      destruct (s_str fo sa) as [z|] eqn:Ez; [|discriminate]. injection H as <-.
      destruct (Ha _ eq_refl) as (xa & Heva & Hrela & Htya).
      destruct (Hb _ eq_refl) as (xb & Hevb & Hrelb & Htyb).
      destruct (Hc _ eq_refl) as (xc & Hevc & Hrelc & Htyc).
      pose proof (to_string_refines _ _ _ Hrela Ez) as Hs.
      cbn [Eval.eval call_name rtype]. rewrite Ef0. cbn. rewrite Heva. cbn.
      rewrite Htyb, Htyc. cbn. rewrite Hevb, Hevc. clear Hrela.
      destruct xb; cbn in Hrelb; try contradiction. destruct xc; cbn in Hrelc; try contradiction.
      subst. cbn. fin_val.
  - intros p t. split; [|exact I]. intros s H. discriminate.
  - intros p nm d IH. split; [|exact I]. intros s H. discriminate.
  - intros p d. split; [|exact I]. intros s H. cbn [Sem.sem] in H. destruct (parse_int d) as [z|] eqn:E; [|discriminate].
    injection H as <-. cbn [Eval.eval]. unfold num_value. rewrite E. fin_val.
  - intros p d. split; [|exact I]. intros s H.
    cbn [Sem.sem] in H. destruct (f_parse fo d) as [f| |] eqn:E; try discriminate.
    injection H as <-. cbn [Eval.eval]. unfold float_value. rewrite E. fin_val.
  - intros p b. split; [|exact I]. intros s H. cbn in H. injection H as <-. fin_val.
  - intros p l IH. split; [intros s H; discriminate|]. cbn.
    eapply Forall_impl; [|exact IH]. intros a [Ha _]; exact Ha.
  - intros p l f IHl IHf. split; [|exact I]. intros s H. discriminate.
Qed.

(* whenever the reference semantics evaluates e on (k, v), the twin returns the same content *)
Theorem eval_refines_sem_lemma e s :
  sem e = Some s ->
  exists x, eval e = Ok x /\ rel x s /\ rtype e = styp s.
Proof. exact (proj1 (eval_refines_sem_strong e) s). Qed.

(* in particular for a WHERE clause: true means selected, false means not selected *)
Corollary filter_refines_sem e b :
  sem e = Some (SBool b) -> filter_row fo re_match k v e = Ok b.
Proof.
  intros H. destruct (eval_refines_sem_lemma _ _ H) as (x & Hev & Hrel & _).
  unfold filter_row. rewrite Hev. destruct x; cbn in Hrel; try contradiction. subst. reflexivity.
Qed.

End Refine.
