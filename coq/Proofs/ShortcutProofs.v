(* Proofs/ShortcutProofs.v -- when the optimizer may turn a DELETE into a RemovePlan
   (optimizer.go canOptimizeDeletePlanToRemovePlan: the scan is a MultiGetPlan and the filter
   holds no AND), the filter is true on EXACTLY the listed keys: for a filter without AND whose
   inferred region is a key list (or empty), the reference semantics of the filter on any pair
   is "the key is listed", whatever the value.  So deleting the listed keys without evaluating
   the filter deletes what the filter selects. *)
From Coq Require Import List String Bool Arith Lia.
Import ListNotations.
From KV Require Import Base.Bytes Base.Ord Model.Ast Model.FilterOpt Spec.KeySem
                       Proofs.RangeProofs Proofs.FilterOptProofs.
Open Scope string_scope.

(* ranges with two bounds are strictly ordered (BETWEEN's guard, kept by every union) *)
Definition swf (r : region) : Prop :=
  match r with
  | RRange (Some a) (Some b) => bltb a b = true
  | _ => True
  end.

Definition pointlike (r : region) : bool :=
  match r with RMget _ | REmpty => true | _ => false end.

Lemma swf_wf r : swf r -> wf r.
Proof. destruct r as [| | |[a|] [b|]|]; cbn; auto. intros H. ord. Qed.

Lemma finish_range_strict ns ne : swf (RRange ns ne) -> pointlike (finish_range ns ne) = false /\ swf (finish_range ns ne).
Proof.
  unfold finish_range. destruct ns as [a|], ne as [b|]; cbn [swf pointlike]; auto.
  intros H. destruct (String.eqb a b) eqn:E; cbn [swf pointlike]; auto. exfalso. ord.
Qed.

Lemma union_range_strict ls le rs re :
  swf (RRange ls le) -> swf (RRange rs re) ->
  pointlike (union_range ls le rs re) = false /\ swf (union_range ls le rs re).
Proof.
  intros W1 W2. unfold union_range.
  rewrite (swap_bounds_wf _ _ (swf_wf _ W1)), (swap_bounds_wf _ _ (swf_wf _ W2)).
  destruct ls as [ls|], le as [le|], rs as [rs|], re as [re|];
    cbn [same_bound is_none in_range negb andb swf] in *;
    repeat break_if; try (split; [reflexivity|assumption]); try (split; [reflexivity|exact I]);
    apply finish_range_strict; cbn [swf]; auto; fin.
Qed.

Lemma union_mget_range_strict ks rs re :
  swf (RRange rs re) -> pointlike (union_mget_range ks rs re) = false /\ swf (union_mget_range ks rs re).
Proof.
  intros W. unfold union_mget_range.
  destruct (forallb (fun k0 => in_range rs re (Some k0) false) ks); [split; [reflexivity|assumption]|].
  destruct ks as [|mk [|? ?]]; try (split; [reflexivity|exact I]).
  destruct rs as [rs|], re as [re|]; cbn [swf] in *; repeat break_if;
    try (split; [reflexivity|exact I]); (split; [reflexivity|]); cbn [swf]; fin.
Qed.

Lemma union_prefix_range_strict p rs re :
  swf (RRange rs re) -> pointlike (union_prefix_range p rs re) = false /\ swf (union_prefix_range p rs re).
Proof.
  intros W. unfold union_prefix_range. rewrite in_range_covers.
  destruct rs as [rs|], re as [re|]; cbn [swf] in *; repeat break_if;
    try (split; [reflexivity|exact I]); try (split; [reflexivity|assumption]);
    try (split; [reflexivity|]); cbn [swf];
    match goal with |- _ /\ _ => exfalso | _ => idtac end; pfin.
Qed.

Lemma mget_or_empty_point (l : list bytes) :
  pointlike (match l with [] => REmpty | x :: l' => RMget (x :: l') end) = true /\
  swf (match l with [] => REmpty | x :: l' => RMget (x :: l') end).
Proof. destruct l; split; auto; exact I. Qed.

(* a union is a key list (or empty) only if both sides are; then it is their exact union *)
Lemma or_regions_strict l r : swf l -> swf r ->
  swf (or_regions l r) /\
  (pointlike (or_regions l r) = true ->
     pointlike l = true /\ pointlike r = true /\ forall k, covers (or_regions l r) k = covers l k || covers r k).
Proof.
  intros Wl Wr.
  destruct l as [|a|p|ls le|], r as [|b|q|rs re|];
    cbn -[union_range union_prefix_range union_mget_range union_mget union_mget_prefix union_prefix covers];
    try (split; [exact I|discriminate]); try (split; [assumption|discriminate]).
  - (* EMPTY | EMPTY *) split; [exact I|]. intros _. auto.
  - (* EMPTY | MGET *) split; [exact I|]. intros _. auto.
  - (* MGET | EMPTY *) split; [exact I|]. intros _. repeat split. intros k. cbn [covers]. now rewrite orb_false_r.
  - (* MGET | MGET *) unfold union_mget. split; [apply mget_or_empty_point|]. intros _. repeat split.
    intros k. rewrite mget_or_empty, dedup_mem, mem_app. reflexivity.
  - (* MGET | PREFIX *) unfold union_mget_prefix. break_if; (split; [exact I|discriminate]).
  - (* MGET | RANGE *) destruct (union_mget_range_strict a rs re Wr) as [P S]. split; [exact S|]. rewrite P. discriminate.
  - (* PREFIX | MGET *) unfold union_mget_prefix. break_if; (split; [exact I|discriminate]).
  - (* PREFIX | PREFIX *) unfold union_prefix. repeat break_if; (split; [exact I|discriminate]).
  - (* PREFIX | RANGE *) destruct (union_prefix_range_strict p rs re Wr) as [P S]. split; [exact S|]. rewrite P. discriminate.
  - (* RANGE | MGET *) destruct (union_mget_range_strict b ls le Wl) as [P S]. split; [exact S|]. rewrite P. discriminate.
  - (* RANGE | PREFIX *) destruct (union_prefix_range_strict q ls le Wl) as [P S]. split; [exact S|]. rewrite P. discriminate.
  - (* RANGE | RANGE *) destruct (union_range_strict ls le rs re Wl Wr) as [P S]. split; [exact S|]. rewrite P. discriminate.
Qed.

Lemma bleb_empty_eqb k : bleb k "" = String.eqb k "".
Proof. destruct k; reflexivity. Qed.

Lemma bltb_empty k : bltb k "" = false.
Proof. destruct k; reflexivity. Qed.

Section Exact.
Variable opq : expr -> option bool.
Variables k v : bytes.

Ltac atom_exact :=
  intros H; repeat break_if; cbn [pointlike covers mem existsb] in *; try discriminate;
  repeat match goal with
         | E : String.eqb _ _ = true |- _ => apply String.eqb_eq in E; try subst
         end;
  rewrite ?orb_false_r, ?bleb_empty_eqb, ?bltb_empty; try reflexivity;
  try (f_equal; apply String.eqb_sym).

Lemma opt_eq_exact e l r : pointlike (opt_eq l r) = true ->
  cmp2 opq k v e l r String.eqb = Some (covers (opt_eq l r) k).
Proof.
  unfold opt_eq, cmp2. destruct l, r; atom_cbn; try discriminate; kw; atom_cbn; try discriminate; atom_exact.
Qed.

Lemma opt_gt_exact e l r : pointlike (opt_gt false l r) = true ->
  cmp2 opq k v e l r (fun a b => bltb b a) = Some (covers (opt_gt false l r) k).
Proof.
  unfold opt_gt, opt_gt_core, opt_lt_core, cmp2. destruct l, r; atom_cbn; try discriminate; kw; atom_cbn;
    try discriminate; atom_exact.
Qed.

Lemma opt_gte_exact e l r : pointlike (opt_gt true l r) = true ->
  cmp2 opq k v e l r (fun a b => bleb b a) = Some (covers (opt_gt true l r) k).
Proof.
  unfold opt_gt, opt_gt_core, opt_lt_core, cmp2. destruct l, r; atom_cbn; try discriminate; kw; atom_cbn;
    try discriminate; atom_exact.
Qed.

Lemma opt_lt_exact e l r : pointlike (opt_lt false l r) = true ->
  cmp2 opq k v e l r (fun a b => bltb a b) = Some (covers (opt_lt false l r) k).
Proof.
  unfold opt_lt, opt_gt_core, opt_lt_core, cmp2. destruct l, r; atom_cbn; try discriminate; kw; atom_cbn;
    try discriminate; atom_exact.
Qed.

Lemma opt_lte_exact e l r : pointlike (opt_lt true l r) = true ->
  cmp2 opq k v e l r (fun a b => bleb a b) = Some (covers (opt_lt true l r) k).
Proof.
  unfold opt_lt, opt_gt_core, opt_lt_core, cmp2. destruct l, r; atom_cbn; try discriminate; kw; atom_cbn;
    try discriminate; atom_exact.
Qed.

Lemma opt_prefix_not_point l r : pointlike (opt_prefix l r) = false.
Proof.
  unfold opt_prefix. destruct l; try reflexivity;
    destruct (extract _ r) as [fx [key|]]; try reflexivity; destruct (is_key fx); reflexivity.
Qed.

Lemma opt_between_strict l r : pointlike (opt_between l r) = false /\ swf (opt_between l r).
Proof.
  unfold opt_between. destruct r as [| | | | | | | | | |? items|]; try (split; [reflexivity|exact I]).
  destruct items as [|[] [|[] [|? ?]]]; try (split; [reflexivity|exact I]).
  break_if; [|split; [reflexivity|exact I]]. split; [reflexivity|]. cbn [swf].
  apply andb_true_iff in Heqb. exact (proj2 Heqb).
Qed.

Lemma opt_in_exact e l r : pointlike (opt_in l r) = true ->
  match operand k v l, r with
  | Some a, EList _ items =>
      match operands k v items with
      | Some bs => Some (existsb (String.eqb a) bs)
      | None => opq e
      end
  | _, _ => opq e
  end = Some (covers (opt_in l r) k).
Proof.
  unfold opt_in. destruct r; try discriminate.
  destruct (str_items l0) as [ks|] eqn:E; [|discriminate].
  rewrite (str_items_operands _ _ _ _ E).
  destruct l; try discriminate. kw; atom_cbn; [|discriminate].
  break_if; [|discriminate]. reflexivity.
Qed.

Lemma atoms_swf p o l r :
  match o with OAnd | OKWAnd | OOr | OKWOr => False | _ => True end ->
  swf (optimize (EBin p o l r)).
Proof.
  intros Ho. cbn [optimize]. destruct o; try exact I; try destruct Ho.
  - unfold opt_eq. destruct (extract l r) as [fx [key|]]; [destruct (is_key fx)|]; exact I.
  - unfold opt_prefix. destruct l; try exact I;
      destruct (extract _ r) as [fx [key|]]; try exact I; destruct (is_key fx); exact I.
  - unfold opt_gt, opt_lt_core, opt_gt_core. repeat break_if; try exact I;
      destruct (extract _ _) as [fx [key|]]; try exact I; repeat break_if; exact I.
  - unfold opt_gt, opt_lt_core, opt_gt_core. repeat break_if; try exact I;
      destruct (extract _ _) as [fx [key|]]; try exact I; repeat break_if; exact I.
  - unfold opt_lt, opt_lt_core, opt_gt_core. repeat break_if; try exact I;
      destruct (extract _ _) as [fx [key|]]; try exact I; repeat break_if; exact I.
  - unfold opt_lt, opt_lt_core, opt_gt_core. repeat break_if; try exact I;
      destruct (extract _ _) as [fx [key|]]; try exact I; repeat break_if; exact I.
  - unfold opt_in. destruct r; try exact I. destruct (str_items _); try exact I. break_if; exact I.
  - apply opt_between_strict.
Qed.

(* the induction over the filter *)
Lemma optimize_point_exact e : has_and e = false ->
  swf (optimize e) /\
  (pointlike (optimize e) = true -> psem opq k v e = Some (covers (optimize e) k)).
Proof.
  induction e as [p o l IHl r IHr|p f|p s|p r IH|p n IHn args|p s|p nm d IHd|p d|p d|p b|p l|p l IHl fn IHfn];
    intros Ha; try (split; [exact I|discriminate]).
  - assert (Hor : (o = OOr \/ o = OKWOr) -> has_and l = false /\ has_and r = false).
    { intros [-> | ->]; cbn [has_and] in Ha; apply orb_false_iff in Ha; exact Ha. }
    assert (Hcase : forall ol orr, swf ol -> swf orr ->
              (pointlike ol = true -> psem opq k v l = Some (covers ol k)) ->
              (pointlike orr = true -> psem opq k v r = Some (covers orr k)) ->
              swf (or_regions ol orr) /\
              (pointlike (or_regions ol orr) = true ->
               match psem opq k v l with
               | Some true => Some true
               | Some false => psem opq k v r
               | None => None
               end = Some (covers (or_regions ol orr) k))).
    { intros ol orr Wl Wr Pl Pr. destruct (or_regions_strict ol orr Wl Wr) as [S P]. split; [exact S|].
      intros Hp. destruct (P Hp) as [P1 [P2 P3]]. rewrite (Pl P1), (Pr P2), P3.
      destruct (covers ol k); reflexivity. }
    destruct o; cbn [has_and] in Ha; try discriminate Ha;
      try (split; [apply atoms_swf; exact I|]); cbn [optimize psem].
    + destruct (Hor (or_introl eq_refl)) as [Hl Hr].
      destruct (IHl Hl) as [Wl Pl]. destruct (IHr Hr) as [Wr Pr]. apply Hcase; assumption.
    + discriminate.
    + apply opt_eq_exact.
    + discriminate.
    + rewrite opt_prefix_not_point. discriminate.
    + discriminate.
    + discriminate.
    + discriminate.
    + discriminate.
    + discriminate.
    + apply opt_gt_exact.
    + apply opt_gte_exact.
    + apply opt_lt_exact.
    + apply opt_lte_exact.
    + apply opt_in_exact.
    + rewrite (proj1 (opt_between_strict l r)). discriminate.
    + destruct (Hor (or_intror eq_refl)) as [Hl Hr].
      destruct (IHl Hl) as [Wl Pl]. destruct (IHr Hr) as [Wr Pr]. apply Hcase; assumption.
  - cbn [optimize psem]. destruct b; split; try exact I; try discriminate. reflexivity.
Qed.

End Exact.

(* the premise of the RemovePlan shortcut, for the twin of the optimizer *)
Theorem optimize_mget_exact : forall (opq : expr -> option bool) (e : expr) (ks : list bytes),
  has_and e = false -> optimize e = RMget ks ->
  forall k v, psem opq k v e = Some (mem k ks).
Proof.
  intros opq e ks Ha Ho k v. destruct (optimize_point_exact opq k v e Ha) as [_ P].
  rewrite Ho in P. exact (P eq_refl).
Qed.

Theorem optimize_empty_exact : forall (opq : expr -> option bool) (e : expr),
  has_and e = false -> optimize e = REmpty ->
  forall k v, psem opq k v e = Some false.
Proof.
  intros opq e Ha Ho k v. destruct (optimize_point_exact opq k v e Ha) as [_ P].
  rewrite Ho in P. exact (P eq_refl).
Qed.
